SPECIFICATION Spec
CONSTANTS
  HFmts = {"gde", "aln"}
  MaxOps = 2
  Leaky = TRUE
INVARIANT TypeOK
INVARIANT ConfStaysDefault
PROPERTY PlainLoadIsPure
PROPERTY OptionLoadIsPure
