SPECIFICATION Spec
CONSTANTS
  N = 2
  MaxRuns = 3
  RetryFailed = FALSE
INVARIANT TypeOK
INVARIANT LogsNameWhatWasProcessed
PROPERTY AppendOnly
PROPERTY NothingLost
PROPERTY LogsAccumulate
PROPERTY RefusedChangesNothing
PROPERTY AllGivenAccounted
