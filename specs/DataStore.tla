------------------------------ MODULE DataStore ------------------------------
(* Dictionary model of a cogent3 data store (DataStoreDirectory,              *)
(* DataStoreSqlite): property C13.                                             *)
(*                                                                            *)
(* Abstract state: two partial maps id -> content (completed / not completed),*)
(* the set of log records present (their content is checked by the harness), the opening mode, and the outcome of the last call.  *)
(* md5 is not a variable: the checksum of a member IS the hash of its content;*)
(* the harness compares store.md5(member) with hash(model content).           *)
(*                                                                            *)
(* Each action is one public call.  Where the property leaves an outcome open *)
(* (append-mode completion of a not-completed id; write_not_completed over a  *)
(* completed id) the action is nondeterministic and lists the allowed         *)
(* outcomes; the implementation must realise one of them.                     *)
EXTENDS Naturals, FiniteSets, Sequences, TLC, Emit

CONSTANTS Ids,      \* record identifiers (strings; some are suffixes/prefixes of others)
          Data,     \* payloads
          LogIds,   \* log record identifiers
          Aliases   \* BOOLEAN subset: {FALSE} or {FALSE,TRUE}; TRUE = id passed with the store suffix

VARIABLES comp, nc, logs, mode, ret,
          fresh   \* implementation-shaped: the store OBJECT was just opened and no call has been made on it yet
                  \* (its lazily built member lists are unloaded); makes 'first call after re-open' a distinct state
vars == <<comp, nc, logs, mode, ret, fresh>>

None == "None"
Modes == {"r", "w", "a"}

TypeOK == /\ comp \in [Ids -> Data \cup {None}]
          /\ nc   \in [Ids -> Data \cup {None}]
          /\ logs \in [LogIds -> BOOLEAN]
          /\ mode \in Modes
          /\ ret  \in {"ok", "raised", "init"}
          /\ fresh \in BOOLEAN

St == [comp |-> comp, nc |-> nc, logs |-> logs, mode |-> mode, fresh |-> fresh]
StP == [comp |-> comp', nc |-> nc', logs |-> logs', mode |-> mode', fresh |-> fresh']

Log(act, args) == Emit([from |-> St, act |-> act, args |-> args, to |-> StP, ret |-> ret'])

Init == /\ comp = [i \in Ids |-> None]
        /\ nc   = [i \in Ids |-> None]
        /\ logs = [i \in LogIds |-> FALSE]
        /\ mode = "w"
        /\ ret  = "init"
        /\ fresh = TRUE

Refused == /\ ret' = "raised" /\ UNCHANGED <<comp, nc, logs, mode>>

(* write(unique_id=i, data=d): completes i, retiring exactly i's not-completed record *)
WriteT(i, d, al) ==
    /\ fresh' = FALSE
    /\ \/ /\ mode = "r" /\ Refused
       \/ /\ mode = "a" /\ comp[i] # None /\ Refused
       \/ /\ mode = "a" /\ comp[i] = None /\ nc[i] # None
          /\ \/ Refused                       \* an implementation may treat nc[i] as "existing"
             \/ /\ ret' = "ok"
                /\ comp' = [comp EXCEPT ![i] = d]
                /\ nc'   = [nc EXCEPT ![i] = None]
                /\ UNCHANGED <<logs, mode>>
       \/ /\ (mode = "w" \/ (mode = "a" /\ comp[i] = None /\ nc[i] = None))
          /\ ret' = "ok"
          /\ comp' = [comp EXCEPT ![i] = d]
          /\ nc'   = [nc EXCEPT ![i] = None]
          /\ UNCHANGED <<logs, mode>>
(* Append mode over an identifier that only has a NOT-COMPLETED record: the two store kinds differ, deliberately.  A   *)
(* store whose completed and not-completed records SHARE their identifier (sqlite: one row per id) refuses - the id   *)
(* exists, append never overwrites; a store that keeps them under SEPARATE member names (directory: x.suffix and      *)
(* not_completed/x.json) completes the record and retires the failure record (re-running a composed app relies on     *)
(* it).  WriteT allows both; the emitted transition says which kind of store it is a behaviour of.                    *)
WriteKind(i) == IF mode = "a" /\ comp[i] = None /\ nc[i] # None
                THEN (IF ret' = "raised" THEN "shared-identifiers" ELSE "separate-identifiers")
                ELSE "any"
Write(i, d, al) == WriteT(i, d, al) /\ Emit([from |-> St, act |-> "Write", args |-> <<i, d, al>>, to |-> StP, ret |-> ret', obs |-> WriteKind(i)])

(* write_not_completed(unique_id=i, data=d) *)
WriteNCT(i, d, al) ==
    /\ fresh' = FALSE
    /\ \/ /\ mode = "r" /\ Refused
       \/ /\ mode = "a" /\ (comp[i] # None \/ nc[i] # None) /\ Refused
       \/ /\ (mode = "w" \/ (mode = "a" /\ comp[i] = None /\ nc[i] = None))
          /\ ret' = "ok"
          /\ nc' = [nc EXCEPT ![i] = d]
          /\ \/ UNCHANGED comp                                \* both records coexist
             \/ (comp[i] # None /\ comp' = [comp EXCEPT ![i] = None])  \* the record is replaced
          /\ UNCHANGED <<logs, mode>>
WriteNC(i, d, al) == WriteNCT(i, d, al) /\ Log("WriteNC", <<i, d, al>>)

WriteLogT(l, d) ==
    /\ fresh' = FALSE
    /\ \/ /\ mode = "r" /\ Refused
       \/ /\ mode # "r"
          /\ ret' = "ok"
          /\ logs' = [logs EXCEPT ![l] = TRUE]
          /\ UNCHANGED <<comp, nc, mode>>
WriteLog(l, d) == WriteLogT(l, d) /\ Log("WriteLog", <<l, d>>)

(* drop_not_completed(unique_id=i): read-only stores must not change (raising or not) *)
DropNCT(i, al) ==
    /\ fresh' = FALSE
    /\ \/ /\ mode = "r" /\ ret' \in {"ok", "raised"} /\ UNCHANGED <<comp, nc, logs, mode>>
       \/ /\ mode # "r"
          /\ ret' = "ok"
          /\ nc' = [nc EXCEPT ![i] = None]
          /\ UNCHANGED <<comp, logs, mode>>
DropNC(i, al) == DropNCT(i, al) /\ Log("DropNC", <<i, al>>)

DropAllNCT ==
    /\ fresh' = FALSE
    /\ \/ /\ mode = "r" /\ ret' \in {"ok", "raised"} /\ UNCHANGED <<comp, nc, logs, mode>>
       \/ /\ mode # "r"
          /\ ret' = "ok"
          /\ nc' = [i \in Ids |-> None]
          /\ UNCHANGED <<comp, logs, mode>>
DropAllNC == DropAllNCT /\ Log("DropAllNC", <<>>)

(* close() followed by opening the same source in mode m: nothing is lost *)
ReopenT(m) ==
    /\ fresh' = TRUE
    /\ mode' = m
    /\ ret' = "ok"
    /\ UNCHANGED <<comp, nc, logs>>
Reopen(m) == ReopenT(m) /\ Log("Reopen", <<m>>)

Next == \/ \E i \in Ids, d \in Data, al \in Aliases : Write(i, d, al) \/ WriteNC(i, d, al)
        \/ \E l \in LogIds, d \in Data : WriteLog(l, d)
        \/ \E i \in Ids, al \in Aliases : DropNC(i, al)
        \/ DropAllNC
        \/ \E m \in Modes : Reopen(m)

Spec == Init /\ [][Next]_vars

------------------------------------------------------------------------------
(* Design-level properties checked by TLC on the model itself.                *)

(* An operation naming identifier i never changes a record j # i. *)
Isolation ==
    [][\A i \in Ids :
         (\E d \in Data, al \in Aliases : WriteT(i, d, al) \/ WriteNCT(i, d, al))
         \/ (\E al \in Aliases : DropNCT(i, al))
         => \A j \in Ids \ {i} : comp'[j] = comp[j] /\ nc'[j] = nc[j]]_vars

(* Append mode never overwrites a completed or not-completed record's content. *)
AppendNeverOverwrites ==
    [][mode = "a" /\ mode' = "a" =>
         \A i \in Ids : /\ comp[i] # None => comp'[i] = comp[i]
                        /\ nc[i] # None => nc'[i] \in {nc[i], None}]_vars

(* Read-only mode never mutates. *)
ReadOnlyNeverMutates ==
    [][mode = "r" /\ mode' = "r" => comp' = comp /\ nc' = nc /\ logs' = logs]_vars

(* A refused call changes nothing. *)
RefusedChangesNothing ==
    [][ret' = "raised" => comp' = comp /\ nc' = nc /\ logs' = logs]_vars

(* Completing i retires i's not-completed record and only that one. *)
WriteRetiresExactlyMatching ==
    [][\A i \in Ids : (comp'[i] # comp[i] /\ comp'[i] # None) => nc'[i] = None]_vars
(* Derived views are FUNCTIONS OF THE ABSTRACT STATE (the harness compares the real `describe` and `validate`      *)
(* tables with these after every transition): describe = the three cardinalities; validate = every member has a   *)
(* correct checksum, none incorrect, none missing; "Has log" iff a log record exists.                               *)
Held(f) == {i \in DOMAIN f : f[i] # None}
Describe == [completed |-> Cardinality(Held(comp)), not_completed |-> Cardinality(Held(nc)),
             logs |-> Cardinality({l \in DOMAIN logs : logs[l]})]
Validate == [correct |-> Cardinality(Held(comp)) + Cardinality(Held(nc)), incorrect |-> 0, missing |-> 0,
             haslog |-> \E l \in DOMAIN logs : logs[l]]
=============================================================================
