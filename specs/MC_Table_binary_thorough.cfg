SPECIFICATION Spec
CONSTANTS
  Profile = "thorough"
  Group = "binary"
INVARIANT ResultShape
INVARIANT JoinLaw
