------------------------------ MODULE FeatureMap ------------------------------
(* Property C08, second half: FeatureMap operations have their set-theoretic  *)
(* meaning and never produce coordinates outside the parent.                  *)
(*                                                                            *)
(* A feature map is a list of spans on a parent of length plen.  A span is    *)
(*     <<s, e, r>>   0 <= s < e <= plen, r = 1 for a reversed span            *)
(*     <<-1, n, 0>>  a lost span of n positions                               *)
(* What a map DENOTES is its entry sequence: position by position the parent  *)
(* index it reads (or Lost = -1); spans are a run-length encoding of that.    *)
(* All oracles are stated on the entry sequence, results are compared by      *)
(* entry sequence and parent length (never by how the spans are cut).         *)
(*                                                                            *)
(* State: m = the input map, out = the result of the one operation applied    *)
(* (depth-1 graph: every map of the bounded family is an initial state, each  *)
(* operation leads to a state holding its result, InParent is an invariant of *)
(* every result state).                                                       *)
EXTENDS Integers, Sequences, FiniteSets, SequencesExt, TLC, Emit

CONSTANTS MaxP,         \* parent lengths 0..MaxP
          MaxSpans,     \* maps of 0..MaxSpans spans
          MaxLost,      \* lost spans of 1..MaxLost positions
          MaxArgSpans,  \* composition m[n]: n has 1..MaxArgSpans spans
          MaxArgLen,    \* composition only for maps of length <= MaxArgLen
          MaxSliceLen,  \* m[a:b] only for maps of length <= MaxSliceLen
          MaxAddSpans,  \* m + n only for maps of at most this many spans (n has 0..1 spans)
          Scales

VARIABLES m, out
vars == <<m, out>>

Lost == 0 - 1
None == [kind |-> "none"]
Raised == [kind |-> "raised"]

IsLost(x) == x[1] = Lost
SpanSet(P) == {x \in (0..P) \X (0..P) \X {0, 1} : x[1] < x[2]}
                \cup {<<Lost, n, 0>> : n \in 1..MaxLost}
SpanLists(P, k) == UNION {[1..j -> SpanSet(P)] : j \in 0..k}

---------------------------------------------------------------------------
(* Denotation                                                               *)

SpanLen(x) == IF IsLost(x) THEN x[2] ELSE x[2] - x[1]
SpanEnts(x) == IF IsLost(x) THEN [i \in 1..x[2] |-> Lost]
               ELSE IF x[3] = 1 THEN [i \in 1..(x[2] - x[1]) |-> x[2] - i]
               ELSE [i \in 1..(x[2] - x[1]) |-> x[1] + i - 1]
RECURSIVE Ents(_)
Ents(sp) == IF sp = <<>> THEN <<>> ELSE SpanEnts(Head(sp)) \o Ents(Tail(sp))

Asc(S) == SetToSortSeq(S, <)
CoveredSet(E) == {E[i] : i \in 1..Len(E)} \ {Lost}
Injective(E) == \A i, j \in 1..Len(E) : (E[i] # Lost /\ E[i] = E[j]) => i = j
Val(E, P) == [kind |-> "val", ents |-> E, plen |-> P]

RevSeq(E) == [i \in 1..Len(E) |-> E[Len(E) + 1 - i]]
Forward(sp) == [k \in 1..Len(sp) |-> IF IsLost(sp[k]) THEN sp[k] ELSE <<sp[k][1], sp[k][2], 0>>]

(* Python slice normalisation against length n (negative = from the end, clipped) *)
Clip(i, n) == LET j == IF i < 0 THEN i + n ELSE i
              IN IF j < 0 THEN 0 ELSE IF j > n THEN n ELSE j

---------------------------------------------------------------------------
(* Oracles: the set-theoretic meaning of each operation                     *)

(* covered(): the union of the positions read, ascending, on the same parent *)
CoveredV(E, P) == Val(Asc(CoveredSet(E)), P)

(* shadow(): the complement of covered() in the parent *)
ShadowV(E, P) == Val(Asc((0..(P - 1)) \ CoveredSet(E)), P)

(* inverse(): the converse partial function parent position -> map position;  *)
(* defined (the code raises otherwise) only when no position is read twice    *)
InverseV(E, P) ==
    Val([p \in 1..P |-> IF \E i \in 1..Len(E) : E[i] = p - 1
                        THEN (CHOOSE i \in 1..Len(E) : E[i] = p - 1) - 1
                        ELSE Lost],
        Len(E))

(* nucleic_reversed(): the map on the reverse-complemented parent; the        *)
(* documentation says the reverse attribute of spans is discarded first       *)
NucRevV(sp, P) ==
    LET E == Ents(Forward(sp))
    IN Val(RevSeq([i \in 1..Len(E) |-> IF E[i] = Lost THEN Lost ELSE P - 1 - E[i]]), P)

(* m[n]: n is a map on m's own coordinates; the result reads through both *)
ComposeV(E, P, N) ==
    Val([i \in 1..Len(N) |-> IF N[i] = Lost THEN Lost ELSE E[N[i] + 1]], P)

SliceV(E, P, a, b) ==
    LET x == Clip(a, Len(E))
        y == Clip(b, Len(E))
    IN Val(IF x >= y THEN <<>> ELSE SubSeq(E, x + 1, y), P)

(* gaps() / nongap(): where, in the map's own coordinates, it is lost / not lost *)
GapsV(E)   == Val(Asc({i - 1 : i \in {j \in 1..Len(E) : E[j] = Lost}}), Len(E))
NongapV(E) == Val(Asc({i - 1 : i \in {j \in 1..Len(E) : E[j] # Lost}}), Len(E))

WithoutGapsV(E, P) == Val(SelectSeq(E, LAMBDA x : x # Lost), P)

MinOf(S) == CHOOSE x \in S : \A y \in S : x <= y
MaxOf(S) == CHOOSE x \in S : \A y \in S : x >= y

(* zeroed(): coordinates relative to the smallest position read; the parent   *)
(* becomes the covering span                                                  *)
ZeroedV(E, P) ==
    LET C == CoveredSet(E)
    IN IF C = {} THEN Val(E, 0)
       ELSE Val([i \in 1..Len(E) |-> IF E[i] = Lost THEN Lost ELSE E[i] - MinOf(C)], MaxOf(C) + 1 - MinOf(C))

(* get_covering_span(): one span from the smallest to the largest position read *)
CoveringV(E, P) ==
    LET C == CoveredSet(E)
    IN IF C = {} THEN Val(<<>>, P) ELSE Val(Asc(MinOf(C)..MaxOf(C)), P)

AddV(E, P, F) == Val(E \o F, P)

ScaleSpans(sp, k) == [j \in 1..Len(sp) |-> IF IsLost(sp[j]) THEN <<Lost, sp[j][2] * k, 0>>
                                           ELSE <<sp[j][1] * k, sp[j][2] * k, sp[j][3]>>]
ScaleV(sp, P, k) == Val(Ents(ScaleSpans(sp, k)), P * k)

---------------------------------------------------------------------------
E0 == Ents(m.spans)
P0 == m.plen

Log(act, args) == Emit([from |-> m, act |-> act, args |-> args, to |-> out'])

Op(act, args, res) == /\ out = None
                      /\ m' = m
                      /\ out' = res
                      /\ Log(act, args)

(* the map itself: what a constructor / a serialisation round trip must preserve *)
DoDenote      == Op("Denote", <<>>, Val(E0, P0))
(* Constructors.  The spans (or locations) may be handed over in any container the signature   *)
(* accepts: a list, a tuple, a generator, iter(list), the `.spans` generator property of another *)
(* map passed straight through (to the constructor or to from_spans), a list / numpy array of    *)
(* locations.  The constructed map is the same for all of them.                                  *)
SpanContainers == {"list", "tuple", "generator", "iter", "map_spans", "from_spans_list", "from_spans_map_spans"}
LocationContainers == {"locations_list", "locations_tuple", "locations_array"}
(* from_locations takes forward, ordered locations only *)
Locatable(sp) == /\ \A k \in 1..Len(sp) : ~IsLost(sp[k]) /\ sp[k][3] = 0
                 /\ (IF Len(sp) = 0 THEN TRUE ELSE sp[1][1] <= sp[Len(sp)][2])
DoBuild(c)    == /\ (c \in LocationContainers => Locatable(m.spans))
                 /\ Op("Build", <<c>>, Val(E0, P0))
(* the caller keeps the container it handed over and later writes into it in place (clears the  *)
(* list, overwrites the array): a stuttering step for the map that was built from it            *)
DoCallerWrites(c) == /\ c \in {"list", "from_spans_list", "locations_list", "locations_array"}
                     /\ (c \in LocationContainers => Locatable(m.spans))
                     /\ Op("CallerWritesArgument", <<c>>, Val(E0, P0))
(* get_coordinates(): (start, end) of every span that is not lost, in span order *)
CoordsOf(sp)  == LET keep == SelectSeq(sp, LAMBDA x : ~IsLost(x))
                 IN [k \in 1..Len(keep) |-> <<keep[k][1], keep[k][2]>>]
DoCoords      == Op("Coords", <<>>, [kind |-> "coords", cs |-> CoordsOf(m.spans)])
DoCovered     == Op("Covered", <<>>, CoveredV(E0, P0))
DoInverse     == Op("Inverse", <<>>, IF Injective(E0) THEN InverseV(E0, P0) ELSE Raised)
(* shadow() is inverse().gaps() in the code, so it raises for a map that reads *)
(* a position twice; the statement leaves that case open: either outcome       *)
DoShadow      == \/ Op("Shadow", <<>>, ShadowV(E0, P0))
               \/ (~Injective(E0) /\ Op("Shadow", <<>>, Raised))
DoNucRev      == Op("NucRev", <<>>, NucRevV(m.spans, P0))
DoGaps        == Op("Gaps", <<>>, GapsV(E0))
DoNongap      == Op("Nongap", <<>>, NongapV(E0))
DoWithoutGaps == Op("WithoutGaps", <<>>, WithoutGapsV(E0, P0))
DoZeroed      == Op("Zeroed", <<>>, ZeroedV(E0, P0))
DoCovering    == Op("Covering", <<>>, CoveringV(E0, P0))
DoScale(k)    == Op("Scale", <<k>>, ScaleV(m.spans, P0, k))
DoAdd(sp)     == /\ Len(m.spans) <= MaxAddSpans
               /\ Op("Add", <<sp>>, AddV(E0, P0, Ents(sp)))
DoCompose(sp) == /\ m.spans # <<>>
               /\ Len(E0) <= MaxArgLen
               /\ Op("Compose", <<sp>>, ComposeV(E0, P0, Ents(sp)))
DoSlice(a, b) == /\ m.spans # <<>>
               /\ Len(E0) <= MaxSliceLen
               /\ Op("Slice", <<a, b>>, SliceV(E0, P0, a, b))
DoIndex(i)    == /\ m.spans # <<>>
               /\ Len(E0) <= MaxSliceLen
               /\ Op("Index", <<i>>, SliceV(E0, P0, i, i + 1))

ArgLists == [n \in 0..MaxArgLen |-> UNION {[1..j -> SpanSet(n)] : j \in 1..MaxArgSpans}]
AddLists == [P \in 0..MaxP |-> SpanLists(P, 1)]

Init == /\ \E P \in 0..MaxP : \E sp \in SpanLists(P, MaxSpans) : m = [spans |-> sp, plen |-> P]
        /\ out = None

Next == /\ out = None      \* result states have no successors
        /\ \/ DoDenote \/ DoCoords
           \/ \E c \in SpanContainers \cup LocationContainers : DoBuild(c) \/ DoCallerWrites(c)
           \/ DoCovered \/ DoInverse \/ DoShadow \/ DoNucRev \/ DoGaps \/ DoNongap
           \/ DoWithoutGaps \/ DoZeroed \/ DoCovering
           \/ \E k \in Scales : DoScale(k)
           \/ \E sp \in AddLists[P0] : DoAdd(sp)
           \/ \E sp \in ArgLists[IF Len(E0) <= MaxArgLen THEN Len(E0) ELSE 0] : DoCompose(sp)
           \/ \E a, b \in (0 - Len(E0) - 1)..(Len(E0) + 1) : DoSlice(a, b)
           \/ \E i \in 0..(Len(E0) - 1) : DoIndex(i)

Spec == Init /\ [][Next]_vars

---------------------------------------------------------------------------
(* Design-level properties checked by TLC on the model                      *)

TypeOK == /\ m.plen \in 0..MaxP
          /\ out = None => m.spans \in SpanLists(m.plen, MaxSpans)   \* m never changes
          /\ out.kind \in {"none", "raised", "val", "coords"}
          /\ out.kind = "val" => out.plen \in Nat

(* every operation is a query: the map it is called on is left as it was *)
ReceiverPreserved == [][m' = m]_vars

(* no operation yields coordinates outside the parent *)
InParent == out.kind = "val" =>
               \A i \in 1..Len(out.ents) : out.ents[i] = Lost \/ out.ents[i] \in 0..(out.plen - 1)

(* covered and shadow partition the parent *)
CoverShadowPartition == out = None =>
    LET C == CoveredV(E0, P0).ents
        S == ShadowV(E0, P0).ents
    IN /\ {C[i] : i \in 1..Len(C)} \cup {S[i] : i \in 1..Len(S)} = 0..(P0 - 1)
       /\ {C[i] : i \in 1..Len(C)} \cap {S[i] : i \in 1..Len(S)} = {}

(* the converse of the converse is the map; inverse and covered/shadow agree *)
InverseLaw == (out = None /\ Injective(E0)) =>
        LET I == InverseV(E0, P0)
        IN /\ Injective(I.ents)
           /\ InverseV(I.ents, I.plen) = Val(E0, P0)
           /\ GapsV(I.ents) = ShadowV(E0, P0)
           /\ NongapV(I.ents).ents = CoveredV(E0, P0).ents

(* reversing twice restores a map without reversed spans *)
NucRevLaw == out = None =>
    LET R == NucRevV(m.spans, P0)
    IN /\ Len(R.ents) = Len(E0)
       /\ m.spans = Forward(m.spans) =>
             RevSeq([i \in 1..Len(R.ents) |-> IF R.ents[i] = Lost THEN Lost ELSE P0 - 1 - R.ents[i]]) = E0

(* composing with the identity map changes nothing; slices are compositions *)
ComposeLaw == out = None =>
    /\ ComposeV(E0, P0, [i \in 1..Len(E0) |-> i - 1]) = Val(E0, P0)
    /\ \A a, b \in 0..Len(E0) :
          a < b => SliceV(E0, P0, a, b) = ComposeV(E0, P0, [i \in 1..(b - a) |-> a + i - 1])

GapPartition == out = None =>
    LET G == GapsV(E0).ents
        N == NongapV(E0).ents
    IN {G[i] : i \in 1..Len(G)} \cup {N[i] : i \in 1..Len(N)} = 0..(Len(E0) - 1)
=============================================================================
