------------------------------ MODULE NestedInit ------------------------------
(* Property C16, first clause: initialising a richer model from a nested one  *)
(* reproduces the nested model's process exactly.                              *)
(*                                                                            *)
(* cogent3 projects parameters by MATRIX COORDINATES: every parameter of a     *)
(* model owns the set of instantaneous cells its predicate selects; the cells  *)
(* owned by no parameter form the reference cell set (rate 1).  A rich-model    *)
(* parameter takes the value of the nested-model parameter (or reference)      *)
(* whose cell set is the SMALLEST superset of its own.  When a stationary      *)
(* model (rates multiplied by target motif probabilities) is embedded in a     *)
(* general non-stationary one (rates are the parameters themselves), the value *)
(* becomes pi_j * value / pi_(reference target).                               *)
(*                                                                            *)
(* Theorem checked by TLC for every pair below and prime-coded nested values:  *)
(*     Q(rich model, projected parameters) = Q(nested model)   cell by cell.   *)
(* Pairs for which it failed would be design-level findings.                   *)
EXTENDS MarkovQ

CONSTANTS Pairs   \* sequence of [null: instance, alt: [name, L, kind, pnames, reversible, stationary]]

Coords(L, pn) == {c \in States(L) \X States(L) : Inst(c[1], c[2]) /\ Holds(1, pn, c[1], c[2])}
InstCells(L) == {c \in States(L) \X States(L) : Inst(c[1], c[2])}
RefCells(L, pnames) == {c \in InstCells(L) : \A x \in 1..Len(pnames) : ~Holds(1, pnames[x], c[1], c[2])}

NullNames(p) == [x \in 1..Len(p.null.params) |-> p.null.params[x][1]]
NullCoords(p, s) == IF s = "ref_cell" THEN RefCells(p.null.L, NullNames(p)) ELSE Coords(p.null.L, s)
NullVal(p, s) == IF s = "ref_cell" THEN One
                 ELSE LET x == CHOOSE x \in 1..Len(p.null.params) : p.null.params[x][1] = s IN p.null.params[x][2]

Cands(p, ra) == {s \in {NullNames(p)[x] : x \in 1..Len(p.null.params)} \cup {"ref_cell"} :
                    Coords(p.alt.L, ra) \subseteq NullCoords(p, s)}
Chosen(p, ra) == CHOOSE s \in Cands(p, ra) : \A t \in Cands(p, ra) : Cardinality(NullCoords(p, s)) <= Cardinality(NullCoords(p, t))
(* a rich parameter covered by no single nested parameter (its cells are split between several,
   e.g. a codon-model exchangeability term whose cells are partly under omega) keeps the default 1 *)
Unmapped(p, ra) == Cands(p, ra) = {}
Unambiguous(p, ra) == /\ TRUE
                      /\ \A s, t \in Cands(p, ra) : s # t => Cardinality(NullCoords(p, s)) # Cardinality(NullCoords(p, t))

SameKind(p) == (p.null.kind = "none") = (p.alt.kind = "none")
(* target state of the single cell a general-model parameter owns, and of the reference cell *)
TargetOf(L, cells) == (CHOOSE c \in cells : TRUE)[2]
Projected(p, ra) ==
    IF Unmapped(p, ra) THEN One
    ELSE IF SameKind(p) THEN NullVal(p, Chosen(p, ra))
    ELSE LET j  == TargetOf(p.alt.L, Coords(p.alt.L, ra))
             jr == TargetOf(p.alt.L, RefCells(p.alt.L, p.alt.pnames))
         IN  RDiv(RMul(p.null.pi[j], NullVal(p, Chosen(p, ra))), p.null.pi[jr])

AltInstance(p) ==
    [name |-> p.alt.name, L |-> p.alt.L, kind |-> p.alt.kind,
     params |-> [x \in 1..Len(p.alt.pnames) |-> <<p.alt.pnames[x], Projected(p, p.alt.pnames[x])>>],
     pi |-> p.null.pi, reversible |-> p.alt.reversible, stationary |-> p.alt.stationary, tag |-> "projected", gc |-> p.null.gc]

NInit == k = 1 /\ r = [qn |-> Compute(Pairs[1].null), qa |-> Compute(AltInstance(Pairs[1]))]
NStepT == /\ k <= Len(Pairs) /\ k' = k + 1
          /\ r' = IF k + 1 <= Len(Pairs) THEN [qn |-> Compute(Pairs[k + 1].null), qa |-> Compute(AltInstance(Pairs[k + 1]))] ELSE r
(* Whether the fitted nested model ESTIMATED a rate term or held it constant is no part of Projected: a constant   *)
(* of the nested model is a fact about the process like any estimate, and is projected the same way.  Both cases  *)
(* are handed to the harness.                                                                                       *)
NullStatus == {"free", "constant"}
(* What the rich function went through BEFORE it is initialised is no part of Projected either: a batch of rules   *)
(* that was refused (an exception out of apply_param_rules) is a stuttering step of the function.                   *)
Priors == {"none", "refused-batch"}
(* Edge names are LABELS: how the tips are called (plain letters; names made of the same characters in another     *)
(* order or number, "12" / "21" / "112") is no part of Projected either.                                            *)
Namings == {"plain", "anagrams"}
NStep == \E status \in NullStatus, prior \in Priors, naming \in Namings :
         NStepT /\ Emit([act |-> "Nested", null |-> Pairs[k].null.name, alt |-> Pairs[k].alt.name, nullstatus |-> status, prior |-> prior, naming |-> naming,
                         nullparams |-> Pairs[k].null.params, altparams |-> AltInstance(Pairs[k]).params,
                         chosen |-> [x \in 1..Len(Pairs[k].alt.pnames) |-> <<Pairs[k].alt.pnames[x],
                                        IF Unmapped(Pairs[k], Pairs[k].alt.pnames[x]) THEN "default" ELSE Chosen(Pairs[k], Pairs[k].alt.pnames[x])>>],
                         pi |-> {<<w, Pairs[k].null.pi[w]>> : w \in DOMAIN Pairs[k].null.pi}])
NSpec == NInit /\ [][NStep]_vars

Cur == Pairs[IF k <= Len(Pairs) THEN k ELSE Len(Pairs)]
MappingUnambiguous == \A x \in 1..Len(Cur.alt.pnames) : Unambiguous(Cur, Cur.alt.pnames[x])
SameProcess == \A i, j \in r.qn.S : r.qa.Q[i][j] = r.qn.Q[i][j]
=============================================================================
