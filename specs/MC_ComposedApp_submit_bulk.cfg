SPECIFICATION Spec
CONSTANTS
  Ns = {70, 150}
  Windows = {0}
  Extra = 0
  Fifo = TRUE
  FailMod = 7
  FailRem = 3
INVARIANT TypeOK
INVARIANT NoneLost
INVARIANT ExactlyOnce
INVARIANT AllDone
