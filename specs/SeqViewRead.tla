----------------------------- MODULE SeqViewRead -----------------------------
(* Growth of C01: what a sequence view *answers*.                              *)
(*                                                                            *)
(* SeqView.tla fixes which residues a view displays (idx, comp).  This module *)
(* instantiates the root with concrete IUPAC strings and states, as operators *)
(* on the displayed string alone ("the plain-string model"), what the reading *)
(* methods of a Sequence must answer on EVERY view - forward, reversed,       *)
(* strided, sliced-then-rc, with an annotation offset:                         *)
(*   count, counts(motif_length, include_ambiguity, allow_gap), get_kmers /   *)
(*   iter_kmers(k, strict), get_in_motif_size, sliding_windows (strings and,   *)
(*   by SeqView's coordinate rule, where each window lies on the parent),      *)
(*   is_gapped / is_degenerate / is_strict / is_valid, gap_vector /            *)
(*   gap_indices / count_gaps / first_gap / gap_maps, with_termini_unknown,    *)
(*   strip_degenerate / strip_bad / strip_bad_and_gaps / degap /               *)
(*   disambiguate("strip"), shuffle (multiset preserved), str / bytes /        *)
(*   array / to_fasta / to_phylip, and ==, !=, <, hash, in between two views.  *)
(* Semantics follow the method docstrings of cogent3.core.sequence /           *)
(* new_sequence / moltype; where old and new classes document different        *)
(* conventions (does "?" count as a gap in count_gaps) both are allowed.       *)
(* harness/read_C01.py builds every view on real old-style, new-style and      *)
(* collection-backed sequences (two different call chains per view) and        *)
(* compares each answer with the record emitted by action Observe.             *)
EXTENDS Integers, Sequences, FiniteSets, TLC, Emit, PySlice, SeqViewSymbols

CONSTANTS Roots,     \* concrete root strings (tuples of one-character strings)
          Offsets,   \* annotation offsets of the roots
          Steps,     \* strides of the slices that generate the views
          CmpSteps,  \* strides of the single slices that make the second operand of comparisons
          CmpEvery   \* ... whose start / stop are None or multiples of CmpEvery

VARIABLES root, off, idx, comp
vars == <<root, off, idx, comp>>

StepsAll == {None, 1, -1, 2, -2, 3, -3}
StepsTwo == {None, 1, -1, 2, -2}
CmpAll   == {None, -1, 2, -2}
CmpFew   == {None, -1}

(* every root keeps a run of >= 4 monomers, so that both strands have views whose length is 1 and 2 mod 3   *)
(* (translation with an incomplete last codon), next to gaps, missing data and degenerate symbols        *)
RootsQuick == {<<"R", "-", "A", "T", "G", "A", "?">>}
RootsThorough == {<<"A", "A", "C", "-", "R", "G", "T">>,
                  <<"-", "A", "?", "C", "N", "T", "-">>,
                  <<"A", "T", "G", "A", "T", "A", "A">>,
                  <<"-", "?", "-">>}

L == Len(root)
Ident(n) == [i \in 1..n |-> i - 1]
Reverse(s) == [i \in 1..Len(s) |-> s[Len(s) + 1 - i]]
Compl(c) == IF c \in DOMAIN ComplDna THEN ComplDna[c] ELSE c
DisplayOf(ix, cm) == [k \in 1..Len(ix) |-> IF cm THEN Compl(root[ix[k] + 1]) ELSE root[ix[k] + 1]]
D == DisplayOf(idx, comp)

(* ============================ the plain-string model ======================= *)
Range(s) == {s[i] : i \in DOMAIN s}
Count1(d, c) == Cardinality({i \in DOMAIN d : d[i] = c})

(* str.count: non-overlapping occurrences, scanning from the left *)
RECURSIVE CountFrom(_, _, _)
CountFrom(d, p, i) ==
    IF i + Len(p) - 1 > Len(d) THEN 0
    ELSE IF SubSeq(d, i, i + Len(p) - 1) = p THEN 1 + CountFrom(d, p, i + Len(p))
    ELSE CountFrom(d, p, i + 1)
CountStr(d, p) == CountFrom(d, p, 1)

HasDegen(s) == \E i \in DOMAIN s : s[i] \in DegenDna
HasGap(s) == \E i \in DOMAIN s : s[i] \in GapSyms
IsStrict(s) == \A i \in DOMAIN s : s[i] \in CanonDna

(* non-overlapping motifs, an incomplete last one is dropped *)
Chunks(d, m) == [j \in 1..(Len(d) \div m) |-> SubSeq(d, (j - 1) * m + 1, j * m)]
(* consecutive blocks, the last one may be short (line wrapping) *)
Blocks(d, m) == [j \in 1..((Len(d) + m - 1) \div m) |-> SubSeq(d, (j - 1) * m + 1, Min(j * m, Len(d)))]

(* counts(): motifs holding a degenerate symbol are left out unless            *)
(* include_ambiguity, motifs holding a gap are left out unless allow_gap        *)
Counts(d, m, amb, gap) ==
    LET ch == Chunks(d, m)
        keep(x) == ~((~amb /\ HasDegen(x)) \/ (~gap /\ HasGap(x)))
    IN {<<x, Cardinality({j \in DOMAIN ch : ch[j] = x})>> : x \in {y \in Range(ch) : keep(y)}}

(* overlapping k-mers; strict keeps those made of monomers only *)
Kmers(d, k, strict) ==
    SelectSeq([i \in 1..(Len(d) - k + 1) |-> SubSeq(d, i, i + k - 1)],
              LAMBDA x : ~strict \/ IsStrict(x))

GapVector(d) == [i \in DOMAIN d |-> d[i] \in GapSyms]
GapIndices(d) == SelectSeq([i \in DOMAIN d |-> i - 1], LAMBDA p : d[p + 1] \in GapSyms)
NonGapIndices(d) == SelectSeq([i \in DOMAIN d |-> i - 1], LAMBDA p : d[p + 1] \notin GapSyms)
(* gap_maps(): (ungapped position -> gapped position, gapped -> ungapped), as sets of pairs *)
GapMaps(d) == LET ng == NonGapIndices(d) IN
    [gapped |-> {<<u - 1, ng[u]>> : u \in DOMAIN ng}, ungapped |-> {<<ng[u], u - 1>> : u \in DOMAIN ng}]
(* count_gaps: old classes count "-" and "?", the new ones document "-" only *)
CountGapsAllowed(d) == {Count1(d, "-"), Count1(d, "-") + Count1(d, "?")}

(* terminal gaps become missing data *)
TerminiUnknown(d) ==
    LET ng == NonGapIndices(d) IN
    IF ng = <<>> THEN [i \in DOMAIN d |-> Missing]
    ELSE [i \in DOMAIN d |-> IF i - 1 < ng[1] \/ i - 1 > ng[Len(ng)] THEN Missing ELSE d[i]]

StripDegenerate(d) == SelectSeq(d, LAMBDA c : c \notin DegenDna)
Degap(d) == SelectSeq(d, LAMBDA c : c \notin GapSyms)
Bag(d) == [c \in Range(d) |-> Count1(d, c)]

RECURSIVE IndexIn(_, _, _)
IndexIn(c, order, i) == IF order[i] = c THEN i - 1 ELSE IndexIn(c, order, i + 1)
ArrayOf(d) == [i \in DOMAIN d |-> IndexIn(d[i], DnaArrayOrder, 1)]

RECURSIVE Flatten(_)
Flatten(ss) == IF ss = <<>> THEN <<>> ELSE Head(ss) \o Flatten(Tail(ss))
Name == <<"s">>
(* ">name" and the sequence wrapped at block_size, every line ended by a newline *)
Fasta(d, block) ==
    LET bl == Blocks(d, block) IN
    <<">">> \o Name \o <<"\n">> \o Flatten([j \in DOMAIN bl |-> bl[j] \o <<"\n">>])
(* the name cut to 28 characters, padded to 30, then the sequence on one line *)
Phylip(d) == Name \o [i \in 1..(30 - Len(Name)) |-> " "] \o d

(* Python string order *)
LexLess(x, y) ==
    \E k \in 1..(Min(Len(x), Len(y)) + 1) :
        /\ \A j \in 1..(k - 1) : x[j] = y[j]
        /\ \/ (k > Len(x) /\ k <= Len(y))
           \/ (k <= Len(x) /\ k <= Len(y) /\ OrdOf(x[k]) < OrdOf(y[k]))
IsSubstring(p, d) == \E i \in 0..(Len(d) - Len(p)) : SubSeq(d, i + 1, i + Len(p)) = p

(* SeqView's coordinate rule for the view (ix, cm): <<strand, psLo, psHi, peLo, peHi>> *)
BoundsOf(ix, cm) ==
    LET n == Len(ix) IN
    IF n = 0 THEN <<>>
    ELSE LET first == ix[1]
             last == ix[n]
             stride == IF n >= 2 THEN Abs(ix[2] - ix[1]) ELSE 0
         IN IF ~cm
            THEN <<1, off + first, off + first, off + last + 1,
                   off + (IF stride = 0 THEN L ELSE Min(L, last + stride))>>
            ELSE <<-1, off + (IF stride = 0 THEN 0 ELSE Max(0, last - stride + 1)), off + last,
                   off + first + 1, off + first + 1>>

(* sliding_windows(window, step, start, end): the views self[pos:pos+window]    *)
(* for pos = start, start+step, ... < min(end, len-window+1)                    *)
WindowStarts(n, w, st, s0, e0) ==
    LET start == IF s0 = None THEN 0 ELSE s0
        end == Min(n - w + 1, IF e0 = None THEN n - w + 1 ELSE e0)
    IN IF start < end /\ n - end >= w - 1
       THEN [j \in 1..((end - start + st - 1) \div st) |-> start + (j - 1) * st]
       ELSE <<>>
Windows(w, st, s0, e0) ==
    LET ps == WindowStarts(Len(idx), w, st, s0, e0) IN
    [j \in DOMAIN ps |->
        LET ix == SubSeq(idx, ps[j] + 1, ps[j] + w)
        IN [str |-> DisplayOf(ix, comp), bounds |-> BoundsOf(ix, comp)]]

(* ---- translation: the displayed string of a view is what is translated ------ *)
(* GeneticCode.tla (property C12) owns the NCBI tables and the documented stop    *)
(* handling of get_translation / has_terminal_stop / trim_stop_codon on plain      *)
(* strings; a view of monomers only must answer as its displayed string does, and  *)
(* trim_stop_codon returns the view self[:-3], which lies where SeqView says.      *)
GC == INSTANCE GeneticCode WITH TableCodes <- {1}, SeqCodes <- {1}, MaxLen <- 0, OptLen <- 0, MaxCodons <- 0,
                                PairCodons <- 0, OrfFamily <- FALSE, LongLens <- {}, SymLen <- 0, inp <- <<>>
Translation ==
    IF ~IsStrict(D) THEN [ok |-> FALSE]
    ELSE [ok |-> TRUE,
          get_translation |-> {<<inc, trim, iok, GC!GetTranslationOutcomes(1, D, inc, trim, iok)>> :
                                   inc \in BOOLEAN, trim \in BOOLEAN, iok \in BOOLEAN},
          has_terminal_stop |-> {<<strict, GC!HasStopOutcome(1, D, strict)>> : strict \in BOOLEAN},
          trim_stop_codon |-> {<<strict,
                                 IF GC!StrictRefuses(D, strict) THEN [refused |-> TRUE]
                                 ELSE LET ix == IF GC!HasTerminalStop(1, D) THEN SubSeq(idx, 1, Len(idx) - 3) ELSE idx
                                      IN [refused |-> FALSE, str |-> DisplayOf(ix, comp), bounds |-> BoundsOf(ix, comp)]>> :
                                 strict \in BOOLEAN}]

(* the second operand of a comparison: the single slice root[a:b:k] of an       *)
(* independent sequence object with the same root string *)
CArgs == {None} \cup {x \in 0..L : x % CmpEvery = 0}
OtherIdx(a, b, k) == Apply(Ident(L), a, b, k)
Other(a, b, k) == DisplayOf(OtherIdx(a, b, k), Step(k) < 0)
Cmp(a, b, k) ==
    LET e == Other(a, b, k) IN
    <<a, b, k, D = e, LexLess(D, e), IsSubstring(e, D)>>

Answers ==
    [str |-> D,
     len |-> Len(D),
     count |-> {<<p, CountStr(D, p)>> : p \in {<<"A">>, <<"-">>, <<"A", "C">>, <<"A", "A">>, <<"G", "-">>}},
     counts |-> {<<m, amb, gap, Counts(D, m, amb, gap)>> : m \in {1, 2, 3}, amb \in BOOLEAN, gap \in BOOLEAN},
     kmers |-> {<<k, strict, Kmers(D, k, strict)>> : k \in {1, 2, 3}, strict \in BOOLEAN},
     motifs |-> {<<m, Chunks(D, m)>> : m \in {2, 3}},
     windows |-> {<<q[1], q[2], q[3], q[4], Windows(q[1], q[2], q[3], q[4])>> :
                    q \in {<<1, 1, None, None>>, <<2, 1, None, None>>, <<2, 2, None, None>>, <<3, 2, None, None>>,
                           <<2, 1, 1, 3>>, <<2, 3, 0, 10>>, <<3, 1, 1, None>>}},
     is_gapped |-> HasGap(D),
     is_degenerate |-> HasDegen(D),
     is_strict |-> IsStrict(D),
     is_valid |-> TRUE,                     \* every root symbol is an IUPAC DNA symbol
     gap_vector |-> GapVector(D),
     gap_indices |-> GapIndices(D),
     count_gaps |-> CountGapsAllowed(D),
     first_gap |-> IF GapIndices(D) = <<>> THEN <<>> ELSE <<GapIndices(D)[1]>>,   \* <<>> = None
     gap_maps |-> GapMaps(D),
     termini_unknown |-> TerminiUnknown(D),
     strip_degenerate |-> StripDegenerate(D),
     strip_bad |-> D,
     degap |-> Degap(D),
     bag |-> Bag(D),
     array |-> ArrayOf(D),
     fasta |-> {<<b, Fasta(D, b)>> : b \in {60, 2, 3}},
     phylip |-> Phylip(D),
     translation |-> Translation,
     cmp |-> {Cmp(a, b, k) : a \in CArgs, b \in CArgs, k \in CmpSteps}]

(* ================================== behaviour =============================== *)
St == <<root, off, idx, comp>>
StP == <<root', off', idx', comp'>>
Args == {None} \cup 0..L

Init == /\ root \in Roots
        /\ off \in Offsets
        /\ idx = Ident(Len(root))
        /\ comp = FALSE

Slice(a, b, k) ==
    /\ idx' = Apply(idx, a, b, k)
    /\ comp' = (comp # (Step(k) < 0))
    /\ UNCHANGED <<root, off>>
    /\ Emit([from |-> St, act |-> "Slice", args |-> <<a, b, k>>, to |-> StP])

Rc == /\ idx' = Reverse(idx)
      /\ comp' = ~comp
      /\ UNCHANGED <<root, off>>
      /\ Emit([from |-> St, act |-> "Rc", args |-> <<>>, to |-> StP])

Observe == /\ UNCHANGED vars
           /\ Emit([from |-> St, act |-> "Observe", none |-> None, bounds |-> BoundsOf(idx, comp), obs |-> Answers])

Next == \/ \E a \in Args, b \in Args, k \in Steps : Slice(a, b, k)
        \/ Rc
        \/ Observe

Spec == Init /\ [][Next]_vars

------------------------------------------------------------------------------
(* Laws of the plain-string model, checked by TLC in every reachable view.     *)
TypeOK == /\ idx \in Seq(0..(L - 1)) /\ comp \in BOOLEAN /\ off \in Nat

Sum(pairs) == LET RECURSIVE S(_)
                  S(ps) == IF ps = {} THEN 0 ELSE LET p == CHOOSE q \in ps : TRUE IN p[2] + S(ps \ {p})
              IN S(pairs)

(* every residue is counted exactly once when nothing is excluded *)
CountsPartition == \A m \in {1, 2, 3} : Sum(Counts(D, m, TRUE, TRUE)) = Len(D) \div m
(* excluding can only remove motifs *)
CountsMonotone == \A m \in {1, 2} : Counts(D, m, FALSE, FALSE) \subseteq Counts(D, m, TRUE, TRUE)
(* strict k-mers are a subsequence of all k-mers, and there are len-k+1 of those *)
KmersLaw == \A k \in {1, 2, 3} :
    /\ Len(Kmers(D, k, FALSE)) = Max(0, Len(D) - k + 1)
    /\ Range(Kmers(D, k, TRUE)) \subseteq Range(Kmers(D, k, FALSE))
(* degapping removes exactly the gap positions; the two gap maps are inverse *)
GapLaw == /\ Len(Degap(D)) = Len(D) - Len(GapIndices(D))
          /\ HasGap(D) <=> GapIndices(D) # <<>>
          /\ \A p \in GapMaps(D).gapped : <<p[2], p[1]>> \in GapMaps(D).ungapped
          /\ Cardinality(GapMaps(D).gapped) = Len(Degap(D))
(* remapping termini keeps the length and every interior residue *)
TerminiLaw == /\ Len(TerminiUnknown(D)) = Len(D)
              /\ Degap(TerminiUnknown(D)) = Degap(D)
(* reverse complementing twice displays the same string, and rc maps the        *)
(* multiset of symbols through the complement table *)
RcLaw == LET r == DisplayOf(Reverse(idx), ~comp) IN
         /\ [i \in DOMAIN r |-> Compl(r[Len(r) + 1 - i])] = D
         /\ \A c \in Range(D) : Count1(r, Compl(c)) = Count1(D, c)
(* string order is a strict total order consistent with equality *)
OrderLaw == \A a \in CArgs, b \in CArgs, k \in CmpSteps :
    LET e == Other(a, b, k) IN
    Cardinality({x \in {1, 2, 3} : (x = 1 /\ LexLess(D, e)) \/ (x = 2 /\ D = e) \/ (x = 3 /\ LexLess(e, D))}) = 1
(* windows of step = window tile a prefix of the view, and every window lies    *)
(* inside the segment the view itself reports *)
WindowLaw ==
    /\ \A w \in {1, 2, 3} :
         LET ws == Windows(w, w, None, None) IN
         Flatten([j \in DOMAIN ws |-> ws[j].str]) = SubSeq(D, 1, Len(ws) * w)
    /\ LET ws == Windows(2, 1, None, None)
           vb == BoundsOf(idx, comp)
       IN \A j \in DOMAIN ws : ws[j].bounds[2] >= vb[2] /\ ws[j].bounds[4] <= vb[5]
(* on monomers the complement table of the views is the one of the genetic code  *)
(* module, so translating the rc view is translating the minus strand, and a      *)
(* trimmed view displays what trimming the string gives *)
TranslateLaw ==
    IsStrict(D) =>
        /\ DisplayOf(Reverse(idx), ~comp) = GC!Rc(D)
        /\ LET t == CHOOSE x \in Translation.trim_stop_codon : x[1] = FALSE IN t[2].str = GC!TrimStop(1, D)
(* wrapped FASTA holds exactly the residues *)
FastaLaw == \A b \in {2, 3, 60} :
    SelectSeq(Fasta(D, b), LAMBDA c : c # "\n") = <<">">> \o Name \o D
=============================================================================
