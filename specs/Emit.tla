-------------------------------- MODULE Emit --------------------------------
(* Shared binding module: every action of every specification ends with the   *)
(* conjunct Emit([from |-> ..., act |-> ..., args |-> ..., to |-> ...]).       *)
(* When the environment variable EMIT_FILE is set, TLC appends one JSON line  *)
(* per explored transition; the Python harness replays each line into the     *)
(* real cogent3 code (spec -> code conformance).  Without EMIT_FILE it is TRUE *)
(* and the spec is an ordinary model.                                          *)
EXTENDS TLC, Json, CSV, IOUtils, Sequences, Naturals

EmitFile == IF "EMIT_FILE" \in DOMAIN IOEnv THEN IOEnv.EMIT_FILE ELSE ""
Emit(rec) == IF EmitFile = "" THEN TRUE
             ELSE CSVWrite("%1$s", <<ToJson(rec)>>, EmitFile)
=============================================================================
