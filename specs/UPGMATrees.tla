----------------------------- MODULE UPGMATrees -----------------------------
(* Ultrametric generators of property C15 (shared by UPGMA.tla and            *)
(* DistanceCalls.tla): every rooted labelled binary tree on the tips 1..N     *)
(* with every strictly increasing assignment of integer node heights; tips    *)
(* are at height 0, D[a][b] = 2 * height(lca(a, b)).                          *)
EXTENDS NJTrees

CONSTANTS N,        \* number of tips, >= 2
          Heights   \* set of positive integers

Tips == 1..N
Full == 1..N

(* ---- generators ---------------------------------------------------------------- *)
Internal(T) == {C \in T : Cardinality(C) >= 2}
HeightMaps(T) == {h \in [Internal(T) -> Heights] :
                     \A C, P \in Internal(T) : (C \subseteq P /\ C # P) => h[C] < h[P]}
Generators == UNION {{[tree |-> T, h |-> h] : h \in HeightMaps(T)} : T \in Families(1, N)}

SetMin(S) == CHOOSE m \in S : \A x \in S : m <= x
LcaHeight(g, a, b) == SetMin({g.h[C] : C \in {X \in Internal(g.tree) : a \in X /\ b \in X}})
GenMatrix(g) == [a \in Tips |-> [b \in Tips |-> IF a = b THEN 0 ELSE 2 * LcaHeight(g, a, b)]]
H0(g, C) == IF Cardinality(C) = 1 THEN 0 ELSE g.h[C]
Parent(g, C) == CHOOSE P \in g.tree : /\ C \subseteq P /\ C # P
                                      /\ \A X \in g.tree : (C \subseteq X /\ C # X) => P \subseteq X
GenEdges(g) == {<<C, <<g.h[Parent(g, C)] - H0(g, C), 1>>>> : C \in g.tree \ {Full}}

(* the same tree without its root: the two edges at the root are one edge.  A split is *)
(* named by its side without tip 1.  This is the (unique) additive tree of GenMatrix(g) *)
NormSplit(C) == IF 1 \in C THEN Tips \ C ELSE C
UnrootedEdges(g) ==
    LET E == GenEdges(g)
        sides == {NormSplit(e[1]) : e \in E}
        total(sd) == SumF({e \in E : NormSplit(e[1]) = sd}, [e \in E |-> e[2][1]])
    IN {<<sd, <<total(sd), 1>>>> : sd \in sides}
UnrootedDist(g, a, b) ==
    LET U == UnrootedEdges(g)
    IN SumF({e \in U : (a \in e[1]) # (b \in e[1])}, [e \in U |-> e[2][1]])
=============================================================================
