SPECIFICATION UseSpec
CONSTANTS
  MaxLen = 7
  MaxBin = 7
  Scales = {1}
  SegsLen = 7
  MaxSegs = 2
  EmptySegsUpTo = 4
  UseLen = 7
  DeepLen = 6
  PairLen = 5
INVARIANT TypeOK
INVARIANT CigarLaw
INVARIANT SeqSliceLaw
INVARIANT AlnSliceLaw
INVARIANT EntLaw
INVARIANT TermLaw
