SPECIFICATION FairSpec
CONSTANTS
  Ns = {4, 5}
  Windows = {0, 1, 2}
  Extra = 0
  Fifo = FALSE
  FailMod = 3
  FailRem = 1
INVARIANT TypeOK
INVARIANT Bounded
INVARIANT NoneLost
INVARIANT ExactlyOnce
INVARIANT AllDone
PROPERTY Terminates
