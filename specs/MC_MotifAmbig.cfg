SPECIFICATION Spec2
CONSTANT Instances <- NucInstances
INVARIANT UnknownIsNeutral
INVARIANT AllUnknownIsOne
INVARIANT Monotone
INVARIANT StopsExcluded
