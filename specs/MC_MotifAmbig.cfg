SPECIFICATION Spec2
CONSTANT Instances <- NucInstances
CONSTANT Refused <- NoRefused
INVARIANT UnknownIsNeutral
INVARIANT AllUnknownIsOne
INVARIANT Monotone
INVARIANT StopsExcluded
