SPECIFICATION Spec
CONSTANTS
  MaxP = 5
  MaxSpans = 2
  MaxLost = 2
  MaxArgSpans = 2
  MaxArgLen = 4
  MaxSliceLen = 5
  MaxAddSpans = 2
  Scales = {1, 2}
INVARIANT TypeOK
INVARIANT InParent
INVARIANT CoverShadowPartition
INVARIANT InverseLaw
INVARIANT NucRevLaw
INVARIANT ComposeLaw
INVARIANT GapPartition
PROPERTY ReceiverPreserved
