SPECIFICATION Spec
CONSTANTS
  ShapeIds = {"s2x2", "q1x3"}
  PickedIds = {"p1"}
  Mols = {"dna"}
  MaxDepth = 2
  MaxLen = 6
  Forms = {"plain", "open", "neg", "over"}
  ColFamily = "tuples"
  PairFamily = "cuts"
INVARIANT TypeOK
INVARIANT Rectangular
INVARIANT UniqueNames
INVARIANT NoCellInvented
INVARIANT RcInvolution
INVARIANT SliceCommutesWithTakeSeqs
INVARIANT RcOfSliceIsSliceOfRc
INVARIANT NegateKeepsTheOthers
INVARIANT ConcatOfCutIsIdentity
