----------------------------- MODULE Felsenstein -----------------------------
(* Properties C02 / C11: the phylogenetic likelihood from first principles,   *)
(* over exact rationals (Tamura-Nei family, module TN93).                     *)
(*                                                                            *)
(* A configuration is a rooted tree (node 1 is the root; Par[n] is n's parent,*)
(* 0 for the root; leaves carry names), for every non-root node the model     *)
(* instance and base q of its edge (P_e = TN93!P(instance, q)), optional rate  *)
(* classes (bprobs, integer exponent multipliers: q_e = s_e^qpow, class b uses s_e^mult[b], i.e. rate mult[b]/qpow), and an alignment whose      *)
(* cells are SETS of compatible states (ambiguity codes, gaps = all states).   *)
(*                                                                            *)
(*   Site(col)   = sum_x pi_x * Down(root, x)            (pruning)             *)
(*   Down(n, x)  = [x \in col[n]]                          n a leaf            *)
(*               = prod_{c child of n} sum_y P_c[x][y] Down(c, y)   otherwise  *)
(*   Brute(col)  = sum over all assignments of states to all nodes, leaves      *)
(*                 restricted to their sets, of pi(root) * prod_edges P[..][..] *)
(* TLC checks Site = Brute for every column (pruning IS the sum-product),      *)
(* that the likelihoods of all canonical columns sum to one, and that with     *)
(* rate classes the site likelihood is the bprob-weighted mixture.             *)
EXTENDS TN93, TLC, Emit

CONSTANTS Configs   \* sequence of configurations (MC_Felsenstein.tla)

SymSet(s) == CASE s = "T" -> {"T"} [] s = "C" -> {"C"} [] s = "A" -> {"A"} [] s = "G" -> {"G"}
               [] s = "R" -> {"A", "G"} [] s = "Y" -> {"C", "T"} [] s = "W" -> {"A", "T"}
               [] s = "N" -> Nuc [] s = "-" -> Nuc [] s = "?" -> Nuc

Nodes(c) == 1..Len(c.par)
Kids(c, n) == {m \in Nodes(c) : c.par[m] = n}
IsLeaf(c, n) == Kids(c, n) = {}
Leaves(c) == {n \in Nodes(c) : IsLeaf(c, n)}
Inner(c) == Nodes(c) \ Leaves(c)

(* transition matrix of the edge above node n for rate class b (b = 0: no classes) *)
EdgeQ(c, n, b) == IF b = 0 THEN RPow(c.s[n], c.qpow) ELSE RPow(c.s[n], c.mult[b])
EdgeP(c, n, b) == P(PInstances[c.inst[n]], EdgeQ(c, n, b))

RECURSIVE RProdSet(_, _)
RProdSet(S, f) == IF S = {} THEN One ELSE LET x == CHOOSE x \in S : TRUE IN RMul(f[x], RProdSet(S \ {x}, f))

RECURSIVE Down(_, _, _, _, _)
Down(c, col, b, n, x) ==
    IF IsLeaf(c, n) THEN (IF x \in SymSet(col[n]) THEN One ELSE Zero)
    ELSE RProdSet(Kids(c, n),
           [m \in Kids(c, n) |-> LET Pm == EdgeP(c, m, b)
                                 IN RSumSet(Nuc, [y \in Nuc |-> RMul(Pm[x][y], Down(c, col, b, m, y))])])

RootPi(c, x) == Pi(PInstances[c.rootinst], x)
SiteB(c, col, b) == RSumSet(Nuc, [x \in Nuc |-> RMul(RootPi(c, x), Down(c, col, b, 1, x))])
NBins(c) == Len(c.bprobs)
Site(c, col) == IF NBins(c) = 0 THEN SiteB(c, col, 0)
                ELSE RSumSet(1..NBins(c), [b \in 1..NBins(c) |-> RMul(c.bprobs[b], SiteB(c, col, b))])

(* first principles: explicit sum over every assignment of a state to every node *)
Assignments(c, col) == {a \in [Nodes(c) -> Nuc] : \A n \in Leaves(c) : a[n] \in SymSet(col[n])}
BruteB(c, col, b) ==
    LET A == Assignments(c, col)
    IN  RSumSet(A, [a \in A |-> RMul(RootPi(c, a[1]),
             RProdSet(Nodes(c) \ {1}, [n \in Nodes(c) \ {1} |-> EdgeP(c, n, b)[a[c.par[n]]][a[n]]]))])
Brute(c, col) == IF NBins(c) = 0 THEN BruteB(c, col, 0)
                 ELSE RSumSet(1..NBins(c), [b \in 1..NBins(c) |-> RMul(c.bprobs[b], BruteB(c, col, b))])

(* every column over the four canonical states: a function Leaves -> Nuc, as a column *)
CanonCols(c) == {[n \in Nodes(c) |-> IF n \in Leaves(c) THEN f[n] ELSE "N"] : f \in [Leaves(c) -> Nuc]}
ColOf(c, seqcol) == [n \in Nodes(c) |-> IF n \in Leaves(c) THEN seqcol[n] ELSE "N"]

VARIABLES k
vars == <<k>>
Init == k = 1
Cfg == Configs[IF k <= Len(Configs) THEN k ELSE Len(Configs)]

(* the columns of a configuration's alignment: c.cols is a sequence of columns, each a
   function from leaf node to symbol *)
StepT == k <= Len(Configs) /\ k' = k + 1
Step == StepT /\ Emit([act |-> "Lik", id |-> Cfg.id, newick |-> Cfg.newick, leafname |-> Cfg.leafname,
                       edges |-> {<<Cfg.edgename[n], PInstances[Cfg.inst[n]].name, PInstances[Cfg.inst[n]].par,
                                    PInstances[Cfg.inst[n]].ky, PInstances[Cfg.inst[n]].kr,
                                    Mu(PInstances[Cfg.inst[n]]), PInstances[Cfg.inst[n]].n1, RPow(Cfg.s[n], Cfg.qpow)>> : n \in Nodes(Cfg) \ {1}},
                       model |-> PInstances[Cfg.rootinst].name,
                       pi |-> {<<x, RootPi(Cfg, x)>> : x \in Nuc},
                       bprobs |-> Cfg.bprobs, mult |-> Cfg.mult, qpow |-> Cfg.qpow,
                       cols |-> [i \in 1..Len(Cfg.cols) |-> [n \in Leaves(Cfg) |-> Cfg.cols[i][n]]],
                       lik |-> [i \in 1..Len(Cfg.cols) |-> Site(Cfg, ColOf(Cfg, Cfg.cols[i]))]])
Spec == Init /\ [][Step]_vars

------------------------------------------------------------------------------
(* design-level theorems, exact *)
PruningIsSumProduct ==
    \A i \in 1..Len(Cfg.cols) : i <= Cfg.nbrute => Site(Cfg, ColOf(Cfg, Cfg.cols[i])) = Brute(Cfg, ColOf(Cfg, Cfg.cols[i]))
ColumnsSumToOne ==
    Cfg.normalise => RSumSet(CanonCols(Cfg), [col \in CanonCols(Cfg) |-> Site(Cfg, col)]) = One
(* an all-ambiguous column has likelihood one; likelihood is monotone in the leaf sets *)
AllAmbiguousIsOne == Site(Cfg, [n \in Nodes(Cfg) |-> "N"]) = One
=============================================================================
