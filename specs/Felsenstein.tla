----------------------------- MODULE Felsenstein -----------------------------
(* Properties C02 / C11: the phylogenetic likelihood from first principles,   *)
(* over exact rationals (Tamura-Nei family, module TN93).                     *)
(*                                                                            *)
(* A configuration is a rooted tree (node 1 is the root; Par[n] is n's parent,*)
(* 0 for the root; leaves carry names), for every non-root node the model     *)
(* instance and base q of its edge (P_e = TN93!P(instance, q)), optional rate  *)
(* classes (bprobs, integer exponent multipliers: q_e = s_e^qpow, class b uses s_e^mult[b], i.e. rate mult[b]/qpow), and an alignment whose      *)
(* cells are SETS of compatible states (ambiguity codes, gaps = all states).   *)
(*                                                                            *)
(*   Site(col)   = sum_x pi_x * Down(root, x)            (pruning)             *)
(*   Down(n, x)  = [x \in col[n]]                          n a leaf            *)
(*               = prod_{c child of n} sum_y P_c[x][y] Down(c, y)   otherwise  *)
(*   Brute(col)  = sum over all assignments of states to all nodes, leaves      *)
(*                 restricted to their sets, of pi(root) * prod_edges P[..][..] *)
(* TLC checks Site = Brute for every column (pruning IS the sum-product),      *)
(* that the likelihoods of all canonical columns sum to one, and that with     *)
(* rate classes the site likelihood is the bprob-weighted mixture.             *)
EXTENDS TN93, TLC, Emit

CONSTANTS Configs   \* sequence of configurations (MC_Felsenstein.tla)

SymSet(s) == CASE s = "T" -> {"T"} [] s = "C" -> {"C"} [] s = "A" -> {"A"} [] s = "G" -> {"G"}
               [] s = "R" -> {"A", "G"} [] s = "Y" -> {"C", "T"} [] s = "W" -> {"A", "T"}
               [] s = "N" -> Nuc [] s = "-" -> Nuc [] s = "?" -> Nuc

Nodes(c) == 1..Len(c.par)
Kids(c, n) == {m \in Nodes(c) : c.par[m] = n}
IsLeaf(c, n) == Kids(c, n) = {}
Leaves(c) == {n \in Nodes(c) : IsLeaf(c, n)}
Inner(c) == Nodes(c) \ Leaves(c)

(* transition matrix of the edge above node n for rate class b (b = 0: no classes) *)
EdgeQ(c, n, b) == IF b = 0 THEN RPow(c.s[n], c.qpow) ELSE RPow(c.s[n], c.mult[b])
(* a class may also differ from the others in a model parameter rather than in rate (cogent3: a parameter with a     *)
(* `bin` scope): c.bininst[b], when given, is the instance class b uses on every edge                                 *)
EdgeInst(c, n, b) == IF b > 0 /\ c.bininst # <<>> THEN c.bininst[b] ELSE c.inst[n]
EdgeP(c, n, b) == P(PInstances[EdgeInst(c, n, b)], EdgeQ(c, n, b))

RECURSIVE RProdSet(_, _)
RProdSet(S, f) == IF S = {} THEN One ELSE LET x == CHOOSE x \in S : TRUE IN RMul(f[x], RProdSet(S \ {x}, f))

RECURSIVE Down(_, _, _, _, _)
Down(c, col, b, n, x) ==
    IF IsLeaf(c, n) THEN (IF x \in SymSet(col[n]) THEN One ELSE Zero)
    ELSE RProdSet(Kids(c, n),
           [m \in Kids(c, n) |-> LET Pm == EdgeP(c, m, b)
                                 IN RSumSet(Nuc, [y \in Nuc |-> RMul(Pm[x][y], Down(c, col, b, m, y))])])

RootPi(c, x) == Pi(PInstances[c.rootinst], x)
SiteB(c, col, b) == RSumSet(Nuc, [x \in Nuc |-> RMul(RootPi(c, x), Down(c, col, b, 1, x))])
NBins(c) == Len(c.bprobs)
Site(c, col) == IF NBins(c) = 0 THEN SiteB(c, col, 0)
                ELSE RSumSet(1..NBins(c), [b \in 1..NBins(c) |-> RMul(c.bprobs[b], SiteB(c, col, b))])

(* first principles: explicit sum over every assignment of a state to every node *)
Assignments(c, col) == {a \in [Nodes(c) -> Nuc] : \A n \in Leaves(c) : a[n] \in SymSet(col[n])}
BruteB(c, col, b) ==
    LET A == Assignments(c, col)
    IN  RSumSet(A, [a \in A |-> RMul(RootPi(c, a[1]),
             RProdSet(Nodes(c) \ {1}, [n \in Nodes(c) \ {1} |-> EdgeP(c, n, b)[a[c.par[n]]][a[n]]]))])
Brute(c, col) == IF NBins(c) = 0 THEN BruteB(c, col, 0)
                 ELSE RSumSet(1..NBins(c), [b \in 1..NBins(c) |-> RMul(c.bprobs[b], BruteB(c, col, b))])

------------------------------------------------------------------------------
(* Site classes that are NOT independent between neighbouring columns (sites_independent=False): a two-state   *)
(* hidden Markov chain over "patches" of classes runs along the alignment.  cogent3 allocates the first half of  *)
(* the classes to patch 1 and the rest to patch 2; a patch's probability is the sum of its classes' bprobs; the  *)
(* chain has those as stationary probabilities and one parameter bin_switch:                                      *)
(*    T[i][j] = pp[j] * switch (i # j),   T[i][i] = 1 - (1 - pp[i]) * switch                                      *)
(* (switch = 0: the whole alignment is in one patch; switch = 1: neighbouring columns independent).               *)
(* The likelihood of the ORDERED sequence of columns is the sum over all patch paths; Fwd is the forward          *)
(* recursion the implementation uses.                                                                             *)
Patches == {1, 2}
Alloc(c, b) == IF b <= NBins(c) \div 2 THEN 1 ELSE 2
BinsOf(c, p) == {b \in 1..NBins(c) : Alloc(c, b) = p}
PatchProb(c, p) == RSumSet(BinsOf(c, p), [b \in 1..NBins(c) |-> c.bprobs[b]])
Emis(c, col, p) == RSumSet(BinsOf(c, p), [b \in 1..NBins(c) |-> RMul(RDiv(c.bprobs[b], PatchProb(c, p)), SiteB(c, col, b))])
Trans(c, i, j) == IF i = j THEN RSub(One, RMul(RSub(One, PatchProb(c, i)), c.switch))
                  ELSE RMul(PatchProb(c, j), c.switch)
(* E[kk][p]: emission table of a sequence of columns (computed once; the recursions below only combine numbers) *)
ETable(c, cols) == [kk \in 1..Len(cols) |-> [p \in Patches |-> Emis(c, cols[kk], p)]]
TTable(c) == [i \in Patches |-> [j \in Patches |-> Trans(c, i, j)]]
PTable(c) == [p \in Patches |-> PatchProb(c, p)]
RECURSIVE FwdVec(_, _, _, _)
FwdVec(pp, T, E, kk) ==    \* [p |-> joint probability of columns 1..kk and of column kk being in patch p]
    IF kk = 1 THEN [p \in Patches |-> RMul(pp[p], E[1][p])]
    ELSE LET prev == FwdVec(pp, T, E, kk - 1)
         IN  [p \in Patches |-> RMul(RAdd(RMul(prev[1], T[1][p]), RMul(prev[2], T[2][p])), E[kk][p])]
HmmLikE(pp, T, E) == LET f == FwdVec(pp, T, E, Len(E)) IN RAdd(f[1], f[2])
HmmLik(c, cols) == HmmLikE(PTable(c), TTable(c), ETable(c, cols))
(* first principles: explicit sum over every path of patches *)
RECURSIVE PathWeight(_, _, _, _, _)
PathWeight(pp, T, E, z, kk) ==
    IF kk = 1 THEN RMul(pp[z[1]], E[1][z[1]])
    ELSE RMul(PathWeight(pp, T, E, z, kk - 1), RMul(T[z[kk - 1]][z[kk]], E[kk][z[kk]]))
HmmBrute(c, cols) == LET Z == [1..Len(cols) -> Patches]
                         E == ETable(c, cols)
                         T == TTable(c)
                         pp == PTable(c)
                     IN  RSumSet(Z, [z \in Z |-> PathWeight(pp, T, E, z, Len(cols))])
RECURSIVE RProdSeq(_)
RProdSeq(s) == IF s = <<>> THEN One ELSE RMul(Head(s), RProdSeq(Tail(s)))

(* every column over the four canonical states: a function Leaves -> Nuc, as a column *)
CanonCols(c) == {[n \in Nodes(c) |-> IF n \in Leaves(c) THEN f[n] ELSE "N"] : f \in [Leaves(c) -> Nuc]}
ColOf(c, seqcol) == [n \in Nodes(c) |-> IF n \in Leaves(c) THEN seqcol[n] ELSE "N"]

VARIABLES k
vars == <<k>>
Init == k = 1
Cfg == Configs[IF k <= Len(Configs) THEN k ELSE Len(Configs)]

(* the columns of a configuration's alignment: c.cols is a sequence of columns, each a
   function from leaf node to symbol *)
StepT == k <= Len(Configs) /\ k' = k + 1
Step == StepT /\ Emit([act |-> "Lik", id |-> Cfg.id, newick |-> Cfg.newick, leafname |-> Cfg.leafname,
                       edges |-> {<<Cfg.edgename[n], PInstances[Cfg.inst[n]].name, PInstances[Cfg.inst[n]].par,
                                    PInstances[Cfg.inst[n]].ky, PInstances[Cfg.inst[n]].kr,
                                    Mu(PInstances[Cfg.inst[n]]), PInstances[Cfg.inst[n]].n1, RPow(Cfg.s[n], Cfg.qpow)>> : n \in Nodes(Cfg) \ {1}},
                       model |-> PInstances[Cfg.rootinst].name,
                       pi |-> {<<x, RootPi(Cfg, x)>> : x \in Nuc},
                       bprobs |-> Cfg.bprobs, mult |-> Cfg.mult, qpow |-> Cfg.qpow,
                       hmm |-> Cfg.hmm, switch |-> Cfg.switch, loci |-> Cfg.loci,
                       loccols |-> [l \in 1..Len(Cfg.loccols) |-> [i \in 1..Len(Cfg.loccols[l]) |-> [n \in Leaves(Cfg) |-> Cfg.loccols[l][i][n]]]],
                       loclik |-> [l \in 1..Len(Cfg.loccols) |-> [i \in 1..Len(Cfg.loccols[l]) |-> SiteB(Cfg, ColOf(Cfg, Cfg.loccols[l][i]), l)]],
                       binpar |-> [b \in 1..Len(Cfg.bininst) |-> <<PInstances[Cfg.bininst[b]].par, PInstances[Cfg.bininst[b]].ky>>],
                       alnlik |-> IF Cfg.hmm THEN HmmLik(Cfg, [i \in 1..Len(Cfg.cols) |-> ColOf(Cfg, Cfg.cols[i])]) ELSE Zero,
                       cols |-> [i \in 1..Len(Cfg.cols) |-> [n \in Leaves(Cfg) |-> Cfg.cols[i][n]]],
                       lik |-> [i \in 1..Len(Cfg.cols) |-> Site(Cfg, ColOf(Cfg, Cfg.cols[i]))]])
Spec == Init /\ [][Step]_vars

------------------------------------------------------------------------------
(* design-level theorems, exact *)
PruningIsSumProduct ==
    \A i \in 1..Len(Cfg.cols) : i <= Cfg.nbrute => Site(Cfg, ColOf(Cfg, Cfg.cols[i])) = Brute(Cfg, ColOf(Cfg, Cfg.cols[i]))
ColumnsSumToOne ==
    Cfg.normalise => RSumSet(CanonCols(Cfg), [col \in CanonCols(Cfg) |-> Site(Cfg, col)]) = One
(* an all-ambiguous column has likelihood one; likelihood is monotone in the leaf sets *)
AllAmbiguousIsOne == Site(Cfg, [n \in Nodes(Cfg) |-> "N"]) = One
(* site-HMM theorems (configurations with hmm = TRUE) *)
HCols == [i \in 1..Len(Cfg.cols) |-> ColOf(Cfg, Cfg.cols[i])]
ForwardIsPathSum == Cfg.hmm => HmmLik(Cfg, HCols) = HmmBrute(Cfg, HCols)
PatchChainStochastic == Cfg.hmm =>
    /\ \A i \in Patches : RAdd(Trans(Cfg, i, 1), Trans(Cfg, i, 2)) = One
    /\ \A j \in Patches : RAdd(RMul(PatchProb(Cfg, 1), Trans(Cfg, 1, j)), RMul(PatchProb(Cfg, 2), Trans(Cfg, 2, j))) = PatchProb(Cfg, j)
(* switch = 1 is the independent mixture, switch = 0 puts the whole alignment in one patch *)
SwitchOneIsIndependent == Cfg.hmm =>
    HmmLik([Cfg EXCEPT !.switch = One], HCols) = RProdSeq([i \in 1..Len(HCols) |-> Site(Cfg, HCols[i])])
SwitchZeroIsOnePatch == Cfg.hmm =>
    HmmLik([Cfg EXCEPT !.switch = Zero], HCols) =
        RSumSet(Patches, [p \in Patches |-> RMul(PatchProb(Cfg, p), RProdSeq([i \in 1..Len(HCols) |-> Emis(Cfg, HCols[i], p)]))])
(* the classes of a configuration share each edge's LENGTH: mult[b] * mu_b * n1_b = qpow * mu_edge * n1_edge *)
BinLengthsConsistent == (Cfg.hmm /\ Cfg.bininst # <<>>) =>
    \A n \in Nodes(Cfg) \ {1} : \A b \in 1..NBins(Cfg) :
        RMul(R(Cfg.mult[b] * PInstances[Cfg.bininst[b]].n1, 1), Mu(PInstances[Cfg.bininst[b]]))
          = RMul(R(Cfg.qpow * PInstances[Cfg.inst[n]].n1, 1), Mu(PInstances[Cfg.inst[n]]))
(* Several LOCI (loci = TRUE): each locus has its own alignment (loccols[l]) and its own model instance           *)
(* (bininst[l], base s^mult[l]: the tree and its branch lengths are shared); loci are independent, so the         *)
(* likelihood of the data set is the product over loci of the products over their columns, and every locus is a   *)
(* probability distribution over its columns.                                                                     *)
LociNormalised == (Cfg.loci /\ Cfg.normalise) =>
    \A l \in 1..Len(Cfg.loccols) : RSumSet(CanonCols(Cfg), [col \in CanonCols(Cfg) |-> SiteB(Cfg, col, l)]) = One
LociLengthsConsistent == Cfg.loci =>
    \A n \in Nodes(Cfg) \ {1} : \A l \in 1..Len(Cfg.loccols) :
        RMul(R(Cfg.mult[l] * PInstances[Cfg.bininst[l]].n1, 1), Mu(PInstances[Cfg.bininst[l]]))
          = RMul(R(Cfg.qpow * PInstances[Cfg.inst[n]].n1, 1), Mu(PInstances[Cfg.inst[n]]))
(* all alignments of two canonical columns have total probability one *)
HmmSumsToOne == (Cfg.hmm /\ Cfg.normalise) =>
    LET CC == CanonCols(Cfg)
        EC == [col \in CC |-> [p \in Patches |-> Emis(Cfg, col, p)]]
        T  == TTable(Cfg)
        pp == PTable(Cfg)
    IN  RSumSet(CC \X CC, [pr \in CC \X CC |-> HmmLikE(pp, T, <<EC[pr[1]], EC[pr[2]]>>)]) = One
=============================================================================
