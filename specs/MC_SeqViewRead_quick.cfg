SPECIFICATION Spec
CONSTANTS
  Roots <- RootsQuick
  Offsets = {0, 5}
  Steps <- StepsTwo
  CmpEvery = 2
  CmpSteps <- CmpFew
INVARIANT TypeOK
INVARIANT CountsPartition
INVARIANT CountsMonotone
INVARIANT KmersLaw
INVARIANT GapLaw
INVARIANT TerminiLaw
INVARIANT RcLaw
INVARIANT OrderLaw
INVARIANT WindowLaw
INVARIANT FastaLaw
INVARIANT TranslateLaw
