SPECIFICATION TSpec
CONSTANT Configs <- AllInvConfigs
INVARIANT RootInvariance
INVARIANT SplitInvariance
INVARIANT ScopeIsRootFree
