SPECIFICATION TSpec
CONSTANT Configs <- AllConfigs
INVARIANT RootInvariance
INVARIANT SplitInvariance
