SPECIFICATION Spec
CONSTANTS
  NSeq = 2
  NCol = 0
  Syms = {"A", "C", "G", "T", "R", "N", "-"}
  Mode = "blocks"
  DiagSet <- DiagSingular
  OffSize = 3
  OffMults = {3}
  NCBlocks <- NCNone
INVARIANT TypeOK
INVARIANT Symmetric
INVARIANT ZeroDiagonal
INVARIANT ClassesSymmetric
INVARIANT ScaleInvariant
INVARIANT ShortcutSound
INVARIANT ShortcutKeepsComputed
