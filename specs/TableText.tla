----------------------------- MODULE TableText -----------------------------
(* Property C20, second half: a table written as delimited text (or JSON /   *)
(* pickle) and loaded back has the same header and the same cell text, with   *)
(* numeric columns restored as numbers.                                       *)
(*                                                                            *)
(* Text is a sequence of one-character strings.  Three character-level models *)
(* are transcribed from the code:                                             *)
(*   CsvFile   Python's csv.writer (excel dialect, lineterminator "\n") as    *)
(*             used by Table.write for csv/tsv                                *)
(*   SepFile   cogent3.format.table.separator_format (one-character          *)
(*             separator) as used by to_csv, to_tsv and to_string(sep=...)    *)
(*   Parse     Python's csv.reader (excel dialect, non strict) as used by     *)
(*             parse.table.load_delimited                                     *)
(* Group "design": TLC enumerates every small table of text over an alphabet  *)
(* containing the separators, the quote and the newline and checks            *)
(*   CsvWriterLossless     Parse(CsvFile(t)) = t            for all t         *)
(*   SepFormatLossless     Parse(SepFile(t)) = t            for all t         *)
(* (the second failed, with an embedded-quote counterexample, until           *)
(* separator_format was repaired; see known_findings.d/C20.txt).  Each table  *)
(* is emitted with the three model outputs so that the harness can compare    *)
(* them with the real csv.writer, csv.reader and separator_format.            *)
(* Group "io": typed tables (cells <<tag, chars>> as in Table.tla) x output   *)
(* path; the action states what the property demands of load_table(write(t)). *)
EXTENDS Naturals, FiniteSets, Sequences, SequencesExt, TLC, Emit

CONSTANTS Profile,   \* "quick" | "thorough"
          Group      \* "design" | "io"

VARIABLES tab, res, done
vars == <<tab, res, done>>

Q  == "\""
NL == "\n"
TAB == "\t"
COMMA == ","
Seps == {COMMA, TAB}

Map(s, Op(_)) == [i \in 1..Len(s) |-> Op(s[i])]
Has(chars, c) == \E i \in 1..Len(chars) : chars[i] = c

RECURSIVE JoinWith(_, _)
JoinWith(parts, sep) == IF parts = <<>> THEN <<>>
                        ELSE IF Len(parts) = 1 THEN parts[1]
                        ELSE parts[1] \o <<sep>> \o JoinWith(Tail(parts), sep)

Concat(parts) == FoldLeft(LAMBDA acc, p : acc \o p, <<>>, parts)

-----------------------------------------------------------------------------
(* csv.writer, QUOTE_MINIMAL: a field is quoted iff it contains the delimiter, *)
(* the quote character or a line terminator character; quotes are doubled; a  *)
(* record consisting of one empty field is written as "" (two quotes)         *)
CsvNeedsQuote(f, sep) == Has(f, sep) \/ Has(f, Q) \/ Has(f, NL)
CsvEscape(f) == FoldLeft(LAMBDA acc, c : IF c = Q THEN acc \o <<Q, Q>> ELSE Append(acc, c), <<>>, f)
CsvField(f, sep) == IF CsvNeedsQuote(f, sep) THEN <<Q>> \o CsvEscape(f) \o <<Q>> ELSE f
CsvRecord(r, sep) == IF r = <<<<>>>> THEN <<Q, Q, NL>>
                     ELSE JoinWith(Map(r, LAMBDA f : CsvField(f, sep)), sep) \o <<NL>>
CsvFile(rows, sep) == Concat(Map(rows, LAMBDA r : CsvRecord(r, sep)))

(* separator_format with a one-character separator: header and rows are written *)
(* with csv.writer (since the fix of the unescaped-quote defects); the function  *)
(* strips the final newline and Table.write / the caller adds it back             *)
SepFile(rows, sep) == CsvFile(rows, sep)

(* csv.reader over the lines of a text file.  States of CPython's _csv.c:     *)
(*   SR start of record, SF start of field, IF in unquoted field,             *)
(*   IQ in quoted field, QQ quote seen inside a quoted field                  *)
(* A newline outside quotes ends the record; inside quotes it is data.        *)
P0 == [st |-> "SR", fld |-> <<>>, row |-> <<>>, rows |-> <<>>]
SaveField(p) == [p EXCEPT !.row = Append(p.row, p.fld), !.fld = <<>>]
EndRecord(p) == [st |-> "SR", fld |-> <<>>, row |-> <<>>, rows |-> Append(p.rows, p.row)]
StartField(p, c, sep) ==
    IF c = NL THEN EndRecord(SaveField(p))
    ELSE IF c = Q THEN [p EXCEPT !.st = "IQ"]
    ELSE IF c = sep THEN [SaveField(p) EXCEPT !.st = "SF"]
    ELSE [p EXCEPT !.fld = Append(@, c), !.st = "IF"]
ParseStep(p, c, sep) ==
    CASE p.st = "SR" -> IF c = NL THEN EndRecord(p) ELSE StartField(p, c, sep)   \* an empty line is the record []
      [] p.st = "SF" -> StartField(p, c, sep)
      [] p.st = "IF" -> IF c = NL THEN EndRecord(SaveField(p))
                        ELSE IF c = sep THEN [SaveField(p) EXCEPT !.st = "SF"]
                        ELSE [p EXCEPT !.fld = Append(@, c)]                      \* a quote here is data
      [] p.st = "IQ" -> IF c = Q THEN [p EXCEPT !.st = "QQ"] ELSE [p EXCEPT !.fld = Append(@, c)]
      [] p.st = "QQ" -> IF c = Q THEN [p EXCEPT !.fld = Append(@, Q), !.st = "IQ"]
                        ELSE IF c = sep THEN [SaveField(p) EXCEPT !.st = "SF"]
                        ELSE IF c = NL THEN EndRecord(SaveField(p))
                        ELSE [p EXCEPT !.fld = Append(@, c), !.st = "IF"]
ParseEnd(p) == IF p.st = "SR" THEN p.rows ELSE Append(p.rows, Append(p.row, p.fld))
Parse(file, sep) == ParseEnd(FoldLeft(LAMBDA p, c : ParseStep(p, c, sep), P0, file))

-----------------------------------------------------------------------------
(* Group "design": tables of text; rows[1] is the header                      *)

SP == " "
Alphabet == {"a", SP, COMMA, TAB, Q, NL}      \* the blank is data: RFC 4180 readers keep it
CellsUpTo(n) == UNION {[1..k -> Alphabet] : k \in 0..n}
hH == <<"h">>
hG == <<"g">>
pA == <<"a">>

(* the universe of the design group, as an initial-state predicate (no large set is built) *)
DesignInit ==
    LET small == CellsUpTo(2)
        mid   == CellsUpTo(IF Profile = "quick" THEN 2 ELSE 3)
        long  == CellsUpTo(IF Profile = "quick" THEN 3 ELSE 4)
    IN  \/ \E h \in small, c \in small : tab = <<<<h>>, <<c>>>>                  \* 1 x 1, header varies
        \/ \E c \in long : tab = <<<<hH>>, <<c>>>>                              \* 1 x 1, longer cell
        \/ \E c \in mid, d \in small : \/ tab = <<<<hH, hG>>, <<c, d>>>>        \* 2 columns
                                        \/ tab = <<<<hH, hG>>, <<d, c>>>>
                                        \/ tab = <<<<c, d>>, <<pA, pA>>>>        \* 2 header cells
                                        \/ tab = <<<<d, c>>, <<pA, pA>>>>
                                        \/ tab = <<<<hH>>, <<c>>, <<d>>>>        \* 2 rows
                                        \/ tab = <<<<hH>>, <<d>>, <<c>>>>
        \/ tab = <<<<hH>>>>                                                    \* no rows

RoundTrips(rows, file, sep) == Parse(file, sep) = rows

CsvWriterLossless == \A sep \in Seps : RoundTrips(tab, CsvFile(tab, sep), sep)

(* to_csv / to_tsv / to_string(sep=...) text is lossless as well *)
SepFormatLossless == \A sep \in Seps : RoundTrips(tab, SepFile(tab, sep), sep)

-----------------------------------------------------------------------------
(* Group "io": typed tables, cells <<tag, chars>>                             *)

None == <<"n", <<>>>>
Tag(c) == c[1]
Txt(c) == c[2]
I(s) == <<"i", s>>
F(s) == <<"f", s>>
S(s) == <<"s", s>>
cTrue  == <<"b", <<"T","r","u","e">>>>
cFalse == <<"b", <<"F","a","l","s","e">>>>

RECURSIVE Prod(_)
Prod(doms) == IF doms = <<>> THEN {<<>>}
              ELSE {<<x>> \o r : x \in Head(doms), r \in Prod(Tail(doms))}

PlainStrs == {S(<<"a">>), S(<<"1","0">>), S(<<"T","r","u","e">>)}
SpecialStrs == {S(<<>>),
                S(<<"a", COMMA, "b">>),
                S(<<"a", TAB, "b">>),
                S(<<Q, "q", Q>>),
                S(<<"a", Q, "b">>),
                S(<<"a", Q, "b", COMMA, "c">>),
                S(<<"a", Q, TAB, "c">>),
                S(<<"a", " ", "b">>),
                S(<<" ", "a">>),                 \* leading blank
                S(<<"a", " ">>),                 \* trailing blank
                S(<<" ", "a", " ", "b", " ">>),
                S(<<" ">>),                      \* only blanks
                S(<<" ", " ">>),
                S(<<"a", NL, "b">>)}
IntsIO   == {I(<<"0">>), I(<<"1","0">>)}
FloatsIO == {F(<<"0",".","5">>), F(<<"1",".","5">>)}
(* numbers whose text is not digits-point-digits: non-finite, negative, negative zero, exponent *)
(* notation (the text is python's repr of the float, which is what csv.writer writes)           *)
NonFinite == {F(<<"n","a","n">>), F(<<"i","n","f">>), F(<<"-","i","n","f">>)}
ExpFloats == {F(<<"1","e","-","0","7">>)}
FloatsX == NonFinite \cup ExpFloats \cup {F(<<"1",".","5">>), F(<<"-","2",".","2","5">>), F(<<"-","0",".","0">>)}
IntsX   == {I(<<"0">>), I(<<"-","3">>), I(<<"1","0","0","0","0","0","0","0","0","0","0","0","0","0","0","0","0","0">>)}
HasExp(t) == {i \in 1..Len(t.rows) : {j \in 1..Len(t.header) : t.rows[i][j] \in ExpFloats} # {}} # {}
BoolsIO  == {cTrue, cFalse}

MaxRowsIO == IF Profile = "quick" THEN 2 ELSE 3

(* a cell is special when some writer has to treat it specially *)
Special(chars) == chars = <<>> \/ \E c \in {COMMA, TAB, Q, NL, " "} : Has(chars, c)
NumSpecial(t) == Cardinality({j \in 1..Len(t.header) : Special(t.header[j])})
                 + Cardinality({<<i, j>> \in (1..Len(t.rows)) \X (1..Len(t.header)) :
                                   Tag(t.rows[i][j]) = "s" /\ Special(Txt(t.rows[i][j]))})

TablesOf(names, doms, lo, hi) ==
    {[header |-> names, rows |-> rs] : rs \in UNION {[1..n -> Prod(doms)] : n \in lo..hi}}

(* sequences of length n over a set, as tuples *)
SeqsOf(set, n) == [1..n -> set]

(* str/int tables with at most one special str cell, built constructively *)
Swap(r) == <<r[2], r[1]>>
PlainRows(sw)   == {IF sw THEN Swap(r) ELSE r : r \in Prod(<<PlainStrs, IntsIO>>)}
SpecialRows(sw) == {IF sw THEN Swap(r) ELSE r : r \in Prod(<<SpecialStrs, IntsIO>>)}
(* sw = FALSE: columns (s, k); sw = TRUE: columns (k, s), the str column is not the first *)
OneSpecialTables(sw) ==
    LET hdr == IF sw THEN <<<<"k">>, <<"s">>>> ELSE <<<<"s">>, <<"k">>>> IN
    UNION {{[header |-> hdr, rows |-> rs] : rs \in SeqsOf(PlainRows(sw), n)} : n \in 0..MaxRowsIO}
    \cup UNION {UNION {{[header |-> hdr, rows |-> pre \o <<sr>> \o suf] :
                           pre \in SeqsOf(PlainRows(sw), p - 1), sr \in SpecialRows(sw), suf \in SeqsOf(PlainRows(sw), n - p)} :
                        p \in 1..n} : n \in 1..MaxRowsIO}

IOTables(profile) ==      \* (a parameter keeps TLC from building the set when it is not used)
    OneSpecialTables(FALSE) \cup OneSpecialTables(TRUE)
    \cup TablesOf(<<<<"f">>, <<"b">>, <<"m">>>>, <<FloatsIO, BoolsIO, {None, S(<<"a">>)}>>, 0, MaxRowsIO)
    \cup UNION {TablesOf(<<h, <<"x">>>>, <<IntsIO, {S(<<"a">>)}>>, 1, 1) :
                   h \in {<<"a", COMMA, "b">>, <<"t", TAB, "u">>, <<"q", Q, "r">>, <<Q, "h", Q>>, <<"a", " ", "b">>}}
    \cup TablesOf(<<<<"s">>>>, <<{S(<<>>), S(<<"a">>), S(<<" ">>), S(<<" ", "a">>)}>>, 0, 2)
    \cup TablesOf(<<<<"k">>>>, <<IntsIO>>, 0, 2)
    \cup TablesOf(<<<<"m">>, <<"k">>>>, <<{None, I(<<"0">>)}, IntsIO>>, 1, 2)
    \* numeric restoration: every such value at every row position (also the first), all-non-finite columns
    \cup TablesOf(<<<<"f">>, <<"k">>>>, <<FloatsX, IntsX>>, 1, MaxRowsIO)
    \cup TablesOf(<<<<"f">>>>, <<NonFinite \cup {F(<<"1",".","5">>)}>>, 1, 3)

Paths == {"tsv", "csv", "tsv.gz", "csv.gz", "json", "pickle", "to_csv", "to_tsv", "writer"}
(* "writer": Table.write(path.tsv, writer=separator_formatter(sep="\t")), a caller supplied line formatter *)
SepOf(path) == IF path \in {"tsv", "tsv.gz", "to_tsv", "writer"} THEN TAB ELSE COMMA
Delimited(path) == path \notin {"json", "pickle"}
ViaWriter(path) == path \in {"tsv", "csv", "tsv.gz", "csv.gz"}

(* What the property demands of load_table(write(t)): the same header text and, cell by cell, *)
(* the same text; i/f cells must come back as numbers.  Delimited text has no notation for a  *)
(* missing value: it comes back as one of the texts in `missing`.                             *)
Demanded(t, path) == [header |-> t.header, rows |-> t.rows,
                      missing |-> IF Delimited(path) THEN {<<>>, <<"N","o","n","e">>} ELSE {}]

(* the text each writer is given for a cell *)
WriterText(c) == Txt(c)                                   \* csv.writer: str(value), None -> ""
WriterLineText(c) == IF Tag(c) = "n" THEN <<"N","o","n","e">> ELSE Txt(c)
DotAt(chars) == IF Has(chars, ".") THEN CHOOSE i \in 1..Len(chars) : chars[i] = "." ELSE 0
FormatText(c) == CASE Tag(c) = "f" ->                                 \* digits=4 display format ("%.4f")
                        IF DotAt(Txt(c)) = 0 THEN Txt(c)              \* nan, inf
                        ELSE Txt(c) \o [i \in 1..(4 - (Len(Txt(c)) - DotAt(Txt(c)))) |-> "0"]
                   [] Tag(c) = "n" -> <<"N","o","n","e">>
                   [] OTHER -> Txt(c)
TextRows(t, Conv(_)) == <<t.header>> \o Map(t.rows, LAMBDA r : Map(r, Conv))

ModelFile(t, path) ==
    IF ViaWriter(path) THEN CsvFile(TextRows(t, WriterText), SepOf(path))
    ELSE IF path = "writer"       \* "%s" of every value, joined by the separator, lines joined by "\n"
         THEN JoinWith(Map(TextRows(t, WriterLineText), LAMBDA r : JoinWith(r, TAB)), NL)
    ELSE IF Delimited(path) THEN SepFile(TextRows(t, FormatText), SepOf(path))
    ELSE <<>>
(* does the character-level model predict that the text survives? *)
ModelOK(t, path) ==
    IF ViaWriter(path) THEN RoundTrips(TextRows(t, WriterText), ModelFile(t, path), SepOf(path))
    ELSE IF path = "writer" THEN RoundTrips(TextRows(t, WriterLineText), ModelFile(t, path), TAB)
    ELSE IF Delimited(path) THEN RoundTrips(TextRows(t, FormatText), ModelFile(t, path), SepOf(path))
    ELSE TRUE

(* structural class of a case: where the one special cell is and what it contains *)
CharClass(chars, sep) ==
    IF chars = <<>> THEN "empty"
    ELSE IF Has(chars, NL) THEN "newline"
    ELSE IF Has(chars, sep) /\ Has(chars, Q) THEN "sep+quote"
    ELSE IF chars[1] = Q THEN "leading-quote"
    ELSE IF Has(chars, Q) THEN "inner-quote"
    ELSE IF Has(chars, sep) THEN "sep"
    ELSE IF \A i \in 1..Len(chars) : chars[i] = " " THEN "blank-only"
    ELSE IF chars[1] = " " \/ chars[Len(chars)] = " " THEN "edge-blank"
    ELSE IF Has(chars, " ") THEN "inner-blank"
    ELSE "plain"
CaseClass(t, path) ==
    LET sep == SepOf(path)
        hs == {j \in 1..Len(t.header) : Special(t.header[j])}
        cs == {<<i, j>> \in (1..Len(t.rows)) \X (1..Len(t.header)) :
                  Tag(t.rows[i][j]) = "s" /\ Special(Txt(t.rows[i][j]))}
    IN [where |-> IF hs # {} THEN "header" ELSE IF cs # {} THEN "cell" ELSE "none",
        class |-> IF hs # {} THEN CharClass(t.header[CHOOSE j \in hs : TRUE], sep)
                  ELSE IF cs # {} THEN LET p == CHOOSE p \in cs : TRUE IN CharClass(Txt(t.rows[p[1]][p[2]]), sep)
                  ELSE "plain",
        rows  |-> IF Len(t.rows) = 0 THEN "zero-rows" ELSE "rows",
        cols  |-> IF Len(t.header) = 1 THEN "one-column" ELSE "columns",
        missing |-> \E i \in 1..Len(t.rows) : \E j \in 1..Len(t.header) : t.rows[i][j] = None]

-----------------------------------------------------------------------------
(* to_csv / to_tsv round floats to 4 decimals (display format): exponent values are not exact there. *)
(* A caller supplied line writer does no quoting: it is given tables without special cells.           *)
PathApplies(t, path) ==
    /\ path \in {"to_csv", "to_tsv"} => ~HasExp(t)
    /\ path = "writer" => (NumSpecial(t) = 0 /\ Len(t.rows) >= 1)

Once(result) == ~done /\ done' = TRUE /\ res' = result /\ UNCHANGED tab

(* design group: the three model outputs for one table and one separator *)
TextModelsT(sep) == Once([csv_file |-> CsvFile(tab, sep), sep_file |-> SepFile(tab, sep),
                          sep_parse |-> Parse(SepFile(tab, sep), sep),
                          sep_ok |-> RoundTrips(tab, SepFile(tab, sep), sep)])
TextModels(sep) == TextModelsT(sep) /\ Emit([from |-> tab, act |-> "TextModels", args |-> <<sep>>, to |-> res'])

(* io group: write to `path`, load back *)
RoundTripT(path) == Once(Demanded(tab, path))
RoundTrip(path)  == RoundTripT(path) /\
    Emit([from |-> tab, act |-> "RoundTrip", args |-> <<path>>, to |-> res',
          model |-> [file |-> ModelFile(tab, path), ok |-> ModelOK(tab, path)],
          cls |-> CaseClass(tab, path)])

CheckLaws == Once([laws |-> TRUE])

Init == /\ done = FALSE
        /\ res = [init |-> TRUE]
        /\ IF Group = "design" THEN DesignInit ELSE tab \in IOTables(Profile)

Next == /\ ~done
        /\ \/ Group = "design" /\ \E sep \in Seps : TextModels(sep)
           \/ Group = "design" /\ CheckLaws
           \/ Group = "io" /\ \E path \in Paths : PathApplies(tab, path) /\ RoundTrip(path)
           \/ Group = "io" /\ CheckLaws

Spec == Init /\ [][Next]_vars

-----------------------------------------------------------------------------
(* laws are evaluated on the designated successor so that TLC's workers share the work *)
AtLaws == done /\ "laws" \in DOMAIN res
LawCsvWriterLossless == (AtLaws /\ Group = "design") => CsvWriterLossless
LawSepFormatLossless == (AtLaws /\ Group = "design") => SepFormatLossless

(* io group: the csv.writer path is predicted lossless for every typed table (missing -> "") *)
LawWriterPathLossless ==
    (AtLaws /\ Group = "io") => \A path \in {"tsv", "csv"} : ModelOK(tab, path)
=============================================================================
