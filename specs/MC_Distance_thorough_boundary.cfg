SPECIFICATION Spec
CONSTANTS
  NSeq = 2
  NCol = 0
  Syms = {"A", "C", "G", "T", "R", "N", "-"}
  Mode = "blocks"
  DiagSet <- DiagBoundary
  OffSize = 3
  OffMults = {1, 2, 3}
  NCBlocks <- NCNone
INVARIANT TypeOK
INVARIANT Symmetric
INVARIANT ZeroDiagonal
INVARIANT ClassesSymmetric
INVARIANT ScaleInvariant
INVARIANT ShortcutSound
INVARIANT ShortcutKeepsComputed
