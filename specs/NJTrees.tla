------------------------------ MODULE NJTrees ------------------------------
(* Generators for property C15: every labelled binary tree on a tip set, and  *)
(* exact rational helpers.  Shared by NJ.tla (unrooted trees) and UPGMA.tla   *)
(* (rooted trees).                                                            *)
(*                                                                            *)
(* A binary tree on the tips first-1, first, ..., n that is hung from the     *)
(* pendant tip first-1 (the "anchor") is the laminar family of its clades:    *)
(* one clade C \subseteq first..n per edge = the tips on the far side of that *)
(* edge as seen from the anchor.  The clade first..n is the anchor's own      *)
(* pendant edge.  For NJ the anchor is tip 1 (first = 2): the family is an    *)
(* unrooted tree on 1..n, a clade is the side of a split that does not hold   *)
(* tip 1.  For UPGMA the anchor is a virtual root (first = 1): the family is  *)
(* a rooted tree on 1..n and the clade 1..n is the root itself (no edge).     *)
EXTENDS Naturals, Integers, FiniteSets, Sequences, TLC

(* hang tip k in the middle of the edge with clade E *)
Insert(T, E, k) ==
    {C \in T : ~(E \subseteq C)}
    \cup {C \cup {k} : C \in {X \in T : E \subseteq X /\ X # E}}
    \cup {E, E \cup {k}, {k}}

RECURSIVE Families(_, _)
Families(first, k) ==
    IF k = first + 1
    THEN {{{first}, {first + 1}, {first, first + 1}}}
    ELSE UNION {{Insert(T, E, k) : E \in T} : T \in Families(first, k - 1)}

(* ---- sums ------------------------------------------------------------------ *)
RECURSIVE SumF(_, _)          \* sum of f[x] over x \in S
SumF(S, f) == IF S = {} THEN 0
              ELSE LET x == CHOOSE y \in S : TRUE IN f[x] + SumF(S \ {x}, f)

(* ---- exact rationals <<num, den>>, den > 0 ------------------------------------ *)
RECURSIVE Gcd(_, _)
Gcd(a, b) == IF b = 0 THEN a ELSE Gcd(b, a % b)
Abs(x) == IF x < 0 THEN 0 - x ELSE x
Reduce(q) == LET g == Gcd(Abs(q[1]), q[2]) IN IF g = 0 THEN q ELSE <<q[1] \div g, q[2] \div g>>
RSub(p, q) == Reduce(<<p[1] * q[2] - q[1] * p[2], p[2] * q[2]>>)
RLess(p, q) == p[1] * q[2] < q[1] * p[2]
Max0(q) == IF q[1] < 0 THEN <<0, 1>> ELSE Reduce(q)       \* max(0.0, length)
=============================================================================
