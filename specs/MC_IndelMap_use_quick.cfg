SPECIFICATION UseSpec
CONSTANTS
  MaxLen = 5
  MaxBin = 5
  Scales = {1}
  SegsLen = 5
  MaxSegs = 2
  EmptySegsUpTo = 3
  UseLen = 5
  DeepLen = 4
  PairLen = 4
INVARIANT TypeOK
INVARIANT CigarLaw
INVARIANT SeqSliceLaw
INVARIANT AlnSliceLaw
INVARIANT EntLaw
INVARIANT TermLaw
