---------------------------- MODULE Trace_AnnotDb ----------------------------
(* code -> spec: validates executions recorded from real BasicAnnotationDb /  *)
(* GffAnnotationDb / GenbankAnnotationDb objects (seeded random drivers making *)
(* long call sequences) against AnnotDb.tla.  TRACE_FILE holds a JSON array of *)
(* traces; each trace is an array of events                                    *)
(*    [op |-> "AddFeature" | "AddRow" | "Query" | "Subset" | "Union" |         *)
(*            "Update" | "Copy" | "Pickle" | "Json" | "WriteLoad",             *)
(*     args |-> <<...>>,           the arguments, shaped as in AnnotDb.tla     *)
(*     ret  |-> <<records>>,       what a query returned (queries only)        *)
(*     post |-> <<records>>]       every record the object in use holds after  *)
(*                                 the call (for Subset/Union/round trips: the *)
(*                                 NEW object, which the driver continues with)*)
(* Records are logged as [seqid, biotype, name, strand, attr, spans, start,    *)
(* stop] in database order.  An event is accepted iff the named AnnotDb action *)
(* with the logged arguments is enabled and yields, as a MULTISET, exactly the *)
(* logged records (and, for a query, the logged result is exactly the linear   *)
(* scan's selection).  A rejected event is recorded and the rest of its trace  *)
(* skipped; the verdict is printed in the final state.                         *)
EXTENDS AnnotDb, TLCExt

Traces == JsonDeserialize(IOEnv.TRACE_FILE)

VARIABLES tid, l, bad
tvars == <<bag, tid, l, bad>>

Ev == Traces[tid][l]

(* the observable part of a model record / of a logged record *)
ProjM(r) == <<r.seqid, r.biotype, r.name, r.strand, r.attr, r.spans, Start(r), Stop(r)>>
ProjE(x) == <<x.seqid, x.biotype, x.name, x.strand, x.attr, x.spans, x.start, x.stop>>
Count(s, v) == Cardinality({j \in DOMAIN s : s[j] = v})
SameBag(a, b) == Len(a) = Len(b) /\ \A i \in DOMAIN a : Count(a, a[i]) = Count(b, a[i])
ModelBag(b) == [i \in DOMAIN b |-> ProjM(b[i])]
LoggedBag(p) == [i \in DOMAIN p |-> ProjE(p[i])]

(* records of the *other* database as logged: [via, seqid, ..., spans] *)
AsRec(x) == Rec(x.via, x.seqid, x.biotype, x.name, x.strand, x.attr, x.spans)
AsRecs(xs) == [i \in DOMAIN xs |-> AsRec(xs[i])]
AsSet(s) == {s[i] : i \in DOMAIN s}

TraceInit == tid = 1 /\ l = 1 /\ bad = {} /\ bag = <<>>

Step(e) ==
    CASE e.op = "AddFeature" -> AddFeatureT(e.args[1])
      [] e.op = "AddRow"     -> AddRowT(e.args[1])
      [] e.op = "Query"      -> QueryT(e.args[1]) /\ SameBag(ModelBag(Select(bag, e.args[1])), LoggedBag(e.ret))
      [] e.op = "Subset"     -> SubsetT(e.args[1])
      [] e.op = "Union"      -> UnionT(AsRecs(e.args[1]))
      [] e.op = "Update"     -> UpdateT(AsRecs(e.args[1]), AsSet(e.args[2]))
      [] e.op \in {"Copy", "Pickle", "Json", "WriteLoad"} -> RoundTripT(e.op)
      [] OTHER               -> FALSE

Accept ==
    /\ tid <= Len(Traces) /\ l <= Len(Traces[tid])
    /\ Step(Ev) /\ SameBag(ModelBag(bag'), LoggedBag(Ev.post))
    /\ l' = l + 1 /\ UNCHANGED <<tid, bad>>

(* the logged event is not a behaviour of the spec: record it, abandon this trace *)
Reject ==
    /\ tid <= Len(Traces) /\ l <= Len(Traces[tid])
    /\ ~ ENABLED Accept
    /\ bad' = bad \cup {<<tid, l>>}
    /\ tid' = tid + 1 /\ l' = 1 /\ bag' = <<>>

NextTrace ==
    /\ tid <= Len(Traces) /\ l > Len(Traces[tid])
    /\ tid' = tid + 1 /\ l' = 1 /\ bag' = <<>>
    /\ UNCHANGED bad

TraceNext == Accept \/ Reject \/ NextTrace
TraceSpec == TraceInit /\ [][TraceNext]_tvars

Finished == tid = Len(Traces) + 1
(* evaluated in every state; prints the verdict once, in the final state *)
Report == Finished => PrintT(<<"TRACE-VERDICT", Len(Traces), bad>>)
=============================================================================
