SPECIFICATION Spec
CONSTANTS
  MinTips = 6
  MaxTips = 6
  ExhaustNodes = 0
  Patterns = {3}
  Ops = {"NewickRT", "NewickNamesRT", "NewickDefaultRT", "JsonRT", "RichDictRT", "Copy", "DeepCopy", "CopyModule", "DndRT", "Sorted", "SortedRev", "RootedAt", "RootedWithTip", "Unrooted", "SubTree", "RootAtMidpoint", "Prune", "Bifurcating", "Query"}
  TipsOnlyVals = {FALSE, TRUE}
  ShapeMod = 12
  ShapeRem = 0
  MaxLevel = 4
INVARIANT TreeOK
INVARIANT NamesUnique
PROPERTY CreatedNameIsFresh
PROPERTY StepPreserves
PROPERTY TipsIntended
PROPERTY MidpointCentred
PROPERTY RerootLandsThere
PROPERTY UnrootedDegree
INVARIANT ConnectingEdgesSpanThePath
INVARIANT ConnectingEdgesReverse
INVARIANT LCAIsLowest
INVARIANT CladeIsTheFarSideOfItsStem
PROPERTY CladeWithOutgroupIsRootFree
CONSTRAINT DepthBound
