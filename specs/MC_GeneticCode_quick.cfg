SPECIFICATION Spec
CONSTANTS
  TableCodes = {1, 2, 3, 4, 5, 6, 9, 10, 11, 12, 13, 14, 15, 16, 21, 22, 23, 24, 25, 26, 27, 28, 29, 30, 31, 32, 33}
  SeqCodes = {1, 2}
  MaxLen = 6
  OptLen = 3
  MaxCodons = 2
  PairCodons = 1
  OrfFamily = TRUE
  LongLens = {}
  SymLen = 2
INVARIANT TypeOK
INVARIANT RcInvolution
INVARIANT ComplementLaws
INVARIANT ComplementRcLaw
INVARIANT ReprIndependent
INVARIANT EncodeResolveInverse
INVARIANT SixFrameLaw
INVARIANT AnticodonFrameLaw
INVARIANT StopLaws
INVARIANT UniqueFrameFamily
INVARIANT LongLaw
INVARIANT CodonLaw
