SPECIFICATION Spec
CONSTANTS
  MaxLen = 4
  Formats = {"tsv", "csv.gz"}
INVARIANT WellFormed
PROPERTY ObservationsArePure
PROPERTY ReorderKeepsColumns
PROPERTY RefusedIsStuttering
