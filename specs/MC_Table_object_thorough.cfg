SPECIFICATION Spec
CONSTANTS
  MaxLen = 4
  Formats = {"tsv", "csv.gz", "json"}
INVARIANT WellFormed
PROPERTY ObservationsArePure
PROPERTY ReorderKeepsColumns
