--------------------------- MODULE Trace_Optimiser ---------------------------
(* Validates optimisation runs recorded from real Calculator objects           *)
(* (harness wrapper around Calculator.testoptparvector / change and            *)
(* ParameterController.optimise) against Optimiser.tla: each event must be a   *)
(* step of the spec and NeverLoses / WithinBounds must hold in every state.    *)
EXTENDS Optimiser, Json, IOUtils, TLCExt

Traces == JsonDeserialize(IOEnv.TRACE_FILE)
VARIABLES tid, l, bad
tvars == <<phase, start, best, final, evals, allin, tid, l, bad>>

TInit == Init /\ tid = 1 /\ l = 1 /\ bad = {}
Ev == Traces[tid][l]
StepOK(e) == CASE e.op = "start"  -> StartT(e.f)
               [] e.op = "eval"   -> EvalT(e.f, e.inb)
               [] e.op = "reject" -> RejectedT
               [] e.op = "finish" -> FinishT(e.f)
               [] OTHER -> FALSE
Obligations == (phase' = "done" => final' >= start') /\ allin'
Accept == /\ tid <= Len(Traces) /\ l <= Len(Traces[tid])
          /\ StepOK(Ev) /\ Obligations
          /\ l' = l + 1 /\ UNCHANGED <<tid, bad>>
Reject == /\ tid <= Len(Traces) /\ l <= Len(Traces[tid])
          /\ ~ ENABLED Accept
          /\ bad' = bad \cup {<<tid, l>>}
          /\ tid' = tid + 1 /\ l' = 1
          /\ phase' = "idle" /\ UNCHANGED <<start, best, final, evals, allin>>
NextTrace == /\ tid <= Len(Traces) /\ l > Len(Traces[tid])
             /\ tid' = tid + 1 /\ l' = 1 /\ phase' = "idle"
             /\ UNCHANGED <<start, best, final, evals, allin, bad>>
TNext == Accept \/ Reject \/ NextTrace
TSpec == TInit /\ [][TNext]_tvars
Finished == tid = Len(Traces) + 1
Report == Finished => PrintT(<<"TRACE-VERDICT", Len(Traces), bad>>)
=============================================================================
