-------------------------- MODULE AtomicWriteResume --------------------------
(* Property C19, resume clause: re-running an interrupted apply_to on the     *)
(* same output store processes only what is missing and ends with the same    *)
(* store as an uninterrupted run.                                             *)
(*                                                                            *)
(* Inputs 1..N are processed serially in this order.  Inputs in NC make the   *)
(* pipeline return NotCompleted (a not-completed record is written for them). *)
(* Per input the output store holds one record whose progress is              *)
(*   none        nothing on disk                                              *)
(*   rec_partial the record file exists, content incomplete (opened / mid-write)*)
(*   rec_nomd5   the record is complete, its checksum file does not exist     *)
(*   md5_partial the checksum file exists but is incomplete                   *)
(*   done        record and checksum as an uninterrupted run leaves them      *)
(* Run 1 is interrupted (KeyboardInterrupt raised by the k-th store write     *)
(* before it does anything, or a process kill between any two file-system    *)
(* calls), run 2 is apply_to on the same store opened in append mode.         *)
(*                                                                            *)
(* Configuration = how the store writes a record and how a re-run treats an   *)
(* existing not-completed record:                                             *)
(*   recwrite "inplace"  open(member,'w'); write; open(md5,'w'); write        *)
(*                       (current DataStoreDirectory._write)                  *)
(*            "atomic"   the record with its checksum appears in one step     *)
(*   skip     "exists"   an input is skipped iff its completed member exists  *)
(*                       (current _apply_to: `input_id in self.data_store`)   *)
(*            "complete" an input is skipped iff its record is done           *)
(*   ncrerun  "rewrite"  a not-completed record that already exists is        *)
(*                       replaced by the re-run (current _write)              *)
(*            "raises"   writing it raises in append mode (the behaviour of   *)
(*                       /repo between commits 235437ab4 and 37db8a758)       *)
(*            "skip"     inputs with a not-completed record are not re-run    *)
EXTENDS Naturals, FiniteSets, TLC, Emit

CONSTANTS N, NCSets, Configs   \* NCSets: the sets of failing inputs explored

VARIABLES cfg, idopt, NC, s, run, todo, cur, step, calls2, phase, at
vars == <<cfg, idopt, NC, s, run, todo, cur, step, calls2, phase, at>>

Ids == 1..N
RecStates == {"none", "rec_partial", "rec_nomd5", "md5_partial", "done"}

RCfg(n, w, sk, r) == [name |-> n, recwrite |-> w, skip |-> sk, ncrerun |-> r]
RCurrent  == RCfg("current", "inplace", "exists", "rewrite")
RRaising  == RCfg("raising", "inplace", "exists", "raises")
(* DataStoreSqlite + write_db: one row per input (record, checksum, completed flag) written by one  *)
(* statement; completed and not-completed records share the record id, so `input_id in store` also *)
(* skips inputs that already have a not-completed record (re-writing one would be refused in       *)
(* append mode, the only mode in which an existing sqlite store can be resumed)                     *)
RSqlite   == RCfg("sqlite", "atomic", "exists", "skip")
RIntended == RCfg("intended", "atomic", "complete", "rewrite")
RIntendedSkip == RCfg("intended_skip", "atomic", "complete", "skip")
CurrentConfigs == {RCurrent, RSqlite}
DirectoryConfigs == {RCurrent}
NCNone == {{}}
NCQuick == {{}, {2}}
NCThorough == {{}, {2}, {4}, {1, 3}}
IntendedConfigs == {RIntended, RIntendedSkip}
HoldingConfigs == IntendedConfigs \cup {RSqlite}   \* the resume property holds for these

------------------------------------------------------------------------------
(* The id_from_source OPTION.  The identifier under which the result of an input is stored, and under which a re-run  *)
(* asks "already done?", is made by ONE function: the id_from_source argument of apply_to ("makes the unique          *)
(* identifier from elements of dstore that will be used for writing results"), the default get_unique_id when it is    *)
(* left out.  The writer app has an option of the same name given at construction; it names the record only when the  *)
(* writer is called directly, under apply_to it has no effect.  Where the option is given is a dimension of every run: *)
(*   "default"  left out everywhere            "apply_to"  a custom function passed to apply_to                        *)
(*   "writer"   a custom function given to the writer's constructor only                                               *)
(*   "both"     two different custom functions, one to each                                                            *)
(* Both runs of a scenario use the same option.  The resume behaviour modelled below is the same for all four; what    *)
(* the option decides is the NAME of every record, stated here and used by the harness to find the records.            *)
IdOptions == {"default", "apply_to", "writer", "both"}
RecordsNamedBy(o) == IF o \in {"apply_to", "both"} THEN "apply_to_argument" ELSE "get_unique_id"

(* THE PROPERTY, per input: a = record state when run 1 was interrupted,      *)
(* called = the pipeline was invoked for the input in run 2, f = record state *)
(* after run 2, isnc = the input yields NotCompleted.                         *)
(* A failed input is not "completed": re-running it is allowed either way.    *)
RecOK(a, called, f, isnc) ==
    /\ f = "done"
    /\ isnc \/ (called <=> a # "done")
ResumeOK == (phase = "finished" /\ run = 2) => \A i \in Ids : RecOK(at[i], i \in calls2, s[i], i \in NC)
RerunCompletes == phase # "raised"

------------------------------------------------------------------------------
St  == [cfg |-> cfg.name, idopt |-> idopt, namedby |-> RecordsNamedBy(idopt), nc |-> NC, s |-> s, run |-> run, cur |-> cur, step |-> step, calls2 |-> calls2, phase |-> phase, at |-> at]
StP == [cfg |-> cfg'.name, idopt |-> idopt', namedby |-> RecordsNamedBy(idopt'), nc |-> NC', s |-> s', run |-> run', cur |-> cur', step |-> step', calls2 |-> calls2', phase |-> phase', at |-> at']
Log(act, args) == Emit([from |-> St, act |-> act, args |-> args, to |-> StP])

Skipped(i) ==
    CASE cfg.skip = "exists"   -> (i \notin NC /\ s[i] # "none")
                                  \/ (i \in NC /\ cfg.ncrerun = "skip" /\ s[i] # "none")
      [] cfg.skip = "complete" -> s[i] = "done" /\ (i \notin NC \/ cfg.ncrerun = "skip")

Init == /\ cfg \in Configs
        /\ idopt \in IdOptions
        /\ NC \in NCSets
        /\ s = [i \in Ids |-> "none"]
        /\ run = 1
        /\ todo = Ids
        /\ cur = 0 /\ step = 0
        /\ calls2 = {}
        /\ phase = "run"
        /\ at = [i \in Ids |-> "none"]

Min(S) == CHOOSE x \in S : \A y \in S : x <= y

(* the pipeline is invoked for the next input; its result is about to be written *)
PickT == /\ phase = "run" /\ cur = 0 /\ todo # {}
         /\ LET i == Min(todo) IN
              /\ cur' = i /\ step' = 0
              /\ calls2' = IF run = 2 THEN calls2 \cup {i} ELSE calls2
         /\ UNCHANGED <<cfg, idopt, NC, s, run, todo, phase, at>>

(* one file-system step of the record write *)
WriteStepT ==
    /\ phase = "run" /\ cur # 0
    /\ IF cur \in NC /\ s[cur] # "none" /\ step = 0 /\ cfg.ncrerun = "raises"
         THEN /\ phase' = "raised" /\ UNCHANGED <<s, cur, step, todo>>
         ELSE /\ LET nxt == IF cfg.recwrite = "atomic" THEN "done"
                            ELSE CASE step = 0 -> "rec_partial"
                                   [] step = 1 -> "rec_nomd5"
                                   [] step = 2 -> "md5_partial"
                                   [] OTHER    -> "done"
                 IN /\ s' = [s EXCEPT ![cur] = nxt]
                    /\ IF nxt = "done"
                         THEN cur' = 0 /\ step' = 0 /\ todo' = todo \ {cur}
                         ELSE step' = step + 1 /\ UNCHANGED <<cur, todo>>
              /\ UNCHANGED phase
    /\ UNCHANGED <<cfg, idopt, NC, run, calls2, at>>

(* KeyboardInterrupt raised by the store's write before it touches anything *)
SoftInterruptT == /\ phase = "run" /\ run = 1 /\ cur # 0 /\ step = 0
                  /\ phase' = "interrupted" /\ at' = s
                  /\ UNCHANGED <<cfg, idopt, NC, s, run, todo, cur, step, calls2>>
(* the process dies between two file-system calls *)
KillT == /\ phase = "run" /\ run = 1
         /\ phase' = "interrupted" /\ at' = s
         /\ UNCHANGED <<cfg, idopt, NC, s, run, todo, cur, step, calls2>>

ResumeT == /\ phase = "interrupted"
           /\ run' = 2 /\ phase' = "run" /\ cur' = 0 /\ step' = 0
           /\ todo' = {i \in Ids : ~Skipped(i)}
           /\ UNCHANGED <<cfg, idopt, NC, s, calls2, at>>

FinishT == /\ phase = "run" /\ cur = 0 /\ todo = {}
           /\ phase' = "finished"
           /\ UNCHANGED <<cfg, idopt, NC, s, run, todo, cur, step, calls2, at>>

Pick == PickT /\ Log("Pick", <<>>)
WriteStep == WriteStepT /\ Log("WriteStep", <<>>)
SoftInterrupt == SoftInterruptT /\ Log("SoftInterrupt", <<>>)
Kill == KillT /\ Log("Kill", <<>>)
Resume == ResumeT /\ Log("Resume", <<>>)
Finish == FinishT /\ Log("Finish", <<>>)

Next == Pick \/ WriteStep \/ SoftInterrupt \/ Kill \/ Resume \/ Finish
Spec == Init /\ [][Next]_vars

TypeOK == /\ idopt \in IdOptions
          /\ s \in [Ids -> RecStates] /\ at \in [Ids -> RecStates]
          /\ run \in {1, 2} /\ todo \subseteq Ids /\ cur \in 0..N /\ step \in 0..3
          /\ calls2 \subseteq Ids /\ phase \in {"run", "interrupted", "finished", "raised"}

(* an uninterrupted run completes every record *)
UninterruptedCompletes == (phase = "finished" /\ run = 1) => \A i \in Ids : s[i] = "done"

------------------------------------------------------------------------------
(* verdict table of RecOK for the harness *)
Judge ==
    /\ phase = "run" /\ run = 1 /\ cur = 0 /\ todo = Ids
    /\ \E a \in RecStates, c \in BOOLEAN, f \in RecStates, k \in BOOLEAN :
          Emit([act |-> "JudgeRec", args |-> <<a, c, f, k>>, ok |-> RecOK(a, c, f, k)])
    /\ UNCHANGED vars
JudgeSpec == Init /\ [][Judge]_vars
=============================================================================
