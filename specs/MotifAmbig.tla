----------------------------- MODULE MotifAmbig -----------------------------
(* Property C02, ambiguity clause for multi-letter motifs (codon models):      *)
(* "ambiguity codes and gaps counted as the set of compatible states".          *)
(* A codon-model cell is a 3-character motif whose characters may be bases,     *)
(* IUPAC codes or gaps; its compatible set is the set of SENSE codons matching  *)
(* every position: Compat(m) = {w : \A p : w[p] \in SymSet(m[p])}.              *)
(* With all branch lengths zero the transition matrices are the identity, so    *)
(* the site likelihood of a k-tip column is exactly                             *)
(*        L = sum of pi_w over w in the intersection of the tips' sets,         *)
(* a rational number for any codon model.  TLC computes it for every pair of    *)
(* motifs of the family below; the harness compares the real per-column         *)
(* likelihoods of codon models on zero-length trees, with the columns placed so *)
(* that wholly unknown motifs precede partially known ones in each sequence.    *)
EXTENDS MC_MarkovQ

CharSet(c) == CASE c = "T" -> {"T"} [] c = "C" -> {"C"} [] c = "A" -> {"A"} [] c = "G" -> {"G"}
                [] c = "R" -> {"A", "G"} [] c = "Y" -> {"C", "T"} [] c = "N" -> NucSet [] c = "-" -> NucSet
Compat(m) == {w \in States(3) : \A p \in 1..3 : w[p] \in CharSet(m[p])}

Motifs == << <<"-","-","-">>, <<"N","N","N">>, <<"G","C","A">>, <<"G","C","-">>, <<"G","-","A">>, <<"-","C","A">>,
             <<"G","C","N">>, <<"R","C","A">>, <<"T","A","N">>, <<"T","G","R">>, <<"A","T","G">>, <<"N","G","A">>, <<"G","Y","-">> >>

Lik(a, b) == RSumSet(Compat(a) \cap Compat(b), PiCodon)

VARIABLES done
Init2 == done = FALSE /\ k = 0 /\ r = 0      \* (k, r: variables of MarkovQ, unused here)
Step2 == ~done /\ done' = TRUE /\ UNCHANGED <<k, r>> /\
         Emit([act |-> "MotifAmbig",
               pi |-> {<<w, PiCodon[w]>> : w \in States(3)},
               motifs |-> Motifs,
               lik |-> [i \in 1..Len(Motifs) |-> [j \in 1..Len(Motifs) |-> Lik(Motifs[i], Motifs[j])]]])
Spec2 == Init2 /\ [][Step2]_<<done, k, r>>

(* design-level sanity: unknown motifs are neutral, sets shrink likelihoods, a motif agrees with itself *)
UnknownIsNeutral == \A i \in 1..Len(Motifs) : Lik(Motifs[1], Motifs[i]) = RSumSet(Compat(Motifs[i]), PiCodon)
AllUnknownIsOne == Lik(Motifs[1], Motifs[2]) = One
Monotone == \A i, j \in 1..Len(Motifs) : ~RLt(Lik(Motifs[i], Motifs[i]), Lik(Motifs[i], Motifs[j]))
StopsExcluded == Compat(<<"T","A","N">>) = {<<"T","A","T">>, <<"T","A","C">>}
=============================================================================
