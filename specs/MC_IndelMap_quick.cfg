SPECIFICATION Spec
CONSTANTS
  MaxLen = 6
  MaxBin = 5
  Scales = {1, 2, 3}
  SegsLen = 6
  MaxSegs = 2
  EmptySegsUpTo = 3
INVARIANT TypeOK
INVARIANT CanonRoundTrip
INVARIANT InParent
INVARIANT SliceConcatLaw
INVARIANT ReverseLaw
INVARIANT IndexLaw
INVARIANT MergeLaw
INVARIANT MinusLaw
INVARIANT JoinLaw
PROPERTY ReadOnlyOpsPreserveReceiver
PROPERTY DropPreservesReceiver
