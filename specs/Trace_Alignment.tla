--------------------------- MODULE Trace_Alignment ---------------------------
(* code -> spec: validates executions recorded from real cogent3 objects       *)
(* (seeded random drivers over random initial alignments, both classes, any    *)
(* valid arguments -- not only the small families TLC enumerates) against      *)
(* Alignment.tla.  TRACE_FILE holds a JSON array of traces; a trace is an      *)
(* array of events                                                             *)
(*    [op |-> "Init"|"Slice"|..., args |-> <<...>>,                            *)
(*     post |-> [kind |-> .., mol |-> .., rows |-> << <<name, <<chars>>>> >>], *)
(*     anom |-> <<observers of the result that contradict each other>>]        *)
(* logged when the public call returned.  An event is accepted iff the named   *)
(* Alignment action, with the logged arguments, taken in the state the trace   *)
(* has reached, produces exactly the logged rows.  A rejected event is         *)
(* collected in `bad` (the rest of that trace is skipped); for diagnosis the   *)
(* successor the spec does allow is emitted (EMIT_FILE).                       *)
EXTENDS Alignment, TLCExt

Traces == JsonDeserialize(IOEnv.TRACE_FILE)

VARIABLES tid, l, bad
tvars == <<kind, mol, rows, base, depth, tid, l, bad>>

Ev == Traces[tid][l]

CellsOf(post) ==
    [i \in 1..Len(post.rows) |->
        [name |-> post.rows[i][1],
         cells |-> [j \in 1..Len(post.rows[i][2]) |-> [s |-> <<i, j>>, ch |-> post.rows[i][2][j]]]]]

Reset == kind' = "start" /\ mol' = "dna" /\ rows' = <<>> /\ base' = <<>> /\ depth' = 0

TraceInit == tid = 1 /\ l = 1 /\ bad = {} /\ Init

RowIdx(name) == CHOOSE i \in 1..R : rows[i].name = name
HasRows(names) == \A k \in 1..Len(names) : \E i \in 1..R : rows[i].name = names[k]

Step(e) ==
    CASE e.op = "Init" ->
            /\ kind = "start" /\ e.post.kind \in {"aln", "coll"}
            /\ kind' = e.post.kind /\ mol' = e.post.mol /\ rows' = CellsOf(e.post) /\ base' = CellsOf(e.post) /\ depth' = 0
      [] e.op = "Slice" -> SliceT(e.args[1], e.args[2], e.args[3])
      [] e.op = "Index" -> IndexT(e.args[1], e.args[2])
      [] e.op = "Stride" -> StrideT(e.args[1], e.args[2])
      [] e.op = "Rc" -> RcT
      [] e.op = "TakePositions" -> TakePositionsT(e.args[1], e.args[2], e.args[3])
      [] e.op = "TakeSeqs" ->
            /\ HasRows(e.args[1])
            /\ IF e.args[2] THEN TakeSeqsNegT({RowIdx(e.args[1][k]) : k \in 1..Len(e.args[1])})
               ELSE TakeSeqsT([k \in 1..Len(e.args[1]) |-> RowIdx(e.args[1][k])])
      [] e.op = "OmitGapPos" -> OmitGapPosT(<<e.args[1], e.args[2], e.args[3]>>, e.args[4])
      [] e.op = "NoDegenerates" -> NoDegeneratesT(e.args[1], e.args[2])
      [] e.op = "Filtered" -> FilteredPT(e.args[1], e.args[2])
      [] e.op = "DegapRel" -> HasRows(<<e.args[1]>>) /\ DegapRelT(RowIdx(e.args[1]))
      [] e.op = "SampleRepl" -> SampleReplT(e.args[1], e.args[2])
      [] e.op = "SamplePerm" -> SamplePermT(e.args[1], e.args[2], e.args[3])
      [] e.op = "Concat" -> ConcatT(e.args[1])
      [] e.op = "ConcatSlices" -> ConcatSlicesT(e.args[1], e.args[2], e.args[3], e.args[4])
      [] e.op = "ToType" -> ToTypeT(e.args[1])
      [] e.op = "ToRna" -> ToMolT("rna")
      [] e.op = "ToDna" -> ToMolT("dna")
      [] e.op = "Degap" -> DegapT
      [] e.op = "DeepCopy" -> DeepCopyT(e.args[1])
      [] e.op = "CallerReuses" -> CallerReusesT(e.args[1])
      [] OTHER -> FALSE

Matches(e) == /\ Len(e.anom) = 0      \* to_dict / names / len / get_gapped_seq of the result agree with each other
              /\ IF e.post.kind = "void" THEN kind' = "void" ELSE StP = e.post

InRange == tid <= Len(Traces) /\ l >= 1 /\ l <= Len(Traces[tid])

Accept ==
    /\ InRange
    /\ Step(Ev) /\ Matches(Ev)
    /\ l' = l + 1 /\ UNCHANGED <<tid, bad>>

(* the logged event is not a behaviour of the spec: record it, abandon this trace *)
Reject ==
    /\ InRange
    /\ ~ ENABLED Accept
    /\ bad' = bad \cup {<<tid, l>>}
    /\ tid' = tid + 1 /\ l' = 1
    /\ Reset

(* diagnosis only: what the spec would have allowed for the rejected event (a sink state) *)
Diagnose ==
    /\ InRange
    /\ ~ ENABLED Accept
    /\ Step(Ev)
    /\ Emit([tid |-> tid, l |-> l, expected |-> StP])
    /\ l' = 0 /\ UNCHANGED <<tid, bad>>

NextTrace ==
    /\ tid <= Len(Traces) /\ l > Len(Traces[tid])
    /\ tid' = tid + 1 /\ l' = 1
    /\ Reset /\ UNCHANGED bad

TraceNext == Accept \/ Reject \/ Diagnose \/ NextTrace
TraceSpec == TraceInit /\ [][TraceNext]_tvars

Finished == tid = Len(Traces) + 1
(* evaluated in every state; prints the verdict once, in the final state *)
Report == Finished => PrintT(<<"TRACE-VERDICT", Len(Traces), bad>>)
=============================================================================
