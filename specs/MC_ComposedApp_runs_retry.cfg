SPECIFICATION Spec
CONSTANTS
  N = 2
  MaxRuns = 2
  RetryFailed = TRUE
INVARIANT TypeOK
INVARIANT LogsNameWhatWasProcessed
PROPERTY AppendOnly
PROPERTY NothingLost
PROPERTY LogsAccumulate
PROPERTY RefusedChangesNothing
