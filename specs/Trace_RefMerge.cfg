SPECIFICATION Spec
CONSTANTS
  RefLen = 1
  NOthers = 1
  MaxIns = 0
INVARIANT Report
