---------------------------- MODULE AnnotationNames ----------------------------
(* Property C04, identity of records: "feature queries on a view return exactly *)
(* the features of THAT sequence that overlap the window".                      *)
(*                                                                            *)
(* Several sequences share one annotation db (rows of an alignment / members    *)
(* of a collection / separate sequences given the same db).  Every record       *)
(* carries the seqid of the sequence it was added for, a name and a biotype;    *)
(* these are plain strings and are compared by exact string equality: "mus_1"   *)
(* is not "musA1" (an underscore is a character, not a wildcard), "Rat" is not   *)
(* "rat", a name is not its own prefix.  The model therefore uses FAMILIES of    *)
(* related strings for the sequence names, the feature names and the biotypes.  *)
(* (Strings containing "%" are left out: annotation_db documents "%" as the      *)
(* wildcard of name / attribute searches.)                                       *)
(*                                                                            *)
(* State: the universe (which family is used where) and the view of the whole   *)
(* collection: the root positions cols it displays (all K sequences are         *)
(* ungapped and of length P, so a column slice is the same slice of every       *)
(* member) and comp.  Sequence k (1-based) carries exactly one record           *)
(* Rec(k): seqid Names[k], name FeatNames[k], biotype Bios[k], its own span     *)
(* and strand - so a record handed to the wrong sequence shows up as wrong      *)
(* positions / residues as well as a wrong name.                                *)
(*                                                                            *)
(* Oracle: a query on the view of sequence k, optionally restricted by name= or  *)
(* biotype=, returns the records r with r.seqid = Names[k], r.name = the name    *)
(* asked for, r.bio = the biotype asked for (exact equality) that overlap the    *)
(* view (allow_partial=True) / lie inside it; each is shown at the positions     *)
(* and reads the residues given by its own span, as in Annotation.tla.           *)
EXTENDS Integers, Sequences, FiniteSets, TLC, Emit

CONSTANTS P      \* length of every sequence

VARIABLES nfam, ffam, bfam,   \* which family names the sequences / the features / the biotypes
          cols, comp          \* the view
vars == <<nfam, ffam, bfam, cols, comp>>

K == 3
Ident(n) == [i \in 1..n |-> i - 1]
Reverse(s) == [i \in 1..Len(s) |-> s[Len(s) + 1 - i]]
RangeOf(s) == {s[i] : i \in DOMAIN s}

(* complement table for rendering; each sequence is a run of distinct symbols *)
Compl == [C |-> "G", G |-> "C", R |-> "Y", Y |-> "R", M |-> "K", K |-> "M",
          H |-> "D", D |-> "H", B |-> "V", V |-> "B", A |-> "T", T |-> "A"]

(* families of related strings; family 1 is the plain one *)
NameFams == << <<"x", "y", "z">>,
               <<"mus_1", "musA1", "mus_10">>,      \* underscore vs letter, and a prefix
               <<"Rat", "rat", "RAT">>,             \* case only
               <<"s_1", "s-1", "s11">> >>           \* underscore vs punctuation vs digit
FeatFams == << <<"f1", "g2", "h3">>,
               <<"exon_1", "exon21", "exon_10">>,
               <<"Gene", "gene", "GENE">> >>
BioFams  == << <<"gene", "cds", "exon">>,
               <<"cds", "CDS", "c_s">>,
               <<"m_RNA", "mxRNA", "m_RN">> >>

Names == NameFams[nfam]
FeatNames == FeatFams[ffam]
Bios == BioFams[bfam]

(* the one record of sequence k: spans differ between the sequences *)
Rec(k) == [seqid |-> Names[k], name |-> FeatNames[k], bio |-> Bios[k],
           lo |-> k - 1, hi |-> k + 1, strand |-> IF k = 2 THEN "-" ELSE "+"]
Records == {Rec(k) : k \in 1..K}

DenSet(r) == r.lo..(r.hi - 1)
PosOn(r) == SelectSeq(Ident(Len(cols)), LAMBDA j : cols[j + 1] \in DenSet(r))
ReadOn(r) ==
    LET asc == SelectSeq(Ident(P), LAMBDA q : q \in DenSet(r) /\ q \in RangeOf(cols))
    IN IF r.strand = "+" THEN asc ELSE Reverse(asc)

(* filters: <<"none">>, <<"name", string>>, <<"bio", string>> *)
FilterSet == {<<"none", "">>} \cup {<<"name", FeatNames[j]>> : j \in 1..K} \cup {<<"bio", Bios[j]>> : j \in 1..K}
Passes(r, flt) == CASE flt[1] = "none" -> TRUE
                    [] flt[1] = "name" -> r.name = flt[2]
                    [] flt[1] = "bio"  -> r.bio = flt[2]
Answer(k, flt, partial) ==
    {r \in Records : /\ r.seqid = Names[k]                       \* exact string equality
                     /\ Passes(r, flt)
                     /\ IF partial THEN DenSet(r) \cap RangeOf(cols) # {} ELSE DenSet(r) \subseteq RangeOf(cols)}
Shown(r) == [name |-> r.name, bio |-> r.bio, pos |-> PosOn(r), read |-> ReadOn(r),
             fcomp |-> r.strand = "-", rev |-> (r.strand = "-") # comp]
QueryTable ==   \* <<sequence (0-based), filter kind, filter string, partial, answer>>
    {<<k - 1, flt[1], flt[2], pt, {Shown(r) : r \in Answer(k, flt, pt)}>> :
        k \in 1..K, flt \in FilterSet, pt \in BOOLEAN}

St == <<nfam, ffam, bfam, cols, comp>>
StP == <<nfam', ffam', bfam', cols', comp'>>
Universe == UNCHANGED <<nfam, ffam, bfam>>

(* one family at a time is a family of look-alikes, the other two are plain *)
Init == /\ nfam \in 1..Len(NameFams) /\ ffam \in 1..Len(FeatFams) /\ bfam \in 1..Len(BioFams)
        /\ (IF nfam # 1 THEN 1 ELSE 0) + (IF ffam # 1 THEN 1 ELSE 0) + (IF bfam # 1 THEN 1 ELSE 0) <= 1
        /\ cols = Ident(P) /\ comp = FALSE

SliceT(a, b) == /\ 0 <= a /\ a < b /\ b <= Len(cols)
                /\ cols' = SubSeq(cols, a + 1, b) /\ UNCHANGED comp /\ Universe
Slice(a, b) == SliceT(a, b) /\ Emit([from |-> St, act |-> "Slice", args |-> <<a, b>>, to |-> StP])
RcT == cols' = Reverse(cols) /\ comp' = ~comp /\ Universe
Rc == RcT /\ Emit([from |-> St, act |-> "Rc", args |-> <<>>, to |-> StP])
Look == /\ UNCHANGED vars
        /\ Emit([act |-> "Look", from |-> St, queries |-> QueryTable])
Meta == /\ cols = Ident(P) /\ ~comp /\ UNCHANGED vars
        /\ Emit([act |-> "Universe", from |-> St, P |-> P, names |-> Names,
                 records |-> [k \in 1..K |-> Rec(k)], compl |-> Compl])
Next == \/ \E a \in 0..P, b \in 0..P : Slice(a, b)
        \/ Rc \/ Look \/ Meta
Spec == Init /\ [][Next]_vars

------------------------------------------------------------------------------
TypeOK == /\ cols \in Seq(0..(P - 1)) /\ Len(cols) >= 1 /\ comp \in BOOLEAN
          /\ nfam \in 1..Len(NameFams) /\ ffam \in 1..Len(FeatFams) /\ bfam \in 1..Len(BioFams)

(* the strings of a family are pairwise different: every sequence, name and biotype is its own *)
Distinct == /\ \A i \in 1..K, j \in 1..K : i # j => (Names[i] # Names[j] /\ FeatNames[i] # FeatNames[j] /\ Bios[i] # Bios[j])

(* a sequence only ever sees its own record; the answers of different sequences are disjoint;   *)
(* a filter narrows the unfiltered answer; without partial matches the answer is a subset        *)
OwnRecordsOnly ==
    \A k \in 1..K, flt \in FilterSet, pt \in BOOLEAN :
        /\ Answer(k, flt, pt) \subseteq {Rec(k)}
        /\ Answer(k, flt, pt) \subseteq Answer(k, <<"none", "">>, pt)
        /\ Answer(k, flt, FALSE) \subseteq Answer(k, flt, TRUE)
        /\ \A j \in (1..K) \ {k} : Answer(k, flt, pt) \cap Answer(j, flt, pt) = {}
(* asking for the name / biotype of another sequence's record returns nothing *)
ForeignFilterEmpty ==
    \A k \in 1..K, pt \in BOOLEAN :
        \A j \in (1..K) \ {k} :
            Answer(k, <<"name", FeatNames[j]>>, pt) = {} /\ Answer(k, <<"bio", Bios[j]>>, pt) = {}
=============================================================================
