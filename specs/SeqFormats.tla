------------------------------ MODULE SeqFormats ------------------------------
(* Property C06, format half: writing a collection / alignment in FASTA,      *)
(* PHYLIP, PAML, GDE or JSON and loading it back returns the same names (up   *)
(* to the format's truncation), order and sequences; all parsers of a format  *)
(* yield identical records with labels verbatim.                               *)
(*                                                                            *)
(* ORACLE (what the property demands):                                         *)
(*     Parse(Write_fmt(x)) = Exp(fmt, x) = <<Trunc_fmt(name_i), seq_i>>_i     *)
(*                                                                            *)
(* IMPLEMENTATION-SHAPED MODELS (what the code does, transcribed at line /    *)
(* character level): the writers in cogent3/format/{fasta,phylip,paml,gde}.py *)
(* and the parsers parse/fasta.py (_strict_parser, _faster_parser, the bytes- *)
(* splitting iter_fasta_records), parse/phylip.py MinimalPhylipParser (the    *)
(* sequential branch the writer's two-field header selects), parse/paml.py.   *)
(* TLC checks that on the domain Clean(..) every parser model applied to      *)
(* every text the writer relation allows gives the oracle -- names holding a  *)
(* '>' included, for the line based and (since the repair 3b7d8a88e of         *)
(* iter_fasta_records) the bytes based FASTA parser alike.                     *)
(*                                                                            *)
(* A character is a one-character string (a character CLASS: "a" any letter,  *)
(* " " inner/edge blank, ">", "|", "#", ";", "'", "%" ...); a name, a         *)
(* sequence, a line is a sequence of characters; a text is a sequence of      *)
(* lines (each terminated by "\n" in the file).                                *)
(*                                                                            *)
(* One behaviour = one case: Init chooses a selector (family, format, block,  *)
(* number of sequences), Pick chooses the case, RoundTrip computes the oracle, *)
(* the outcomes the statement allows, the structural class of the case and the *)
(* model predictions, and emits them for replay on the real code.              *)
(* NB: a cfg file does not interpret escapes; the alphabets of the cfg files   *)
(* hold ordinary characters only, the line end NL is defined in this module.   *)
EXTENDS Naturals, Sequences, FiniteSets, TLC, Emit

CONSTANTS
    Fmts,        \* formats under test, subset of {"fasta","phylip","paml","gde","json"}
    MaxN,        \* collections of 1..MaxN sequences
    Blocks,      \* block_size arguments handed to the writers
    NameAlpha1, NameLen1,    \* special names: all strings of length 1..NameLen1 over NameAlpha1 ...
    NameAlpha2, NameLen2,    \* ... plus all strings of length NameLen1+1..NameLen2 over NameAlpha2
    TailAlpha, LongLens,     \* long names: distinct padding letters + 2-character tail, total length in LongLens
    SeqAlphaA, SeqLensA,     \* first sequence: all strings over SeqAlphaA with length in SeqLensA ...
    SeqAlphaB, SeqLensB,     \* ... plus all strings over SeqAlphaB with length in SeqLensB
    HomoLens,                \* ... plus the homopolymers "C"*n, n in HomoLens (longer multiples of the block sizes)
    RunLevel,                \* 0: none, 1: twelve, 2: all 27 names with an interior run of blanks or a tab (RunNames)
    QSeqs,                   \* number of sequences of the ragged family Q (lengths around the wrap width, every order)
    PairAlpha, PairLen       \* pairs of special names (both special): strings of length 1..PairLen over PairAlpha

VARIABLES sel, case, stage
vars == <<sel, case, stage>>

NL == "\n"
SP == " "
GT == ">"
Min(a, b) == IF a < b THEN a ELSE b

-----------------------------------------------------------------------------
(* Generic character-sequence helpers (python str methods).                    *)
IsWs(c) == c \in {SP, NL, "\r", "\t"}

RECURSIVE LStrip(_)
LStrip(s) == IF s = <<>> THEN s ELSE IF IsWs(Head(s)) THEN LStrip(Tail(s)) ELSE s
RECURSIVE RStrip(_)
RStrip(s) == IF s = <<>> THEN s
             ELSE IF IsWs(s[Len(s)]) THEN RStrip(SubSeq(s, 1, Len(s) - 1)) ELSE s
Strip(s) == RStrip(LStrip(s))                                  \* str.strip()

RECURSIVE DeleteWs(_)
DeleteWs(s) == IF s = <<>> THEN s                              \* re.sub(r"\s+", "", s)
               ELSE IF IsWs(Head(s)) THEN DeleteWs(Tail(s))
               ELSE <<Head(s)>> \o DeleteWs(Tail(s))
RECURSIVE DeleteSp(_)
DeleteSp(s) == IF s = <<>> THEN s                              \* s.replace(" ", "")
               ELSE IF Head(s) = SP THEN DeleteSp(Tail(s))
               ELSE <<Head(s)>> \o DeleteSp(Tail(s))

RECURSIVE IndexOf(_, _, _)
IndexOf(s, c, i) == IF i > Len(s) THEN 0 ELSE IF s[i] = c THEN i ELSE IndexOf(s, c, i + 1)

RECURSIVE FirstWs(_, _)
FirstWs(s, i) == IF i > Len(s) THEN 0 ELSE IF IsWs(s[i]) THEN i ELSE FirstWs(s, i + 1)

RECURSIVE SplitOn(_, _)
SplitOn(s, c) == LET i == IndexOf(s, c, 1) IN                  \* s.split(c)
                 IF i = 0 THEN <<s>>
                 ELSE <<SubSeq(s, 1, i - 1)>> \o SplitOn(SubSeq(s, i + 1, Len(s)), c)

RECURSIVE Tokens(_)
Tokens(s) == LET t == LStrip(s) IN                             \* s.split()
             IF t = <<>> THEN <<>>
             ELSE LET i == FirstWs(t, 1) IN
                  IF i = 0 THEN <<t>>
                  ELSE <<SubSeq(t, 1, i - 1)>> \o Tokens(SubSeq(t, i, Len(t)))

RECURSIVE Concat(_)
Concat(ss) == IF ss = <<>> THEN <<>> ELSE Head(ss) \o Concat(Tail(ss))

RECURSIVE Flat(_)
Flat(lines) == IF lines = <<>> THEN <<>>                       \* the file: every line + "\n"
               ELSE Head(lines) \o <<NL>> \o Flat(Tail(lines))

Spaces(n) == [i \in 1..n |-> SP]

Digit == <<"0", "1", "2", "3", "4", "5", "6", "7", "8", "9">>
Digits(n) == IF n < 10 THEN <<Digit[n + 1]>> ELSE <<Digit[(n \div 10) + 1], Digit[(n % 10) + 1]>>   \* "%d" % n, n < 100
IsDigit(c) == \E d \in 1..10 : Digit[d] = c
DigitVal(c) == (CHOOSE d \in 1..10 : Digit[d] = c) - 1
RECURSIVE ToIntAcc(_, _)
ToIntAcc(s, acc) == IF s = <<>> THEN acc ELSE ToIntAcc(Tail(s), acc * 10 + DigitVal(Head(s)))
IsInt(s) == s # <<>> /\ \A i \in 1..Len(s) : IsDigit(s[i])
ToInt(s) == ToIntAcc(s, 0)

RECURSIVE StringsOfLen(_, _)
StringsOfLen(alpha, n) == IF n = 0 THEN {<<>>}
                          ELSE {Append(t, c) : t \in StringsOfLen(alpha, n - 1), c \in alpha}
StringsUpTo(alpha, lo, hi) == UNION {StringsOfLen(alpha, n) : n \in lo..hi}

-----------------------------------------------------------------------------
(* ORACLE.                                                                     *)
PhylipNameWidth == 9                          \* format/phylip.py keeps seq_name[:9] of longer names
Trunc(fmt, name) == IF fmt = "phylip" /\ Len(name) > PhylipNameWidth
                    THEN SubSeq(name, 1, PhylipNameWidth) ELSE name

Rec(nm, sq) == [name |-> nm, seq |-> sq]
Exp(c) == [i \in 1..Len(c.names) |-> Rec(Trunc(c.fmt, c.names[i]), c.seqs[i])]
Ok(recs) == [ok |-> TRUE, recs |-> recs]
Err(why) == [ok |-> FALSE, recs |-> <<>>, why |-> why]

(* A record without residues is not well-formed input for the text parsers    *)
(* (parse/fasta.py _strict_parser rejects it on purpose: "<label> has no      *)
(* data"), so the statement leaves the outcome open for a collection holding a *)
(* zero-length sequence: the oracle, the oracle without those records, or an  *)
(* exception.  JSON keeps everything.                                          *)
IsEmptyRec(r) == r.seq = <<>>
NonEmptyRecs(e) == SelectSeq(e, LAMBDA r : ~IsEmptyRec(r))
Allowed(c) == IF c.fmt # "json" /\ (\E i \in 1..Len(c.seqs) : c.seqs[i] = <<>>)
              THEN {Ok(Exp(c)), Ok(NonEmptyRecs(Exp(c))), Err("record without data")}
              ELSE {Ok(Exp(c))}
(* The bytes based FASTA parser (and with it load_*_seqs / load_seq of a fasta  *)
(* file) makes no such check: it returns one record per label line, residues or *)
(* not, so for it the oracle is demanded on zero-length sequences too.           *)
AllowedBytes(c) == IF c.fmt = "fasta" THEN {Ok(Exp(c))} ELSE Allowed(c)

-----------------------------------------------------------------------------
(* Structural class of a case (used in finding keys and in Clean).             *)
AllBlank(name) == \A i \in 1..Len(name) : name[i] = SP
EdgeBlank(name) == name # <<>> /\ (Head(name) = SP \/ name[Len(name)] = SP)
HasChar(name, ch) == \E i \in 1..Len(name) : name[i] = ch

NameClass(fmt, name) ==
    LET t == Trunc(fmt, name) IN       \* what the writer puts in the file
    IF EdgeBlank(t)
    THEN IF Len(t) < Len(name) /\ Head(t) # SP
         THEN "trunc-edge-blank"        \* the truncation point exposes a trailing blank
         ELSE "edge-blank"
    ELSE IF fmt = "fasta" /\ HasChar(name, GT) THEN "has-gt"
    ELSE "plain"

ClassRank == <<"edge-blank", "trunc-edge-blank", "has-gt", "plain">>
CaseNameClass(c) ==
    LET cl == {NameClass(c.fmt, c.names[i]) : i \in 1..Len(c.names)}
        r  == CHOOSE j \in 1..Len(ClassRank) :
                  ClassRank[j] \in cl /\ \A j2 \in 1..(j - 1) : ClassRank[j2] \notin cl
    IN ClassRank[r]
HasEmptySeq(c) == \E i \in 1..Len(c.seqs) : c.seqs[i] = <<>>
CaseClass(c) == IF HasEmptySeq(c) THEN "empty-seq" ELSE CaseNameClass(c)

-----------------------------------------------------------------------------
(* WRITERS (line level).                                                       *)

(* _AlignmentFormatter.slice_string_in_blocks / wrap_string_to_block_size:     *)
(* consecutive slices of block characters; "" becomes one empty line.          *)
Slices(s, b) == [i \in 1..((Len(s) + b - 1) \div b) |-> SubSeq(s, (i - 1) * b + 1, Min(i * b, Len(s)))]
WrapFixed(s, b) == IF s = <<>> THEN << <<>> >> ELSE Slices(s, b)

(* format/fasta.py wraps with textwrap.wrap(seq, block): non-empty lines of at *)
(* most block characters whose concatenation is the sequence -- as a RELATION  *)
(* (textwrap prefers to break after hyphens, so lines may be shorter).         *)
RECURSIVE Layouts(_, _)
Layouts(s, b) == IF s = <<>> THEN {<<>>}
                 ELSE UNION {{<<SubSeq(s, 1, j)>> \o r : r \in Layouts(SubSeq(s, j + 1, Len(s)), b)}
                             : j \in 1..Min(b, Len(s))}
Lens(lay) == [i \in 1..Len(lay) |-> Len(lay[i])]

(* seqs_to_fasta: ">name", then the wrapped sequence; lay[i] = layout of seq i *)
RECURSIVE FastaLinesFrom(_, _, _)
FastaLinesFrom(c, lay, i) ==
    IF i > Len(c.names) THEN <<>>
    ELSE <<<<GT>> \o c.names[i]>> \o lay[i] \o FastaLinesFrom(c, lay, i + 1)
FastaLines(c, lay) == FastaLinesFrom(c, lay, 1)
CanonLayout(c) == [i \in 1..Len(c.seqs) |-> IF c.seqs[i] = <<>> THEN <<>> ELSE Slices(c.seqs[i], c.block)]

(* the layouts TLC quantifies over: every combination for one sequence, for    *)
(* more sequences every layout of one sequence with the others canonical       *)
LayoutChoices(c) ==
    LET n == Len(c.seqs) canon == CanonLayout(c) IN
    {canon} \cup UNION {{[canon EXCEPT ![i] = l] : l \in Layouts(c.seqs[i], c.block)} : i \in 1..n}

AlignLen(c) == Len(c.seqs[1])       \* set_align_info: length of the first sequence
Header(c) == Digits(Len(c.names)) \o <<SP, SP>> \o Digits(AlignLen(c))      \* "%d  %d"

(* format/phylip.py: first block of a sequence carries "%-10s" % name[:9],     *)
(* continuation blocks ten blanks; blocks are cut at the ALIGNMENT length      *)
PhylipBlocks(sq, L, b) ==
    [j \in 1..((L + b - 1) \div b) |-> SubSeq(sq, (j - 1) * b + 1, Min(Min(j * b, L), Len(sq)))]
PhylipSeqLines(name, sq, L, b) ==
    LET nm == Trunc("phylip", name)
        bl == PhylipBlocks(sq, L, b)
    IN [j \in 1..Len(bl) |->
          (IF j = 1 THEN nm \o Spaces(10 - Len(nm)) ELSE Spaces(10)) \o bl[j]]
RECURSIVE PhylipBody(_, _)
PhylipBody(c, i) == IF i > Len(c.names) THEN <<>>
                    ELSE PhylipSeqLines(c.names[i], c.seqs[i], AlignLen(c), c.block) \o PhylipBody(c, i + 1)
PhylipLines(c) == <<Header(c)>> \o PhylipBody(c, 1)

(* format/paml.py: header, then name line + fixed-width wrapped sequence       *)
RECURSIVE PamlBody(_, _)
PamlBody(c, i) == IF i > Len(c.names) THEN <<>>
                  ELSE <<c.names[i]>> \o WrapFixed(c.seqs[i], c.block) \o PamlBody(c, i + 1)
PamlLines(c) == <<Header(c)>> \o PamlBody(c, 1)

(* format/gde.py: "%name" line + fixed-width wrapped sequence                  *)
RECURSIVE GdeBody(_, _)
GdeBody(c, i) == IF i > Len(c.names) THEN <<>>
                 ELSE <<<<"%">> \o c.names[i]>> \o WrapFixed(c.seqs[i], c.block) \o GdeBody(c, i + 1)
GdeLines(c) == GdeBody(c, 1)

CanonLines(c) == CASE c.fmt = "fasta"  -> FastaLines(c, CanonLayout(c))
                   [] c.fmt = "phylip" -> PhylipLines(c)
                   [] c.fmt = "paml"   -> PamlLines(c)
                   [] c.fmt = "gde"    -> GdeLines(c)
                   [] OTHER            -> <<>>

-----------------------------------------------------------------------------
(* PARSERS (transcriptions).                                                   *)

(* --- parse/fasta.py _faster_parser(data, str, label_char) ------------------ *)
FinishRec(st) == Rec(IF st.haslabel THEN st.label ELSE <<>>, DeleteWs(Concat(st.seq)))
FasterStep(st, line, labelchars) ==
    IF line = <<>> THEN st
    ELSE IF Head(line) \in labelchars
         THEN [out |-> IF st.seq # <<>> THEN Append(st.out, FinishRec(st)) ELSE st.out,
               haslabel |-> TRUE, label |-> Strip(Tail(line)), seq |-> <<>>]
         ELSE [st EXCEPT !.seq = Append(@, Strip(line))]
RECURSIVE FasterFold(_, _, _)
FasterFold(st, lines, labelchars) ==
    IF lines = <<>> THEN st ELSE FasterFold(FasterStep(st, Head(lines), labelchars), Tail(lines), labelchars)
FasterParser(lines, labelchars) ==
    LET st == FasterFold([out |-> <<>>, haslabel |-> FALSE, label |-> <<>>, seq |-> <<>>], lines, labelchars)
    IN Ok(IF st.seq # <<>> THEN Append(st.out, FinishRec(st)) ELSE st.out)

(* --- parse/fasta.py _strict_parser ----------------------------------------- *)
StrictStep(st, line, labelchars) ==
    IF st.err # "" THEN st
    ELSE IF line = <<>> \/ Head(line) = "#" THEN st
    ELSE IF Head(line) \in labelchars
         THEN IF st.haslabel /\ st.seq = <<>> THEN [st EXCEPT !.err = "label has no data"]
              ELSE IF ~st.haslabel /\ st.seq # <<>> THEN [st EXCEPT !.err = "missing a label"]
              ELSE [out |-> IF st.haslabel THEN Append(st.out, FinishRec(st)) ELSE st.out,
                    haslabel |-> TRUE, label |-> Strip(Tail(line)), seq |-> <<>>, err |-> ""]
         ELSE [st EXCEPT !.seq = Append(@, Strip(line))]
RECURSIVE StrictFold(_, _, _)
StrictFold(st, lines, labelchars) ==
    IF lines = <<>> THEN st ELSE StrictFold(StrictStep(st, Head(lines), labelchars), Tail(lines), labelchars)
StrictParser(lines, labelchars) ==
    LET st == StrictFold([out |-> <<>>, haslabel |-> FALSE, label |-> <<>>, seq |-> <<>>, err |-> ""], lines, labelchars)
    IN IF st.err # "" THEN Err(st.err)
       ELSE IF st.seq = <<>> THEN Err("label has no data")
       ELSE IF ~st.haslabel THEN Err("missing a label")
       ELSE Ok(Append(st.out, FinishRec(st)))

(* --- parse/fasta.py iter_fasta_records(bytes) ------------------------------ *)
(*   if data.startswith(b">"): data = data[1:]                                 *)
(*   records = data.split(b"\n>")      a record starts with '>' at line start  *)
(* (until commit 3b7d8a88e the data was split on every '>': labels holding a   *)
(* '>' were cut; mutants/C06_prefix_fasta_split_every_gt.diff restores that)   *)
RECURSIVE IndexOfNlGt(_, _)
IndexOfNlGt(s, i) == IF i + 1 > Len(s) THEN 0
                     ELSE IF s[i] = NL /\ s[i + 1] = GT THEN i ELSE IndexOfNlGt(s, i + 1)
RECURSIVE SplitOnNlGt(_)
SplitOnNlGt(s) == LET i == IndexOfNlGt(s, 1) IN
                  IF i = 0 THEN <<s>>
                  ELSE <<SubSeq(s, 1, i - 1)>> \o SplitOnNlGt(SubSeq(s, i + 2, Len(s)))
(* a piece without line end is an unterminated label when it is the last piece  *)
(* (skipped); any other such piece lost its line end to the separator: a label   *)
(* with an empty sequence (commit 634db0443)                                      *)
RECURSIVE BytesRecords(_)
BytesRecords(pieces) ==
    IF pieces = <<>> THEN <<>>
    ELSE LET r == Head(pieces)
             islast == Len(pieces) = 1
             eol0 == IndexOf(r, NL, 1)
             eol == IF eol0 = 0 THEN Len(r) + 1 ELSE eol0
         IN IF r = <<>> \/ (eol0 = 0 /\ islast) THEN BytesRecords(Tail(pieces))
            ELSE <<Rec(Strip(SubSeq(r, 1, eol - 1)), DeleteWs(SubSeq(r, eol + 1, Len(r))))>>
                 \o BytesRecords(Tail(pieces))
BytesParser(lines) ==
    LET t == Flat(lines)
        d == IF t # <<>> /\ Head(t) = GT THEN Tail(t) ELSE t
    IN Ok(BytesRecords(SplitOnNlGt(d)))

(* --- parse/phylip.py MinimalPhylipParser ----------------------------------- *)
(* header with two fields -> interleaved = False -> sequential branch          *)
PhylipStep(st, line) ==
    IF st.err # "" THEN st
    ELSE IF Strip(line) = <<>> THEN st
    ELSE LET id == Strip(SubSeq(line, 1, Min(10, Len(line))))
             sq == DeleteSp(Strip(SubSeq(line, 11, Len(line))))
         IN IF id = <<>> /\ sq = <<>> THEN st
            ELSE IF id # <<>>
                 THEN [out |-> IF st.has THEN Append(st.out, Rec(st.id, Concat(st.parts))) ELSE st.out,
                       has |-> TRUE, id |-> id, parts |-> <<sq>>, err |-> ""]
                 ELSE IF st.has THEN [st EXCEPT !.parts = Append(@, sq)]
                      ELSE [st EXCEPT !.err = "continuation before any id"]   \* {}.append -> AttributeError
RECURSIVE PhylipFold(_, _)
PhylipFold(st, lines) == IF lines = <<>> THEN st ELSE PhylipFold(PhylipStep(st, Head(lines)), Tail(lines))
PhylipParser(lines) ==
    IF lines = <<>> THEN Ok(<<>>)
    ELSE LET hp == Tokens(Head(lines)) IN
         IF Len(hp) < 2 \/ ~IsInt(hp[1]) \/ ~IsInt(hp[2]) THEN Err("bad header")
         ELSE IF ToInt(hp[1]) = 0 \/ ToInt(hp[2]) = 0 THEN Ok(<<>>)
         ELSE IF Len(hp) > 2 THEN Err("interleaved branch not modelled")
         ELSE LET st == PhylipFold([out |-> <<>>, has |-> FALSE, id |-> <<>>, parts |-> <<>>, err |-> ""], Tail(lines))
              IN IF st.err # "" THEN Err(st.err)
                 ELSE Ok(IF st.has THEN Append(st.out, Rec(st.id, Concat(st.parts))) ELSE st.out)

(* --- parse/paml.py PamlParser ---------------------------------------------- *)
PamlStep(st, line0, seqlen) ==
    LET line == Strip(line0) IN
    IF line = <<>> THEN st
    ELSE IF ~st.hasname THEN [st EXCEPT !.hasname = TRUE, !.name = line]
    ELSE LET len == st.len + Len(line)
             parts == Append(st.parts, line)
         IN IF len = seqlen
            THEN [out |-> Append(st.out, Rec(st.name, Concat(parts))), hasname |-> FALSE,
                  name |-> <<>>, parts |-> <<>>, len |-> 0, n |-> st.n + 1]
            ELSE [st EXCEPT !.parts = parts, !.len = len]
RECURSIVE PamlFold(_, _, _)
PamlFold(st, lines, seqlen) == IF lines = <<>> THEN st ELSE PamlFold(PamlStep(st, Head(lines), seqlen), Tail(lines), seqlen)
PamlParser(lines) ==
    IF lines = <<>> THEN Err("empty")
    ELSE LET hp == Tokens(Head(lines)) IN
         IF Len(hp) # 2 \/ ~IsInt(hp[1]) \/ ~IsInt(hp[2]) THEN Err("bad header")
         ELSE LET st == PamlFold([out |-> <<>>, hasname |-> FALSE, name |-> <<>>, parts |-> <<>>, len |-> 0, n |-> 0],
                                 Tail(lines), ToInt(hp[2]))
              IN IF st.n # ToInt(hp[1]) THEN Err("read n seqs, expected m") ELSE Ok(st.out)

(* parser variants per format (names used by the harness)                      *)
FastaLabel == {GT}
GdeLabel == {"%", "#"}
Variants(fmt) == CASE fmt = "fasta"  -> {"bytes", "strict", "nonstrict"}
                   [] fmt = "phylip" -> {"phylip"}
                   [] fmt = "paml"   -> {"paml"}
                   [] fmt = "gde"    -> {"strict", "nonstrict"}
                   [] OTHER          -> {}
Model(fmt, v, lines) ==
    CASE fmt = "fasta" /\ v = "bytes"     -> BytesParser(lines)
      [] fmt = "fasta" /\ v = "strict"    -> StrictParser(lines, FastaLabel)
      [] fmt = "fasta" /\ v = "nonstrict" -> FasterParser(lines, FastaLabel)
      [] fmt = "gde" /\ v = "strict"      -> StrictParser(lines, GdeLabel)
      [] fmt = "gde" /\ v = "nonstrict"   -> FasterParser(lines, GdeLabel)
      [] fmt = "phylip"                   -> PhylipParser(lines)
      [] fmt = "paml"                     -> PamlParser(lines)

(* SOURCE REPRESENTATION of the parse action.  The same records must come from   *)
(* every way of handing the text to a parser: bytes, str path, Path, list of     *)
(* lines, generator of lines, an open text handle, and an open text handle whose *)
(* read position is k > 0 lines into the file (a preamble of k comment lines was *)
(* consumed with readline()/next() first).  The meaning of the last one is:      *)
(* parse the REMAINING lines -- a handle at position k is the list of the lines   *)
(* after the k-th, whatever buffering, encoding or newline translation the       *)
(* handle does underneath.                                                        *)
Sources == {"bytes", "str path", "Path", "list of lines", "generator of lines", "text handle", "text handle after k lines"}
SkipCounts == {1, 2}
CommentLine(i) == <<"#", SP, "c", Digit[i + 1]>>
Preamble(k) == [i \in 1..k |-> CommentLine(i)]
Remaining(lines, k) == SubSeq(lines, k + 1, Len(lines))

(* ARGUMENTS THE CALLER KEEPS.  A parser is a function of the lines it is given  *)
(* and a writer a function of the collection / dict it is given: the call is a    *)
(* stuttering step for the caller's object.  After Parse(arg) the caller's list   *)
(* of lines still is the written text (ArgAfterParse), so a second parse of the   *)
(* SAME object gives the same records, and after Write(x) the caller's dict /     *)
(* collection still is x (ArgAfterWrite).                                          *)
ArgAfterParse(lines) == lines
ArgAfterWrite(c) == [i \in 1..Len(c.names) |-> Rec(c.names[i], c.seqs[i])]
KeptArguments == {"list of lines", "dict of sequences", "collection"}

(* every text the writer relation allows for the case                          *)
WrittenTexts(c) == IF c.fmt = "fasta" THEN {FastaLines(c, lay) : lay \in LayoutChoices(c)}
                   ELSE {CanonLines(c)}

-----------------------------------------------------------------------------
(* THE CASE SPACE.                                                             *)
NonBlank(S) == {s \in S : ~AllBlank(s)}     \* a name has at least one non-blank character
SpecialNames == NonBlank(StringsUpTo(NameAlpha1, 1, NameLen1) \cup StringsUpTo(NameAlpha2, NameLen1 + 1, NameLen2))
PadLetters == <<"p", "q", "r", "s", "t", "u", "v", "w", "x", "y", "z">>
LongNames == {SubSeq(PadLetters, 1, L - 2) \o t : L \in LongLens, t \in StringsOfLen(TailAlpha, 2)}
(* names with white space runs INSIDE: two or three adjacent blanks, or a tab,    *)
(* between two words; the words include digits only ('ref  123' looks like a     *)
(* PHYLIP/PAML header) and residues only ('GTGT  GTGT' looks like sequence; G    *)
(* and T because the harness instantiates the residues A, C per molecular type). *)
(* Every format must hand such a name back verbatim (PHYLIP: its first 9         *)
(* characters): each parser strips the EDGES of the label only.  (A cfg file     *)
(* cannot spell a tab, hence the definition here.)                               *)
TAB == "\t"
RunSeps == {<<SP, SP>>, <<SP, SP, SP>>, <<TAB>>}
RunW1(level) == {<<"r", "e", "f">>, <<"G", "T", "G", "T">>} \cup (IF level > 1 THEN {<<"n">>} ELSE {})
RunW2(level) == {<<"1", "2", "3">>, <<"G", "T", "G", "T">>} \cup (IF level > 1 THEN {<<"c", "1">>} ELSE {})
RunNames == IF RunLevel = 0 THEN {}
            ELSE {w1 \o sp \o w2 : w1 \in RunW1(RunLevel), sp \in RunSeps, w2 \in RunW2(RunLevel)}
PairNames == NonBlank(StringsUpTo(PairAlpha, 1, PairLen))

PlainNames == << <<"b">>, <<"c", "c">>, <<"d">> >>
BaseNames == << <<"a">>, <<"b">>, <<"c">> >>
FixedSeqs == << <<"A", "C", "-", "A", "C">>, <<"C", "C", "A", "-", "A">>, <<"-", "A", "C", "C", "-">> >>
NameBlock == 3

Reverse(s) == [i \in 1..Len(s) |-> s[Len(s) + 1 - i]]
Rot(ch) == CASE ch = "A" -> "C" [] ch = "C" -> "-" [] OTHER -> "A"
Rotate(s) == [i \in 1..Len(s) |-> Rot(s[i])]
Derived(s) == <<s, Reverse(s), Rotate(s)>>            \* an alignment built from its first row
Ragged(s) == <<s, SubSeq(s, 2, Len(s)), SubSeq(s, 1, Len(s) - 2)>>   \* lengths L, L-1, L-2

(* WRITER ROUTES.  The same text must come out of every public way of writing    *)
(* a collection, in the collection's own order (not the sorted order of names):   *)
(*   write      coll.write(path)                     (passes order = names)       *)
(*   app        write_seqs(data_store, format) app   (formatter on to_dict())     *)
(*   to_string  coll.to_fasta() / to_phylip() / to_json() written to a file       *)
(*   formatter  FORMATTERS[fmt](dict) called on a plain dict, no order given      *)
(* The oracle does not depend on the route: WriteVia(r, c) = the writer model.    *)
Routes(f) == {"write"} \cup (IF f # "json" THEN {"app", "formatter"} ELSE {})
             \cup (IF f \in {"fasta", "phylip", "json"} THEN {"to_string"} ELSE {})
(* family O: three or four names whose given order is not the sorted one, incl.   *)
(* names whose lexicographic and numeric orders differ (s10 sorts before s2)      *)
OrderNames == { << <<"s", "2">>, <<"s", "1", "0">>, <<"s", "1">> >>,
                << <<"s", "1", "0">>, <<"s", "2">>, <<"s", "1", "1">>, <<"s", "1">> >>,
                << <<"z", "e", "b">>, <<"a", "n", "t">>, <<"m", "u", "s">> >> }
CharOrder == <<"0", "1", "2", "a", "b", "e", "m", "n", "s", "t", "u", "z">>   \* code point order of the characters used
FixedSeqs4 == FixedSeqs \o << <<"A", "A", "C", "-", "C">> >>

(* ragged family Q: QSeqs sequences whose lengths are taken independently from   *)
(* {0, 1, b, b+1, 2b+2} (b = the writer's block size): shorter than, exactly,   *)
(* one more than, and more than twice the wrap width; every order, so the first *)
(* sequence is the shortest in some cases and the longest in others.  The       *)
(* harness also replays the block-3 cases at the writers' DEFAULT width 60 by   *)
(* widening the three positions of a block to 1, 6 and 53 residues (lengths     *)
(* 0, 1, 60, 61, 127).                                                           *)
SeqCycle == <<"A", "C", "-">>
Pat(l, i) == [j \in 1..l |-> SeqCycle[((j + i) % 3) + 1]]
QLensOf(b) == {0, 1, b, b + 1, 2 * b + 2}

FirstSeqs == UNION {StringsOfLen(SeqAlphaA, n) : n \in SeqLensA} \cup UNION {StringsOfLen(SeqAlphaB, n) : n \in SeqLensB}
             \cup {[i \in 1..n |-> "C"] : n \in HomoLens}
BlocksFor(f) == IF f = "json" THEN {NameBlock} ELSE Blocks
RaggedFmts == Fmts \cap {"fasta", "gde", "json"}

Case(fam, f, b, nms, sqs, rg) == [fam |-> fam, fmt |-> f, block |-> b, names |-> nms, seqs |-> sqs, ragged |-> rg]

WellFormed(c) == /\ \A i \in 1..Len(c.names) : c.names[i] # <<>>
                 \* names distinct, and still distinct after the format's truncation
                 /\ \A i, j \in 1..Len(c.names) : i # j => Trunc(c.fmt, c.names[i]) # Trunc(c.fmt, c.names[j])
                 /\ Len(c.names) = Len(c.seqs)

(* A selector fixes family, format, block size, number of sequences and the    *)
(* position of the special name; CasesOf(sel) are the cases it stands for.     *)
(* (Two steps only so that TLC's workers share the enumeration.)               *)
Sel(fam, f, b, n, p) == [fam |-> fam, fmt |-> f, block |-> b, n |-> n, p |-> p]
Selectors ==
    \* N: one special name at position p among plain names, fixed sequences
    \* (alone, first of two, last of two, middle of three)
    {Sel("N", f, NameBlock, n, p) : f \in Fmts, n \in 1..MaxN, p \in 1..MaxN} 
    \* S: plain names (one sequence / MaxN sequences), every first sequence, every block size
    \cup UNION {{Sel("S", f, b, n, 0) : b \in BlocksFor(f), n \in {1, MaxN}} : f \in Fmts}
    \* R: ragged collections (unaligned only, formats without a common length)
    \cup UNION {{Sel("R", f, b, 3, 0) : b \in BlocksFor(f)} : f \in RaggedFmts}
    \* Q: ragged collections with lengths on both sides of the wrap width, in every order
    \cup UNION {{Sel("Q", f, b, QSeqs, 0) : b \in BlocksFor(f)} : f \in RaggedFmts}
    \* O: names in non-alphabetical order, every writer route
    \cup {Sel("O", f, NameBlock, n, 0) : f \in Fmts, n \in {3, 4}}
    \* P: two special names
    \cup (IF PairLen > 0 THEN {Sel("P", f, NameBlock, 2, 0) : f \in Fmts} ELSE {})

CasesOf(sl) ==
    LET raw ==
        CASE sl.fam = "N" ->
               IF sl.p > sl.n \/ (sl.n = 3 /\ sl.p # 2) THEN {}
               ELSE {Case("N", sl.fmt, sl.block, [i \in 1..sl.n |-> IF i = sl.p THEN s ELSE PlainNames[i]],
                          SubSeq(FixedSeqs, 1, sl.n), FALSE) : s \in SpecialNames \cup LongNames \cup RunNames}
          [] sl.fam = "S" ->
               {Case("S", sl.fmt, sl.block, SubSeq(BaseNames, 1, sl.n), SubSeq(Derived(s), 1, sl.n), FALSE)
                    : s \in FirstSeqs}
          [] sl.fam = "R" ->
               {Case("R", sl.fmt, sl.block, BaseNames, Ragged(s), TRUE) : s \in {t \in FirstSeqs : Len(t) >= 2}}
          [] sl.fam = "Q" ->
               {Case("Q", sl.fmt, sl.block, SubSeq(BaseNames, 1, QSeqs), [i \in 1..QSeqs |-> Pat(l[i], i)], TRUE)
                    : l \in {t \in [1..QSeqs -> QLensOf(sl.block)] : \E i \in 2..QSeqs : t[i] # t[1]}}
          [] sl.fam = "O" ->
               {Case("O", sl.fmt, sl.block, nm, SubSeq(FixedSeqs4, 1, sl.n), FALSE)
                    : nm \in {t \in OrderNames : Len(t) = sl.n}}
          [] sl.fam = "P" ->
               {Case("P", sl.fmt, NameBlock, <<s1, s2>>, SubSeq(FixedSeqs, 1, 2), FALSE)
                    : s1 \in PairNames, s2 \in PairNames}
    IN {c \in raw : WellFormed(c)}

NoCase == Case("-", "-", 0, <<>>, <<>>, FALSE)

-----------------------------------------------------------------------------
Init == sel \in Selectors /\ case = NoCase /\ stage = "pick"

Pick == /\ stage = "pick"
        /\ case' \in CasesOf(sel)
        /\ stage' = "ready"
        /\ UNCHANGED sel

ModelOut(c) ==
    LET lines == CanonLines(c) e == Exp(c) IN
    [v \in Variants(c.fmt) |-> LET m == Model(c.fmt, v, lines) IN
                               IF m = Ok(e) THEN [same |-> TRUE] ELSE [same |-> FALSE, res |-> m]]

RoundTripT == /\ stage = "ready"
              /\ stage' = "done"
              /\ UNCHANGED <<sel, case>>

RoundTrip ==
    /\ RoundTripT
    /\ Emit([from |-> case,
             act  |-> "RoundTrip",
             args |-> <<>>,
             to   |-> [exp   |-> Exp(case),
                       allowed |-> Allowed(case),
                       allowed_bytes |-> AllowedBytes(case),
                       \* lines a caller consumes from an open handle before handing it to a parser
                       preamble |-> Preamble(2), skips |-> SkipCounts,
                       \* what the caller's own objects must read as after the calls
                       arg_after_parse |-> ArgAfterParse(CanonLines(case)), arg_after_write |-> ArgAfterWrite(case),
                       routes |-> IF case.fam = "O" THEN Routes(case.fmt) ELSE {"write"},
                       cls   |-> CaseClass(case),
                       lines |-> CanonLines(case),
                       model |-> ModelOut(case),
                       \* allowed line layouts (as line lengths) of the FASTA writer for one sequence
                       \* (short sequences only: the record must stay below one atomic append)
                       layouts |-> IF case.fmt = "fasta" /\ Len(case.seqs) = 1 /\ Len(case.seqs[1]) <= 9
                                   THEN {Lens(l) : l \in Layouts(case.seqs[1], case.block)} ELSE {}]])

Next == Pick \/ RoundTrip
Spec == Init /\ [][Next]_vars

-----------------------------------------------------------------------------
(* DESIGN-LEVEL PROPERTIES (checked by TLC on every case).                     *)
Ready == stage = "ready"

NoBlankEdge(c) == \A i \in 1..Len(c.names) : NameClass(c.fmt, c.names[i]) \notin {"edge-blank", "trunc-edge-blank"}
NoGt(c) == \A i \in 1..Len(c.names) : ~HasChar(c.names[i], GT)

(* the domain on which variant v of the case's format must reproduce the oracle *)
Clean(c, v) == /\ NoBlankEdge(c)
               /\ ~HasEmptySeq(c)

(* Parse(Write(x)) = Exp(x) for every text the writer may produce and every    *)
(* parser of the format.                                                        *)
RoundTripOnClean ==
    Ready => \A v \in Variants(case.fmt) :
        Clean(case, v) => \A lines \in WrittenTexts(case) : Model(case.fmt, v, lines) = Ok(Exp(case))

(* the line based FASTA parsers keep names containing '>' verbatim (covered by *)
(* the above; stated for the record next to the characterisation below)        *)
LineParsersKeepGt ==
    (Ready /\ case.fmt = "fasta" /\ NoBlankEdge(case) /\ ~HasEmptySeq(case)) =>
        /\ StrictParser(CanonLines(case), FastaLabel) = Ok(Exp(case))
        /\ FasterParser(CanonLines(case), FastaLabel) = Ok(Exp(case))

(* the bytes-splitting parser keeps them too (since commit 3b7d8a88e; before   *)
(* it was lossless exactly when no name held a '>').  HasGtCovered makes sure   *)
(* the statement is not vacuous for the selectors that can produce such names.  *)
BytesParserKeepsGt ==
    (Ready /\ case.fmt = "fasta" /\ NoBlankEdge(case) /\ ~HasEmptySeq(case)) =>
        BytesParser(CanonLines(case)) = Ok(Exp(case))
(* ... and returns a record for every label line, with or without residues      *)
BytesParserKeepsEmpty ==
    (Ready /\ case.fmt = "fasta" /\ NoBlankEdge(case)) =>
        BytesParser(CanonLines(case)) \in AllowedBytes(case)
HasGtCovered ==
    (stage = "pick" /\ sel.fmt = "fasta" /\ sel.fam = "N" /\ sel.p <= sel.n /\ ~(sel.n = 3 /\ sel.p # 2)) =>
        \E c \in CasesOf(sel) : ~NoGt(c) /\ NoBlankEdge(c)

(* blank edges are never preserved by a text format: every parser strips them  *)
BlankEdgesAreLost ==
    (Ready /\ case.fmt # "json" /\ ~NoBlankEdge(case) /\ ~HasEmptySeq(case)) =>
        \A v \in Variants(case.fmt) : Model(case.fmt, v, CanonLines(case)) # Ok(Exp(case))

(* writer relation: every allowed FASTA layout keeps the residues and the bound *)
LayoutsSound ==
    (Ready /\ case.fmt = "fasta") =>
        \A i \in 1..Len(case.seqs) : \A l \in Layouts(case.seqs[i], case.block) :
            /\ Concat(l) = case.seqs[i]
            /\ \A j \in 1..Len(l) : Len(l[j]) \in 1..case.block
CanonIsALayout ==
    (Ready /\ case.fmt = "fasta") =>
        \A i \in 1..Len(case.seqs) : CanonLayout(case)[i] \in Layouts(case.seqs[i], case.block)

(* a handle positioned after the k preamble lines stands for the written text    *)
(* itself, so every parser model gives the oracle on the clean domain             *)
HandleAtKIsRemainingLines ==
    Ready => \A k \in SkipCounts :
        /\ Remaining(Preamble(k) \o CanonLines(case), k) = CanonLines(case)
        /\ \A v \in Variants(case.fmt) : Clean(case, v) =>
               Model(case.fmt, v, Remaining(Preamble(k) \o CanonLines(case), k)) = Ok(Exp(case))

(* parsing the caller's list a second time is parsing the same text              *)
SecondParseSame ==
    Ready => \A v \in Variants(case.fmt) :
        Model(case.fmt, v, ArgAfterParse(CanonLines(case))) = Model(case.fmt, v, CanonLines(case))

(* the order family really is unsorted, so a writer that sorts is caught          *)
RECURSIVE LexLess(_, _)
LexLess(a, b) == IF a = <<>> THEN b # <<>>
                 ELSE IF b = <<>> THEN FALSE
                 ELSE IF Head(a) = Head(b) THEN LexLess(Tail(a), Tail(b))
                 ELSE \E i, j \in 1..Len(CharOrder) : CharOrder[i] = Head(a) /\ CharOrder[j] = Head(b) /\ i < j
OrderFamilyUnsorted ==
    (Ready /\ case.fam = "O") => \E i \in 1..(Len(case.names) - 1) : LexLess(case.names[i + 1], case.names[i])

TypeOK == /\ stage \in {"pick", "ready", "done"}
          /\ sel \in Selectors
          /\ (stage # "pick" => /\ case.fmt = sel.fmt /\ case.fam = sel.fam /\ case.block = sel.block
                                /\ Len(case.names) = sel.n /\ WellFormed(case))
=============================================================================
