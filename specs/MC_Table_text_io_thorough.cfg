SPECIFICATION Spec
CONSTANTS
  Profile = "thorough"
  Group = "io"
INVARIANT LawWriterPathLossless
