SPECIFICATION Spec
CONSTANTS
  Seqids = {"s1", "s2"}
  Biotypes = {"gene", "CDS"}
  Names = {"n1", "n2"}
  Strands = {"+", "-"}
  Attrs = {}
  MaxCoord = 3
  NSpans = {1, 2}
  Vias = {"user", "ext"}
  MaxRecs = 1
  MaxLen = 1
  CanonFirst = TRUE
  CanonSeqid = "s1"
  CanonBiotype = "gene"
  CanonName = "n1"
  QCats = {"seqid", "name", "strand"}
  WinKinds = {"none", "both", "start", "stop"}
  Windows <- AllWindows
  Points <- AllPoints
  SpanChoice <- NoSpanChoice
  SubsetCats = {0, 1}
  Ops = {"Subset", "QueryList", "QueryRep"}
  Others <- OthersNone
  UpdateSeqids = {}
INVARIANT TypeOK
INVARIANT StoredNormalised
PROPERTY OnlyGrowsOrFilters
