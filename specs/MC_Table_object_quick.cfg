SPECIFICATION Spec
CONSTANTS
  MaxLen = 3
  Formats = {"tsv", "csv.gz"}
INVARIANT WellFormed
PROPERTY ObservationsArePure
PROPERTY ReorderKeepsColumns
PROPERTY RefusedIsStuttering
