SPECIFICATION Spec
CONSTANTS
  ShapeIds = {"s2x3", "s1x4"}
  PickedIds = {}
  Mols = {"dna"}
  MaxDepth = 1
  MaxLen = 6
  Forms = {"plain", "open", "neg", "over"}
  ColFamily = "small"
  PairFamily = "cuts"
INVARIANT TypeOK
INVARIANT Rectangular
INVARIANT UniqueNames
INVARIANT NoCellInvented
INVARIANT RcInvolution
INVARIANT SliceCommutesWithTakeSeqs
INVARIANT RcOfSliceIsSliceOfRc
INVARIANT NegateKeepsTheOthers
INVARIANT ConcatOfCutIsIdentity
