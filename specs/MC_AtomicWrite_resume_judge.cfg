SPECIFICATION JudgeSpec
CONSTANTS
  N = 1
  NCSets <- NCNone
  Configs <- CurrentConfigs
