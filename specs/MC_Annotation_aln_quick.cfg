SPECIFICATION Spec
CONSTANTS
  U = 3
  L = 4
  MaxSpans = 2
INVARIANT TypeOK
INVARIANT ViewShape
INVARIANT Restriction
INVARIANT ProjectionAgrees
INVARIANT InsideIsComplete
INVARIANT AlgebraLaws
