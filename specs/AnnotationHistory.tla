--------------------------- MODULE AnnotationHistory ---------------------------
(* Property C04, order of events: which objects share one annotation db, and    *)
(* what each of them sees after any interleaving of annotating and deriving.    *)
(*                                                                            *)
(* State.  objs is the list of sequence objects made so far (objs[1] is the     *)
(* root, of length P at offset 0); each is a view idx (root positions in view   *)
(* order) / comp (displayed complemented) of molecule type mol that holds a     *)
(* reference db to one of the annotation databases dbs.  A database is the      *)
(* list of feature records added through any object referring to it; a record  *)
(* is fixed when it is created: lo..hi-1 are the root (plus strand) positions   *)
(* it denotes, strand its strand.  hist is the sequence of calls made (the      *)
(* harness replays it on the real classes).                                     *)
(*                                                                            *)
(* Calls (every call may be made on ANY object made so far):                    *)
(*   Slice / Rc / Degap / ToRna  -> a new object that SHARES the db;            *)
(*   Copy                        -> a new object with its OWN db, a snapshot;   *)
(*   Add(s, e, strand)           -> a record in the db of the object it is      *)
(*                                  called on, visible from that moment to      *)
(*                                  every object sharing that db - whenever     *)
(*                                  they were made - and to nobody else.        *)
(* add_feature(spans) on a view counts the spans from the view's plus-strand    *)
(* start along the plus strand of the parent (that is what the Feature it       *)
(* returns shows on forward and reverse complemented views alike; the           *)
(* docstring only says "coordinates for this sequence").                        *)
(*                                                                            *)
(* Oracle: in every reachable state every object sees exactly the records of    *)
(* its db, each mapped into its own coordinates as in Annotation.tla (view      *)
(* positions, residues read on the feature's strand, orientation, membership    *)
(* with and without partial matches).                                           *)
EXTENDS Integers, Sequences, FiniteSets, TLC, Emit

CONSTANTS P,         \* root length
          MaxDepth,  \* calls per history
          MaxAdds,   \* add_feature calls per history
          Derives    \* subset of {"head", "tail", "mid", "rc", "copy", "degap", "rna"}

VARIABLES objs, dbs, hist
vars == <<objs, dbs, hist>>

Ident(n) == [i \in 1..n |-> i - 1]
Reverse(s) == [i \in 1..Len(s) |-> s[Len(s) + 1 - i]]
RangeOf(s) == {s[i] : i \in DOMAIN s}
SetMin(S) == CHOOSE x \in S : \A y \in S : x <= y
SetMax(S) == CHOOSE x \in S : \A y \in S : x >= y

(* roots avoid A, T, U so that DNA and RNA read the same *)
Compl == [C |-> "G", G |-> "C", R |-> "Y", Y |-> "R", M |-> "K", K |-> "M",
          H |-> "D", D |-> "H", B |-> "V", V |-> "B"]

NAdds == Cardinality({k \in 1..Len(hist) : hist[k][1] = "Add"})

(* ------------------------------------------------------------ observations *)
DenSet(r) == r.lo..(r.hi - 1)
PosOn(ix, r) == SelectSeq(Ident(Len(ix)), LAMBDA k : ix[k + 1] \in DenSet(r))
ReadOn(ix, r) ==
    LET asc == SelectSeq(Ident(P), LAMBDA q : q \in DenSet(r) /\ q \in RangeOf(ix))
    IN IF r.strand = "+" THEN asc ELSE Reverse(asc)
Sees(o, r) ==
    [name |-> r.name,
     pos  |-> PosOn(o.idx, r),
     read |-> ReadOn(o.idx, r),
     fcomp |-> r.strand = "-",
     rev  |-> (r.strand = "-") # o.comp,
     vis  |-> IF DenSet(r) \cap RangeOf(o.idx) # {} THEN "in" ELSE "out",
     inside |-> IF DenSet(r) \subseteq RangeOf(o.idx) THEN "in" ELSE "out"]
ObsOf(os, ds) == [i \in 1..Len(os) |-> [k \in 1..Len(ds[os[i].db]) |-> Sees(os[i], ds[os[i].db][k])]]

(* ----------------------------------------------------------------- actions *)
Init == /\ objs = <<[idx |-> Ident(P), comp |-> FALSE, db |-> 1, mol |-> "dna"]>>
        /\ dbs = << <<>> >>
        /\ hist = <<>>

(* o2 = o.<kind>: a new object; the call is recorded with its Python arguments *)
DeriveT(i, kind) ==
    LET o == objs[i]
        n == Len(o.idx)
        call == CASE kind = "head" -> <<"Slice", i - 1, 0, n - 1>>
                  [] kind = "tail" -> <<"Slice", i - 1, 1, n>>
                  [] kind = "mid"  -> <<"Slice", i - 1, 1, n - 1>>
                  [] kind = "rc"   -> <<"Rc", i - 1>>
                  [] kind = "copy" -> <<"Copy", i - 1>>
                  [] kind = "degap" -> <<"Degap", i - 1>>
                  [] kind = "rna"  -> <<"ToRna", i - 1>>
        ix == CASE kind = "head" -> SubSeq(o.idx, 1, n - 1)
                [] kind = "tail" -> SubSeq(o.idx, 2, n)
                [] kind = "mid"  -> SubSeq(o.idx, 2, n - 1)
                [] kind = "rc"   -> Reverse(o.idx)
                [] OTHER -> o.idx
    IN /\ Len(hist) < MaxDepth
       /\ kind \in Derives
       /\ (kind \in {"head", "tail"} => n >= 2)
       /\ (kind = "mid" => n >= 3)
       /\ (kind = "rna" => o.mol = "dna")
       /\ objs' = Append(objs, [idx |-> ix,
                                comp |-> IF kind = "rc" THEN ~o.comp ELSE o.comp,
                                db |-> IF kind = "copy" THEN Len(dbs) + 1 ELSE o.db,
                                mol |-> IF kind = "rna" THEN "rna" ELSE o.mol])
       /\ dbs' = IF kind = "copy" THEN Append(dbs, dbs[o.db]) ELSE dbs
       /\ hist' = Append(hist, call)

(* o.add_feature(spans=[(s, e)], strand): s, e count from the view's plus-strand start *)
AddT(i, s, e, strand) ==
    LET o == objs[i]
        n == Len(o.idx)
        p0 == SetMin(RangeOf(o.idx))
        rec == [name |-> IF NAdds = 0 THEN "f1" ELSE IF NAdds = 1 THEN "f2" ELSE "f3",
                lo |-> p0 + s, hi |-> p0 + e, strand |-> strand]
    IN /\ Len(hist) < MaxDepth
       /\ NAdds < MaxAdds
       /\ 0 <= s /\ s < e /\ e <= n
       /\ dbs' = [dbs EXCEPT ![o.db] = Append(@, rec)]
       /\ hist' = Append(hist, <<"Add", i - 1, s, e, strand, rec.name>>)
       /\ UNCHANGED objs

(* the spans tried on a view of n positions: its first position, and the rest *)
AddChoices(n) == IF n >= 2 THEN {<<0, 1>>, <<1, n>>} ELSE {<<0, 1>>}

Look == /\ \E d \in 1..Len(dbs) : dbs[d] # <<>>
        /\ UNCHANGED vars
        /\ Emit([act |-> "Look", P |-> P, hist |-> hist, compl |-> Compl,
                 objs |-> [i \in 1..Len(objs) |-> [idx |-> objs[i].idx, comp |-> objs[i].comp,
                                                    db |-> objs[i].db, mol |-> objs[i].mol]],
                 obs |-> ObsOf(objs, dbs)])

Next == \/ \E i \in 1..Len(objs), kind \in Derives : DeriveT(i, kind)
        \/ \E i \in 1..Len(objs), strand \in {"+", "-"} :
              \E sp \in AddChoices(Len(objs[i].idx)) : AddT(i, sp[1], sp[2], strand)
        \/ Look
Spec == Init /\ [][Next]_vars

DepthBound == Len(hist) <= MaxDepth

------------------------------------------------------------------------------
TypeOK == /\ \A i \in 1..Len(objs) : /\ objs[i].idx \in Seq(0..(P - 1)) /\ Len(objs[i].idx) >= 1
                                     /\ objs[i].db \in 1..Len(dbs) /\ objs[i].mol \in {"dna", "rna"}
          /\ \A d \in 1..Len(dbs) : \A k \in 1..Len(dbs[d]) : 0 <= dbs[d][k].lo /\ dbs[d][k].lo < dbs[d][k].hi /\ dbs[d][k].hi <= P

(* Implementation-shaped arithmetic: an object is (plus-strand start, length,   *)
(* reversed); a record is an absolute interval; what the object sees is the      *)
(* clipped interval shifted (forward) or mirrored (reversed).  It must be the    *)
(* abstract meaning.                                                             *)
ImplPos(o, r) ==
    LET p0 == SetMin(RangeOf(o.idx))
        n == Len(o.idx)
        a == IF r.lo > p0 THEN r.lo ELSE p0
        b == IF r.hi < p0 + n THEN r.hi ELSE p0 + n
    IN IF o.comp THEN {p0 + n - 1 - q : q \in a..(b - 1)} ELSE {q - p0 : q \in a..(b - 1)}
Refines == \A i \in 1..Len(objs) : \A k \in 1..Len(dbs[objs[i].db]) :
               RangeOf(PosOn(objs[i].idx, dbs[objs[i].db][k])) = ImplPos(objs[i], dbs[objs[i].db][k])

(* objects sharing a db agree on every residue they both display *)
SharedCoherent ==
    \A i \in 1..Len(objs), j \in 1..Len(objs) :
        objs[i].db = objs[j].db =>
            \A k \in 1..Len(dbs[objs[i].db]) :
                LET r == dbs[objs[i].db][k] IN
                RangeOf(ReadOn(objs[i].idx, r)) \cap RangeOf(objs[j].idx)
                    = RangeOf(ReadOn(objs[j].idx, r)) \cap RangeOf(objs[i].idx)

(* a call changes at most one database, and only add_feature changes one that exists; a copy starts from a snapshot *)
CopyIsolated ==
    [][/\ Len(dbs') >= Len(dbs)
       /\ \A d \in 1..Len(dbs) :
             dbs'[d] # dbs[d] =>
                 /\ hist'[Len(hist')][1] = "Add"
                 /\ objs[hist'[Len(hist')][2] + 1].db = d
                 /\ \A d2 \in (1..Len(dbs)) \ {d} : dbs'[d2] = dbs[d2]
       /\ Len(dbs') > Len(dbs) => dbs'[Len(dbs')] = dbs[objs[hist'[Len(hist')][2] + 1].db]]_vars

(* what an object sees does not depend on when it was made: it is a function of its view and its db *)
OrderFree ==
    \A i \in 1..Len(objs), j \in 1..Len(objs) :
        (objs[i].idx = objs[j].idx /\ objs[i].comp = objs[j].comp /\ objs[i].db = objs[j].db)
            => ObsOf(objs, dbs)[i] = ObsOf(objs, dbs)[j]
=============================================================================
