SPECIFICATION Spec
CONSTANTS
  Alphabet = {"A", "C"}
  MaxLen1 = 3
  MaxLen2 = 3
INVARIANT RowsWellFormed
