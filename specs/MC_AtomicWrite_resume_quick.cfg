\* resume clause, transcribed current behaviour, explored completely and emitted
\* (ResumeOK is NOT an invariant here: see MC_AtomicWrite_resume_cx.cfg)
SPECIFICATION Spec
CONSTANTS
  N = 3
  NCSets <- NCQuick
  Configs <- CurrentConfigs
INVARIANT TypeOK
INVARIANT UninterruptedCompletes
