SPECIFICATION Spec
CONSTANTS
  Alphabet = {"A", "C", "G"}
  MaxLen1 = 3
  MaxLen2 = 3
INVARIANT RowsWellFormed
