SPECIFICATION Spec
CONSTANTS
  Tips = {"a", "b", "c", "d", "e"}
INVARIANT Symmetric
INVARIANT ZeroIffEqual
INVARIANT RFBounded
