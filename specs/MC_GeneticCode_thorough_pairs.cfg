SPECIFICATION Spec
CONSTANTS
  TableCodes = {}
  SeqCodes = {1}
  MaxLen = 0
  OptLen = 0
  MaxCodons = 0
  PairCodons = 2
  LongLens = {}
  SymLen = 0
INVARIANT TypeOK
INVARIANT RcInvolution
INVARIANT ComplementLaws
INVARIANT ComplementRcLaw
INVARIANT EncodeResolveInverse
INVARIANT SixFrameLaw
INVARIANT AnticodonFrameLaw
INVARIANT StopLaws
INVARIANT LongLaw
INVARIANT CodonLaw
