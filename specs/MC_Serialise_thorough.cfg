SPECIFICATION Spec
CONSTANTS
  KindOps <- KindOpsDef
  MaxOps = 3
  MaxTrips = 1
PROPERTY Stutters
