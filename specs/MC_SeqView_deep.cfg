SPECIFICATION Spec
CONSTANTS
  MinL = 5
  MaxL = 10
  Offsets = {0, 7}
  MaxStep = 12
  MaxGen = 1
  Margin = 2
  Reps = {"str", "bytes", "tuple", "list", "array", "seqview", "sequence"}
  Steps <- StepsFull
CONSTRAINT StepBound
CONSTRAINT Walkable
INVARIANT TypeOK
INVARIANT Refines
INVARIANT RefinesSdv
INVARIANT CompDirection
INVARIANT CoordsRefine
INVARIANT Progression
