------------------------------ MODULE IndelMap ------------------------------
(* Property C08, first half: an IndelMap is a function of the gapped string  *)
(* it describes, and every IndelMap operation is the corresponding operation *)
(* on that string.                                                           *)
(*                                                                           *)
(* Abstract state: g, the gapped sequence (abstracted to Seq({0,1}),          *)
(* 0 = gap column, 1 = residue) described by the map that calls are made on, *)
(* and out, the map returned by the last call.  Every string of length       *)
(* 0..MaxLen is an initial receiver, every operation maps strings to strings *)
(* and a returned map can become the receiver (Adopt), so the reachable set  *)
(* is closed (no depth bound) and contains every history of calls on one     *)
(* object, fresh or derived.  ReadOnlyOpsPreserveReceiver: no call changes   *)
(* the map it is made on.                                                    *)
(*                                                                           *)
(* Each action is one public call of cogent3.core.location.IndelMap.  The    *)
(* oracle is always written ON THE STRING:                                   *)
(*    m[a:b]            -> SubSeq                                            *)
(*    m1 + m2           -> concatenation                                     *)
(*    m * k             -> every symbol repeated k times                     *)
(*    nucleic_reversed  -> reversal                                          *)
(*    merge_maps        -> gaps of both strings in front of the same residue *)
(*    minus_gaps        -> columns that are a gap in both strings removed    *)
(*    shared_gaps       -> gap runs of the column-wise "both gap" string     *)
(*    joined_segments   -> concatenation of the slices                       *)
(*    get_seq_index     -> number of residues to the left of a column        *)
(*    get_align_index   -> column of the p-th residue                        *)
(* "Describe" is the reading of the string that the real map must report     *)
(* (gap_pos, cum_gap_lengths, parent_length, len, spans, coordinates ...).   *)
(* The harness (harness/check_C08.py) builds a real IndelMap from `from`,    *)
(* makes the real call and compares the real result with Describe(to).       *)
EXTENDS Integers, Sequences, FiniteSets, SequencesExt, TLC, Emit

CONSTANTS MaxLen,     \* all strings of length 0..MaxLen are states
          MaxBin,     \* binary operations: operands of length <= MaxBin
          Scales,     \* scale factors for m * k
          MaxSegs,    \* joined_segments / make_seq_feature_map: number of segments ...
          SegsLen,    \* ... for strings up to this length (longer strings: at most 2 segments)
          EmptySegsUpTo \* strings up to this length also get empty segments (start = end)

VARIABLES g,      \* the gapped string of the receiver (the map calls are made on)
          out     \* the map returned by the last call: [has, s]
vars == <<g, out>>

Gap == 0
Res == 1
MinusOne == 0 - 1

StrN(n) == [1..n -> {Gap, Res}]
Str(n)  == UNION {StrN(k) : k \in 0..n}

---------------------------------------------------------------------------
(* Reading a string                                                         *)

(* number of residues among the first i symbols *)
Ones(s, i) == Cardinality({j \in 1..i : s[j] = Res})
PLen(s) == Ones(s, Len(s))

(* maximal runs of symbol sym, as 0-based half-open <<start, end>> *)
Runs(s, sym) ==
    {r \in (0..Len(s)) \X (0..Len(s)) :
        /\ r[1] < r[2]
        /\ \A j \in (r[1] + 1)..r[2] : s[j] = sym
        /\ (r[1] = 0 \/ s[r[1]] # sym)
        /\ (r[2] = Len(s) \/ s[r[2] + 1] # sym)}
ByStart(S) == SetToSortSeq(S, LAMBDA x, y : x[1] < y[1])
GapRuns(s) == ByStart(Runs(s, Gap))
ResRuns(s) == ByStart(Runs(s, Res))

(* 1-based position of residue number p (p is 0-based) *)
ResPos(s, p) == CHOOSE j \in 1..Len(s) : s[j] = Res /\ Ones(s, j) = p + 1

(* the concrete representation the code keeps, as a function of the string *)
Canon(s) ==
    LET runs == GapRuns(s)
    IN [gap_pos |-> [k \in 1..Len(runs) |-> Ones(s, runs[k][1])],
        cum     |-> [k \in 1..Len(runs) |-> runs[k][2] - Ones(s, runs[k][2])],
        plen    |-> PLen(s)]

(* independent decoding of the representation (the formula of _gap_spans) *)
Decode(c) ==
    LET n == c.plen + (IF Len(c.cum) = 0 THEN 0 ELSE c.cum[Len(c.cum)])
        st(k) == c.gap_pos[k] + (IF k = 1 THEN 0 ELSE c.cum[k - 1])
        en(k) == c.gap_pos[k] + c.cum[k]
    IN [i \in 1..n |-> IF \E k \in 1..Len(c.gap_pos) : st(k) <= i - 1 /\ i - 1 < en(k)
                       THEN Gap ELSE Res]

Norm(s, i) == IF i < 0 THEN i + Len(s) ELSE i
NormP(s, p) == IF p < 0 THEN p + PLen(s) ELSE p

SeqIndexS(s, i)   == Ones(s, Norm(s, i))                  \* get_seq_index(i)
AlignIndexS(s, p) == ResPos(s, NormP(s, p)) - 1           \* get_align_index(p)
AlignStopS(s, p)  == IF NormP(s, p) = 0 THEN 0            \* get_align_index(p, slice_stop=True)
                     ELSE ResPos(s, NormP(s, p) - 1)

(* Everything the map reports about the string it was built from *)
Describe(s) ==
    LET c == Canon(s)
        gr == GapRuns(s)
        rr == ResRuns(s)
        n == Len(s)
        P == PLen(s)
    IN [len        |-> n,
        gap_pos    |-> c.gap_pos,
        cum        |-> c.cum,
        plen       |-> P,
        \* get_gap_coordinates(): [gap pos, gap length]
        gap_coords |-> [k \in 1..Len(gr) |-> <<c.gap_pos[k], gr[k][2] - gr[k][1]>>],
        \* get_gap_align_coordinates(): gap runs in alignment coordinates
        gap_align  |-> gr,
        \* nongap(): ungapped segments in alignment coordinates
        res_align  |-> rr,
        \* get_coordinates(): ungapped segments in sequence coordinates
        res_seq    |-> [k \in 1..Len(rr) |-> <<Ones(s, rr[k][1]), Ones(s, rr[k][2])>>],
        \* spans / to_feature_map(): per column the sequence index or lost (-1)
        entries    |-> [i \in 1..n |-> IF s[i] = Res THEN Ones(s, i) - 1 ELSE MinusOne],
        \* to_feature_map().inverse(): per residue its column
        inverse    |-> [p \in 1..P |-> ResPos(s, p - 1) - 1],
        seq_index  |-> [k \in 1..(2 * n + 1) |-> SeqIndexS(s, k - n - 1)],        \* i = -n..n
        align_index|-> [k \in 1..(2 * P) |-> AlignIndexS(s, k - P - 1)],          \* p = -P..P-1
        align_stop |-> [k \in 1..(2 * P + 1) |-> AlignStopS(s, k - P - 1)]]       \* p = -P..P

---------------------------------------------------------------------------
(* Transforming a string                                                    *)

SliceS(s, a, b) == LET x == Norm(s, a)
                       y == Norm(s, b)
                   IN IF x >= y THEN <<>> ELSE SubSeq(s, x + 1, y)
IndexS(s, i)  == <<s[Norm(s, i) + 1]>>
ConcatS(s, h) == s \o h
ScaleS(s, k)  == [i \in 1..(k * Len(s)) |-> s[((i - 1) \div k) + 1]]
RevS(s)       == [i \in 1..Len(s) |-> s[Len(s) + 1 - i]]

(* both strings describe the same ungapped sequence: residue p ends up behind *)
(* the gaps either string has in front of it                                  *)
MergeS(s, h) ==
    LET P == PLen(s)
        n == Len(s) + Len(h) - P
        R == {ResPos(s, p) + ResPos(h, p) - 1 - p : p \in 0..(P - 1)}
    IN [i \in 1..n |-> IF i \in R THEN Res ELSE Gap]

BothGap(s, h) == [i \in 1..Len(s) |-> IF s[i] = Gap /\ h[i] = Gap THEN Gap ELSE Res]
SharedS(s, h) == GapRuns(BothGap(s, h))
MinusS(s, h) ==
    LET keep == SetToSortSeq({i \in 1..Len(s) : ~(s[i] = Gap /\ h[i] = Gap)}, <)
    IN [k \in 1..Len(keep) |-> s[keep[k]]]

RECURSIVE JoinS(_, _)
JoinS(s, cs) == IF cs = <<>> THEN <<>>
                ELSE SubSeq(s, cs[1][1] + 1, cs[1][2]) \o JoinS(s, Tail(cs))
SeqSegsS(s, cs) == [k \in 1..Len(cs) |-> <<Ones(s, cs[k][1]), Ones(s, cs[k][2])>>]

Segs(n) == {r \in (0..n) \X (0..n) : IF n <= EmptySegsUpTo THEN r[1] <= r[2] ELSE r[1] < r[2]}
CoordLists(n) ==
    UNION {{cs \in [1..k -> Segs(n)] : \A i \in 1..(k - 1) : cs[i][2] <= cs[i + 1][1]}
           : k \in 1..(IF n <= SegsLen THEN MaxSegs ELSE 2)}
CL == [n \in 0..MaxLen |-> CoordLists(n)]       \* evaluated once

---------------------------------------------------------------------------
(* Actions.  There are two objects in a state: g is the gapped string of the *)
(* map the calls are made ON (the receiver), out is the map the last call    *)
(* RETURNED (if any).  Every public call is a query: it computes a new       *)
(* object and leaves its receiver exactly as it was (Call: g' = g).  A       *)
(* history continues either on the same receiver (Drop: the returned map is  *)
(* discarded) or on the returned, derived map (Adopt: it becomes the         *)
(* receiver of the following calls).  So a behaviour is a history of calls   *)
(* on ONE object, possibly a derived one, and the conformance replay runs    *)
(* such histories on one real object, re-projecting the receiver after every *)
(* step (harness/check_C08.py, history phase).                               *)

NoOut == [has |-> FALSE, s |-> <<>>]
Out(s) == [has |-> TRUE, s |-> s]

Log(act, args, res, ret) == Emit([from |-> g, act |-> act, args |-> args, to |-> res, ret |-> ret])

(* a call returning a map described by string res *)
CallT(res) == /\ ~out.has
              /\ g' = g                  \* the receiver is not changed by the call
              /\ out' = Out(res)
(* a call returning a plain value *)
AskT == /\ ~out.has
        /\ g' = g
        /\ out' = out

DescribeT == AskT
DescribeA == DescribeT /\ Log("Describe", <<>>, g, Describe(g))

(* Constructors: <<constructor, container of its argument>>.  The map built from the reading of  *)
(* g (its ungapped segments / spans / gap dictionary / text) is Describe(g) whatever container   *)
(* the argument comes in, as far as the signature accepts an iterable.                           *)
Constructors ==
    {<<"segments", "list">>, <<"segments", "tuple">>, <<"segments", "generator">>, <<"segments", "iter">>,
     <<"segments", "array">>, <<"segments", "list_of_lists">>,
     <<"spans", "list">>, <<"spans", "tuple">>,
     <<"gapdict", "dict">>, <<"gapdict", "numpy_keys">>,
     <<"arrays", "int32">>, <<"arrays", "int64">>, <<"arrays", "gap_lengths">>,
     <<"parse", "text">>}
BuildT(c) == AskT
Build(c) == BuildT(c) /\ Log("Build", c, g, 0)

(* Aliasing with the caller.  The caller keeps what it handed to the constructor (the arrays,   *)
(* list, dict ...) and may later write into it in place (a work buffer reused for the next      *)
(* sequence); likewise it may write into anything a query handed back (gap_pos, the arrays of   *)
(* get_gap_lengths / get_gap_align_coordinates, the lists of get_gap_coordinates /              *)
(* get_coordinates).  The write may be refused (frozen array) or go through; either way it is a *)
(* stuttering step for the map: it still describes g.                                           *)
Returned == {"gap_pos", "cum_gap_lengths", "get_gap_lengths", "get_gap_align_coordinates",
             "get_gap_coordinates", "get_coordinates"}
ReturnCtors == {<<"arrays", "int64">>, <<"arrays", "gap_lengths">>, <<"parse", "text">>, <<"segments", "list">>}
CallerWritesArgumentT(c) == AskT
CallerWritesArgument(c) == CallerWritesArgumentT(c) /\ Log("CallerWritesArgument", c, g, 0)
CallerWritesReturnedT(w, c) == AskT
CallerWritesReturned(w, c) == CallerWritesReturnedT(w, c) /\ Log("CallerWritesReturned", <<w, c[1], c[2]>>, g, 0)

SliceT(a, b) == CallT(SliceS(g, a, b))
Slice(a, b) == SliceT(a, b) /\ Log("Slice", <<a, b>>, SliceS(g, a, b), 0)

IndexT(i) == CallT(IndexS(g, i))
Index(i) == IndexT(i) /\ Log("Index", <<i>>, IndexS(g, i), 0)

ConcatT(h) == Len(g) + Len(h) <= MaxLen /\ CallT(ConcatS(g, h))
Concat(h) == ConcatT(h) /\ Log("Concat", <<h>>, ConcatS(g, h), 0)

ScaleT(k) == k * Len(g) <= MaxLen /\ CallT(ScaleS(g, k))
Scale(k) == ScaleT(k) /\ Log("Scale", <<k>>, ScaleS(g, k), 0)

ReversedT == CallT(RevS(g))
Reversed == ReversedT /\ Log("Reversed", <<>>, RevS(g), 0)

MergeT(h) == /\ Len(g) <= MaxBin
             /\ PLen(h) = PLen(g)
             /\ Len(g) + Len(h) - PLen(g) <= MaxLen
             /\ CallT(MergeS(g, h))
Merge(h) == MergeT(h) /\ Log("Merge", <<h>>, MergeS(g, h), 0)

MinusT(h) == Len(g) <= MaxBin /\ CallT(MinusS(g, h))
Minus(h) == MinusT(h) /\ Log("Minus", <<h, SharedS(g, h)>>, MinusS(g, h), 0)

SharedT(h) == Len(g) <= MaxBin /\ AskT
Shared(h) == SharedT(h) /\ Log("Shared", <<h>>, g, SharedS(g, h))

JoinedT(cs) == CallT(JoinS(g, cs))
Joined(cs) == JoinedT(cs) /\ Log("Joined", <<cs>>, JoinS(g, cs), 0)

SeqSegsT(cs) == AskT
SeqSegs(cs) == SeqSegsT(cs) /\ Log("SeqSegs", <<cs>>, g, SeqSegsS(g, cs))

(* the history goes on with the returned (derived) map as receiver *)
Adopt == out.has /\ g' = out.s /\ out' = NoOut
(* the returned map is discarded, the history goes on with the same receiver *)
Drop  == out.has /\ g' = g /\ out' = NoOut

Init == g \in Str(MaxLen) /\ out = NoOut

Call == \/ DescribeA
        \/ \E c \in Constructors : Build(c) \/ CallerWritesArgument(c)
        \/ \E w \in Returned, c \in ReturnCtors : CallerWritesReturned(w, c)
        \/ \E a, b \in (0 - Len(g))..Len(g) : Slice(a, b)
        \/ \E i \in (0 - Len(g))..(Len(g) - 1) : Index(i)
        \/ \E h \in Str(MaxLen) : Concat(h)
        \/ \E k \in Scales : Scale(k)
        \/ Reversed
        \/ \E h \in Str(MaxBin) : Merge(h)
        \/ \E h \in StrN(Len(g)) : Minus(h) \/ Shared(h)
        \/ \E cs \in CL[Len(g)] : Joined(cs) \/ SeqSegs(cs)

Next == \/ (~out.has /\ Call)
        \/ Adopt
        \/ Drop

Spec == Init /\ [][Next]_vars

(* No call changes the map it is made on, whatever was done to that map      *)
(* before: only Adopt (an explicit change of which object is the receiver)   *)
(* changes g.                                                                *)
ReadOnlyOpsPreserveReceiver == [][~out.has => g' = g]_vars
DropPreservesReceiver == [][(out.has /\ g' # g) => (g' = out.s /\ ~out'.has)]_vars

---------------------------------------------------------------------------
(* Design-level properties of the model itself, checked by TLC              *)

TypeOK == /\ g \in Str(MaxLen)
          /\ out.has \in BOOLEAN
          /\ out.s \in Str(MaxLen)

(* the representation determines the string (so comparing representations is complete) *)
CanonRoundTrip == ~out.has => Decode(Canon(g)) = g

StrictlyIncreasing(f) == \A k \in 1..(Len(f) - 1) : f[k] < f[k + 1]

(* no coordinate outside the parent; gap positions distinct and ordered *)
InParent == ~out.has =>
    LET c == Canon(g)
    IN /\ \A k \in 1..Len(c.gap_pos) : c.gap_pos[k] \in 0..c.plen
       /\ StrictlyIncreasing(c.gap_pos)
       /\ StrictlyIncreasing(c.cum)
       /\ \A k \in 1..Len(c.cum) : c.cum[k] > 0
       /\ Len(g) = c.plen + (IF Len(c.cum) = 0 THEN 0 ELSE c.cum[Len(c.cum)])

(* a string is the concatenation of its two parts at any cut *)
SliceConcatLaw == ~out.has =>
    \A a \in 0..Len(g) : ConcatS(SliceS(g, 0, a), SliceS(g, a, Len(g))) = g

ReverseLaw == ~out.has =>
    /\ RevS(RevS(g)) = g
    /\ \A i \in 0..Len(g) : SeqIndexS(RevS(g), i) = PLen(g) - SeqIndexS(g, Len(g) - i)

(* index conversions are inverse on residues and monotone *)
IndexLaw == ~out.has =>
    /\ \A p \in 0..(PLen(g) - 1) :
          /\ SeqIndexS(g, AlignIndexS(g, p)) = p
          /\ g[AlignIndexS(g, p) + 1] = Res
          /\ AlignStopS(g, p) <= AlignIndexS(g, p)
          /\ AlignStopS(g, p + 1) = AlignIndexS(g, p) + 1
    /\ \A i \in 0..(Len(g) - 1) : SeqIndexS(g, i) <= SeqIndexS(g, i + 1)
    /\ SeqIndexS(g, Len(g)) = PLen(g)

AllRes(n) == [i \in 1..n |-> Res]

MergeLaw ==
    (~out.has /\ Len(g) <= MaxBin) =>
        /\ MergeS(g, AllRes(PLen(g))) = g
        /\ \A h \in Str(MaxBin) :
              PLen(h) = PLen(g) =>
                 /\ MergeS(g, h) = MergeS(h, g)
                 /\ PLen(MergeS(g, h)) = PLen(g)
                 /\ Len(MergeS(g, h)) = Len(g) + Len(h) - PLen(g)

MinusLaw ==
    (~out.has /\ Len(g) <= MaxBin) =>
        \A h \in StrN(Len(g)) :
            /\ PLen(MinusS(g, h)) = PLen(g)
            /\ Len(MinusS(g, h)) = Len(MinusS(h, g))
            /\ SharedS(g, h) = SharedS(h, g)
            /\ SharedS(MinusS(g, h), MinusS(h, g)) = <<>>
            /\ Len(MinusS(g, h)) = PLen(BothGap(g, h))

JoinLaw == ~out.has =>
    \A a, b \in 0..Len(g) : a < b => JoinS(g, <<<<a, b>>>>) = SliceS(g, a, b)
=============================================================================
