SPECIFICATION Spec
CONSTANTS
  Profile = "thorough"
  Group = "design"
INVARIANT LawCsvWriterLossless
INVARIANT LawSepFormatLossless
