SPECIFICATION Spec
CONSTANTS
  N = 4
  Heights = {1, 2, 3}
  Forms = {"dict", "DictArray", "DistanceMatrix"}
  Builders = {"upgma", "nj", "gnj", "quick_tree", "app_quick_tree", "take_dists", "drop_invalid", "to_dict"}
  MaxCalls = 3
INVARIANT TypeOK
INVARIANT SameAnswerEveryTime
INVARIANT UnrootedIsTheAdditiveTree
INVARIANT ZeroDiagonal
PROPERTY Pure
