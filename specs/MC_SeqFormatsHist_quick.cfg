SPECIFICATION Spec
CONSTANTS
  HFmts = {"gde", "phylip", "paml", "xmfa", "aln", "clustal", "msf", "nex", "nxs", "nexus"}
  MaxOps = 2
  Leaky = FALSE
INVARIANT TypeOK
INVARIANT ConfStaysDefault
PROPERTY PlainLoadIsPure
PROPERTY OptionLoadIsPure
