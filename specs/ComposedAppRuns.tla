-------------------------- MODULE ComposedAppRuns --------------------------
(* Successive runs of ONE composed app  loader + generic* + writer  on ONE     *)
(* output data store (cogent3.app.composable._apply_to): resuming, logging and *)
(* refused argument lists.  Extends property C14 ("every input accounted for   *)
(* exactly once") from one run to a history of runs; ComposedApp.tla models    *)
(* what happens inside a run.                                                   *)
(*                                                                              *)
(* State: store[i] = the record kept for input i and the run that wrote it;     *)
(* logs = the log records, in the order written; nrun = completed runs.         *)
(*                                                                              *)
(* apply_to(inputs, logger) - docstring: "an append only function, meaning that  *)
(* if a member already exists in self.data_store for an input, it is skipped";   *)
(* raises ValueError for an empty input and for non-unique identifiers.          *)
(* Which existing members count differs between the store classes and is a       *)
(* constant here: a DataStoreDirectory looks for the completed member only, so   *)
(* a failed input is retried (RetryFailed = TRUE); a DataStoreSqlite finds the    *)
(* not-completed record too and refuses to overwrite it in append mode, so a     *)
(* failed input is kept (RetryFailed = FALSE).                                   *)
EXTENDS Naturals, FiniteSets, Sequences, TLC, Emit

CONSTANTS N,            \* inputs 1..N
          MaxRuns,      \* bound on the number of successful runs
          RetryFailed   \* see above

VARIABLES store, logs, nrun, ret
vars == <<store, logs, nrun, ret>>

Inputs == 1..N
Kinds  == {"none", "completed", "failed"}
NoRec  == [kind |-> "none", run |-> 0]

St  == [store |-> store, logs |-> logs, nrun |-> nrun]
StP == [store |-> store', logs |-> logs', nrun |-> nrun']
Log(act, args) == Emit([from |-> St, act |-> act, args |-> args, to |-> StP, ret |-> ret'])

RECURSIVE Sorted(_)
Sorted(T) == IF T = {} THEN <<>>
             ELSE LET m == CHOOSE x \in T : \A y \in T : x <= y IN <<m>> \o Sorted(T \ {m})
Elems(s) == {s[j] : j \in DOMAIN s}

Ret(status, results) == [status |-> status, results |-> results]

Init == /\ store = [i \in Inputs |-> NoRec]
        /\ logs = <<>>
        /\ nrun = 0
        /\ ret = Ret("init", <<>>)

Refused(why) == ret' = Ret(why, <<>>) /\ UNCHANGED <<store, logs, nrun>>

(* an input is skipped iff the store already holds a member for it *)
Skipped(i) == i \in Inputs /\ (store[i].kind = "completed" \/ (~RetryFailed /\ store[i].kind = "failed"))
Todo(S) == {i \in S : ~Skipped(i)}

NoOutcome(o) == \A i \in Inputs : o[i] = "-"

(* apply_to(S in the given (ascending) order, logger)                          *)
(*   dup # 0 : the list also holds a second item whose identifier, after         *)
(*             suffix stripping, is that of input dup                            *)
(*   o[i]    : whether the composed function succeeds on input i in this run     *)
(*             ("-" for inputs that are not processed)                           *)
ApplyToT(S, o, dup, lg) ==
    \/ /\ S = {} /\ dup = 0 /\ NoOutcome(o) /\ Refused("ValueError")     \* nothing to apply to
    \/ /\ S # {} /\ dup # 0 /\ ~Skipped(dup) /\ NoOutcome(o)
       /\ Refused("ValueError")                                          \* non-unique identifiers
    \* identifiers are compared among the inputs still to be processed: the docstring does not say
    \* whether a list whose duplicated identifier is already stored is refused - both are allowed
    \/ /\ S # {} /\ dup # 0 /\ Skipped(dup) /\ nrun < MaxRuns   \* (explored where accepting is explored too)
       /\ \A i \in Inputs : (o[i] = "-") <=> (i \notin Todo(S))
       /\ Refused("ValueError")
    \/ /\ S # {} /\ (dup = 0 \/ Skipped(dup)) /\ nrun < MaxRuns
       /\ \A i \in Inputs : (o[i] = "-") <=> (i \notin Todo(S))
       /\ store' = [i \in Inputs |->
                      IF i \in Todo(S)
                      THEN [kind |-> IF o[i] = "ok" THEN "completed" ELSE "failed", run |-> nrun + 1]
                      ELSE store[i]]
       /\ logs' = IF lg THEN Append(logs, [run |-> nrun + 1, outputs |-> Sorted(Todo(S))]) ELSE logs
       /\ nrun' = nrun + 1
       /\ ret' = Ret("ok", <<>>)
ApplyTo(S, o, dup, lg) == ApplyToT(S, o, dup, lg) /\ Log("ApplyTo", <<Sorted(S), o, dup, lg>>)

(* list(app.as_completed(S)): every given input, in order, whatever the store   *)
(* holds; an empty input gives an empty result                                  *)
AsCompletedT(S, o) ==
    /\ \A i \in Inputs : (o[i] = "-") <=> (i \notin S)
    /\ ret' = Ret("ok", [j \in 1..Cardinality(S) |->
                 LET i == Sorted(S)[j] IN [src |-> i, kind |-> IF o[i] = "ok" THEN "completed" ELSE "failed"]])
    /\ UNCHANGED <<store, logs, nrun>>
AsCompleted(S, o) == AsCompletedT(S, o) /\ Log("AsCompleted", <<Sorted(S), o>>)

Outcomes == {"ok", "fail", "-"}
Next == \/ \E S \in SUBSET Inputs, o \in [Inputs -> Outcomes], dup \in 0..N, lg \in BOOLEAN :
              (dup = 0 \/ dup \in S) /\ ApplyTo(S, o, dup, lg)
        \/ \E S \in SUBSET Inputs, o \in [Inputs -> Outcomes] : AsCompleted(S, o)

Spec == Init /\ [][Next]_vars

-----------------------------------------------------------------------------
TypeOK == /\ store \in [Inputs -> [kind : Kinds, run : 0..MaxRuns]]
          /\ nrun \in 0..MaxRuns
          /\ \A i \in Inputs : (store[i].kind = "none") <=> (store[i].run = 0)
          /\ \A k \in DOMAIN logs : logs[k].run \in 1..nrun

(* a completed record is never touched again *)
AppendOnly == [][\A i \in Inputs : store[i].kind = "completed" => store'[i] = store[i]]_vars

(* a record appears, it never disappears; a failed one is replaced only by a retry *)
NothingLost == [][\A i \in Inputs : /\ store[i].kind # "none" => store'[i].kind # "none"
                                    /\ (store[i].kind = "failed" /\ ~RetryFailed) => store'[i] = store[i]]_vars

(* log records accumulate: one per logged run, earlier ones untouched *)
LogsAccumulate == [][/\ Len(logs') \in {Len(logs), Len(logs) + 1}
                     /\ SubSeq(logs', 1, Len(logs)) = logs
                     /\ Len(logs') = Len(logs) + 1 => nrun' = nrun + 1 /\ logs'[Len(logs')].run = nrun']_vars

(* a log names exactly the inputs its run processed: no duplicates, nothing skipped *)
LogsNameWhatWasProcessed ==
    /\ \A k \in DOMAIN logs : Cardinality(Elems(logs[k].outputs)) = Len(logs[k].outputs)
    /\ \A k1, k2 \in DOMAIN logs : k1 < k2 => logs[k1].run < logs[k2].run
    /\ \A i \in Inputs : \A k \in DOMAIN logs :
          (store[i].run = logs[k].run) => i \in Elems(logs[k].outputs)
    /\ \A k \in DOMAIN logs : \A i \in Elems(logs[k].outputs) : store[i].run >= logs[k].run

(* a refused call changes nothing; an accepted one accounts for every input given *)
RefusedChangesNothing == [][ret'.status = "ValueError" => UNCHANGED <<store, logs, nrun>>]_vars
AllGivenAccounted ==
    [][\A S \in SUBSET Inputs : \A o \in [Inputs -> Outcomes] : \A lg \in BOOLEAN :
          (S # {} /\ ApplyToT(S, o, 0, lg)) => \A i \in S : store'[i].kind # "none"]_vars
=============================================================================
