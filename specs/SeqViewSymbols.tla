--------------------------- MODULE SeqViewSymbols ---------------------------
(* IUPAC nucleotide symbols as cogent3's DNA / RNA molecule types class them.  *)
(* Shared by SeqView (index-symbolic view algebra; the harness renders the     *)
(* symbolic displays with these tables) and SeqViewRead (concrete strings).    *)
ComplDna == [A |-> "T", C |-> "G", G |-> "C", T |-> "A", R |-> "Y", Y |-> "R",
             M |-> "K", K |-> "M", S |-> "S", W |-> "W", H |-> "D", D |-> "H",
             B |-> "V", V |-> "B", N |-> "N"]
ComplRna == [A |-> "U", C |-> "G", G |-> "C", U |-> "A", R |-> "Y", Y |-> "R",
             M |-> "K", K |-> "M", S |-> "S", W |-> "W", H |-> "D", D |-> "H",
             B |-> "V", V |-> "B", N |-> "N"]
SelfCompl == <<"-", "?">>                      \* gap symbols complement to themselves
Exchange == [dna |-> [U |-> "T"], rna |-> [T |-> "U"]]   \* conversion to dna / to rna

(* DNA symbol classes: monomers, degenerate symbols ("?" = missing data is     *)
(* both degenerate and a gap), gap symbols *)
CanonDna == {"T", "C", "A", "G"}
DegenDna == {"R", "Y", "M", "K", "S", "W", "H", "B", "V", "D", "N", "?"}
GapSyms  == {"-", "?"}
Missing  == "?"

(* ASCII codes (string order of Python str) *)
Ord == [A |-> 65, B |-> 66, C |-> 67, D |-> 68, G |-> 71, H |-> 72, K |-> 75, M |-> 77,
        N |-> 78, R |-> 82, S |-> 83, T |-> 84, U |-> 85, V |-> 86, W |-> 87, Y |-> 89]
OrdOf(c) == IF c = "-" THEN 45 ELSE IF c = "?" THEN 63 ELSE Ord[c]

(* index of a symbol in the most degenerate DNA alphabet of the new-style      *)
(* molecule type (numpy.array(seq)), 0-based *)
DnaArrayOrder == <<"T", "C", "A", "G", "-", "N", "R", "Y", "W", "S", "K", "M", "B", "D", "H", "V", "?">>
=============================================================================
