---------------------------- MODULE AnnotationAln ----------------------------
(* Property C04 (alignment level): a feature of a row keeps denoting the same  *)
(* residues when it is seen through the alignment, through slices / the        *)
(* reverse complement of the alignment, and when it is projected onto another  *)
(* row.                                                                        *)
(*                                                                            *)
(* Index-symbolic model.  An alignment of L columns has two rows:              *)
(*   x - U residues; xl[i] is the column of residue i-1 (ascending), the other *)
(*       columns are gaps of x;                                                *)
(*   y - its residues sit in the columns yl (ascending).                       *)
(* Row x carries one feature (biotype gene, name a) with spans fs in x's       *)
(* *sequence* coordinates and a strand.  Its meaning is fixed when it is       *)
(* created: Denotes = the residues of x its spans cover; in the alignment it   *)
(* denotes the columns holding those residues.                                 *)
(* A view of the alignment is cols (the root columns it displays, in order)    *)
(* and comp; views are made by aln[a:b] and aln.rc().                          *)
(*                                                                            *)
(* Oracle on a view:                                                           *)
(*   * aln.get_features(seqid="x") shows the feature at the view positions     *)
(*     whose column holds a denoted residue (gap columns of x between them are *)
(*     not part of it);                                                        *)
(*   * its slice is the sub-alignment of exactly those columns, read on the    *)
(*     feature's strand (descending columns and complemented for "-");         *)
(*   * projected onto y (get_projected_feature) it denotes the residues of y   *)
(*     that sit in those columns: positions on y's ungapped sequence as the    *)
(*     view holds it, and the string they read on the feature's strand;        *)
(*   * it is returned without partial matches iff its whole extent on x is     *)
(*     retained by the view, with partial matches iff at least one denoted     *)
(*     residue is retained ("opt" when only the extent overlaps); partial      *)
(*     overlap never raises.                                                   *)
EXTENDS Integers, Sequences, FiniteSets, TLC, Emit

CONSTANTS U,        \* residues of row x
          L,        \* alignment columns
          MaxSpans  \* 1 or 2 spans

VARIABLES xl, yl, fs, strand,   \* the universe
          cols, comp            \* the view
vars == <<xl, yl, fs, strand, cols, comp>>

Ident(n) == [i \in 1..n |-> i - 1]
Reverse(s) == [i \in 1..Len(s) |-> s[Len(s) + 1 - i]]
RangeOf(s) == {s[i] : i \in DOMAIN s}

Compl == [A |-> "T", C |-> "G", G |-> "C", T |-> "A", R |-> "Y", Y |-> "R",
          M |-> "K", K |-> "M", H |-> "D", D |-> "H", B |-> "V", V |-> "B"]
Gap == 0 - 1    \* stands for "-" in a row of symbols

(* ascending sequences of k columns out of 0..L-1 *)
Asc(S) == SelectSeq(Ident(L), LAMBDA c : c \in S)
Layouts(k) == {Asc(S) : S \in {T \in SUBSET (0..(L - 1)) : Cardinality(T) = k}}

Pairs == {p \in (0..U) \X (0..U) : p[1] < p[2]}
Quads == {q \in (0..U) \X (0..U) \X (0..U) \X (0..U) : q[1] < q[2] /\ q[2] <= q[3] /\ q[3] < q[4]}
SpanLists == {<<p>> : p \in Pairs}
             \cup (IF MaxSpans >= 2 THEN {<< <<q[1], q[2]>>, <<q[3], q[4]>> >> : q \in Quads} ELSE {})

(* y: no gaps at all, or gaps in the second and in the last but one column *)
YLayouts == {Ident(L), Asc((0..(L - 1)) \ {1, L - 2})}

(* ----------------------------------------------------------------- meaning *)
InSpans(r) == \E k \in 1..Len(fs) : fs[k][1] <= r /\ r < fs[k][2]
DenX == {r \in 0..(U - 1) : InSpans(r)}                  \* denoted residues of x
ExtX == fs[1][1]..(fs[Len(fs)][2] - 1)                   \* extent on x, gaps between spans included
ColOfX(r) == xl[r + 1]
FeatCols == {ColOfX(r) : r \in DenX}                      \* denoted columns

(* symbol of a row in a root column: residue index or Gap *)
SymX(c) == IF c \in RangeOf(xl) THEN (CHOOSE i \in 0..(U - 1) : xl[i + 1] = c) ELSE Gap
SymY(c) == IF c \in RangeOf(yl) THEN (CHOOSE j \in 0..(Len(yl) - 1) : yl[j + 1] = c) ELSE Gap

(* view positions of the alignment feature *)
AlnPos(cs) == SelectSeq(Ident(Len(cs)), LAMBDA k : cs[k + 1] \in FeatCols)
(* retained denoted columns in the feature's reading order *)
ReadCols(cs) ==
    LET asc == SelectSeq(Ident(L), LAMBDA c : c \in FeatCols /\ c \in RangeOf(cs))
    IN IF strand = "+" THEN asc ELSE Reverse(asc)
RowX(cs) == [k \in 1..Len(ReadCols(cs)) |-> SymX(ReadCols(cs)[k])]
RowY(cs) == [k \in 1..Len(ReadCols(cs)) |-> SymY(ReadCols(cs)[k])]

(* the residues of a row the view holds, in view order (its ungapped sequence as displayed) *)
HeldX(cs) == SelectSeq([k \in 1..Len(cs) |-> SymX(cs[k])], LAMBDA v : v # Gap)
HeldY(cs) == SelectSeq([k \in 1..Len(cs) |-> SymY(cs[k])], LAMBDA v : v # Gap)
(* projection onto y: positions, on y's held sequence, of the y residues sitting in denoted columns *)
ProjPos(cs) == SelectSeq(Ident(Len(HeldY(cs))), LAMBDA p : yl[HeldY(cs)[p + 1] + 1] \in FeatCols)
ProjRead(cs) == SelectSeq(RowY(cs), LAMBDA v : v # Gap)

(* query status on the view: decided on x's retained residues *)
Status(cs, partial) ==
    LET held == RangeOf(HeldX(cs)) IN
    IF ~partial THEN (IF ExtX \subseteq held THEN "in" ELSE "out")
    ELSE IF held = {} THEN "opt"          \* only gaps of x in view: what overlaps an empty window is left open
    ELSE IF DenX \cap held # {} THEN "in"
    ELSE IF ExtX \cap held # {} THEN "opt"
    ELSE "out"

(* where the spans lie relative to the residues of x the view holds (label for finding keys) *)
SpanClass(cs, s, e) ==
    IF HeldX(cs) = <<>> THEN "N"
    ELSE LET held == RangeOf(HeldX(cs))
             lo == CHOOSE v \in held : \A w \in held : v <= w
             hi == (CHOOSE v \in held : \A w \in held : v >= w) + 1
         IN IF e < lo THEN "B" ELSE IF e = lo THEN "b"
            ELSE IF s > hi THEN "A" ELSE IF s = hi THEN "a"
            ELSE IF s < lo /\ e > hi THEN "C"
            ELSE IF s < lo THEN "L" ELSE IF e > hi THEN "R" ELSE "I"

(* The same spans read as *column* coordinates give an alignment-level feature *)
(* (add_feature(on_alignment=True), biotype region, name r): it denotes the     *)
(* columns themselves, all rows included.                                       *)
RCols == {c \in 0..(L - 1) : InSpans(c)}
RExt == fs[1][1]..(fs[Len(fs)][2] - 1)
RPos(cs) == SelectSeq(Ident(Len(cs)), LAMBDA k : cs[k + 1] \in RCols)
RRead(cs) ==
    LET asc == SelectSeq(Ident(L), LAMBDA c : c \in RCols /\ c \in RangeOf(cs))
    IN IF strand = "+" THEN asc ELSE Reverse(asc)
RStatus(cs, partial) ==
    IF ~partial THEN (IF RExt \subseteq RangeOf(cs) THEN "in" ELSE "out")
    ELSE IF RCols \cap RangeOf(cs) # {} THEN "in"
    ELSE IF RExt \cap RangeOf(cs) # {} THEN "opt"
    ELSE "out"
RObs(cs, c) ==
    [pos  |-> RPos(cs),
     rowx |-> [k \in 1..Len(RRead(cs)) |-> SymX(RRead(cs)[k])],
     rowy |-> [k \in 1..Len(RRead(cs)) |-> SymY(RRead(cs)[k])],
     fcomp |-> strand = "-",
     rev  |-> (strand = "-") # c,
     vis  |-> RStatus(cs, TRUE), inside |-> RStatus(cs, FALSE)]

(* Derived from the row feature on the view:                                      *)
(*   as_one_span() / get_slice(allow_gaps=True) - the columns from its first to  *)
(*   its last retained column, gap columns of x in between included, read on the  *)
(*   feature's strand;                                                            *)
(*   aln.with_masked_annotations("gene", shadow) - row x shows the mask character *)
(*   at its denoted residues (shadow=False) or at all its other residues          *)
(*   (shadow=True); gaps stay gaps; row y carries no feature, so it is untouched  *)
(*   without shadow and masked completely with it.                                *)
SpanCols(cs) ==
    LET ps == RangeOf(AlnPos(cs)) IN
    IF ps = {} THEN <<>>
    ELSE LET lo == CHOOSE v \in ps : \A w \in ps : v <= w
             hi == CHOOSE v \in ps : \A w \in ps : v >= w
         IN SelectSeq(Ident(Len(cs)), LAMBDA k : lo <= k /\ k <= hi)
SpanRead(cs) ==
    LET inspan == {cs[k + 1] : k \in RangeOf(SpanCols(cs))}
        asc == SelectSeq(Ident(L), LAMBDA c : c \in inspan)
    IN IF strand = "+" THEN asc ELSE Reverse(asc)
MaskX(cs, shadow) ==
    SelectSeq(Ident(Len(cs)), LAMBDA k : /\ SymX(cs[k + 1]) # Gap
                                         /\ (cs[k + 1] \in FeatCols) # shadow)
MaskY(cs, shadow) == SelectSeq(Ident(Len(cs)), LAMBDA k : shadow /\ SymY(cs[k + 1]) # Gap)

ObsOf(cs, c) ==
    [region |-> RObs(cs, c),
     onepos |-> SpanCols(cs),
     onerowx |-> [k \in 1..Len(SpanRead(cs)) |-> SymX(SpanRead(cs)[k])],
     onerowy |-> [k \in 1..Len(SpanRead(cs)) |-> SymY(SpanRead(cs)[k])],
     maskx |-> <<MaskX(cs, FALSE), MaskX(cs, TRUE)>>,
     masky |-> <<MaskY(cs, FALSE), MaskY(cs, TRUE)>>,
     pos   |-> AlnPos(cs),
     rowx  |-> RowX(cs), rowy |-> RowY(cs),
     fcomp |-> strand = "-",
     rev   |-> (strand = "-") # c,
     ppos  |-> ProjPos(cs), pread |-> ProjRead(cs),
     vis   |-> Status(cs, TRUE), inside |-> Status(cs, FALSE),
     heldx |-> Len(HeldX(cs)), heldy |-> Len(HeldY(cs)),
     cls   |-> [k \in 1..Len(fs) |-> SpanClass(cs, fs[k][1], fs[k][2])]]

(* ----------------------------------------------------------------- emission *)
St == <<xl, yl, fs, strand, cols, comp>>
StP == <<xl', yl', fs', strand', cols', comp'>>
Log(act, args) == Emit([from |-> St, act |-> act, args |-> args, to |-> StP, obs |-> ObsOf(cols', comp')])
Universe == UNCHANGED <<xl, yl, fs, strand>>
IsRoot == cols = Ident(L) /\ ~comp

Init == /\ xl \in Layouts(U)
        /\ yl \in YLayouts
        /\ RangeOf(xl) \cup RangeOf(yl) = 0..(L - 1)      \* no column of gaps only
        /\ fs \in SpanLists
        /\ strand \in {"+", "-"}
        /\ cols = Ident(L) /\ comp = FALSE

SliceT(a, b) == /\ 0 <= a /\ a < b /\ b <= Len(cols)
                /\ cols' = SubSeq(cols, a + 1, b)
                /\ UNCHANGED comp /\ Universe
Slice(a, b) == SliceT(a, b) /\ Log("Slice", <<a, b>>)

RcT == /\ cols' = Reverse(cols) /\ comp' = ~comp /\ Universe
Rc == RcT /\ Log("Rc", <<>>)

Look == /\ UNCHANGED vars
        /\ Emit([act |-> "Look", from |-> St, obs |-> ObsOf(cols, comp)])

Meta == /\ IsRoot /\ UNCHANGED vars
        /\ Emit([act |-> "Universe", from |-> St, U |-> U, L |-> L, xl |-> xl, yl |-> yl,
                 feature |-> [name |-> "a", bio |-> "gene", strand |-> strand, spans |-> fs,
                              \* the order in which the spans are handed to db.add_feature: any order denotes the
                              \* same feature ("this will be sorted", see Orders / Normalise in Annotation.tla)
                              given |-> Reverse(fs)],
                 compl |-> Compl, gap |-> Gap])

Next == \/ \E a \in 0..L, b \in 0..L : Slice(a, b)
        \/ Rc
        \/ Look
        \/ Meta
Spec == Init /\ [][Next]_vars

------------------------------------------------------------------------------
TypeOK == /\ Len(xl) = U /\ RangeOf(xl) \subseteq 0..(L - 1)
          /\ fs \in SpanLists /\ strand \in {"+", "-"}
          /\ cols \in Seq(0..(L - 1)) /\ Len(cols) >= 1 /\ comp \in BOOLEAN

ViewShape == \A k \in 1..(Len(cols) - 1) : cols[k + 1] = cols[k] + (IF comp THEN -1 ELSE 1)

(* the alignment feature, its slice and the row x agree: as many columns as retained denoted residues,     *)
(* row x shows no gap there and exactly the retained part of Denotes                                         *)
Restriction ==
    /\ Len(AlnPos(cols)) = Len(RowX(cols))
    /\ \A k \in 1..Len(RowX(cols)) : RowX(cols)[k] # Gap
    /\ RangeOf(RowX(cols)) = DenX \cap RangeOf(HeldX(cols))

(* projection: the projected positions are exactly the held y residues in denoted columns, and the        *)
(* projected string is the slice's row y without its gaps                                                    *)
ProjectionAgrees ==
    /\ Len(ProjPos(cols)) = Len(ProjRead(cols))
    /\ {HeldY(cols)[p + 1] : p \in RangeOf(ProjPos(cols))} = RangeOf(ProjRead(cols))
    /\ \A v \in RangeOf(ProjRead(cols)) : yl[v + 1] \in FeatCols

(* the covering span contains the feature's columns; the two masks of row x partition its residues in view *)
AlgebraLaws ==
    /\ RangeOf(AlnPos(cols)) \subseteq RangeOf(SpanCols(cols))
    /\ RangeOf(MaskX(cols, FALSE)) = RangeOf(AlnPos(cols))
    /\ RangeOf(MaskX(cols, FALSE)) \cap RangeOf(MaskX(cols, TRUE)) = {}
    /\ Cardinality(RangeOf(MaskX(cols, FALSE)) \cup RangeOf(MaskX(cols, TRUE))) = Len(HeldX(cols))

InsideIsComplete == Status(cols, FALSE) = "in" => (Status(cols, TRUE) = "in" /\ Len(RowX(cols)) = Cardinality(DenX))

RcKeepsReading == [][RcT => (RowX(cols') = RowX(cols) /\ RowY(cols') = RowY(cols) /\ ProjRead(cols') = ProjRead(cols))]_vars
SliceOnlyLoses == [][(\E a \in 0..L, b \in 0..L : SliceT(a, b)) => RangeOf(RowX(cols')) \subseteq RangeOf(RowX(cols))]_vars
=============================================================================
