----------------------------- MODULE LineStream -----------------------------
(* Property C06, streaming half: cogent3.util.io.iter_splitlines /            *)
(* iter_line_blocks yield exactly str.splitlines(text) whatever the chunk     *)
(* size.                                                                       *)
(*                                                                            *)
(* A genuine state machine, transcribed from util/io.py iter_splitlines:      *)
(*                                                                            *)
(*     with open_(path) as infile:          text mode, universal newlines     *)
(*         last = ""                                                          *)
(*         while True:                                                        *)
(*             data = infile.read(chunk_size)                  ReadChunk      *)
(*             if not data: break                                             *)
(*             data = last + data                                             *)
(*             end_is_newline = data.endswith("\n")                           *)
(*             lines = data.splitlines()                                      *)
(*             last = lines.pop(-1)                                           *)
(*             if end_is_newline: last += "\n"                                *)
(*             if not len(lines): continue                                    *)
(*             yield from lines                                Yield          *)
(*         if last: yield from last.splitlines()               Flush          *)
(*                                                                            *)
(* A character is a one-character string; a text / a line is a sequence of    *)
(* characters.  The text layer (TextIOWrapper, newline=None) is modelled by   *)
(* Translate: "\r\n" and "\r" arrive as "\n".  A read returns n characters of  *)
(* the translated stream: exactly min(k, remaining) when ShortReads = FALSE,  *)
(* any 1..min(k, remaining) when ShortReads = TRUE (the io contract "at most  *)
(* size characters").  `whole` is the chunk_size = None branch (file smaller  *)
(* than the chunk size: one read of everything).                              *)
(*                                                                            *)
(* Oracle (written independently of the machine): SplitLines = the definition *)
(* of str.splitlines restricted to the boundaries \n, \r\n, \r.               *)
EXTENDS Naturals, Sequences, FiniteSets, TLC, Emit

CONSTANTS Chars,        \* alphabet of the file, e.g. {"a", "b", "\n", "\r"}
          MaxLen,       \* texts of length 0..MaxLen
          ChunkSizes,   \* chunk_size arguments
          ShortReads,   \* BOOLEAN: may read() return fewer characters than asked
          NumLines      \* num_lines arguments of iter_line_blocks

VARIABLES text,     \* the file content (chosen in Init, never changes)
          stream,   \* what the text layer delivers: Translate(text) (never changes)
          k,        \* chunk_size argument
          whole,    \* TRUE: the "file smaller than chunk_size -> read(None)" branch
          pos,      \* characters of the translated stream consumed so far
          last,     \* the variable `last`
          pending,  \* lines of the current chunk not yet yielded
          yielded,  \* lines yielded so far
          pc        \* "read" | "yield" | "done"
vars == <<text, stream, k, whole, pos, last, pending, yielded, pc>>

NL == "\n"
CR == "\r"
(* the alphabet used by the configurations (a cfg file does not interpret the  *)
(* escapes \n, \r, so the set is defined here and substituted: Chars <- ABNR)  *)
ABNR == {"a", "b", NL, CR}

Min(a, b) == IF a < b THEN a ELSE b

-----------------------------------------------------------------------------
(* Oracle: str.splitlines over the boundaries \n, \r\n, \r.                   *)
IsBreak(c) == c = NL \/ c = CR

RECURSIVE FirstBreak(_, _)
FirstBreak(s, i) == IF i > Len(s) THEN 0
                    ELSE IF IsBreak(s[i]) THEN i ELSE FirstBreak(s, i + 1)

RECURSIVE SplitLines(_)
SplitLines(s) ==
    IF s = <<>> THEN <<>>
    ELSE LET i == FirstBreak(s, 1) IN
         IF i = 0 THEN <<s>>
         ELSE LET w == IF s[i] = CR /\ i < Len(s) /\ s[i + 1] = NL THEN 2 ELSE 1
              IN <<SubSeq(s, 1, i - 1)>> \o SplitLines(SubSeq(s, i + w, Len(s)))

(* iter_line_blocks: lists of m lines, the last one possibly shorter.         *)
RECURSIVE LineBlocks(_, _)
LineBlocks(ls, m) == IF ls = <<>> THEN <<>>
                     ELSE IF Len(ls) <= m THEN <<ls>>
                     ELSE <<SubSeq(ls, 1, m)>> \o LineBlocks(SubSeq(ls, m + 1, Len(ls)), m)

-----------------------------------------------------------------------------
(* The text layer: universal-newline translation done by TextIOWrapper.       *)
RECURSIVE Translate(_)
Translate(s) ==
    IF s = <<>> THEN <<>>
    ELSE IF Head(s) = CR
         THEN IF Len(s) > 1 /\ s[2] = NL THEN <<NL>> \o Translate(SubSeq(s, 3, Len(s)))
                                         ELSE <<NL>> \o Translate(Tail(s))
         ELSE <<Head(s)>> \o Translate(Tail(s))

(* the primitive str.splitlines() applied to a piece of data                  *)
PySplit(d) == SplitLines(d)

RECURSIVE TextsOfLen(_)
TextsOfLen(n) == IF n = 0 THEN {<<>>}
                 ELSE {Append(t, c) : t \in TextsOfLen(n - 1), c \in Chars}
Texts == UNION {TextsOfLen(n) : n \in 0..MaxLen}

(* whole = TRUE is the branch taken for a plain file shorter than chunk_size;  *)
(* a compressed file is judged by its compressed size, so both values occur.  *)
Init == /\ text \in Texts
        /\ stream = Translate(text)
        /\ k \in ChunkSizes
        /\ whole \in {FALSE, Len(text) < k}
        /\ pos = 0
        /\ last = <<>>
        /\ pending = <<>>
        /\ yielded = <<>>
        /\ pc = "read"

St  == [text |-> text, stream |-> stream, k |-> k, whole |-> whole, pos |-> pos, last |-> last,
        pending |-> pending, yielded |-> yielded, pc |-> pc]

ReadSizes == LET rem == Len(stream) - pos IN
             IF whole THEN {rem}
             ELSE IF ShortReads THEN 1..Min(k, rem) ELSE {Min(k, rem)}

ReadChunk ==
    /\ pc = "read"
    /\ pos < Len(stream)
    /\ \E n \in ReadSizes :
         LET data  == last \o SubSeq(stream, pos + 1, pos + n)
             endnl == data[Len(data)] = NL
             lines == PySplit(data)
             lst   == lines[Len(lines)] \o (IF endnl THEN <<NL>> ELSE <<>>)
             rest  == SubSeq(lines, 1, Len(lines) - 1)
         IN /\ pos' = pos + n
            /\ last' = lst
            /\ pending' = rest
            /\ pc' = IF rest = <<>> THEN "read" ELSE "yield"
    /\ UNCHANGED <<text, stream, k, whole, yielded>>

Yield ==
    /\ pc = "yield"
    /\ yielded' = Append(yielded, Head(pending))
    /\ pending' = Tail(pending)
    /\ pc' = IF Tail(pending) = <<>> THEN "read" ELSE "yield"
    /\ UNCHANGED <<text, stream, k, whole, pos, last>>

FlushT ==
    /\ pc = "read"
    /\ pos = Len(stream)
    /\ yielded' = yielded \o (IF last # <<>> THEN PySplit(last) ELSE <<>>)
    /\ pc' = "done"
    /\ UNCHANGED <<text, stream, k, whole, pos, last, pending>>

Flush == /\ FlushT
         /\ Emit([from |-> [text |-> text, k |-> k, whole |-> whole],
                  act  |-> "Flush",
                  args |-> <<>>,
                  to   |-> [lines  |-> yielded',
                            blocks |-> [m \in NumLines |-> LineBlocks(yielded', m)]]])

Next == ReadChunk \/ Yield \/ Flush

Spec == Init /\ [][Next]_vars

-----------------------------------------------------------------------------
(* Design-level properties checked by TLC.                                    *)

TypeOK == /\ pos \in 0..Len(stream)
          /\ pc \in {"read", "yield", "done"}
          /\ (pc = "yield") => pending # <<>>

(* The result: every chunking yields exactly splitlines(text).                *)
Correct == pc = "done" => yielded = SplitLines(text)

(* Nothing is lost or invented on the way: what has been handed out, what is  *)
(* waiting and what is held back in `last` always make up the lines of the    *)
(* consumed prefix of the stream.                                              *)
Conservation ==
    pc # "done" =>
        yielded \o pending \o (IF last # <<>> THEN PySplit(last) ELSE <<>>)
            = SplitLines(SubSeq(stream, 1, pos))

(* Lines are only ever appended, and each is a line of the text (no line is   *)
(* yielded before it is complete).                                             *)
IsPrefix(a, b) == Len(a) <= Len(b) /\ SubSeq(b, 1, Len(a)) = a
PrefixOfResult == IsPrefix(yielded \o pending, SplitLines(text))

(* Translation does not change the lines of a text.                           *)
TranslateKeepsLines == SplitLines(stream) = SplitLines(text)

(* line blocks partition the lines                                            *)
RECURSIVE Concat(_)
Concat(ss) == IF ss = <<>> THEN <<>> ELSE Head(ss) \o Concat(Tail(ss))
BlocksPartition ==
    pc = "done" => \A m \in NumLines :
        LET b == LineBlocks(yielded, m) IN
        /\ Concat(b) = yielded
        /\ \A i \in 1..Len(b) : Len(b[i]) = m \/ (i = Len(b) /\ Len(b[i]) \in 1..m)
=============================================================================
