----------------------------- MODULE AtomicWrite -----------------------------
(* Property C19: file writes are all-or-nothing.                              *)
(*                                                                            *)
(* Abstract file-system state                                                 *)
(*   dest : what the destination path holds  (absent | Old | New | Partial)   *)
(*   tmp  : the temporary directory beside it (absent | empty | Partial | New)*)
(*          Partial / New = the directory holds the staged file with          *)
(*          incomplete / complete content                                     *)
(* and a program counter over the ACTUAL call sequence of                     *)
(* cogent3.util.io.atomic_write and of the code around it:                    *)
(*   mkdtemp -> open(tmp) -> write* [-> close] -> close -> [unlink dest] ->   *)
(*   rename(tmp -> dest) -> rmtree(tmpdir)       | error path: close, rmtree  *)
(* One action per file-system call.  Besides the calls there are              *)
(*   Crash            the process dies between two calls (no handler runs)    *)
(*   Fault(c)         call c raises OSError (handlers run); one faulty call   *)
(*                    site per behaviour (it may fail again when re-issued)    *)
(*   FormatterRaises  an exception inside the with-block                      *)
(*   Interrupt(c) / BodyInterrupted   a BaseException that is not an Exception *)
(*                    (KeyboardInterrupt, SystemExit) at call c / in the body  *)
(*                                                                            *)
(* A *configuration* says how the commit and the error handling are written.  *)
(* "before" = cogent3 before the C19 repairs (/repo 3146aabd5, 846586424,     *)
(* 459733c1d, 356ae1e38), "now" = the code as it is.                          *)
(*   commit   "zip_append"     ZipFile(dest, "a") extended in place (rejected)  *)
(*            "unlink_rename"  dest.unlink() ; src.rename(dest), the rename   *)
(*                             sitting in a `finally` clause       (before)   *)
(*            "replace"        src.replace(dest)                   (now)      *)
(*   cleanup  "exit_only"      temp dir removed only when the exception was   *)
(*                             raised inside the with-block        (before)   *)
(*            "never"          the caller does not use a with-block           *)
(*                             (Table.write before)                           *)
(*            "always"         every failure removes the temp dir  (now)      *)
(*   wunlink  TRUE             the caller's own handler unlinks the           *)
(*                             destination when formatting fails              *)
(*                             (format/alignment.save_to_filename before)     *)
(*                                                                            *)
(* The property itself is OutcomeOK / Atomic below.  It talks about outcomes  *)
(* only (how the call ended, what dest and the temp dir hold), never about    *)
(* the call order, so the conformance harness can use it to judge any         *)
(* implementation.                                                            *)
EXTENDS Naturals, FiniteSets, Sequences, TLC, Emit

CONSTANTS Configs,    \* set of configuration records explored
          PreStates   \* initial destination states, subset of {"absent", "Old"}

VARIABLES cfg, name, pre, dest, tmp, pc, how, fcall, exc
vars == <<cfg, name, pre, dest, tmp, pc, how, fcall, exc>>

(* For a ".zip" destination the content is the SEQUENCE OF MEMBERS of the archive: Old = the archive as it was  *)
(* (byte for byte), New = exactly one member holding the new payload, OldNew = the previous member(s) followed  *)
(* by the new one (what appending in place produces), Partial = anything else (empty / damaged archive).        *)
DestStates == {"absent", "Old", "New", "OldNew", "Partial"}
TmpStates  == {"absent", "empty", "Partial", "New"}
Calls      == {"mkdtemp", "open_tmp", "write", "close", "unlink_dest", "rename", "rmtree",
               "open_dest", "store"}   \* ZipFile(dest, "a") and storing the staged member into the open archive
CleanupCalls == {"rmtree"}         \* a fault injected into the cleanup call itself cannot be cleaned up
Hows       == {"running", "ok", "failed", "crashed"}
PCs        == {"mkdtemp", "open", "block", "blockclosed", "close", "commit", "rename", "rmtree",
               "h_unlink", "e_close", "e_rmtree", "zstore", "zstoring", "done"}

Cfg(n, c, cl, w) == [name |-> n, commit |-> c, cleanup |-> cl, wunlink |-> w, closeerr |-> "raise", oninterrupt |-> "abort"]

(* the transcribed current code, one configuration per way atomic_write is used *)
CfgSeqFmt == Cfg("seqfmt", "replace", "always", FALSE)   \* format/alignment.save_to_filename (closes the file inside the block)
CfgWith   == Cfg("with",   "replace", "always", FALSE)   \* with atomic_write(..) as f
CfgTable  == Cfg("table",  "replace", "always", FALSE)   \* Table.write
CurrentConfigs == {CfgSeqFmt, CfgWith, CfgTable}
(* the code before the repairs: Atomic does NOT hold for these (MC_AtomicWrite_cx.cfg shows that the *)
(* property rejects them; the prefix mutants in /verif/mutants put the real code back into them)      *)
HistSeqFmt == Cfg("seqfmt_before", "unlink_rename", "exit_only", TRUE)
HistWith   == Cfg("with_before",   "unlink_rename", "exit_only", FALSE)
HistTable  == Cfg("table_before",  "unlink_rename", "never",     FALSE)
HistoricConfigs == {HistSeqFmt, HistWith, HistTable}
(* partial repairs, to show which change removes which counterexample *)
CfgReplaceOnly == Cfg("replace_only", "replace", "exit_only", FALSE)
CfgGuardOnly   == Cfg("guard_only", "unlink_rename", "always", FALSE)
(* a close() of the staged file that fails (the buffered data cannot be flushed: ENOSPC, EFBIG, EIO) must *)
(* behave like a failure of the body.  This configuration swallows the error in __exit__ and commits: the *)
(* staged file is incomplete (tmp = Partial) when it is moved over the destination.  Atomic rejects it.    *)
CfgSwallowClose == [Cfg("swallow_close", "replace", "always", FALSE) EXCEPT !.closeerr = "swallow"]
(* a ".zip" destination extended in place instead of being replaced by a complete new archive: what              *)
(* atomic_write(in_zip=...) / open_(x.zip, "w") do (known finding R5), and what every public write() to a ".zip"   *)
(* path would do if atomic_write treated such a path as in_zip.  Atomic rejects it: a second write leaves the old   *)
(* and the new member, a failure or kill while storing leaves a damaged archive.                                    *)
CfgZipAppend == Cfg("zip_append", "zip_append", "always", FALSE)
(* the body of the with-block can end in four ways: normally, by an Exception, by an INTERRUPT (a BaseException that  *)
(* is not an Exception: KeyboardInterrupt from SIGINT, SystemExit, GeneratorExit) or by a kill.  An interrupt must be   *)
(* handled exactly like an Exception.  This configuration tests isinstance(exc, Exception) in __exit__ and therefore    *)
(* commits the incomplete staged file when the body was interrupted (the interrupt still propagates).  Rejected.        *)
CfgCommitOnInterrupt == [Cfg("commit_on_interrupt", "replace", "always", FALSE) EXCEPT !.oninterrupt = "commit"]
(* every configuration below violates Atomic; MC_AtomicWrite_cx.cfg checks that each one is rejected *)
RejectedConfigs == HistoricConfigs \cup {CfgReplaceOnly, CfgGuardOnly, CfgSwallowClose, CfgZipAppend, CfgCommitOnInterrupt}
AllConfigs == CurrentConfigs \cup RejectedConfigs

(* The destination's FILE NAME is a dimension of every write: any name the file system accepts is a legal         *)
(* destination.  The classes below are what the harness instantiates (blanks; single, double and doubled quotes;    *)
(* brackets and glob characters; ':' ',' '#' '|' ';' '&'; non-ASCII letters; a leading digit; digits only without a *)
(* suffix; many dots; close to NAME_MAX).  The protocol and the property are the same for all of them, with one     *)
(* exception the model makes explicit: the staged file is named <uuid4> + all suffixes of the destination, so for a  *)
(* legal name whose part from the first '.' on is longer than NAME_MAX - 36 bytes the staged name is NOT usable and  *)
(* open(tmp) fails by itself (ENAMETOOLONG): that write cannot succeed, and must fail like any other failed open.   *)
NameClasses == {"ordinary", "blanks", "quotes", "brackets_glob", "punctuation", "unicode", "leading_digit",
                "digits_only", "many_dots", "long", "overlong_suffixes"}
StagedNameUnusable == name = "overlong_suffixes"

TypeOK == /\ cfg \in AllConfigs
          /\ name \in NameClasses
          /\ pre \in {"absent", "Old"}
          /\ dest \in DestStates
          /\ tmp \in TmpStates
          /\ pc \in PCs
          /\ how \in Hows
          /\ fcall \in Calls \cup {"none"}
          /\ exc \in {"no", "yes", "ignored"}   \* an exception is in flight; "ignored" = an interrupt the code took for success
          /\ cfg.closeerr \in {"raise", "swallow"}
          /\ cfg.oninterrupt \in {"abort", "commit"}

------------------------------------------------------------------------------
(* THE PROPERTY.  p = destination before the call, h = how the call ended,    *)
(* f = the call an OSError was injected into ("none" if none), d / t = what   *)
(* the destination and the temporary directory hold afterwards.               *)
DestOK(p, h, d) ==
    CASE h = "ok"      -> d = "New"
      [] h = "running" -> TRUE
      [] OTHER         -> d \in {p, "New"}        \* crashed, failed: untouched or fully new, never Partial

TmpOK(h, f, t) ==
    CASE h = "ok"     -> t = "absent"
      [] h = "failed" -> (t = "absent" \/ f \in CleanupCalls)
      [] OTHER        -> TRUE                     \* a killed process cannot clean up

OutcomeOK(p, h, f, d, t) == DestOK(p, h, d) /\ TmpOK(h, f, t)
Broken(p, h, f, d, t) == (IF DestOK(p, h, d) THEN {} ELSE {"dest"}) \cup (IF TmpOK(h, f, t) THEN {} ELSE {"tmp"})

Atomic == OutcomeOK(pre, how, fcall, dest, tmp)

------------------------------------------------------------------------------
St  == [cfg |-> cfg.name, name |-> name, pre |-> pre, dest |-> dest, tmp |-> tmp, pc |-> pc, how |-> how, fcall |-> fcall]
StP == [cfg |-> cfg'.name, name |-> name', pre |-> pre', dest |-> dest', tmp |-> tmp', pc |-> pc', how |-> how', fcall |-> fcall']
Log(act, args) == Emit([from |-> St, act |-> act, args |-> args, to |-> StP,
                        ok |-> OutcomeOK(pre', how', fcall', dest', tmp'),
                        broken |-> Broken(pre', how', fcall', dest', tmp')])

Init == /\ cfg \in Configs
        /\ name \in NameClasses
        /\ pre \in PreStates
        /\ dest = pre
        /\ tmp = "absent"
        /\ pc = "mkdtemp"
        /\ how = "running"
        /\ fcall = "none"
        /\ exc = "no"

Running == how = "running"
Goto(p) == pc' = p /\ UNCHANGED <<cfg, name, pre, how, fcall, exc>>
Fail == pc' = "done" /\ how' = "failed"

(* which call the program makes next at each program counter *)
NextCall(p) ==
    CASE p = "mkdtemp"  -> {"mkdtemp"}
      [] p = "open"     -> {"open_tmp"}
      [] p = "block"    -> {"write", "close"}
      [] p = "close"    -> {"close"}
      [] p = "commit"   -> CASE cfg.commit = "unlink_rename" -> {"unlink_dest"}
                             [] cfg.commit = "zip_append"    -> {"open_dest"}
                             [] OTHER                        -> {"rename"}
      [] p \in {"zstore", "zstoring"} -> {"store"}
      [] p = "rename"   -> {"rename"}
      [] p = "rmtree"   -> {"rmtree"}
      [] p = "h_unlink" -> {"unlink_dest"}
      [] p = "e_close"  -> {"close"}
      [] p = "e_rmtree" -> {"rmtree"}
      [] OTHER          -> {}

(* ---- the calls, succeeding ------------------------------------------------ *)
MkdtempT  == Running /\ pc = "mkdtemp" /\ tmp' = "empty" /\ UNCHANGED dest /\ Goto("open")
OpenTmpT  == Running /\ pc = "open" /\ ~StagedNameUnusable /\ tmp' = "Partial" /\ UNCHANGED dest /\ Goto("block")
WriteT    == Running /\ pc = "block" /\ UNCHANGED <<dest, tmp>> /\ Goto("block")
(* a writer may close the file itself as the last statement of the block (save_to_filename does) *)
BlockCloseT == Running /\ pc = "block" /\ tmp' = "New" /\ UNCHANGED dest /\ Goto("blockclosed")
(* no file-system call: the with-block is left normally *)
BlockEndT == Running /\ pc \in {"block", "blockclosed"} /\ UNCHANGED <<dest, tmp>> /\ Goto("close")
CloseT    == /\ Running /\ pc = "close" /\ UNCHANGED dest /\ Goto("commit")
             /\ tmp' = (IF exc = "ignored" THEN tmp ELSE "New")   \* an interrupted body did not produce all the content
UnlinkDestT == /\ Running /\ pc = "commit" /\ cfg.commit = "unlink_rename"
               /\ dest' = "absent" /\ UNCHANGED tmp /\ Goto("rename")
(* os.rename / os.replace: the staged file becomes the destination in one step *)
RenameT   == /\ Running
             /\ \/ pc = "rename"
                \/ pc = "commit" /\ cfg.commit = "replace"
             /\ dest' = tmp /\ tmp' = "empty"
             /\ IF exc = "yes"   \* the rename ran in the `finally` of a failed unlink: the OSError now propagates
                   THEN /\ Fail /\ UNCHANGED <<cfg, name, pre, fcall, exc>>
                   ELSE Goto("rmtree")
(* commit "zip_append" (atomic_write(..., in_zip=...)._close_rename_zip): the member is staged as a plain file and  *)
(* the DESTINATION archive is opened with ZipFile(dest, "a") and extended in place.  Opening creates an empty     *)
(* archive when there was none; storing overwrites the old central directory before the new one is written at     *)
(* close, so the archive is damaged until the store completes, and afterwards holds the old members AND the new.  *)
OpenDestT == /\ Running /\ pc = "commit" /\ cfg.commit = "zip_append"
             /\ dest' = (IF dest = "absent" THEN "Partial" ELSE dest) /\ UNCHANGED tmp /\ Goto("zstore")
StoreBeginT == /\ Running /\ pc = "zstore" /\ dest' = "Partial" /\ UNCHANGED tmp /\ Goto("zstoring")
StoreEndT == /\ Running /\ pc = "zstoring"
             /\ dest' = (IF pre = "Old" THEN "OldNew" ELSE "New") /\ UNCHANGED tmp /\ Goto("rmtree")
RmtreeT   == /\ Running /\ pc = "rmtree" /\ tmp' = "absent" /\ UNCHANGED dest
             /\ pc' = "done" /\ how' = (IF exc = "ignored" THEN "failed" ELSE "ok")   \* the interrupt reaches the caller
             /\ UNCHANGED <<cfg, name, pre, fcall, exc>>

(* ---- exception inside the with-block -------------------------------------- *)
BlockHandler == IF cfg.cleanup = "never" THEN "done"
                ELSE IF cfg.wunlink THEN "h_unlink" ELSE "e_close"
EnterHandler == /\ pc' = BlockHandler
                /\ how' = IF BlockHandler = "done" THEN "failed" ELSE how
                /\ exc' = "yes"
(* without a with-block the staged file is opened lazily at the first write, so formatting can fail before open *)
RaisePoints == {"block", "blockclosed"} \cup (IF cfg.cleanup = "never" THEN {"open"} ELSE {})
FormatterRaisesT == /\ Running /\ pc \in RaisePoints
                    /\ EnterHandler /\ UNCHANGED <<cfg, name, pre, dest, tmp, fcall>>
(* the writer's own handler: os.unlink(destination), errors swallowed *)
HUnlinkT == Running /\ pc = "h_unlink" /\ dest' = "absent" /\ UNCHANGED tmp /\ Goto("e_close")
ECloseT  == Running /\ pc = "e_close" /\ UNCHANGED <<dest, tmp>> /\ Goto("e_rmtree")
ERmtreeT == /\ Running /\ pc = "e_rmtree" /\ tmp' = "absent" /\ UNCHANGED dest
            /\ Fail /\ UNCHANGED <<cfg, name, pre, fcall, exc>>

(* ---- a call raises OSError ------------------------------------------------- *)
ToCleanup == pc' = "e_rmtree" /\ exc' = "yes" /\ UNCHANGED how
Propagate == Fail /\ UNCHANGED exc
FaultT(c) ==
    /\ Running /\ c \in NextCall(pc)
    /\ fcall \in {"none", c}      \* one faulty call site per behaviour; re-issued, the call may fail again (persistent fault)
    /\ fcall' = c
    /\ UNCHANGED <<cfg, name, pre, dest>>
    /\ CASE c = "mkdtemp"  -> Propagate /\ UNCHANGED tmp
         [] c = "open_tmp" -> (IF cfg.cleanup = "always" THEN ToCleanup ELSE Propagate) /\ UNCHANGED tmp
         [] pc = "block"   -> EnterHandler /\ UNCHANGED tmp                  \* write / close inside the block
         [] pc \in {"close", "e_close"} ->       \* CloseFails: close() of the staged file in __exit__ raises
                /\ UNCHANGED tmp                  \* the staged content stays incomplete
                /\ IF cfg.closeerr = "swallow"
                     THEN pc' = (IF pc = "close" THEN "commit" ELSE "e_rmtree") /\ UNCHANGED <<how, exc>>
                     ELSE IF cfg.cleanup = "always" THEN ToCleanup ELSE Propagate
         [] pc = "commit" /\ c = "unlink_dest" ->
                /\ UNCHANGED tmp
                /\ IF cfg.cleanup = "always" THEN ToCleanup
                   ELSE pc' = "rename" /\ exc' = "yes" /\ UNCHANGED how      \* finally: src.rename(dest)
         [] pc = "h_unlink" -> pc' = "e_close" /\ UNCHANGED <<tmp, how, exc>>  \* except Exception: pass
         [] c = "rename"   -> (IF cfg.cleanup = "always" THEN ToCleanup ELSE Propagate) /\ UNCHANGED tmp
         [] c \in {"open_dest", "store"} ->   \* the archive keeps whatever the in-place append had done to it
                (IF cfg.cleanup = "always" THEN ToCleanup ELSE Propagate) /\ UNCHANGED tmp
         [] c = "rmtree"   -> Propagate /\ tmp' \in {tmp, "empty"}          \* rmtree may have removed the file already
         [] OTHER          -> FALSE

(* ---- an interrupt (BaseException that is not an Exception) is raised ------------------------- *)
(* at call c (the signal is delivered just before / in it), or inside the body between two calls.  *)
(* It is handled like the OSError / the formatter's exception, unless the configuration mistakes   *)
(* an interrupted body for a finished one.                                                         *)
MistakenForSuccess == cfg.oninterrupt = "commit" /\ pc \in {"block", "blockclosed"}
InterruptT(c) ==
    IF MistakenForSuccess
      THEN /\ Running /\ fcall \in {"none", c} /\ c \in NextCall(pc)
           /\ fcall' = c /\ exc' = "ignored" /\ pc' = "close"
           /\ UNCHANGED <<cfg, name, pre, dest, tmp, how>>
      ELSE FaultT(c)
BodyInterruptedT ==
    IF MistakenForSuccess
      THEN /\ Running /\ exc' = "ignored" /\ pc' = "close"
           /\ UNCHANGED <<cfg, name, pre, dest, tmp, how, fcall>>
      ELSE FormatterRaisesT

(* ---- the process dies ------------------------------------------------------- *)
CrashT == /\ Running
          /\ pc' = "done" /\ how' = "crashed"
          /\ UNCHANGED <<cfg, name, pre, dest, tmp, fcall, exc>>

Mkdtemp == MkdtempT /\ Log("mkdtemp", <<>>)
OpenTmp == OpenTmpT /\ Log("open_tmp", <<>>)
Write == WriteT /\ Log("write", <<>>)
BlockClose == BlockCloseT /\ Log("close", <<"block">>)
BlockEnd == BlockEndT /\ Log("BlockEnd", <<>>)
Close == CloseT /\ Log("close", <<>>)
UnlinkDest == UnlinkDestT /\ Log("unlink_dest", <<>>)
OpenDest == OpenDestT /\ Log("open_dest", <<>>)
StoreBegin == StoreBeginT /\ Log("store", <<"begin">>)
StoreEnd == StoreEndT /\ Log("StoreEnd", <<>>)
Rename == RenameT /\ Log("rename", <<>>)
Rmtree == RmtreeT /\ Log("rmtree", <<>>)
FormatterRaises == FormatterRaisesT /\ Log("FormatterRaises", <<>>)
HUnlink == HUnlinkT /\ Log("unlink_dest", <<"handler">>)
EClose == ECloseT /\ Log("close", <<"handler">>)
ERmtree == ERmtreeT /\ Log("rmtree", <<"handler">>)
Fault(c) == FaultT(c) /\ Log("Fault", <<c, pc>>)
(* not an injected fault: open(tmp) fails by itself because the staged name is unusable; nothing else can happen there *)
OpenRefused == StagedNameUnusable /\ FaultT("open_tmp") /\ Log("Fault", <<"open_tmp", pc, "unusable staged name">>)
Interrupt(c) == InterruptT(c) /\ Log("Interrupt", <<c, pc>>)
BodyInterrupted == BodyInterruptedT /\ Log("BodyInterrupted", <<>>)
Crash == CrashT /\ Log("Crash", <<pc>>)

CallT(c) ==
    CASE c = "mkdtemp"     -> MkdtempT
      [] c = "open_tmp"    -> OpenTmpT
      [] c = "write"       -> WriteT
      [] c = "close"       -> BlockCloseT \/ CloseT \/ ECloseT
      [] c = "unlink_dest" -> UnlinkDestT \/ HUnlinkT
      [] c = "rename"      -> RenameT
      [] c = "rmtree"      -> RmtreeT \/ ERmtreeT
      [] c = "open_dest"   -> OpenDestT
      [] c = "store"       -> StoreBeginT
      [] OTHER             -> FALSE
SilentT == BlockEndT \/ FormatterRaisesT \/ BodyInterruptedT \/ StoreEndT

Next == \/ Mkdtemp \/ OpenTmp \/ Write \/ BlockClose \/ BlockEnd \/ Close
        \/ UnlinkDest \/ Rename \/ Rmtree \/ OpenDest \/ StoreBegin \/ StoreEnd
        \/ FormatterRaises \/ HUnlink \/ EClose \/ ERmtree
        \/ \E c \in Calls : Fault(c) \/ Interrupt(c)
        \/ BodyInterrupted
        \/ OpenRefused
        \/ Crash

Spec == Init /\ [][Next]_vars

(* every behaviour ends: the program counter only moves forward (Write loops are the only cycles) *)
Terminates == <>[](pc = "done")
FairSpec == Spec /\ WF_vars(Mkdtemp \/ OpenTmp \/ BlockEnd \/ Close \/ UnlinkDest \/ Rename \/ Rmtree
                              \/ OpenDest \/ StoreBegin \/ StoreEnd \/ OpenRefused
                              \/ HUnlink \/ EClose \/ ERmtree)

(* without any Crash / Fault / FormatterRaises the write succeeds *)
(* the close step has its own failure outcome: a write whose staged file could not be closed never reports *)
(* success and never touches the destination (it behaves like a failure of the body)                        *)
CloseFails == Fault("close")
CloseFailureIsAFailure == (fcall = "close" /\ pc = "done") => (how \in {"failed", "crashed"} /\ dest = pre)

HappyPathSucceeds == [](pc = "done" /\ fcall = "none" /\ ~StagedNameUnusable /\ how # "crashed" /\ exc = "no" => how = "ok")

------------------------------------------------------------------------------
(* The verdict table: OutcomeOK over its whole domain, emitted once so that   *)
(* the harness judges real outcomes with the spec's predicate.                *)
Judge ==
    /\ pc = "mkdtemp" /\ name = "ordinary"
    /\ \E p \in {"absent", "Old"}, h \in Hows \ {"running"}, f \in Calls \cup {"none", "other"},
          d \in DestStates, t \in TmpStates :
            Emit([act |-> "Judge", args |-> <<p, h, f, d, t>>,
                  ok |-> OutcomeOK(p, h, f, d, t), broken |-> Broken(p, h, f, d, t)])
    /\ UNCHANGED vars
JudgeSpec == Init /\ [][Judge]_vars
=============================================================================
