----------------------------- MODULE AnnotDbProv -----------------------------
(* Provenance of annotation database objects (property C17, second part:      *)
(* "union, update, subset, copying, pickling and writing to and reloading      *)
(* from file preserve the multiset of records").                               *)
(*                                                                            *)
(* AnnotDb.tla models ONE database and takes the other operand of update /     *)
(* union from fresh in-memory objects.  Here the state holds TWO related       *)
(* objects and where each of them lives:                                       *)
(*    bag, src   the database in use and its provenance                        *)
(*    kin, ksrc  a second object derived from it (or "none")                   *)
(* provenance is "memory" (made in memory), "file" (bound to a file: opened    *)
(* with source=<path> on a file produced by write()), or "filecopy" (an        *)
(* independent in-memory copy - deepcopy / pickle round trip - of an object    *)
(* that was bound to a file; such a copy keeps the `source` label of the       *)
(* original while holding its own records).                                    *)
(*                                                                            *)
(* The point of the model: provenance is carried through every history but     *)
(* NEVER appears in the result of an operation - update / union between the    *)
(* two objects, in either direction, is the multiset union of their records    *)
(* whatever the labels are.  The harness replays every transition on the real  *)
(* classes (objects really reloaded from files, really copied) and compares    *)
(* the records of both objects.                                                *)
EXTENDS AnnotDb

VARIABLES src, kin, ksrc
pvars == <<bag, src, kin, ksrc>>

CONSTANTS KinMax        \* bound on the number of records of either object

Provs == {"memory", "file", "filecopy"}
CopyLabel(s) == IF s = "memory" THEN "memory" ELSE "filecopy"

PSt  == [recs |-> View(bag), src |-> src, kin |-> View(kin), ksrc |-> ksrc]
PStP == [recs |-> View(bag'), src |-> src', kin |-> View(kin'), ksrc |-> ksrc']
PLog(act, args) == Emit([from |-> PSt, act |-> act, args |-> args, to |-> PStP])

PInit == bag = <<>> /\ src = "memory" /\ kin = <<>> /\ ksrc = "none"

(* records the copy may be given after it was made *)
KinRecs == {OtherU(OtherSeqid)} \cup (IF "ext" \in Vias THEN {OtherE(OtherSeqid)} ELSE {})
LabelOf(r) == IF r.via = "user" THEN <<"AddFeature", UserInput(r, "fwd"), "fwd">>
                                ELSE <<"AddRow", RowOf(r, "fwd"), "fwd">>

(* add_feature / a file row on the database in use *)
PAdd(r) ==
    /\ Len(bag) < MaxRecs /\ CanonOK(r)
    /\ bag' = Append(bag, r)
    /\ UNCHANGED <<src, kin, ksrc>>
    /\ PLog("Add", <<LabelOf(r)>>)

(* db.write(path); db = Cls(source=path): continue with the reloaded object *)
Reload ==
    /\ src' = "file" /\ UNCHANGED <<bag, kin, ksrc>>
    /\ PLog("Reload", <<>>)

(* db = copy.deepcopy(db) / pickle round trip: continue with the copy *)
CopySelf(k) ==
    /\ src' = CopyLabel(src) /\ UNCHANGED <<bag, kin, ksrc>>
    /\ PLog("CopySelf", <<k>>)

(* kin = a copy / pickle round trip / written-and-reloaded image of db; db is kept *)
Fork(k) ==
    /\ ksrc = "none"
    /\ kin' = bag
    /\ ksrc' = IF k = "Reload" THEN "file" ELSE CopyLabel(src)
    /\ UNCHANGED <<bag, src>>
    /\ PLog("Fork", <<k>>)

DropKin ==
    /\ ksrc # "none"
    /\ kin' = <<>> /\ ksrc' = "none" /\ UNCHANGED <<bag, src>>
    /\ PLog("DropKin", <<>>)

(* the second object is modified after it was made *)
KinAdd(r) ==
    /\ ksrc # "none" /\ Len(kin) < KinMax /\ \A i \in DOMAIN kin : kin[i] # r
    /\ kin' = Append(kin, r)
    /\ UNCHANGED <<bag, src, ksrc>>
    /\ PLog("KinAdd", <<LabelOf(r)>>)

(* db.update(kin): every record of kin is added, whatever the two labels are *)
UpdateFromKin ==
    /\ ksrc # "none" /\ Len(bag) + Len(kin) <= KinMax
    /\ bag' = bag \o kin
    /\ UNCHANGED <<src, kin, ksrc>>
    /\ PLog("UpdateFromKin", <<>>)

(* kin.update(db) *)
UpdateKin ==
    /\ ksrc # "none" /\ Len(bag) + Len(kin) <= KinMax
    /\ kin' = kin \o bag
    /\ UNCHANGED <<bag, src, ksrc>>
    /\ PLog("UpdateKin", <<>>)

(* db = db.union(kin): a new in-memory object (union with an empty database is *)
(* documented to be a deepcopy of db, which keeps db's label); kin is kept     *)
UnionKin ==
    /\ ksrc # "none" /\ Len(bag) + Len(kin) <= KinMax
    /\ bag' = bag \o kin /\ src' = (IF kin = <<>> THEN CopyLabel(src) ELSE "memory")
    /\ UNCHANGED <<kin, ksrc>>
    /\ PLog("UnionKin", <<>>)

PNext ==
    \/ \E r \in UserRecs \cup ExtRecs : PAdd(r)
    \/ Reload
    \/ \E k \in {"Copy", "Pickle"} : CopySelf(k)
    \/ \E k \in {"Copy", "Pickle", "Reload"} : Fork(k)
    \/ DropKin
    \/ \E r \in KinRecs : KinAdd(r)
    \/ UpdateFromKin \/ UpdateKin \/ UnionKin

PSpec == PInit /\ [][PNext]_pvars

------------------------------------------------------------------------------
PTypeOK ==
    /\ src \in Provs /\ ksrc \in Provs \cup {"none"}
    /\ Len(bag) <= KinMax /\ Len(kin) <= KinMax
    /\ \A i \in DOMAIN bag : IsRecord(bag[i])
    /\ \A i \in DOMAIN kin : IsRecord(kin[i])
    /\ ksrc = "none" => kin = <<>>

(* the two objects are independent: a step changes the records of at most one  *)
(* of them, except making / dropping the second object                         *)
Independent == [][(bag' # bag /\ kin' # kin) => FALSE]_pvars

(* no step loses a record of the object it changes, except DropKin: both lists *)
(* only ever grow by appending                                                 *)
OnlyGrows ==
    [][/\ Len(bag') >= Len(bag) /\ SubSeq(bag', 1, Len(bag)) = bag
       /\ (ksrc' # "none" /\ ksrc # "none") => (Len(kin') >= Len(kin) /\ SubSeq(kin', 1, Len(kin)) = kin)]_pvars

(* every combination of provenances of the two operands of an update is        *)
(* reachable (vacuity guard, checked by the harness on the emitted graph)      *)
=============================================================================
