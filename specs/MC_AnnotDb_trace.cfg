SPECIFICATION TraceSpec
CONSTANTS
  Seqids = {"s1", "s2"}
  Biotypes = {"gene", "CDS"}
  Names = {"n1", "n2"}
  Strands = {"+", "-"}
  Attrs = {"qxa"}
  MaxCoord = 6
  NSpans = {1, 2}
  Vias = {"user", "ext"}
  MaxRecs = 1000
  MaxLen = 1000
  CanonFirst = FALSE
  CanonSeqid = "s1"
  CanonBiotype = "gene"
  CanonName = "n1"
  QCats = {"seqid", "biotype", "name", "strand", "attr"}
  WinKinds = {"none", "both", "start", "stop"}
  Windows <- AllWindows
  Points <- AllPoints
  SpanChoice <- NoSpanChoice
  SubsetCats = {}
  Ops = {"Subset", "Union", "Update", "Copy", "Pickle", "Json", "WriteLoad"}
  Others <- OthersNone
  UpdateSeqids = {}
INVARIANT Report
