SPECIFICATION Spec
CONSTANTS
  Profile = "quick"
  Group = "big"
INVARIANT ResultShape
