------------------------------ MODULE Rational ------------------------------
(* Exact rational arithmetic on pairs <<num, den>> with den > 0, always in    *)
(* lowest terms.  TLC integers are 32-bit and TLC aborts on overflow, so a     *)
(* result is either exact or the run fails loudly.                             *)
EXTENDS Integers, Sequences, FiniteSets

RECURSIVE GCD(_, _)
GCD(a, b) == IF b = 0 THEN a ELSE GCD(b, a % b)
Abs(x) == IF x < 0 THEN -x ELSE x

Norm(r) == IF r[1] = 0 THEN <<0, 1>>
           ELSE LET g == GCD(Abs(r[1]), r[2]) IN <<r[1] \div g, r[2] \div g>>

Zero == <<0, 1>>
One  == <<1, 1>>
R(n, d) == Norm(<<n, d>>)

RNeg(a) == <<-a[1], a[2]>>
RAdd(a, b) == LET g == GCD(a[2], b[2])
              IN  Norm(<<a[1] * (b[2] \div g) + b[1] * (a[2] \div g), (a[2] \div g) * b[2]>>)
RSub(a, b) == RAdd(a, RNeg(b))
RMul(a, b) == IF a[1] = 0 \/ b[1] = 0 THEN Zero
              ELSE LET g1 == GCD(Abs(a[1]), b[2])
                       g2 == GCD(Abs(b[1]), a[2])
                   IN  <<(a[1] \div g1) * (b[1] \div g2), (a[2] \div g2) * (b[2] \div g1)>>
RInv(a) == IF a[1] > 0 THEN <<a[2], a[1]>> ELSE <<-a[2], -a[1]>>
RDiv(a, b) == RMul(a, RInv(b))
RLt(a, b) == a[1] * b[2] < b[1] * a[2]
RGe0(a) == a[1] >= 0

RECURSIVE RPow(_, _)
RPow(a, n) == IF n = 0 THEN One ELSE RMul(a, RPow(a, n - 1))

RECURSIVE RSumSeq(_)
RSumSeq(s) == IF s = <<>> THEN Zero ELSE RAdd(Head(s), RSumSeq(Tail(s)))

(* sum of f[x] over a finite set S *)
RECURSIVE RSumSet(_, _)
RSumSet(S, f) == IF S = {} THEN Zero
                 ELSE LET x == CHOOSE x \in S : TRUE IN RAdd(f[x], RSumSet(S \ {x}, f))
=============================================================================
