SPECIFICATION Spec
CONSTANTS
  P = 6
  Offsets = {0, 3}
  MaxSpans = 2
  MinSpans = 1
  MaxCopy = 1
  Filters = {"none"}
CONSTRAINT CopyBound
INVARIANT TypeOK
INVARIANT ViewShape
INVARIANT ClipRefines
INVARIANT Restriction
INVARIANT QueryMonotone
INVARIANT InsideIsComplete
INVARIANT AlgebraLaws
PROPERTY RcKeepsReading
PROPERTY SliceOnlyLoses
PROPERTY CopyKeepsMeaning
PROPERTY FeatSliceShowsItself
