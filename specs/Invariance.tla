------------------------------ MODULE Invariance ------------------------------
(* Property C11: transformations of the PROBLEM that must not change the       *)
(* likelihood, proved exactly on the Felsenstein model (TN93 family) and then  *)
(* replayed relationally on real likelihood functions of every model class.    *)
(*                                                                            *)
(*   MoveRoot(r)      re-root the tree at inner node r   [time-reversible]     *)
(*   SplitEdge(n)     replace edge n by two edges whose P compose to the same  *)
(*                    P (q = q1 * q2)                    [time-homogeneous]    *)
(*   RepeatColumns(k) every column k times: L' = L^k (lnL' = k lnL), by the      *)
(*                    product over columns                                      *)
(*   PermuteColumns, ReorderSeqs, ReorderChildren: the model has sets of       *)
(*                    children and a product over columns, so these are        *)
(*                    invariances by construction; the harness applies them to *)
(*                    the real code.                                           *)
EXTENDS Felsenstein

RECURSIVE PathUp(_, _)
PathUp(c, n) == IF c.par[n] = 0 THEN <<n>> ELSE <<n>> \o PathUp(c, c.par[n])
IdxIn(p, n) == IF \E i \in 1..Len(p) : p[i] = n THEN CHOOSE i \in 1..Len(p) : p[i] = n ELSE 0

Reroot(c, r) ==
    LET p == PathUp(c, r)
        np == [n \in Nodes(c) |-> IF n = r THEN 0
                                  ELSE IF IdxIn(p, n) > 0 THEN p[IdxIn(p, n) - 1] ELSE c.par[n]]
        mv(f) == [n \in Nodes(c) |-> IF n # r /\ IdxIn(p, n) > 0 THEN f[p[IdxIn(p, n) - 1]] ELSE f[n]]
    IN  [c EXCEPT !.par = np, !.inst = mv(c.inst), !.s = mv(c.s)]

SiteAt(c, col, root) == RSumSet(Nuc, [x \in Nuc |-> RMul(RootPi(c, x), Down(c, col, 0, root, x))])

(* split the edge above n: new node m = Len+1 sits between n and its parent; s_n = s1 * s2 *)
SplitOK(c, n) == n # 1 /\ c.s[n] \in {R(1,2), R(1,3)}
S1(s) == IF s = R(1,2) THEN R(2,3) ELSE R(1,2)
S2(s) == IF s = R(1,2) THEN R(3,4) ELSE R(2,3)
Split(c, n) ==
    LET m == Len(c.par) + 1
    IN  [c EXCEPT !.par  = [x \in 1..m |-> IF x = m THEN c.par[n] ELSE IF x = n THEN m ELSE c.par[x]],
                  !.inst = [x \in 1..m |-> IF x = m THEN c.inst[n] ELSE c.inst[x]],
                  !.s    = [x \in 1..m |-> IF x = m THEN S2(c.s[n]) ELSE IF x = n THEN S1(c.s[n]) ELSE c.s[x]]]
ExtCol(col, m) == [x \in 1..m |-> IF x = m THEN "N" ELSE col[x]]

NCheck(c) == IF Len(c.cols) < c.nbrute THEN Len(c.cols) ELSE c.nbrute
ColI(c, i) == ColOf(c, c.cols[i])

(* --- the design-level theorems, exact ------------------------------------ *)
RootInvariance ==
    NBins(Cfg) = 0 =>
      \A r \in Inner(Cfg) : \A i \in 1..NCheck(Cfg) :
          SiteAt(Reroot(Cfg, r), ColI(Cfg, i), r) = SiteAt(Cfg, ColI(Cfg, i), 1)
SplitInvariance ==
    NBins(Cfg) = 0 /\ Cfg.qpow = 1 =>
      \A n \in Nodes(Cfg) : SplitOK(Cfg, n) =>
          \A i \in 1..NCheck(Cfg) :
              SiteAt(Split(Cfg, n), ExtCol(ColI(Cfg, i), Len(Cfg.par) + 1), 1) = SiteAt(Cfg, ColI(Cfg, i), 1)
(* --- parameter scopes given root-independently ----------------------------------------------------------------- *)
(* A scope "the clade of tips t1 and t2 as seen from the outgroup tip og" (set_param_rule(tip_names=[t1,t2],       *)
(* outgroup_name=og, clade=..., stem=...)) names EDGES OF THE UNROOTED TREE: with j the node where the three paths   *)
(* between t1, t2 and og meet, the clade is every edge not in the component of (tree - j) that holds og, and the     *)
(* stem is the edge from j towards og.  Nothing in it refers to the root.                                            *)
Adj(c) == {{n, c.par[n]} : n \in {m \in Nodes(c) : c.par[m] # 0}}
Nbrs(c, n) == {m \in Nodes(c) : {n, m} \in Adj(c)}
RECURSIVE Reach(_, _, _, _)
Reach(c, j, frontier, seen) ==
    IF frontier = {} THEN seen
    ELSE LET nxt == (UNION {Nbrs(c, x) : x \in frontier}) \ (seen \cup {j})
         IN  Reach(c, j, nxt, seen \cup nxt)
Comp(c, j, x) == Reach(c, j, {x}, {x})        \* the component of (tree - j) containing x
Join(c, t1, t2, og) == CHOOSE j \in Nodes(c) \ {t1, t2, og} :
                          /\ Comp(c, j, t1) # Comp(c, j, t2)
                          /\ og \notin Comp(c, j, t1) \cup Comp(c, j, t2)
CladePairs(c, t1, t2, og) == LET j == Join(c, t1, t2, og) IN {e \in Adj(c) : e \cap Comp(c, j, og) = {}}
StemPair(c, t1, t2, og) == LET j == Join(c, t1, t2, og) IN CHOOSE e \in Adj(c) : j \in e /\ e \cap Comp(c, j, og) # {}
Triples(c) == {tr \in Leaves(c) \X Leaves(c) \X Leaves(c) : tr[1] # tr[2] /\ tr[1] # tr[3] /\ tr[2] # tr[3]}
ScopeIsRootFree ==
    \A r \in Inner(Cfg) : \A tr \in Triples(Cfg) :
        /\ CladePairs(Reroot(Cfg, r), tr[1], tr[2], tr[3]) = CladePairs(Cfg, tr[1], tr[2], tr[3])
        /\ StemPair(Reroot(Cfg, r), tr[1], tr[2], tr[3]) = StemPair(Cfg, tr[1], tr[2], tr[3])
(* the name of an edge is the name of its child end in the configuration's own rooting *)
EdgeNameOf(c, e) == c.edgename[CHOOSE n \in e : c.par[n] \in e]
(* --- transformation instances handed to the harness ---------------------- *)
TStepT == k <= Len(Configs) /\ k' = k + 1
TStep == TStepT /\ Emit([act |-> "Transforms", id |-> Cfg.id, newick |-> Cfg.newick,
                         roots |-> {Cfg.edgename[r] : r \in Inner(Cfg) \ {1}},
                         scopes |-> {<<Cfg.leafname[tr[1]], Cfg.leafname[tr[2]], Cfg.leafname[tr[3]],
                                       {EdgeNameOf(Cfg, e) : e \in CladePairs(Cfg, tr[1], tr[2], tr[3])},
                                       EdgeNameOf(Cfg, StemPair(Cfg, tr[1], tr[2], tr[3]))>> : tr \in Triples(Cfg)},
                         splits |-> {<<Cfg.edgename[n], S1(Cfg.s[n]), S2(Cfg.s[n])>> : n \in {x \in Nodes(Cfg) : SplitOK(Cfg, x) /\ Cfg.qpow = 1}}])
TSpec == Init /\ [][TStep]_vars
=============================================================================
