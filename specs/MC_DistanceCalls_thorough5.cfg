SPECIFICATION Spec
CONSTANTS
  N = 5
  Heights = {1, 2, 3, 4}
  Forms = {"dict", "DictArray", "DistanceMatrix"}
  Builders = {"upgma", "nj", "gnj", "quick_tree", "app_quick_tree", "take_dists", "drop_invalid", "to_dict"}
  MaxCalls = 2
INVARIANT TypeOK
INVARIANT SameAnswerEveryTime
INVARIANT UnrootedIsTheAdditiveTree
INVARIANT ZeroDiagonal
PROPERTY Pure
