SPECIFICATION Spec
CONSTANTS
  MinL = 0
  MaxL = 3
  Offsets = {0, 3}
  MaxStep = 6
  MaxGen = 1
  Margin = 1
  Reps = {"str", "bytes", "tuple", "list", "array", "seqview", "sequence"}
  Steps <- StepsSmall
CONSTRAINT StepBound
INVARIANT TypeOK
INVARIANT Refines
INVARIANT RefinesSdv
INVARIANT CompDirection
INVARIANT CoordsRefine
INVARIANT Progression
INVARIANT RcInvolution
PROPERTY CopyKeepsCoords
