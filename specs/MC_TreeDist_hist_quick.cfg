SPECIFICATION HSpec
CONSTANTS
  Tips = {"a", "b", "c", "d"}
  BMod = 2
  BRem = 1
INVARIANT ResultsAreTrees
PROPERTY BifurcatingResolves
PROPERTY RenamePreservesDistance
