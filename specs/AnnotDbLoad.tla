----------------------------- MODULE AnnotDbLoad -----------------------------
(* Loading GFF3 text into an annotation database (parse/gff.py,                *)
(* load_annotations, GffAnnotationDb): what records a FILE denotes.            *)
(*                                                                            *)
(* A file is a sequence of feature lines                                       *)
(*     seqid  source  type  first  last  .  strand  .  ID=<id>;Parent=<parent> *)
(* with 1-based closed positions.  By the format's definition                  *)
(*   - lines that share an ID are ONE feature located at all their positions   *)
(*     (its other columns are those of its first line),                        *)
(*   - a line without ID is a feature of its own (the database invents a name),*)
(*   - Parent=<id> makes the feature a child of the feature with that ID.      *)
(*   - ONLY the exact keys ID and Parent mean anything: other attributes, also  *)
(*     ones whose key contains or ends in "id" / "parent" in any case           *)
(*     (exon_id=, gene_ID=, Grandparent=, parent_type=, Name=), name nothing,   *)
(*     wherever they stand in the column; the column is stored verbatim.        *)
(* Features(file) below is that definition.  Loading appends Features(file)    *)
(* to whatever the database holds: loading into a database that already has    *)
(* records keeps them, loading the same file twice gives every feature twice   *)
(* (documented: "We DO NOT check if a provided db already contains records"),  *)
(* seqids=... keeps only the lines on those sequences, and how many lines the  *)
(* loader reads per block (lines_per_block) must not matter.                   *)
EXTENDS AnnotDb

CONSTANTS
    FileLen,        \* files have 1..FileLen lines
    LineIds,        \* IDs a line may carry (NoId = no ID attribute)
    LineCoords,     \* <<first, last>> pairs (1-based closed) a line may have
    LineStrands,    \* "tied": strand follows the seqid; "free": both strands
    Blocks,         \* values of lines_per_block
    XFlags,         \* {FALSE} or BOOLEAN: may a line carry the file's extra attributes
    Extras,         \* which extra attributes the file uses ("none", "exon_id", "gene_ID", ...)
    Orders          \* "first": ID / Parent before the extra attributes, "last": after them

VARIABLES last, nloads
lvars == <<bag, last, nloads>>

QuickCoords == {<<1, 2>>, <<4, 5>>}
MoreCoords == {<<1, 2>>, <<4, 5>>, <<2, 4>>}
NoId == "-"
ParentId == "a"                       \* the ID children refer to

Bio(ln) == IF ln.parent = NoId THEN "gene" ELSE "CDS"
Lines ==
    {ln \in [seqid : Seqids, id : LineIds \cup {NoId}, parent : {NoId, ParentId}, c : LineCoords, strand : {"+", "-"},
             x : XFlags] :
        LineStrands = "free" \/ ln.strand = (IF ln.seqid = CanonSeqid THEN "+" ELSE "-")}

(* lines of one multi-line feature agree on everything but their position; a   *)
(* feature is not its own parent                                               *)
WellFormed(f) ==
    /\ \A i, j \in DOMAIN f :
          (f[i].id # NoId /\ f[i].id = f[j].id) =>
              (f[i].seqid = f[j].seqid /\ f[i].parent = f[j].parent /\ f[i].strand = f[j].strand
               /\ (i # j => f[i].c # f[j].c))
    /\ \A i \in DOMAIN f : f[i].id # NoId => f[i].parent # f[i].id
Files == {f \in UNION {[1..n -> Lines] : n \in 1..FileLen} : WellFormed(f)}
Filters == {{}} \cup {{sq} : sq \in Seqids} \cup {Seqids}      \* {} = seqids not given

(* the attribute column as <<key, value>> tokens (written key=value;key=value)  *)
ExtraTokens(e) ==
    CASE e = "exon_id"     -> << <<"exon_id", "E1">>, <<"rank", "1">> >>
      [] e = "gene_ID"     -> << <<"gene_ID", "E1">> >>
      [] e = "Grandparent" -> << <<"Grandparent", ParentId>> >>
      [] e = "GrandParent" -> << <<"GrandParent", ParentId>> >>
      [] e = "Name"        -> << <<"Name", "E1">>, <<"parent_type", ParentId>> >>
      [] OTHER             -> <<>>
OwnTokens(ln) ==
    (IF ln.id # NoId THEN << <<"ID", ln.id>> >> ELSE <<>>) \o
    (IF ln.parent # NoId THEN << <<"Parent", ln.parent>> >> ELSE <<>>)
AttrTokens(ln, e, ord) ==
    IF ~ln.x THEN OwnTokens(ln)
    ELSE IF ord = "first" THEN OwnTokens(ln) \o ExtraTokens(e) ELSE ExtraTokens(e) \o OwnTokens(ln)
(* the lines as the harness writes them *)
Rendered(f, e, ord) ==
    [i \in DOMAIN f |-> [seqid |-> f[i].seqid, biotype |-> Bio(f[i]), c |-> f[i].c, strand |-> f[i].strand,
                          id |-> f[i].id, attrs |-> AttrTokens(f[i], e, ord)]]

RECURSIVE AscSeq(_)
AscSeq(S) == IF S = {} THEN <<>> ELSE LET m == SetMin(S) IN <<m>> \o AscSeq(S \ {m})

Kept(f, filt) == SelectSeq(f, LAMBDA ln : filt = {} \/ ln.seqid \in filt)
Starts(ls) == {i \in DOMAIN ls : ls[i].id = NoId \/ \A j \in 1..(i - 1) : ls[j].id # ls[i].id}
Members(ls, i) == IF ls[i].id = NoId THEN {i} ELSE {j \in DOMAIN ls : ls[j].id = ls[i].id}
Feature(ls, i, e, ord) ==
    LET m == AscSeq(Members(ls, i)) IN
    [seqid |-> ls[i].seqid, biotype |-> Bio(ls[i]),
     name |-> IF ls[i].id = NoId THEN "unknown" ELSE ls[i].id,
     parent |-> ls[i].parent, strand |-> ls[i].strand, attrs |-> AttrTokens(ls[i], e, ord),
     spans |-> Normalise([k \in DOMAIN m |-> HalfOpen(ls[m[k]].c)])]
FeaturesX(ls, e, ord) == LET s == AscSeq(Starts(ls)) IN [k \in DOMAIN s |-> Feature(ls, s[k], e, ord)]
Features(ls) == FeaturesX(ls, "none", "first")

UserRecord == [seqid |-> CanonSeqid, biotype |-> "gene", name |-> "u1", parent |-> NoId,
               strand |-> "+", attrs |-> <<>>, spans |-> << <<0, 3>> >>]

LView(b) == [i \in DOMAIN b |->
               [seqid |-> b[i].seqid, biotype |-> b[i].biotype, name |-> b[i].name, parent |-> b[i].parent,
                strand |-> b[i].strand, attrs |-> b[i].attrs, spans |-> b[i].spans,
                start |-> Start(b[i]), stop |-> Stop(b[i])]]
(* get_feature_children(name=ParentId): the records whose Parent is that ID *)
Kids(b) == SelectSeq([i \in DOMAIN b |-> i], LAMBDA i : b[i].parent = ParentId)

LSt  == [recs |-> LView(bag), nloads |-> nloads, last |-> last]
LLog(act, args) ==
    Emit([from |-> LSt, act |-> act, args |-> args,
          to |-> [recs |-> LView(bag'), nloads |-> nloads', last |-> last'], kids |-> Kids(bag')])

(* the file and the filter of a behaviour are fixed in its initial state (so   *)
(* that TLC explores the files in parallel); `last` holds them                *)
LInit == bag = <<>> /\ nloads = 0
         /\ last \in {<<f, filt, e, ord>> : f \in Files, filt \in Filters, e \in Extras, ord \in Orders}

(* a database that already holds a user-added record *)
AddUser ==
    /\ bag = <<>> /\ nloads = 0
    /\ bag' = <<UserRecord>> /\ UNCHANGED <<last, nloads>>
    /\ LLog("AddUser", <<UserRecord>>)

(* db = load_annotations(path=<file>, seqids=filt, db=db, lines_per_block=blk); *)
(* the second time: the same file, same filter, into the same database          *)
LoadT(f, filt, e, ord) == bag' = bag \o FeaturesX(Kept(f, filt), e, ord)
Load(blk) ==
    /\ nloads < 2
    /\ LoadT(last[1], last[2], last[3], last[4]) /\ nloads' = nloads + 1 /\ UNCHANGED last
    /\ LLog("Load", <<Rendered(last[1], last[3], last[4]), last[2], blk>>)

LNext == AddUser \/ \E blk \in Blocks : Load(blk)

LSpec == LInit /\ [][LNext]_lvars

------------------------------------------------------------------------------
(* laws of Features (checked on every file of the configuration)               *)
NLines(fs) == LET RECURSIVE Sum(_)
                  Sum(k) == IF k = 0 THEN 0 ELSE Len(fs[k].spans) + Sum(k - 1)
              IN Sum(Len(fs))
(* (the laws speak about all files, not about the state: they are evaluated    *)
(* once, in the initial state)                                                 *)
FirstLine == CHOOSE ln \in Lines : TRUE
AtStart == bag = <<>> /\ nloads = 0 /\ last[1] = <<FirstLine>> /\ last[2] = {}
(* every line is located in exactly one feature *)
EveryLineOnce == AtStart => \A f \in Files : NLines(Features(f)) = Len(f)
(* filtering by all sequences, or by none, keeps the file *)
FilterAllIsNone == AtStart => \A f \in Files : Features(Kept(f, Seqids)) = Features(Kept(f, {}))
(* the features of a filtered file are the features of the file on those sequences *)
FilterCommutes ==
    AtStart => \A f \in Files, sq \in Seqids :
        Features(Kept(f, {sq})) = SelectSeq(Features(f), LAMBDA x : x.seqid = sq)
(* feature names: an ID names exactly one feature of a file *)
IdsAreUnique ==
    AtStart => \A f \in Files : \A i, j \in DOMAIN Features(f) :
        (i # j /\ Features(f)[i].name # "unknown") => Features(f)[i].name # Features(f)[j].name
LTypeOK == nloads \in 0..2 /\ Len(last[1]) \in 1..FileLen /\ last[2] \in Filters
(* a load never touches what was there *)
(* extra attributes never change which features a file denotes *)
ExtrasAreInert ==
    AtStart => \A f \in Files, e \in Extras, ord \in Orders :
        LET a == FeaturesX(f, e, ord) b == Features(f) IN
        /\ Len(a) = Len(b)
        /\ \A i \in DOMAIN a : [a[i] EXCEPT !.attrs = <<>>] = [b[i] EXCEPT !.attrs = <<>>]
LoadsAppend == [][Len(bag') >= Len(bag) /\ SubSeq(bag', 1, Len(bag)) = bag]_lvars
=============================================================================
