SPECIFICATION Spec
CONSTANTS
  P = 5
  Offsets = {0, 3}
  MaxSpans = 2
  MinSpans = 1
  MaxCopy = 0
  Filters = {"none", "name"}
CONSTRAINT CopyBound
INVARIANT TypeOK
INVARIANT ViewShape
INVARIANT Restriction
