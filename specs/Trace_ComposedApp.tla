------------------------- MODULE Trace_ComposedApp -------------------------
(* code -> spec: validates recorded executions of real composed apps          *)
(* (apply_to, serial and loky-parallel with free-running task durations)       *)
(* against ComposedApp.tla.  TRACE_FILE holds a JSON array of traces           *)
(*   [plan |-> <<profile_1, .., profile_N>>, named |-> <<BOOLEAN..>>,           *)
(*    w |-> workers, wtyped |-> BOOLEAN,                                        *)
(*    events |-> << [op |-> .., t |-> .., rec |-> ..] .. >>]                    *)
(* with events, in the order of their (system wide monotonic) time stamps:     *)
(*   Submit            apply_to was called                                     *)
(*   Start t           a worker picked task t up                               *)
(*   Complete t        task t finished its computation in a worker             *)
(*   Consume t rec     the master handed record `rec` to the data store under   *)
(*                     identifier t                                            *)
(*   Serial t rec      serial execution: same, computed in the master           *)
(*   Final rec         apply_to returned; rec = content of the store, per input *)
(* An event is accepted iff the named ComposedApp action is enabled and yields  *)
(* exactly the logged record.  Rejected events are collected (rest of the trace *)
(* skipped) and reported from the invariant Report.                             *)
EXTENDS ComposedApp, TLCExt

Traces == JsonDeserialize(IOEnv.TRACE_FILE)

VARIABLES tid, l, bad
tvars == <<plan, named, naming, rev, rep, w, wtyped, submitted, pending, running, finished, result, order, cons, written, arg, argseen, tid, l, bad>>

Ev == Traces[tid].events[l]

Fresh(k) ==
    /\ plan' = Traces[k].plan
    /\ named' = Traces[k].named
    /\ rev' = Traces[k].rev
    /\ naming' = Traces[k].naming
    /\ rep' = Traces[k].rep
    /\ arg' = Arg0 /\ argseen' = [i \in Inputs |-> NoArg]
    /\ w' = Traces[k].w
    /\ wtyped' = Traces[k].wtyped
    /\ submitted' = FALSE
    /\ pending' = <<>>
    /\ running' = {} /\ finished' = {}
    /\ result' = [i \in Inputs |-> None]
    /\ order' = <<>> /\ cons' = <<>>
    /\ written' = [i \in Inputs |-> None]

TraceInit ==
    /\ tid = 1 /\ l = 1 /\ bad = {}
    /\ rev = Traces[1].rev /\ naming = Traces[1].naming /\ rep = Traces[1].rep /\ arg = Arg0 /\ argseen = [i \in Inputs |-> NoArg]
    /\ plan = Traces[1].plan /\ named = Traces[1].named /\ w = Traces[1].w /\ wtyped = Traces[1].wtyped
    /\ submitted = FALSE /\ pending = <<>> /\ running = {} /\ finished = {}
    /\ result = [i \in Inputs |-> None]
    /\ order = <<>> /\ cons = <<>>
    /\ written = [i \in Inputs |-> None]

Step(e) ==
    CASE e.op = "Submit"   -> SubmitT
      [] e.op = "Start"    -> StartT(e.t)
      [] e.op = "Complete" -> CompleteT(e.t)
      [] e.op = "Consume"  -> e.t \in Inputs /\ ConsumeT(e.t) /\ written'[e.t] = e.rec
      [] e.op = "Serial"   -> e.t \in Inputs /\ SerialT(e.t) /\ written'[e.t] = e.rec
      [] e.op = "Final"    -> AtQuiescence /\ written = e.rec /\ UNCHANGED vars
      [] OTHER             -> FALSE

Accept ==
    /\ tid <= Len(Traces) /\ l <= Len(Traces[tid].events)
    /\ Step(Ev)
    /\ l' = l + 1 /\ UNCHANGED <<tid, bad>>

NextFresh == IF tid + 1 <= Len(Traces) THEN Fresh(tid + 1) ELSE UNCHANGED vars

Reject ==
    /\ tid <= Len(Traces) /\ l <= Len(Traces[tid].events)
    /\ ~ ENABLED Accept
    /\ bad' = bad \cup {<<tid, l>>}
    /\ tid' = tid + 1 /\ l' = 1
    /\ NextFresh

NextTrace ==
    /\ tid <= Len(Traces) /\ l > Len(Traces[tid].events)
    /\ tid' = tid + 1 /\ l' = 1
    /\ NextFresh
    /\ UNCHANGED bad

TraceNext == Accept \/ Reject \/ NextTrace
TraceSpec == TraceInit /\ [][TraceNext]_tvars

Finished == tid = Len(Traces) + 1
Report == Finished => PrintT(<<"TRACE-VERDICT", Len(Traces), bad>>)
=============================================================================
