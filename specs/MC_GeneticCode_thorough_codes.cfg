SPECIFICATION Spec
CONSTANTS
  TableCodes = {}
  SeqCodes = {3, 4, 5, 6, 9, 10, 11, 12, 13, 14, 15, 16, 21, 22, 23, 24, 25, 26, 27, 28, 29, 30, 31, 32, 33}
  MaxLen = 3
  OptLen = 3
  MaxCodons = 0
  PairCodons = 0
  OrfFamily = FALSE
  LongLens = {}
  SymLen = 0
INVARIANT TypeOK
INVARIANT RcInvolution
INVARIANT ComplementLaws
INVARIANT ComplementRcLaw
INVARIANT ReprIndependent
INVARIANT EncodeResolveInverse
INVARIANT SixFrameLaw
INVARIANT AnticodonFrameLaw
INVARIANT StopLaws
INVARIANT UniqueFrameFamily
INVARIANT LongLaw
INVARIANT CodonLaw
