SPECIFICATION Spec
INVARIANT InstancesOK
INVARIANT RowStochastic
INVARIANT IdentityAt0
INVARIANT StationaryP
INVARIANT DetailedBalP
INVARIANT ChapmanKolmogorov
