SPECIFICATION Spec
CONSTANT Contents = {1, 2, 3}
CONSTANT Gaps = {1, 2, 3, 4}
CONSTANT MaxCalls = 3
INVARIANT TypeOK
PROPERTY ResultIsForCurrentModel
PROPERTY EditsAreSilent
