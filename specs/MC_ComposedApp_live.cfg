SPECIFICATION FairSpec
CONSTANTS
  N = 3
  S = 3
  Ws = {0, 1, 2, 3}
  WriterTyped = {TRUE, FALSE}
  Namings = {"plain"}
  RetireRule = "equal"
  Reps = {"list"}
  Reversed = {FALSE}
  FnStep = 2
  Isolated = TRUE
  Named = {TRUE}
INVARIANT TypeOK
PROPERTY Terminates
