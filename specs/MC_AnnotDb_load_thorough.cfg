SPECIFICATION LSpec
CONSTANTS
  Seqids = {"s1", "s2"}
  Biotypes = {"gene", "CDS"}
  Names = {"a", "b%3Bc", "unknown", "u1"}
  Strands = {"+", "-"}
  Attrs = {}
  MaxCoord = 5
  NSpans = {1, 2}
  Vias = {"user", "ext"}
  MaxRecs = 0
  MaxLen = 0
  CanonFirst = FALSE
  CanonSeqid = "s1"
  CanonBiotype = "gene"
  CanonName = "a"
  QCats = {}
  WinKinds = {"none"}
  Windows <- HistWindows
  Points <- HistPoints
  SpanChoice <- AttrSpans
  SubsetCats = {}
  Ops = {}
  Others <- OthersNone
  UpdateSeqids = {}
  FileLen = 3
  LineIds = {"a", "b%3Bc"}
  LineCoords <- QuickCoords
  LineStrands = "tied"
  Blocks = {1, 1000}
  XFlags = {FALSE}
  Extras = {"none"}
  Orders = {"first"}
INVARIANT LTypeOK
INVARIANT EveryLineOnce
INVARIANT FilterAllIsNone
INVARIANT FilterCommutes
INVARIANT IdsAreUnique
INVARIANT ExtrasAreInert
PROPERTY LoadsAppend
