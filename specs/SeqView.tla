------------------------------- MODULE SeqView -------------------------------
(* Property C01: sequence views obey the slice / reverse-complement algebra.  *)
(*                                                                            *)
(* Two layers, checked against each other by TLC (refinement invariants) and  *)
(* against the real cogent3 classes by harness/check_C01.py (every emitted    *)
(* transition is replayed on old-style, new-style and collection-backed       *)
(* sequences).                                                                *)
(*                                                                            *)
(* ABSTRACT layer - what the property talks about.  The model is index-       *)
(* symbolic: a *frame* is a root string of length L that sits at annotation   *)
(* offset `off`, has molecule type `mol` and identifier `sid`; a view of it   *)
(* is `idx`, the sequence of 0-based root positions it displays, and `comp`   *)
(* (displayed complemented).  The displayed string is                          *)
(*     [k |-> IF comp THEN Compl[mol][root[idx[k]]] ELSE root[idx[k]]]         *)
(* Slicing is Python slicing of idx (module PySlice), a negative stride or    *)
(* rc() also toggles comp.  The harness instantiates `root` with seeded       *)
(* random IUPAC strings; the complement / T<->U tables it uses are the ones   *)
(* defined here (action Meta emits them).                                      *)
(*                                                                            *)
(* IMPLEMENTATION layer - the record v = (start, stop, step, offset,          *)
(* seq_len, seqid) with the arithmetic of cogent3.core.sequence /             *)
(* new_sequence (identical in both files): _input_vals_pos_step,              *)
(* _input_vals_neg_step, SliceRecordABC.__getitem__, _get_index, _get_slice,  *)
(* _get_reverse_slice, the four _get_*_slice_from_*_seqview_, __len__,        *)
(* parent_start / parent_stop, SeqView.copy / to_rich_dict, transcribed       *)
(* statement for statement.                                                    *)
EXTENDS Integers, Sequences, TLC, Emit, PySlice, SeqViewSymbols

CONSTANTS MinL, MaxL, \* root lengths MinL..MaxL
          Offsets,   \* annotation offsets of the initial roots
          MaxStep,   \* state constraint: |step| <= MaxStep (strides multiply without bound)
          MaxGen,    \* state constraint: frames produced by more than MaxGen conversions are not explored further
          Steps,     \* slice strides tried (None and non-zero integers)
          Margin,    \* slice / index arguments range over None and -(L+Margin)..(L+Margin)
          Reps       \* representations of the raw data a sequence can be constructed from

VARIABLES L, off, mol, sid,    \* the frame
          idx, comp,           \* abstract view
          v,                   \* implementation-shaped view record
          gen                  \* exploration bound only: number of conversions behind this frame
vars == <<L, off, mol, sid, idx, comp, v, gen>>

StepsFull  == {None, 1, -1, 2, -2, 3, -3}
StepsSmall == {None, 1, -1, 2, -2}

Alt == 99
Mols == {"dna", "rna"}

(* the symbol tables the harness renders displays with are in SeqViewSymbols *)

(* =========================== implementation model ========================== *)

View(a, b, k, o, n, s) == [start |-> a, stop |-> b, step |-> k, off |-> o, slen |-> n, sid |-> s]

(* _input_vals_pos_step(seqlen, start, stop, step) *)
InputPos(sl, a, b, k) ==
    LET s0 == IF a = None THEN 0 ELSE a IN
    IF s0 > 0 /\ s0 >= sl THEN <<0, 0, 1>>
    ELSE LET e0 == IF b = None THEN sl ELSE b IN
         IF e0 < 0 /\ -e0 >= sl THEN <<0, 0, 1>>
         ELSE LET s1 == IF s0 < 0 THEN Max(sl + s0, 0) ELSE s0
                  e1 == IF e0 > 0 THEN Min(sl, e0) ELSE IF e0 < 0 THEN e0 + sl ELSE e0
              IN IF s1 >= e1 THEN <<0, 0, 1>> ELSE <<s1, e1, k>>

(* _input_vals_neg_step(seqlen, start, stop, step) *)
InputNeg(sl, a, b, k) ==
    IF a # None /\ a < sl /\ a < 0 /\ a < -sl THEN <<0, 0, 1>>
    ELSE LET s1 == IF a = None \/ a >= sl THEN -1 ELSE IF a >= 0 THEN a - sl ELSE a
             e0 == IF b = None THEN -sl - 1 ELSE IF b >= 0 THEN b - sl ELSE b
             e1 == Max(e0, -sl - 1)
         IN IF s1 < e1 THEN <<0, 0, 1>> ELSE <<s1, e1, k>>

(* SeqView.__init__(seq, start, stop, step, offset, seqid, seq_len) with len(seq) = sl, step an integer *)
New(sl, a, b, k, o, s) ==
    LET t == IF k > 0 THEN InputPos(sl, a, b, k) ELSE InputNeg(sl, a, b, k)
    IN View(t[1], t[2], t[3], o, sl, s)

(* SeqView._zero_slice: SeqView(seq="") *)
Zero == View(0, 0, 1, 0, 0, "none")

(* SliceRecordABC.__len__ *)
VLen(w) == Abs(FloorDiv(w.start - w.stop, w.step))

ParentStart(w) == w.off + (IF w.step < 0 THEN w.stop + w.slen + 1 ELSE w.start)
ParentStop(w)  == w.off + (IF w.step < 0 THEN w.start + w.slen + 1 ELSE w.stop)

(* _get_index(val); <<>> stands for IndexError *)
GetIndex(w, i) ==
    LET n == VLen(w) IN
    IF n = 0 \/ (i > 0 /\ i >= n) \/ (i < 0 /\ -i > n) THEN <<>>
    ELSE IF w.step > 0
         THEN LET val == IF i >= 0 THEN w.start + i * w.step
                         ELSE w.start + n * w.step + i * Abs(w.step)
              IN <<New(w.slen, val, val + 1, 1, w.off, w.sid)>>
         ELSE LET val == IF i >= 0 THEN w.start + i * w.step
                         ELSE w.start + n * w.step + i * w.step
              IN <<New(w.slen, val, val - 1, -1, w.off, w.sid)>>

FwdFromFwd(w, ss, se, k) ==
    LET n == VLen(w)
        start == IF ss >= 0 THEN w.start + ss * w.step
                 ELSE Max(w.start + n * w.step + ss * w.step, w.start)
        stop == IF se > w.stop THEN w.stop
                ELSE IF se >= 0 THEN w.start + se * w.step
                ELSE w.start + n * w.step + se * w.step
    IN IF start < 0 \/ stop < 0 THEN Zero
       ELSE IF stop < start THEN Zero
       ELSE IF start > w.slen THEN Zero
       ELSE New(w.slen, start, Min(w.stop, stop), w.step * k, w.off, w.sid)

FwdFromRev(w, ss, se, k) ==
    LET n == VLen(w)
        start == IF ss >= 0 THEN w.start + ss * w.step
                 ELSE IF Abs(ss) > n THEN w.start
                 ELSE w.start + n * w.step + ss * w.step
        stop == IF se >= 0 THEN w.start + se * w.step
                ELSE w.start + n * w.step + se * w.step
    IN IF start >= 0 \/ stop >= 0 THEN Zero
       ELSE New(w.slen, start, Max(w.stop, stop), w.step * k, w.off, w.sid)

RevFromFwd(w, ss, se, k) ==
    LET n == VLen(w)
        start == IF ss >= n THEN (w.start + n * w.step - w.step) - w.slen
                 ELSE IF ss >= 0 THEN (w.start + ss * w.step) - w.slen
                 ELSE w.start + n * w.step + ss * w.step - w.slen
    IN IF se >= w.slen THEN Zero
       ELSE LET stop == IF se >= 0 THEN w.start + se * w.step - w.slen
                        ELSE w.start + n * w.step + se * w.step - w.slen
            IN IF start >= 0 \/ stop >= 0 THEN Zero
               ELSE New(w.slen, start, Max(stop, w.start - w.slen - 1), w.step * k, w.off, w.sid)

RevFromRev(w, ss, se, k) ==
    LET n == VLen(w)
        start == IF ss >= n THEN w.slen + w.start + n * w.step + Abs(w.step)
                 ELSE IF ss >= 0 THEN w.slen + (w.start + ss * w.step)
                 ELSE w.slen + (w.start + n * w.step + ss * w.step)
        stop0 == IF se >= 0 THEN w.slen + (w.start + se * w.step)
                 ELSE w.slen + (w.start + n * w.step + se * w.step)
    IN IF se >= 0 /\ stop0 <= w.slen + w.stop THEN Zero
       ELSE LET stop == IF se < 0 /\ stop0 > w.slen + w.start THEN w.slen + w.start + 1 ELSE stop0
            IN IF stop < start \/ start > w.slen \/ Min(start, stop) < 0 THEN Zero
               ELSE New(w.slen, start, stop, w.step * k, w.off, w.sid)

(* SeqView.copy(sliced=False) *)
CopyPlain(w) == New(w.slen, w.start, w.stop, w.step, w.off, w.sid)

(* SliceRecordABC.__getitem__(slice(a, b, k)) *)
GetItem(w, a, b, k) ==
    IF a = None /\ b = None /\ k = None THEN CopyPlain(w)
    ELSE IF VLen(w) = 0 THEN w
    ELSE IF a # None /\ a = b THEN Zero
    ELSE LET st == IF k = None THEN 1 ELSE k
             n == VLen(w)
         IN IF st > 0
            THEN LET ss == IF a # None THEN a ELSE 0
                     se == IF b # None THEN b ELSE n
                 IN IF w.step > 0 THEN FwdFromFwd(w, ss, se, st) ELSE FwdFromRev(w, ss, se, st)
            ELSE LET ss == IF a # None THEN a ELSE -1
                     se == IF b # None THEN b ELSE -n - 1
                 IN IF w.step < 0 THEN RevFromRev(w, ss, se, st) ELSE RevFromFwd(w, ss, se, st)

(* Sequence.copy(sliced=True): SeqView.to_rich_dict cuts the parent to        *)
(* seq[start:stop] on the plus strand and keeps only the step; the Sequence    *)
(* constructor then stores annotation_offset = parent_start as the new offset. *)
CopySliced(w) ==
    LET s == IF w.step < 0 THEN w.stop + w.slen + 1 ELSE w.start
        e == IF w.step < 0 THEN w.start + w.slen + 1 ELSE w.stop
        seglen == Count(w.slen, s, e, None)
    IN New(seglen, None, None, w.step, ParentStart(w), w.sid)

(* what the realised string is: parent[start:stop:step] by *Python* semantics,  *)
(* as root positions (the current parent starts at root position w.off - off)  *)
ParentIdx(w) == [i \in 1..w.slen |-> i - 1 + (w.off - off)]
Realised(w) == Apply(ParentIdx(w), w.start, w.stop, w.step)
(* SeqDataView.str_value: parent[parent_start:parent_stop][::step] *)
RealisedSdv(w) == Apply(Apply(ParentIdx(w), ParentStart(w), ParentStop(w), None), None, None, w.step)

(* ================================ abstract layer ============================ *)

Ident(n) == [i \in 1..n |-> i - 1]
Reverse(s) == [i \in 1..Len(s) |-> s[Len(s) + 1 - i]]
Args == {None} \cup (-(L + Margin))..(L + Margin)

(* parent_coordinates() of a non-empty view: (seqid, ps, pe, strand) must name *)
(* the plus-strand segment root[ps-off : pe-off] that, read on `strand` and     *)
(* taken with the view's stride, is the displayed string.  Expressed on idx:   *)
(* the segment starts exactly at the first displayed residue (in reading       *)
(* direction), covers the last one, and may include at most the unused         *)
(* remainder of the last stride (for a single residue the stride is open).     *)
(* seq.annotation_offset of a non-empty view is the reported start.  Nothing   *)
(* is required of the coordinates of an empty view.                            *)
Stride == IF Len(idx) >= 2 THEN Abs(idx[2] - idx[1]) ELSE 0
CoordBounds ==   \* <<strand, psLo, psHi, peLo, peHi>>
    LET n == Len(idx) IN
    IF n = 0 THEN <<>>
    ELSE LET first == idx[1]
             last == idx[n]
         IN IF ~comp
            THEN <<1, off + first, off + first, off + last + 1,
                   off + (IF Stride = 0 THEN L ELSE Min(L, last + Stride))>>
            ELSE <<-1, off + (IF Stride = 0 THEN 0 ELSE Max(0, last - Stride + 1)), off + last,
                   off + first + 1, off + first + 1>>

ModelCoords(w) == <<w.sid, ParentStart(w), ParentStop(w), IF w.step < 0 THEN -1 ELSE 1>>

TypeOK == /\ L \in 0..MaxL /\ off \in Nat /\ mol \in Mols /\ sid \in {"s", "none"}
          /\ idx \in Seq(0..(L - 1)) /\ comp \in BOOLEAN
          /\ v.step # 0 /\ gen \in Nat

(* ---- emission --------------------------------------------------------------- *)
Enc(l, o, m, s, ix, c, w) ==
    <<l, o, m, s, ix, c, <<w.start, w.stop, w.step, w.off, w.slen, w.sid>>>>
St == Enc(L, off, mol, sid, idx, comp, v)
StP == Enc(L', off', mol', sid', idx', comp', v')
Log(act, args, ret) ==
    Emit([from |-> St, act |-> act, args |-> args, to |-> StP, ret |-> ret,
          obs |-> [bounds |-> CoordBounds', model |-> ModelCoords(v')]])

Frame == UNCHANGED <<L, off, mol, sid, gen>>

Init == /\ L \in MinL..MaxL
        /\ off \in Offsets
        /\ mol = "dna"
        /\ sid = "s"
        /\ idx = Ident(L)
        /\ comp = FALSE
        /\ v = New(L, None, None, 1, off, "s")
        /\ gen = 0

(* seq[a:b:k] *)
SliceT(a, b, k) ==
    /\ idx' = Apply(idx, a, b, k)
    /\ comp' = (comp # (Step(k) < 0))
    /\ v' = GetItem(v, a, b, k)
    /\ Frame
Slice(a, b, k) == SliceT(a, b, k) /\ Log("Slice", <<a, b, k>>, "ok")

(* seq[i]: a one-residue view, IndexError outside -len..len-1 *)
IndexOk(i) == Pos(Len(idx), i) # 0
IndexT(i) ==
    /\ Frame
    /\ IF IndexOk(i)
       THEN /\ idx' = <<idx[Pos(Len(idx), i)]>>
            /\ comp' = comp
            /\ v' = IF GetIndex(v, i) = <<>> THEN v ELSE GetIndex(v, i)[1]
       ELSE UNCHANGED <<idx, comp, v>>
Index(i) == IndexT(i) /\ Log("Index", <<i>>, IF IndexOk(i) THEN "ok" ELSE "raised")

(* seq.rc() *)
RcT == /\ idx' = Reverse(idx)
       /\ comp' = ~comp
       /\ v' = GetItem(v, None, None, -1)
       /\ Frame
Rc == RcT /\ Log("Rc", <<>>, "ok")

(* seq.copy(sliced): reads the same and keeps its coordinates in the frame *)
CopyT(sliced) ==
    /\ UNCHANGED <<idx, comp>>
    /\ v' = IF sliced THEN CopySliced(v) ELSE CopyPlain(v)
    /\ Frame
Copy(sliced) == CopyT(sliced) /\ Log("Copy", <<sliced>>, "ok")

(* seq.to_rna() / to_dna(): "only exchanges T and U".  Converting to the       *)
(* molecule type it already has returns the view itself.  Otherwise the         *)
(* statement leaves open whether the result stays a view of the (converted)    *)
(* root or becomes the root of a new frame whose string is the converted       *)
(* display (what cogent3 does: offset 0, seqid dropped - or, for an empty      *)
(* view since c22abf469, the sequence name).                                  *)
ConvT(m) ==
    \/ /\ m = mol /\ UNCHANGED vars
    \/ /\ m # mol /\ mol' = m /\ UNCHANGED <<L, off, sid, idx, comp, v>>
       /\ gen' = Alt                                   \* allowed, not what cogent3 does: not explored further
    \/ /\ m # mol /\ mol' = m
       /\ L' = Len(idx) /\ off' = 0 /\ sid' \in {sid, "none", "s"}     \* seqid kept, dropped, or the name ("s")
       /\ idx' = Ident(Len(idx)) /\ comp' = FALSE
       /\ v' = New(Len(idx), None, None, 1, 0, sid')
       /\ gen' = IF sid' = "none" \/ (Len(idx) = 0 /\ sid' = "s") THEN gen + 1 ELSE Alt   \* the outcomes cogent3 takes
Conv(m) == ConvT(m) /\ Log("Conv", <<m>>, "ok")

(* Construction.  A sequence is made from raw data given as a str, bytes, a     *)
(* tuple or list of characters, an array of alphabet indices, or an existing    *)
(* view record / sequence, together with a name and an annotation offset.  The  *)
(* constructed view is THE SAME for every representation: the root view of a    *)
(* frame (Init describes it), so everything explored from a root holds for a    *)
(* root made from any of them.  The harness builds the root from each           *)
(* representation its constructor accepts and replays the root observations     *)
(* and the transitions of the frame on it; data handed over as an existing      *)
(* object must read the same afterwards.                                        *)
IsRoot == gen = 0 /\ idx = Ident(L) /\ ~comp /\ v = New(L, None, None, 1, off, "s")
MakeT(rep) == IsRoot /\ UNCHANGED vars
Make(rep) == MakeT(rep) /\ Log("Make", <<rep>>, "ok")

(* Aliasing with the caller.  After construction the caller still holds the raw *)
(* data it handed over; where that is a mutable object (a list of characters,   *)
(* a numpy array of indices) it may overwrite or reuse it.  The write may be     *)
(* refused (the constructor is allowed to freeze what it adopted) or go through; *)
(* either way it is a stuttering step for the sequence and for every view made   *)
(* from it earlier: they read, iterate, measure and report coordinates as before.*)
MutableReps == {"list", "array"}
CallerWritesT(rep) == IsRoot /\ rep \in MutableReps /\ UNCHANGED vars
WriteOutcomes == {"ok", "raised"}     \* went through / refused: both allowed
CallerWrites(rep) == CallerWritesT(rep) /\ Log("Write", <<rep, WriteOutcomes>>, "any")

(* the symbol tables (once per root) *)
Meta == /\ IsRoot
        /\ UNCHANGED vars
        /\ Emit([act |-> "Meta", compl |-> [dna |-> ComplDna, rna |-> ComplRna],
                 selfcompl |-> SelfCompl, exchange |-> Exchange, none |-> None])

Next == \/ \E a \in Args, b \in Args, k \in Steps : Slice(a, b, k)
        \/ \E i \in Args \ {None} : Index(i)
        \/ Rc
        \/ \E sl \in BOOLEAN : Copy(sl)
        \/ \E m \in Mols : Conv(m)
        \/ \E r \in Reps : Make(r) \/ CallerWrites(r)
        \/ Meta

Spec == Init /\ [][Next]_vars

StepBound == Abs(v.step) <= MaxStep /\ gen <= MaxGen
(* simulation runs (long roots) only walk on through views that still display something *)
Walkable == Len(idx) >= 2

------------------------------------------------------------------------------
(* Design-level properties TLC checks on the model itself.                     *)

(* The transcribed view arithmetic realises exactly the Python slice chain.    *)
Refines == /\ Realised(v) = idx
           /\ VLen(v) = Len(idx)
           /\ Len(idx) > 0 => (v.step < 0) = comp

(* SeqDataView realises parent[parent_start:parent_stop][::step] (offset-free) *)
RefinesSdv == (off = 0 /\ v.off = 0) => RealisedSdv(v) = idx

(* reversal and complementation go together: a complemented view reads the     *)
(* root right-to-left *)
CompDirection == Len(idx) >= 2 => (comp <=> idx[2] < idx[1])

(* the coordinates the implementation model reports are among those the        *)
(* abstract rule allows *)
CoordsRefine ==
    Len(idx) > 0 =>
        LET b == CoordBounds
            c == ModelCoords(v)
        IN /\ c[1] = sid
           /\ c[4] = b[1]
           /\ b[2] <= c[2] /\ c[2] <= b[3]
           /\ b[4] <= c[3] /\ c[3] <= b[5]

(* displayed positions are an arithmetic progression inside the root *)
Progression ==
    \A i \in 1..(Len(idx) - 2) : idx[i + 1] - idx[i] = idx[i + 2] - idx[i + 1]

(* action-level algebra of the abstract layer *)
RcInvolution == Reverse(Reverse(idx)) = idx
CopyKeepsCoords ==
    [][\A sl \in BOOLEAN : CopyT(sl) /\ Len(idx) > 0 =>
          /\ ModelCoords(v')[2] = ModelCoords(v)[2]
          /\ ModelCoords(v')[3] = ModelCoords(v)[3]
          /\ ModelCoords(v')[4] = ModelCoords(v)[4]]_vars
=============================================================================
