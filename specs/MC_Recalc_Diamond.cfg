SPECIFICATION Spec
CONSTANTS
  NPar = 2
  N = 6
  Args <- DiamondArgs
  Recycled <- DiamondRecycled
  BadCell = 5
  BadPar = 2
  BadVal = 3
  Vals = {1, 2, 3}
  Default = 1
INVARIANT Fresh
INVARIANT UndoSound
INVARIANT ReturnIsTop
INVARIANT NeverMixed
PROPERTY RefusedKeepsInputs
