--------------------------------- MODULE NJ ---------------------------------
(* Neighbour joining (Saitou & Nei / Studier & Keppler as implemented by      *)
(* cogent3.phylo.nj.PartialTree.join, gnj(keep=1), nj): property C15.         *)
(*                                                                            *)
(* Abstract state: the current clusters (each a set of tips, identified by    *)
(* its least tip), the distance matrix over them, and the edges (cluster,     *)
(* length) fixed so far.  Distances are exact integers at scale sc (real distance = d / sc; every join doubles *)
(* sc so the halving of the update stays integral); lengths are exact         *)
(* rationals <<num, den>>.  The index layout of the implementation (new node  *)
(* stored at i, last row moved to j) is representation and is not modelled.   *)
(*                                                                            *)
(*   Pick        (not part of the algorithm) chooses the generator's lengths; *)
(*   Join(a, b)  for ANY pair minimising  Q(A,B) = (L-2) d(A,B) - r(A) - r(B) *)
(*               (ties are nondeterministic: the result may not depend on the *)
(*               tie-break), while more than 3 clusters remain;               *)
(*   Finish      the three-point formula on the last 3 clusters.              *)
(*                                                                            *)
(* Design-level property (TLC): for EVERY generating tree (all labelled       *)
(* binary shapes on N tips, tip edges with lengths in TipLens, internal edges *)
(* in IntLens; 0 \in IntLens gives the multifurcating generators) the matrix  *)
(* of its path lengths leads, along every tie-break, to exactly the           *)
(* generator's edges of positive length with the generator's lengths          *)
(* (Recovered); with positive internal lengths every minimal-Q pair is a      *)
(* cherry of the reduced generator (CherryLemma); no length is ever clamped.  *)
EXTENDS NJTrees, Emit

CONSTANTS N,        \* number of tips, >= 3
          TipLens,  \* lengths of pendant edges (positive integers)
          IntLens   \* lengths of internal edges (0 = collapsed edge)

VARIABLES gen,      \* [tree |-> family of clades over 2..N, len |-> [tree -> Nat]]
          mem,      \* current nodes: [id -> set of tips it joins], id = its least tip
          d,        \* [id -> [id -> Int]] distances at scale sc
          sc,       \* scale of d
          edges,    \* {<<cluster, <<num, den>>>>} lengths fixed so far
          raw,      \* same, before max(0, .)  (only to state NoClamp)
          phase     \* "pick" | "join" | "done"
vars == <<gen, mem, d, sc, edges, raw, phase>>

Tips == 1..N
Full == 2..N

(* ---- generators --------------------------------------------------------------- *)
IsPendant(C) == Cardinality(C) = 1 \/ C = Full
Lengths(T) == LET P == {C \in T : IsPendant(C)}
                  I == T \ P
              IN  {f @@ g : f \in [P -> TipLens], g \in [I -> IntLens]}
Generators == UNION {{[tree |-> T, len |-> l] : l \in Lengths(T)} : T \in Families(2, N)}

(* tip 1 is in no clade; the edges on the path a..b are the clades holding exactly one of them *)
GenDist(g, a, b) == SumF({C \in g.tree : (a \in C) # (b \in C)}, g.len)
GenMatrix(g) == [a \in Tips |-> [b \in Tips |-> GenDist(g, a, b)]]
GenEdges(g) == {<<C, <<g.len[C], 1>>>> : C \in {X \in g.tree : g.len[X] > 0}}

(* ---- the algorithm, on any matrix --------------------------------------------- *)
Ids == DOMAIN mem
L == Cardinality(Ids)
Pairs == {p \in Ids \X Ids : p[1] < p[2]}           \* Q is symmetric: unordered pairs
(* Q(a,b) = (L-2) d(a,b) - r(a) - r(b): the criterion of get_dist_saved_join_score_matrix *)
(* up to the positive factor 2(L-2) and a constant                                        *)
RowSums == [x \in Ids |-> SumF(Ids, d[x])]
ArgMinQ == LET r == RowSums
               q == [p \in Pairs |-> (L - 2) * d[p[1]][p[2]] - r[p[1]] - r[p[2]]]
               vals == {q[p] : p \in Pairs}
               m == CHOOSE v \in vals : \A w \in vals : v <= w
           IN  {p \in Pairs : q[p] = m}

Start(M) ==     \* M: [Tips -> [Tips -> Nat]]
    [mem |-> [t \in Tips |-> {t}], d |-> M, sc |-> 1]
StartOn(M) ==
    /\ mem = Start(M).mem /\ d = M /\ sc = 1 /\ edges = {} /\ raw = {}

(* PartialTree.join(i, j): a < b are the ids of the joined nodes, the new node gets id a *)
JoinStep(a, b) ==
    /\ LET r  == RowSums
           la == <<(L - 2) * d[a][b] + r[a] - r[b], 2 * (L - 2) * sc>>
           lb == <<(L - 2) * d[a][b] - r[a] + r[b], 2 * (L - 2) * sc>>
           I2 == Ids \ {b}
       IN /\ mem' = [x \in I2 |-> IF x = a THEN mem[a] \cup mem[b] ELSE mem[x]]
          /\ d' = [x \in I2 |-> [y \in I2 |->
                     IF x = y THEN 0
                     ELSE IF x = a THEN d[a][y] + d[b][y] - d[a][b]
                     ELSE IF y = a THEN d[a][x] + d[b][x] - d[a][b]
                     ELSE 2 * d[x][y]]]
          /\ sc' = 2 * sc
          /\ edges' = edges \cup {<<mem[a], Max0(la)>>, <<mem[b], Max0(lb)>>}
          /\ raw' = raw \cup {<<mem[a], la>>, <<mem[b], lb>>}
    /\ UNCHANGED <<gen, phase>>

JoinT(a, b) == /\ phase = "join" /\ L > 3
               /\ <<a, b>> \in ArgMinQ
               /\ JoinStep(a, b)

(* asScoreTreeTuple: lengths = sum(d, 0) - sum(d) / 4 *)
FinishT ==
    /\ phase = "join" /\ L = 3
    /\ LET r == RowSums
           S == SumF(Ids, r)
           ln(x) == <<4 * r[x] - S, 4 * sc>>
       IN /\ edges' = edges \cup {<<mem[x], Max0(ln(x))>> : x \in Ids}
          /\ raw' = raw \cup {<<mem[x], ln(x)>> : x \in Ids}
    /\ phase' = "done"
    /\ UNCHANGED <<gen, mem, d, sc>>

(* ---- the checked behaviour --------------------------------------------------------- *)
(* the generator is chosen in two steps (shape, then lengths) so that TLC explores the *)
(* generators in parallel; phase "pick" is not part of the algorithm                   *)
ZeroM == [a \in Tips |-> [b \in Tips |-> 0]]
Init == /\ \E T \in Families(2, N) : gen = [tree |-> T, len |-> [C \in T |-> 0]]
        /\ StartOn(ZeroM)
        /\ phase = "pick"
Pick == /\ phase = "pick"
        /\ \E l \in Lengths(gen.tree) :
              /\ gen' = [tree |-> gen.tree, len |-> l]
              /\ d' = GenMatrix(gen')
        /\ phase' = "join"
        /\ UNCHANGED <<mem, sc, edges, raw>>

Join == /\ phase = "join" /\ L > 3
        /\ \E p \in ArgMinQ : JoinStep(p[1], p[2])
Finish == /\ FinishT
          /\ Emit([from |-> [n |-> N, D |-> GenMatrix(gen), gen |-> GenEdges(gen)],
                   act |-> "NJ", args |-> <<>>,
                   to |-> [edges |-> edges']])

Next == \/ Pick
        \/ Join
        \/ Finish
Spec == Init /\ [][Next]_vars

(* ---- design-level properties ---------------------------------------------------------- *)
NormSplit(C) == IF 1 \in C THEN Tips \ C ELSE C        \* the side without tip 1

Recovered ==
    phase = "done" =>
        {<<NormSplit(e[1]), e[2]>> : e \in {x \in edges : x[2][1] > 0}} = GenEdges(gen)

(* an edge of length 0 in the result is a collapsed edge of the generator, and the *)
(* result is a binary tree: 2N-3 distinct splits                                      *)
ResultShape ==
    phase = "done" => /\ Cardinality({NormSplit(e[1]) : e \in edges}) = 2 * N - 3
                      /\ Cardinality(edges) = 2 * N - 3

CherryLemma ==
    (phase = "join" /\ L > 3 /\ \A C \in gen.tree : gen.len[C] > 0) =>
        \A p \in ArgMinQ : NormSplit(mem[p[1]] \cup mem[p[2]]) \in gen.tree

NoClamp == \A e \in raw : e[2][1] >= 0

TypeOK == /\ phase \in {"pick", "join", "done"}
          /\ \A x \in Ids : x \in mem[x] /\ \A t \in mem[x] : x <= t
          /\ UNION {mem[x] : x \in Ids} = Tips
          /\ \A x, y \in Ids : d[x][y] = d[y][x] /\ d[x][y] >= 0
=============================================================================
