----------------------------- MODULE ParamScope -----------------------------
(* Property C07, layer 2: the parameter-scope state of a likelihood function  *)
(* (cogent3.recalculation.scope / definition, evolve.parameter_controller).   *)
(*                                                                            *)
(* One scoped substitution parameter (kappa) over the edges of a tree.  Its    *)
(* scope set is PARTITIONED into blocks; every block has one setting           *)
(* (constant | variable, value).  set_param_rule(scope, is_independent,        *)
(* is_constant, value) re-assigns the edges in `scope` (each its own block, or *)
(* one shared block) and leaves every other edge's block, minus the moved      *)
(* edges, as it was; an omitted value means "the mean of the current values".  *)
(* Motif probabilities and the alignment are exchangeable inputs.  Updates can *)
(* be batched in an updates_postponed() block, which may also be left by an    *)
(* exception.  An optimiser round makes a calculator, moves the free blocks    *)
(* to v1, then v2, then back to v1 (the revert that exercises the calculator's *)
(* undo) and writes the calculator's values back.                              *)
(*                                                                            *)
(* What the harness checks after every step taken OUTSIDE a postponed block:   *)
(*   lnL(real, history-laden function) = lnL(function newly built from St),    *)
(*   free-parameter count = NFree + (number of edges: lengths are free),       *)
(*   per-edge kappa values and the partition = St, and                         *)
(*   exporting the rules and applying them to a new function reproduces both.  *)
EXTENDS Naturals, FiniteSets, Sequences, TLC, Emit

CONSTANTS Edges,   \* edge names
          Vals,    \* parameter values (small integers; the harness scales them)
          Mprobs,  \* motif-probability vectors (ids)
          Alns     \* alignments (ids)

NoVal == 0
BadAln == 0   \* an alignment the model cannot take (characters outside its alphabet): updates raise

VARIABLES blk,    \* blk[e]: the block (set of edges) e belongs to
          const,  \* const[e]: e's block is held constant
          val,    \* val[e]: value of e's block
          mp, aln,
          susp,   \* inside an updates_postponed() block
          lenA    \* branch length of the first edge: 0 = exactly on its lower bound (a free parameter), 1 = positive
vars == <<blk, const, val, mp, aln, susp, lenA>>

TypeOK == /\ blk \in [Edges -> SUBSET Edges]
          /\ const \in [Edges -> BOOLEAN]
          /\ val \in [Edges -> Vals]
          /\ mp \in Mprobs /\ aln \in Alns \cup {BadAln} /\ susp \in BOOLEAN /\ lenA \in {0, 1}

(* blocks form a partition and members of a block agree on their setting *)
Partitioned ==
    /\ \A e \in Edges : e \in blk[e]
    /\ \A e, f \in Edges : f \in blk[e] => blk[f] = blk[e] /\ const[f] = const[e] /\ val[f] = val[e]

Blocks == {blk[e] : e \in Edges}
NFree == Cardinality({b \in Blocks : \E e \in b : ~const[e]})

St  == [blk |-> blk, const |-> const, val |-> val, mp |-> mp, aln |-> aln, susp |-> susp, lenA |-> lenA]
StP == [blk |-> blk', const |-> const', val |-> val', mp |-> mp', aln |-> aln', susp |-> susp', lenA |-> lenA']
Log(act, args) == Emit([from |-> St, act |-> act, args |-> args, to |-> StP])

Init == /\ blk = [e \in Edges |-> Edges]
        /\ const = [e \in Edges |-> FALSE]
        /\ val = [e \in Edges |-> CHOOSE v \in Vals : \A w \in Vals : v <= w]
        /\ mp = CHOOSE m \in Mprobs : \A n \in Mprobs : m <= n
        /\ aln = CHOOSE a \in Alns : \A b \in Alns : a <= b
        /\ susp = FALSE
        /\ lenA = 1

RECURSIVE SumOver(_, _)
SumOver(S, f) == IF S = {} THEN 0 ELSE LET x == CHOOSE x \in S : TRUE IN f[x] + SumOver(S \ {x}, f)

(* value given to a (new) block B when the caller passes v (NoVal = omitted) *)
MeanOK(B) == SumOver(B, val) % Cardinality(B) = 0
NewVal(B, v) == IF v # NoVal THEN v ELSE SumOver(B, val) \div Cardinality(B)

SetRuleT(S, indep, c, v) ==
    /\ (aln # BadAln \/ susp)
    /\ S # {} /\ S \subseteq Edges
    /\ v = NoVal => (IF indep THEN TRUE ELSE MeanOK(S))
    /\ blk'   = [e \in Edges |-> IF e \in S THEN (IF indep THEN {e} ELSE S) ELSE blk[e] \ S]
    /\ const' = [e \in Edges |-> IF e \in S THEN c ELSE const[e]]
    /\ val'   = [e \in Edges |-> IF e \in S THEN (IF indep THEN NewVal({e}, v) ELSE NewVal(S, v)) ELSE val[e]]
    /\ UNCHANGED <<mp, aln, susp, lenA>>
SetRule(S, indep, c, v) == SetRuleT(S, indep, c, v) /\ Log("SetRule", <<S, indep, c, v>>)

SetMprobsT(m) == (aln # BadAln \/ susp) /\ mp' = m /\ UNCHANGED <<blk, const, val, aln, susp, lenA>>
SetMprobs(m) == SetMprobsT(m) /\ Log("SetMprobs", <<m>>)

SetAlnT(a) == aln' = a /\ UNCHANGED <<blk, const, val, mp, susp, lenA>>
SetAln(a) == SetAlnT(a) /\ Log("SetAln", <<a>>)

BeginT == ~susp /\ aln # BadAln /\ susp' = TRUE /\ UNCHANGED <<blk, const, val, mp, aln, lenA>>
Begin == BeginT /\ Log("Begin", <<>>)

EndT == susp /\ aln # BadAln /\ susp' = FALSE /\ UNCHANGED <<blk, const, val, mp, aln, lenA>>
End == EndT /\ Log("End", <<>>)

(* a rejected input inside a batch: the block's closing update raises part-way through; the
   function is unusable until the input is repaired, and then everything set in the block counts *)
SetBadAlnT == susp /\ aln # BadAln /\ aln' = BadAln /\ UNCHANGED <<blk, const, val, mp, susp, lenA>>
SetBadAln == SetBadAlnT /\ Log("SetBadAln", <<>>)
FailedEndT == susp /\ aln = BadAln /\ susp' = FALSE /\ UNCHANGED <<blk, const, val, mp, aln, lenA>>
FailedEnd == FailedEndT /\ Log("FailedEnd", <<>>)

(* the block is left by an exception raised after a rule was set inside it:
   same effect as SetRule(S, shared, variable, v), then the block ends *)
AbortBlockT(S, v) ==
    /\ susp /\ aln # BadAln /\ v # NoVal /\ S # {} /\ S \subseteq Edges
    /\ blk'   = [e \in Edges |-> IF e \in S THEN S ELSE blk[e] \ S]
    /\ const' = [e \in Edges |-> IF e \in S THEN FALSE ELSE const[e]]
    /\ val'   = [e \in Edges |-> IF e \in S THEN v ELSE val[e]]
    /\ susp' = FALSE
    /\ UNCHANGED <<mp, aln, lenA>>
AbortBlock(S, v) == AbortBlockT(S, v) /\ Log("AbortBlock", <<S, v>>)

(* optimiser round: free blocks -> v1 -> v2 -> v1, written back *)
CalcRoundT(v1, v2) ==
    /\ ~susp /\ aln # BadAln /\ NFree > 0 /\ v1 # v2
    /\ val' = [e \in Edges |-> IF const[e] THEN val[e] ELSE v1]
    /\ UNCHANGED <<blk, const, mp, aln, susp, lenA>>
CalcRound(v1, v2) == CalcRoundT(v1, v2) /\ Log("CalcRound", <<v1, v2>>)

(* an optimiser step BELOW the resolution of this abstraction (every free value moved by a few parts in a million, as *)
(* near convergence) written back to the function, then the exact values written back: the abstract state is the      *)
(* same, and at the nudged point the function must report what the calculator computed there                           *)
CalcNudgeT == /\ ~susp /\ aln # BadAln /\ NFree > 0 /\ UNCHANGED <<blk, const, val, mp, aln, susp, lenA>>
CalcNudge == CalcNudgeT /\ Log("CalcNudge", <<>>)

(* set the first edge's branch length by VALUE, leaving it free: 0 puts a free parameter exactly on its bound *)
SetLenT(v) == /\ (aln # BadAln \/ susp) /\ v \in {0, 1} /\ v # lenA /\ lenA' = v
              /\ UNCHANGED <<blk, const, val, mp, aln, susp>>
SetLen(v) == SetLenT(v) /\ Log("SetLen", <<v>>)

(* a rule that is REFUSED part-way through the scopes it names (bounds that cannot hold on one of them): an exception,
   and nothing at all has changed - neither now nor as seen by any later call *)
RefusedRuleT == (aln # BadAln \/ susp) /\ UNCHANGED <<blk, const, val, mp, aln, susp, lenA>>
RefusedRule == RefusedRuleT /\ Log("RefusedRule", <<>>)

Next == \/ \E v \in {0, 1} : SetLen(v)
        \/ RefusedRule
        \/ CalcNudge
        \/ \E S \in SUBSET Edges \ {{}}, i \in BOOLEAN, c \in BOOLEAN, v \in Vals \cup {NoVal} : SetRule(S, i, c, v)
        \/ \E m \in Mprobs : SetMprobs(m)
        \/ \E a \in Alns : SetAln(a)
        \/ Begin \/ End \/ SetBadAln \/ FailedEnd
        \/ \E S \in SUBSET Edges \ {{}}, v \in Vals : AbortBlock(S, v)
        \/ \E v1, v2 \in Vals : CalcRound(v1, v2)

Spec == Init /\ [][Next]_vars

(* a rule set for scope S never alters the setting of an edge outside S *)
OutsideUntouched ==
    [][\A S \in SUBSET Edges \ {{}} :
         (\E i \in BOOLEAN, c \in BOOLEAN, v \in Vals \cup {NoVal} : SetRuleT(S, i, c, v))
         => \A e \in Edges \ S : const'[e] = const[e] /\ val'[e] = val[e] /\ blk'[e] = blk[e] \ S]_vars
=============================================================================
