SPECIFICATION Spec
CONSTANTS
  N = 6
  TipLens = {1, 2}
  IntLens = {1}
INVARIANT TypeOK
INVARIANT Recovered
INVARIANT ResultShape
INVARIANT CherryLemma
INVARIANT NoClamp
