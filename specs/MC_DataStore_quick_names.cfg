SPECIFICATION Spec
CONSTANTS
  Ids = {"a", "results_a"}
  Data = {"", "y"}
  LogIds = {"l1"}
  Aliases = {FALSE, TRUE}
INVARIANT TypeOK
PROPERTY Isolation
PROPERTY AppendNeverOverwrites
PROPERTY ReadOnlyNeverMutates
PROPERTY RefusedChangesNothing
PROPERTY WriteRetiresExactlyMatching
