SPECIFICATION TSpec
CONSTANT Configs <- QuickInvConfigs
INVARIANT RootInvariance
INVARIANT SplitInvariance
INVARIANT ScopeIsRootFree
