SPECIFICATION TSpec
CONSTANT Configs <- QuickConfigs
INVARIANT RootInvariance
INVARIANT SplitInvariance
