----------------------------- MODULE GeneticCode -----------------------------
(* Property C12: translation and complementing follow the genetic-code       *)
(* tables.                                                                    *)
(*                                                                            *)
(* This module is the ORACLE.  It is written from the published definitions   *)
(* (NCBI "The Genetic Codes" gc.prt; IUPAC-IUB nucleotide nomenclature) and   *)
(* shares nothing with the two table copies in the repository                 *)
(* (core/genetic_code.py, core/new_genetic_code.py) nor with the complement / *)
(* ambiguity dictionaries of core/moltype.py, core/new_moltype.py.            *)
(*                                                                            *)
(* All functions are pure.  The "state" is one input (variable inp): from the *)
(* start state every input of the bounded families below is chosen (through a *)
(* bucket state, so that TLC spreads the work over its workers) and every     *)
(* further action is one public operation applied to that input: it leaves    *)
(* the input unchanged and emits {input, operation, arguments, expected       *)
(* result(s)}.  The reachable set is closed and exhaustive for the bounds.    *)
(* The harness (harness/check_C12.py) feeds each emitted case to every real   *)
(* entry point and requires the result to be one of the outcomes listed here. *)
(*                                                                            *)
(* Nucleotide strings are sequences of one-letter strings over T, C, A, G     *)
(* (the harness writes U for T when it talks to RNA objects).  Proteins are   *)
(* sequences of one-letter strings; "*" is a stop.                            *)
EXTENDS Naturals, Sequences, FiniteSets, TLC, Emit

CONSTANTS
    TableCodes,  \* genetic code ids whose complete 64-codon table is enumerated
    SeqCodes,    \* genetic code ids applied to the sequence families
    MaxLen,      \* family A: every base string of length 0..MaxLen
    OptLen,      \* family A strings up to this length also get the stop-handling operations
    MaxCodons,   \* family B: 0..MaxCodons codons drawn from RichCodons, followed by a tail of 0, 1 or 2 bases
    PairCodons,  \* family P: pairs of family-B-like strings of exactly this many codons (collections of 2 sequences); 0 = none
    OrfFamily,   \* BOOLEAN: include the single-ORF family (select_translatable / best_frame)
    LongLens,    \* family L: one generated base string of each of these lengths (around 2^8 / 2^16 codons and bases)
    SymLen       \* IUPAC strings (symbols, gap, missing) of length 0..SymLen for complement / rc

VARIABLES inp
vars == <<inp>>

-----------------------------------------------------------------------------
(* 1. The NCBI translation tables                                            *)

Bases == <<"T", "C", "A", "G">>              \* NCBI order
BaseSet == {"T", "C", "A", "G"}
BIdx(b) == CASE b = "T" -> 0 [] b = "C" -> 1 [] b = "A" -> 2 [] b = "G" -> 3

Codons == [1..3 -> BaseSet]
CodonIndex(c) == 16 * BIdx(c[1]) + 4 * BIdx(c[2]) + BIdx(c[3]) + 1     \* 1-based

(* transl_table=1, "Standard": codon i1 i2 i3 (T,C,A,G order) at 16*i1+4*i2+i3 *)
Standard ==
 << "F","F","L","L",  "S","S","S","S",  "Y","Y","*","*",  "C","C","*","W",    \* T..
    "L","L","L","L",  "P","P","P","P",  "H","H","Q","Q",  "R","R","R","R",    \* C..
    "I","I","I","M",  "T","T","T","T",  "N","N","K","K",  "S","S","R","R",    \* A..
    "V","V","V","V",  "A","A","A","A",  "D","D","E","E",  "G","G","G","G" >>  \* G..

AAStar == {"A","C","D","E","F","G","H","I","K","L","M","N","P","Q","R","S","T","V","W","Y","*"}

D(b1, b2, b3, aa) == << <<b1, b2, b3>>, aa >>

AllCodes == {1, 2, 3, 4, 5, 6, 9, 10, 11, 12, 13, 14, 15, 16,
             21, 22, 23, 24, 25, 26, 27, 28, 29, 30, 31, 32, 33}

(* Differences of each NCBI table from the standard table (gc.prt) *)
Diffs(id) ==
  CASE id = 1  -> {}                                                        \* Standard
    [] id = 2  -> {D("A","G","A","*"), D("A","G","G","*"), D("A","T","A","M"), D("T","G","A","W")}  \* Vertebrate Mitochondrial
    [] id = 3  -> {D("A","T","A","M"), D("C","T","T","T"), D("C","T","C","T"), D("C","T","A","T"),
                   D("C","T","G","T"), D("T","G","A","W")}                  \* Yeast Mitochondrial
    [] id = 4  -> {D("T","G","A","W")}                                      \* Mold, Protozoan, Coelenterate Mito; Mycoplasma/Spiroplasma
    [] id = 5  -> {D("A","G","A","S"), D("A","G","G","S"), D("A","T","A","M"), D("T","G","A","W")}  \* Invertebrate Mitochondrial
    [] id = 6  -> {D("T","A","A","Q"), D("T","A","G","Q")}                  \* Ciliate, Dasycladacean, Hexamita Nuclear
    [] id = 9  -> {D("A","A","A","N"), D("A","G","A","S"), D("A","G","G","S"), D("T","G","A","W")}  \* Echinoderm, Flatworm Mito
    [] id = 10 -> {D("T","G","A","C")}                                      \* Euplotid Nuclear
    [] id = 11 -> {}                                                        \* Bacterial, Archaeal, Plant Plastid
    [] id = 12 -> {D("C","T","G","S")}                                      \* Alternative Yeast Nuclear
    [] id = 13 -> {D("A","G","A","G"), D("A","G","G","G"), D("A","T","A","M"), D("T","G","A","W")}  \* Ascidian Mitochondrial
    [] id = 14 -> {D("A","A","A","N"), D("A","G","A","S"), D("A","G","G","S"), D("T","A","A","Y"),
                   D("T","G","A","W")}                                      \* Alternative Flatworm Mitochondrial
    [] id = 15 -> {D("T","A","G","Q")}                                      \* Blepharisma Nuclear
    [] id = 16 -> {D("T","A","G","L")}                                      \* Chlorophycean Mitochondrial
    [] id = 21 -> {D("T","G","A","W"), D("A","T","A","M"), D("A","G","A","S"), D("A","G","G","S"),
                   D("A","A","A","N")}                                      \* Trematode Mitochondrial
    [] id = 22 -> {D("T","C","A","*"), D("T","A","G","L")}                  \* Scenedesmus obliquus Mitochondrial
    [] id = 23 -> {D("T","T","A","*")}                                      \* Thraustochytrium Mitochondrial
    [] id = 24 -> {D("A","G","A","S"), D("A","G","G","K"), D("T","G","A","W")}  \* Rhabdopleuridae Mitochondrial
    [] id = 25 -> {D("T","G","A","G")}                                      \* Candidate Division SR1, Gracilibacteria
    [] id = 26 -> {D("C","T","G","A")}                                      \* Pachysolen tannophilus Nuclear
    [] id = 27 -> {D("T","A","G","Q"), D("T","A","A","Q"), D("T","G","A","W")}  \* Karyorelict Nuclear
    [] id = 28 -> {D("T","A","A","Q"), D("T","A","G","Q"), D("T","G","A","W")}  \* Condylostoma Nuclear
    [] id = 29 -> {D("T","A","A","Y"), D("T","A","G","Y")}                  \* Mesodinium Nuclear
    [] id = 30 -> {D("T","A","A","E"), D("T","A","G","E")}                  \* Peritrich Nuclear
    [] id = 31 -> {D("T","G","A","W"), D("T","A","G","E"), D("T","A","A","E")}  \* Blastocrithidia Nuclear
    [] id = 32 -> {D("T","A","G","W")}                                      \* Balanophoraceae Plastid
    [] id = 33 -> {D("T","A","A","Y"), D("T","G","A","W"), D("A","G","A","S"), D("A","G","G","K")}  \* Cephalodiscidae Mitochondrial

(* the 64-entry table of each code, evaluated once *)
Table == [id \in AllCodes |->
            [i \in 1..64 |->
               IF \E d \in Diffs(id) : CodonIndex(d[1]) = i
               THEN (CHOOSE d \in Diffs(id) : CodonIndex(d[1]) = i)[2]
               ELSE Standard[i]]]

AA(id, c) == Table[id][CodonIndex(c)]
IsStop(id, c) == AA(id, c) = "*"
CodonsFor(id, aa) == {c \in Codons : AA(id, c) = aa}

(* design-level sanity of the tables themselves (checked once, as an assumption) *)
TablesWellFormed ==
    /\ Len(Standard) = 64
    /\ \A i \in 1..64 : Standard[i] \in AAStar
    /\ \A id \in AllCodes :
         /\ \A d \in Diffs(id) : d[1] \in Codons /\ d[2] \in AAStar /\ d[2] # Standard[CodonIndex(d[1])]
         /\ \A d, e \in Diffs(id) : d[1] = e[1] => d = e
         /\ \A aa \in AAStar \ {"*"} : CodonsFor(id, aa) # {}      \* every amino acid stays encoded

ASSUME TablesWellFormed

-----------------------------------------------------------------------------
(* 2. Strands, frames, translation                                           *)

CompBase(b) == CASE b = "A" -> "T" [] b = "T" -> "A" [] b = "C" -> "G" [] b = "G" -> "C"
Rev(s) == [i \in 1..Len(s) |-> s[Len(s) + 1 - i]]
Rc(s)  == [i \in 1..Len(s) |-> CompBase(s[Len(s) + 1 - i])]

NCodons(s, k) == IF k >= Len(s) THEN 0 ELSE (Len(s) - k) \div 3
CodonAt(s, k, j) == <<s[k + 3 * (j - 1) + 1], s[k + 3 * (j - 1) + 2], s[k + 3 * (j - 1) + 3]>>

(* frame k of s: codon by codon from offset k, an incomplete trailing codon is dropped *)
Translate(id, s, k) == [j \in 1..NCodons(s, k) |-> AA(id, CodonAt(s, k, j))]

(* frame k of the minus strand, read directly off the plus strand (anticodons, right to left) *)
MinusDirect(id, s, k) ==
    [j \in 1..NCodons(s, k) |->
        LET p == Len(s) - k - 3 * (j - 1)
        IN AA(id, <<CompBase(s[p]), CompBase(s[p - 1]), CompBase(s[p - 2])>>)]

Frames(id, s) == [k \in 1..3 |-> Translate(id, s, k - 1)]
SixFrames(id, s) == [plus |-> Frames(id, s), minus |-> Frames(id, Rc(s))]

Reject == <<"!">>        \* the operation refuses the input (raises / NotCompleted)

(* A frame offset at or beyond the end of a non-empty sequence has no codons. *)
(* The statement does not say whether that is "" or a refusal: both allowed.   *)
FrameMayReject(s, k) == Len(s) > 0 /\ k >= Len(s)
FrameOutcomes(id, s, k) == {Translate(id, s, k)} \cup (IF FrameMayReject(s, k) THEN {Reject} ELSE {})

-----------------------------------------------------------------------------
(* 3. Stop codons: trimmed, kept or rejected as requested                    *)
(*    has_terminal_stop(gc, strict): a terminal stop exists iff the length is *)
(*      a multiple of 3 and the last codon is a stop; strict refuses lengths  *)
(*      that are not a multiple of 3.                                         *)
(*    trim_stop_codon(gc, strict): removes that codon.                        *)
(*    get_translation(gc, incomplete_ok, include_stop, trim_stop):            *)
(*      trim_stop  "trims a terminal stop codon if it exists";                *)
(*      include_stop "allows stop codons in translation", otherwise a stop    *)
(*      codon in the (trimmed) sequence is refused;                           *)
(*      unless incomplete_ok, a trailing incomplete codon (length not a       *)
(*      multiple of 3) may be refused; otherwise it is dropped.               *)

HasStar(p) == \E i \in 1..Len(p) : p[i] = "*"

HasTerminalStop(id, s) ==
    /\ Len(s) >= 3
    /\ Len(s) % 3 = 0
    /\ IsStop(id, <<s[Len(s) - 2], s[Len(s) - 1], s[Len(s)]>>)

TrimStop(id, s) == IF HasTerminalStop(id, s) THEN SubSeq(s, 1, Len(s) - 3) ELSE s

StrictRefuses(s, strict) == strict /\ Len(s) % 3 # 0

HasStopOutcome(id, s, strict) ==
    IF StrictRefuses(s, strict) THEN "REJECT"
    ELSE IF HasTerminalStop(id, s) THEN "TRUE" ELSE "FALSE"

TrimStopOutcome(id, s, strict) ==
    IF StrictRefuses(s, strict) THEN Reject ELSE TrimStop(id, s)

GetTranslationOutcomes(id, s, inc, trim, iok) ==
    LET s1  == IF trim THEN TrimStop(id, s) ELSE s
        pep == Translate(id, s1, 0)
        res == IF ~inc /\ HasStar(pep) THEN Reject ELSE pep
    IN {res} \cup (IF StrictRefuses(s, ~iok) THEN {Reject} ELSE {})

(* Diagnostic readings, used only to NAME a disagreement (finding keys), never to accept one: *)
(* what the answer would be if trim_stop were applied although not requested, or applied twice *)
GetTranslationDiag(id, s, inc) ==
    LET f(x) == LET pep == Translate(id, x, 0) IN IF ~inc /\ HasStar(pep) THEN Reject ELSE pep
    IN [trimmed |-> f(TrimStop(id, s)), trimmed_twice |-> f(TrimStop(id, TrimStop(id, s)))]

(* a collection of sequences: any member / each member *)
CollHasStop(id, ss) == \E i \in 1..Len(ss) : HasTerminalStop(id, ss[i])

(* per-member outcomes; the collection call is refused iff some member is *)
CollGetTranslationOutcomes(id, ss, inc, trim, iok) ==
    [i \in 1..Len(ss) |-> GetTranslationOutcomes(id, ss[i], inc, trim, iok)]

(* Reading-frame selection (app.translate: best_frame, select_translatable).                       *)
(* Frames are numbered 1, 2, 3 on the given strand and -1, -2, -3 on the reverse complement, each  *)
(* counted from the 5' end of ITS OWN strand.  A frame is acceptable when it has no stop, or a      *)
(* single stop that is terminal.  best_frame returns an acceptable frame (the statement does not     *)
(* rank several acceptable frames: any of them is allowed) and refuses when there is none.           *)
(* select_translatable returns the in-frame part of that strand, whole codons only, the terminal    *)
(* stop codon removed when trim_terminal_stop.                                                        *)
Abs(f) == IF f < 0 THEN 0 - f ELSE f
StrandOf(s, f) == IF f < 0 THEN Rc(s) ELSE s
AcceptableFrame(id, s, f) ==
    LET p == Translate(id, StrandOf(s, f), Abs(f) - 1)
        q == IF Len(p) > 0 /\ p[Len(p)] = "*" THEN SubSeq(p, 1, Len(p) - 1) ELSE p
    IN ~HasStar(q)
FrameChoices(allow_rc) == {1, 2, 3} \cup (IF allow_rc THEN {0 - 1, 0 - 2, 0 - 3} ELSE {})
BestFrames(id, s, allow_rc) == {f \in FrameChoices(allow_rc) : AcceptableFrame(id, s, f)}
InFrame(id, s, f, trim) ==
    LET x == StrandOf(s, f)
        k == Abs(f) - 1
        y == SubSeq(x, k + 1, k + 3 * NCodons(x, k))
    IN IF trim THEN TrimStop(id, y) ELSE y
(* frame = 0 stands for "not given" (best_frame decides); 1..3 is the caller's frame on the given strand *)
SelectFrames(id, s, allow_rc, frame) ==
    IF frame = 0 THEN BestFrames(id, s, allow_rc)
    ELSE IF AcceptableFrame(id, s, frame) THEN {frame} ELSE {}
(* allowed outcomes: <<frame, returned nucleotides, their translation>>; none = refused *)
SelectOutcomes(id, s, allow_rc, frame, trim) ==
    {<< <<f>>, InFrame(id, s, f, trim), Translate(id, InFrame(id, s, f, TRUE), 0) >> : f \in SelectFrames(id, s, allow_rc, frame)}

-----------------------------------------------------------------------------
(* 4. IUPAC nucleotide symbols (IUPAC-IUB 1984), per molecular type          *)

MolTypes == {"dna", "rna"}
TU(mt) == IF mt = "dna" THEN "T" ELSE "U"
MtBases(mt) == {"A", "C", "G", TU(mt)}

NucSyms(mt) == MtBases(mt) \cup {"R", "Y", "W", "S", "K", "M", "B", "D", "H", "V", "N"}

Resolve(mt, x) ==
    LET t == TU(mt) IN
    CASE x = "A" -> {"A"} [] x = "C" -> {"C"} [] x = "G" -> {"G"} [] x = t -> {t}
      [] x = "R" -> {"A", "G"}          \* puRine
      [] x = "Y" -> {"C", t}            \* pYrimidine
      [] x = "W" -> {"A", t}            \* Weak
      [] x = "S" -> {"C", "G"}          \* Strong
      [] x = "K" -> {"G", t}            \* Keto
      [] x = "M" -> {"A", "C"}          \* aMino
      [] x = "B" -> {"C", "G", t}       \* not A
      [] x = "D" -> {"A", "G", t}       \* not C
      [] x = "H" -> {"A", "C", t}       \* not G
      [] x = "V" -> {"A", "C", "G"}     \* not T/U
      [] x = "N" -> {"A", "C", "G", t}  \* aNy
      [] x = "-" -> {"-"}               \* gap
      [] x = "?" -> {"A", "C", "G", t, "-"}   \* missing: any base or a gap

AllSyms(mt) == NucSyms(mt) \cup {"-", "?"}
BaseSets(mt) == (SUBSET MtBases(mt)) \ {{}}

Encode(mt, S) == CHOOSE x \in AllSyms(mt) : Resolve(mt, x) = S

CompB(mt, b) == LET t == TU(mt) IN
    CASE b = "A" -> t [] b = t -> "A" [] b = "C" -> "G" [] b = "G" -> "C" [] b = "-" -> "-"

(* the symbol of the complemented base set *)
CompSym(mt, x) == Encode(mt, {CompB(mt, b) : b \in Resolve(mt, x)})
CompStr(mt, s) == [i \in 1..Len(s) |-> CompSym(mt, s[i])]
RcStr(mt, s)   == [i \in 1..Len(s) |-> CompSym(mt, s[Len(s) + 1 - i])]

(* how the caller hands the symbols over: plain text, list / tuple of characters, bytes, an array of *)
(* alphabet indices, or a sequence object (old-style view-backed, old-style array-backed, new-style). *)
ArgReprs == {"str", "list", "tuple", "bytes", "ndarray", "old-seq", "old-array-seq", "new-seq"}
ComplementAs(mt, s, repr) == CompStr(mt, s)     \* the representation does not enter
RcAs(mt, s, repr)         == RcStr(mt, s)

(* the conventional complement table, written out independently of the definition above *)
CompTable(mt, x) == LET t == TU(mt) IN
    CASE x = "A" -> t   [] x = t -> "A"   [] x = "C" -> "G" [] x = "G" -> "C"
      [] x = "R" -> "Y" [] x = "Y" -> "R" [] x = "K" -> "M" [] x = "M" -> "K"
      [] x = "B" -> "V" [] x = "V" -> "B" [] x = "D" -> "H" [] x = "H" -> "D"
      [] x = "W" -> "W" [] x = "S" -> "S" [] x = "N" -> "N" [] x = "-" -> "-" [] x = "?" -> "?"

(* protein: Asx and Glx *)
ProtResolve(x) == CASE x = "B" -> {"D", "N"} [] x = "Z" -> {"E", "Q"}
ProtSyms == {"B", "Z"}

-----------------------------------------------------------------------------
(* 5. Inputs                                                                 *)

StrOver(S, n) == UNION {[1..k -> S] : k \in 0..n}

(* stop-rich family.  Codons: ATT (I everywhere), TAA (stop in 1, 2, 11; Q/Y/E elsewhere), AGA (R in 1,  *)
(* stop in 2), TGA (stop in 1, W in 2/4), CTA (L; T in 3).  Tails make lengths that are not a multiple   *)
(* of 3 AND put a stop codon out of frame at the very end (xTA+A = TAA; xxA+GA = AGA, stop in code 2;     *)
(* ATT+GA = TGA, stop in code 1), which has_terminal_stop / trim_stop must not treat as a terminal stop.  *)
RichCodons == {<<"A","T","T">>, <<"T","A","A">>, <<"A","G","A">>, <<"T","G","A">>, <<"C","T","A">>}
Tails == {<<>>, <<"A">>, <<"G","A">>}
Flat(cs) == [i \in 1..(3 * Len(cs)) |-> cs[((i - 1) \div 3) + 1][((i - 1) % 3) + 1]]
RichSeqs(n) == {Flat(cs) \o t : cs \in StrOver(RichCodons, n), t \in Tails}
RichExact(n) == {Flat(cs) : cs \in [1..n -> RichCodons]}

(* long family: a fixed, varied base string of any length (all arithmetic stays far below 2^31).  *)
(* The expected proteins are computed by the same codon-by-codon Translate as for short strings.  *)
GenBase(i) == LET a == i % 1013  b == i % 97  c == i % 31
              IN Bases[(((a * a) \div 3 + (b * b) \div 5 + c * c + (i \div 7)) % 4) + 1]   \* all 64 codons occur within 1000 codons
LongSeq(n) == [i \in 1..n |-> GenBase(i)]

(* single-ORF family: exactly one of the six frames is free of internal stops (in codes 1 and 2).   *)
(* The unit AGT TAT CTA ACT (S Y L T) has TAA / TAG in its two other plus frames and in all three  *)
(* frames of its reverse complement.  Bodies: two units; two units + terminal TAA; unit unit TAA unit *)
(* (no acceptable frame).  One or two extra bases in front and behind put the ORF in every frame   *)
(* and give every length mod 3; each string is also taken reverse complemented (ORF on the minus   *)
(* strand).  UniqueFrameFamily below checks these claims.                                           *)
OrfUnit == <<"A","G","T", "T","A","T", "C","T","A", "A","C","T">>
OrfBodies == {OrfUnit \o OrfUnit, OrfUnit \o OrfUnit \o <<"T","A","A">>, OrfUnit \o OrfUnit \o <<"T","A","A">> \o OrfUnit}
OrfPlus == {pre \o b \o tl : pre \in {<<>>, <<"C">>, <<"C","C">>}, b \in OrfBodies, tl \in {<<>>, <<"G">>, <<"G","G">>}}
OrfSeqs == OrfPlus \cup {[i \in 1..Len(s) |-> CompBase(s[Len(s) + 1 - i])] : s \in OrfPlus}

NoSeq == <<>>
NoSet == {}
In(kind, code, mt, s, s2, set) == [kind |-> kind, code |-> code, mt |-> mt, s |-> s, s2 |-> s2, set |-> set]

SymPool == {"A","C","G","T","U","R","Y","W","S","K","M","B","D","H","V","N","-","?"}

(* the input families, keyed by <<kind, genetic code id (0 = none), molecular type>> *)
FamilyKeys ==
    {<<"codon", id, "dna">> : id \in TableCodes} \cup {<<"code", id, "dna">> : id \in TableCodes}
    \cup {<<"seqA", id, "dna">> : id \in SeqCodes} \cup {<<"seqB", id, "dna">> : id \in SeqCodes}
    \cup {<<"seqU", id, "dna">> : id \in (IF OrfFamily THEN SeqCodes ELSE {})}
    \cup {<<"seqL", id, "dna">> : id \in (IF LongLens # {} THEN SeqCodes ELSE {})}
    \cup {<<"pair", id, "dna">> : id \in (IF PairCodons > 0 THEN SeqCodes ELSE {})}
    \cup {<<"sym", 0, mt>> : mt \in MolTypes} \cup {<<"set", 0, mt>> : mt \in MolTypes}
    \cup {<<"str", 0, mt>> : mt \in MolTypes}
    \cup {<<"psym", 0, "protein">>}

Family(k) ==
    LET kind == k[1]  id == k[2]  mt == k[3] IN
    CASE kind = "codon" -> {In(kind, id, mt, c, NoSeq, NoSet) : c \in Codons}
      [] kind = "code"  -> {In(kind, id, mt, NoSeq, NoSeq, NoSet)}
      [] kind = "seqA"  -> {In(kind, id, mt, s, NoSeq, NoSet) : s \in StrOver(BaseSet, MaxLen)}
      [] kind = "seqB"  -> {In(kind, id, mt, s, NoSeq, NoSet) : s \in RichSeqs(MaxCodons)}
      [] kind = "seqU"  -> {In(kind, id, mt, s, NoSeq, NoSet) : s \in OrfSeqs}
      [] kind = "seqL"  -> {In(kind, id, mt, LongSeq(n), NoSeq, NoSet) : n \in LongLens}
      [] kind = "pair"  -> {In(kind, id, mt, s, t, NoSet) : s \in RichExact(PairCodons), t \in RichExact(PairCodons)}
      [] kind = "sym"   -> {In(kind, 0, mt, <<x>>, NoSeq, NoSet) : x \in SymPool}
      [] kind = "set"   -> {In(kind, 0, mt, NoSeq, NoSeq, S) : S \in (SUBSET {"A","C","G","T","U"}) \ {{}}}
      [] kind = "str"   -> {In(kind, 0, mt, s, NoSeq, NoSet) : s \in StrOver(SymPool, SymLen)}
      [] kind = "psym"  -> {In(kind, 0, mt, <<x>>, NoSeq, NoSet) : x \in ProtSyms}


(* inputs written over both T and U are filtered to the molecular type *)
Valid(i) ==
    /\ i.kind \in {"sym", "str"} => \A k \in 1..Len(i.s) : i.s[k] \in AllSyms(i.mt)
    /\ i.kind = "set" => i.set \subseteq MtBases(i.mt)

IsLong == inp.kind = "seqL"
IsOrf == inp.kind = "seqU"
IsSeq == inp.kind \in {"seqA", "seqB", "seqU"} \/ (IsLong /\ Len(inp.s) <= 4000)   \* the laws are not re-checked on the longest strings
WithOptions == inp.kind = "seqB" \/ (IsLong /\ Len(inp.s) <= 4000) \/ (inp.kind = "seqA" /\ Len(inp.s) <= OptLen)


-----------------------------------------------------------------------------
(* 6. Actions: one public operation each                                     *)

Log(act, args, ret) ==
    Emit([kind |-> inp.kind, code |-> inp.code, mt |-> inp.mt, seq |-> inp.s, seq2 |-> inp.s2,
          set |-> inp.set, act |-> act, args |-> args, ret |-> ret])

Same == inp' = inp

(* gc[codon], gc.is_stop(codon), one-codon translation on either strand *)
CodonT == inp.kind = "codon" /\ Same
CodonA == CodonT /\ Log("Codon", <<>>, [aa |-> AA(inp.code, inp.s), stop |-> IsStop(inp.code, inp.s),
                                         anticodon |-> Rc(inp.s)])

(* gc[aa] for every amino acid and "*": synonymous codons; sense codons *)
SynonymsT == inp.kind = "code" /\ Same
SynonymsA == SynonymsT /\ Log("Synonyms", <<>>,
                 [syn   |-> [aa \in AAStar |-> CodonsFor(inp.code, aa)],
                  sense |-> {c \in Codons : ~IsStop(inp.code, c)},
                  table |-> Table[inp.code]])

(* gc.translate(seq, start, rc) for the six frames; gc.sixframes(seq); seq.rc() *)
FramesT == (IsSeq \/ IsLong) /\ Same
FramesA == FramesT /\ Log("Frames", <<>>,
                 [six |-> SixFrames(inp.code, inp.s),
                  rc  |-> Rc(inp.s),
                  rev |-> Rev(inp.s),           \* = complement of the reverse complement
                  mayreject |-> [k \in 1..3 |-> FrameMayReject(inp.s, k - 1)]])

(* The options are truth values.  How the caller REPRESENTS a truth value (Python bool, numpy.bool_, *)
(* the integers 0 / 1, numpy.int8, numpy.float32) is an argument dimension like ArgReprs: the result  *)
(* depends on the truth value alone.  Every representation is exercised on the one-codon strings of   *)
(* the stop-rich family (with and without an extra base), the Python bool on every string.            *)
FlagReprs == {"bool", "np_bool", "int", "np_int8", "np_float32"}
WithFlagReprs == inp.kind = "seqB" /\ Len(inp.s) \in {3, 4}
FlagReprOK(r) == r = "bool" \/ WithFlagReprs

(* seq.get_translation(gc, incomplete_ok, include_stop, trim_stop) and the collection / app forms *)
GetTranslationT(inc, trim, iok) == IsSeq /\ WithOptions /\ Same
GetTranslationA(inc, trim, iok, repr) ==
    GetTranslationT(inc, trim, iok) /\ FlagReprOK(repr)
    /\ Log("GetTranslation", <<inc, trim, iok, repr>>,
           [allowed |-> GetTranslationOutcomes(inp.code, inp.s, inc, trim, iok),
            diag    |-> GetTranslationDiag(inp.code, inp.s, inc)])

(* seq.has_terminal_stop(gc, strict), seq.trim_stop_codon(gc, strict) *)
StopOpsT(strict) == IsSeq /\ WithOptions /\ Same
StopOpsA(strict, repr) ==
    StopOpsT(strict) /\ FlagReprOK(repr)
    /\ Log("StopOps", <<strict, repr>>, [has  |-> HasStopOutcome(inp.code, inp.s, strict),
                                    trim |-> TrimStopOutcome(inp.code, inp.s, strict)])

(* app.translate.select_translatable(gc, allow_rc, trim_terminal_stop, frame) then translate_seqs; best_frame(gc, allow_rc) *)
SelectT(allow_rc, frame, trim) == IsOrf /\ Same
SelectA(allow_rc, frame, trim) ==
    SelectT(allow_rc, frame, trim)
    /\ Log("Select", <<allow_rc, frame, trim>>,
           [allowed |-> SelectOutcomes(inp.code, inp.s, allow_rc, frame, trim),
            best    |-> BestFrames(inp.code, inp.s, TRUE)])

(* collections of two equal-length sequences *)
PairT(inc, trim) == inp.kind = "pair" /\ Same
PairA(inc, trim) ==
    PairT(inc, trim)
    /\ Log("PairGetTranslation", <<inc, trim, FALSE>>,
           [allowed |-> CollGetTranslationOutcomes(inp.code, <<inp.s, inp.s2>>, inc, trim, FALSE),
            diag    |-> <<GetTranslationDiag(inp.code, inp.s, inc), GetTranslationDiag(inp.code, inp.s2, inc)>>])
PairStopT == inp.kind = "pair" /\ Same
PairStopA ==
    PairStopT
    /\ Log("PairStopOps", <<FALSE>>,
           [has  |-> CollHasStop(inp.code, <<inp.s, inp.s2>>),
            trim |-> <<TrimStop(inp.code, inp.s), TrimStop(inp.code, inp.s2)>>])

(* moltype.complement(sym), resolve_ambiguity(sym), is_degenerate / is_ambiguity *)
SymT == inp.kind = "sym" /\ Valid(inp) /\ Same
SymA == SymT /\ Log("Sym", <<>>,
            [comp    |-> CompSym(inp.mt, inp.s[1]),
             resolve |-> Resolve(inp.mt, inp.s[1]),
             degenerate |-> Cardinality(Resolve(inp.mt, inp.s[1])) > 1])

(* what_ambiguity(set) / degenerate_from_seq(set) *)
EncodeT == inp.kind = "set" /\ Valid(inp) /\ Same
EncodeA == EncodeT /\ Log("Encode", <<>>, Encode(inp.mt, inp.set))

(* moltype.complement(str), moltype.rc(str), Sequence.complement(), Sequence.rc() *)
RcStrT == inp.kind = "str" /\ Valid(inp) /\ Same
(* and the two-step forms x.rc().complement(), x[::-1].complement(), x.complement().rc(), x.rc().rc().  *)
(* The moltype-level operations take their argument in several REPRESENTATIONS (ArgReprs); the answer *)
(* is a function of the symbols alone, so the table-derived string is expected for every one of them. *)
RcStrA == RcStrT /\ Log("RcStr", <<>>,
              [comp    |-> CompStr(inp.mt, inp.s),
               rc      |-> RcStr(inp.mt, inp.s),
               rc_comp |-> CompStr(inp.mt, RcStr(inp.mt, inp.s)),
               comp_rc |-> RcStr(inp.mt, CompStr(inp.mt, inp.s)),
               rc_rc   |-> RcStr(inp.mt, RcStr(inp.mt, inp.s)),
               byrepr  |-> [r \in ArgReprs |-> [comp |-> ComplementAs(inp.mt, inp.s, r), rc |-> RcAs(inp.mt, inp.s, r)]]])

ProtSymT == inp.kind = "psym" /\ Same
ProtSymA == ProtSymT /\ Log("ProtSym", <<>>, ProtResolve(inp.s[1]))

(* A single start state, then a bucket (family, first symbol), then the input: TLC   *)
(* evaluates the inputs and the laws on them with all workers instead of             *)
(* sequentially while computing Init.                                                *)
Start == In("start", 0, "dna", NoSeq, NoSeq, NoSet)
ValidFamily(k) == {i \in Family(k) : Valid(i)}
Prefix1(s) == IF Len(s) = 0 THEN <<>> ELSE <<s[1]>>
Buckets == {In("bucket", k[2], k[3], p, <<k[1]>>, NoSet) : k \in FamilyKeys, p \in {<<>>} \cup {<<x>> : x \in SymPool}}

Init == inp = Start
ChooseBucket == inp = Start /\ inp' \in Buckets
ChooseInput == /\ inp.kind = "bucket"
               /\ inp' \in {i \in ValidFamily(<<inp.s2[1], inp.code, inp.mt>>) : Prefix1(i.s) = inp.s}

Next == \/ ChooseBucket
        \/ ChooseInput
        \/ CodonA
        \/ SynonymsA
        \/ FramesA
        \/ \E inc, trim, iok \in BOOLEAN, repr \in FlagReprs : GetTranslationA(inc, trim, iok, repr)
        \/ \E strict \in BOOLEAN, repr \in FlagReprs : StopOpsA(strict, repr)
        \/ \E allow_rc, trim \in BOOLEAN, frame \in 0..3 : (frame = 0 \/ trim) /\ SelectA(allow_rc, frame, trim)
        \/ \E inc, trim \in BOOLEAN : PairA(inc, trim)
        \/ PairStopA
        \/ SymA
        \/ EncodeA
        \/ RcStrA
        \/ ProtSymA

TypeOK ==
    /\ inp.kind \in {"start", "bucket", "codon", "code", "seqA", "seqB", "seqU", "seqL", "pair", "sym", "set", "str", "psym"}
    /\ inp.code \in AllCodes \cup {0}
    /\ inp.mt \in MolTypes \cup {"protein"}
    /\ \A i \in 1..Len(inp.s) : inp.s[i] \in SymPool \cup ProtSyms
    /\ inp.set \subseteq SymPool
    /\ inp.kind \in {"seqA", "seqB", "seqU", "seqL", "pair", "codon"} =>
          /\ \A i \in 1..Len(inp.s) : inp.s[i] \in BaseSet
          /\ \A i \in 1..Len(inp.s2) : inp.s2[i] \in BaseSet
    /\ inp.kind \notin {"start", "bucket"} => Valid(inp)

Spec == Init /\ [][Next]_vars

-----------------------------------------------------------------------------
(* 7. Design-level laws checked by TLC on the model itself                   *)

(* reverse complement is an involution (canonical and IUPAC strings) *)
RcInvolution ==
    /\ IsSeq => Rc(Rc(inp.s)) = inp.s
    /\ inp.kind = "codon" => Rc(Rc(inp.s)) = inp.s
    /\ inp.kind = "str" => /\ RcStr(inp.mt, RcStr(inp.mt, inp.s)) = inp.s
                           /\ CompStr(inp.mt, CompStr(inp.mt, inp.s)) = inp.s
                           /\ RcStr(inp.mt, inp.s) = Rev(CompStr(inp.mt, inp.s))

(* whatever the representation of the argument, complement / rc are the table-derived strings *)
ReprIndependent ==
    inp.kind = "str" =>
        \A r \in ArgReprs :
            /\ ComplementAs(inp.mt, inp.s, r) = [i \in 1..Len(inp.s) |-> CompTable(inp.mt, inp.s[i])]
            /\ RcAs(inp.mt, inp.s, r) = Rev([i \in 1..Len(inp.s) |-> CompTable(inp.mt, inp.s[i])])

(* complementing a reverse complement (in either order) only reverses *)
ComplementRcLaw ==
    /\ inp.kind = "str" => /\ CompStr(inp.mt, RcStr(inp.mt, inp.s)) = Rev(inp.s)
                           /\ RcStr(inp.mt, CompStr(inp.mt, inp.s)) = Rev(inp.s)
    /\ IsSeq => [i \in 1..Len(inp.s) |-> CompBase(Rc(inp.s)[i])] = Rev(inp.s)

(* complement is an involution on symbols, agrees with the conventional table and   *)
(* with base-wise complement on canonical strings                                    *)
ComplementLaws ==
    inp.kind = "sym" =>
        LET x == inp.s[1] IN
        /\ CompSym(inp.mt, CompSym(inp.mt, x)) = x
        /\ CompSym(inp.mt, x) = CompTable(inp.mt, x)
        /\ Resolve(inp.mt, CompSym(inp.mt, x)) = {CompB(inp.mt, b) : b \in Resolve(inp.mt, x)}

(* resolving and re-encoding are mutual inverses *)
EncodeResolveInverse ==
    /\ inp.kind = "sym" => Encode(inp.mt, Resolve(inp.mt, inp.s[1])) = inp.s[1]
    /\ inp.kind = "set" => /\ Encode(inp.mt, inp.set) \in NucSyms(inp.mt)
                           /\ Resolve(inp.mt, Encode(inp.mt, inp.set)) = inp.set

(* six-frame translation = 3 plus-strand frames + 3 frames of the reverse complement, *)
(* and the minus frames are what one reads off the plus strand through anticodons      *)
SixFrameLaw ==
    IsSeq =>
        LET six == SixFrames(inp.code, inp.s) IN
        \A k \in 0..2 :
            /\ six.plus[k + 1] = Translate(inp.code, inp.s, k)
            /\ six.minus[k + 1] = MinusDirect(inp.code, inp.s, k)
            /\ Len(six.plus[k + 1]) = NCodons(inp.s, k)
            /\ Len(six.minus[k + 1]) = NCodons(inp.s, k)

(* translating the anticodons of plus frame k and reversing gives minus frame (L-k) mod 3 *)
AnticodonFrameLaw ==
    IsSeq =>
        \A k \in 0..2 :
            k <= Len(inp.s) =>
            LET n == NCodons(inp.s, k)
                t == SubSeq(inp.s, k + 1, k + 3 * n)
                anti == [j \in 1..n |-> AA(inp.code, Rc(CodonAt(t, 0, j)))]
            IN Rev(anti) = Translate(inp.code, Rc(inp.s), (Len(inp.s) - k) % 3)

(* one amino acid per complete codon, whatever the length *)
LongLaw ==
    IsLong => \A k \in 0..2 : /\ Len(Translate(inp.code, inp.s, k)) = (Len(inp.s) - k) \div 3
                               /\ Len(Translate(inp.code, Rc(inp.s), k)) = (Len(inp.s) - k) \div 3

(* the single-ORF family is what it claims: one acceptable frame of six (or none for the interrupted *)
(* body), on the strand and in the frame and length class it was built for; selecting it gives a      *)
(* stop-free protein that is one of the six frames up to its terminal stop                            *)
UniqueFrameFamily ==
    IsOrf =>
        LET best == BestFrames(inp.code, inp.s, TRUE) IN
        /\ Cardinality(best) <= 1
        /\ \A f \in best :
              LET pep == Translate(inp.code, InFrame(inp.code, inp.s, f, TRUE), 0)
                  six == SixFrames(inp.code, inp.s)
                  fr  == IF f < 0 THEN six.minus[Abs(f)] ELSE six.plus[f]
              IN /\ ~HasStar(pep)
                 /\ Len(pep) >= 8
                 /\ pep = fr \/ pep \o <<"*">> = fr

(* the three stop rules fit together *)
StopLaws ==
    (IsSeq /\ WithOptions) =>
        LET id == inp.code
            s == inp.s
            full == Translate(id, s, 0)
        IN /\ Len(TrimStop(id, s)) \in {Len(s), Len(s) - 3}
           /\ ~HasTerminalStop(id, TrimStop(id, s)) \/ HasTerminalStop(id, s)
           /\ HasTerminalStop(id, s) => /\ full[Len(full)] = "*"
                                        /\ Translate(id, TrimStop(id, s), 0) = SubSeq(full, 1, Len(full) - 1)
           /\ full \in GetTranslationOutcomes(id, s, TRUE, FALSE, TRUE)
           /\ \A trim, iok \in BOOLEAN :
                  \A o \in GetTranslationOutcomes(id, s, FALSE, trim, iok) : o = Reject \/ ~HasStar(o)
           /\ (Len(s) % 3 = 0) =>
                  \A inc, trim, iok \in BOOLEAN : Cardinality(GetTranslationOutcomes(id, s, inc, trim, iok)) = 1

(* a one-codon sequence translates to its table entry on the plus strand, and its *)
(* reverse complement gives it back on the minus strand                           *)
CodonLaw ==
    inp.kind = "codon" =>
        /\ Translate(inp.code, inp.s, 0) = <<AA(inp.code, inp.s)>>
        /\ Translate(inp.code, Rc(Rc(inp.s)), 0) = <<AA(inp.code, inp.s)>>
        /\ MinusDirect(inp.code, Rc(inp.s), 0) = <<AA(inp.code, inp.s)>>
=============================================================================
