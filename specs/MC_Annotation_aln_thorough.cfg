SPECIFICATION Spec
CONSTANTS
  U = 4
  L = 6
  MaxSpans = 2
INVARIANT TypeOK
INVARIANT ViewShape
INVARIANT Restriction
INVARIANT ProjectionAgrees
INVARIANT InsideIsComplete
INVARIANT AlgebraLaws
PROPERTY RcKeepsReading
PROPERTY SliceOnlyLoses
