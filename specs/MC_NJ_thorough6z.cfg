SPECIFICATION Spec
CONSTANTS
  N = 6
  TipLens = {1}
  IntLens = {0, 1}
INVARIANT TypeOK
INVARIANT Recovered
INVARIANT ResultShape
INVARIANT CherryLemma
INVARIANT NoClamp
