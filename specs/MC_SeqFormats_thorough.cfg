SPECIFICATION Spec
CONSTANTS
  Fmts = {"fasta", "phylip", "paml", "gde", "json"}
  MaxN = 3
  Blocks = {3, 4}
  NameAlpha1 = {"a", " ", ">", "|", "#", ";", "'", "%"}
  NameLen1 = 3
  NameAlpha2 = {}
  NameLen2 = 3
  TailAlpha = {"a", " ", ">", "|", "#", "%"}
  LongLens = {8, 9, 10, 11}
  SeqAlphaA = {"A", "-"}
  SeqLensA = {1, 2, 3, 4, 5, 6, 7, 8}
  SeqAlphaB = {"A", "C", "-"}
  SeqLensB = {3, 4}
  HomoLens = {9, 10, 12}
  RunLevel = 2
  QSeqs = 3
  PairAlpha = {"a", " ", ">", "|", "%"}
  PairLen = 2
INVARIANT TypeOK
INVARIANT RoundTripOnClean
INVARIANT LineParsersKeepGt
INVARIANT BytesParserKeepsGt
INVARIANT BytesParserKeepsEmpty
INVARIANT HasGtCovered
INVARIANT BlankEdgesAreLost
INVARIANT HandleAtKIsRemainingLines
INVARIANT SecondParseSame
INVARIANT OrderFamilyUnsorted
INVARIANT LayoutsSound
INVARIANT CanonIsALayout
