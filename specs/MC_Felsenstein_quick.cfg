SPECIFICATION Spec
CONSTANT Configs <- QuickConfigs
INVARIANT PruningIsSumProduct
INVARIANT ColumnsSumToOne
INVARIANT AllAmbiguousIsOne
