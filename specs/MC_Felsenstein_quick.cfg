SPECIFICATION Spec
CONSTANT Configs <- QuickConfigs
INVARIANT PruningIsSumProduct
INVARIANT ColumnsSumToOne
INVARIANT AllAmbiguousIsOne
INVARIANT ForwardIsPathSum
INVARIANT PatchChainStochastic
INVARIANT SwitchOneIsIndependent
INVARIANT SwitchZeroIsOnePatch
INVARIANT HmmSumsToOne
INVARIANT BinLengthsConsistent
INVARIANT LociNormalised
INVARIANT LociLengthsConsistent
