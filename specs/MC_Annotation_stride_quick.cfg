SPECIFICATION SpecS
CONSTANTS
  P = 5
  Offsets = {0}
  MaxSpans = 2
  MinSpans = 1
  MaxCopy = 0
  Filters = {"none"}
  Strides = {2, 3}
  MaxStep = 3
CONSTRAINT StepBound
INVARIANT TypeOK
INVARIANT ProgressionS
INVARIANT RestrictionS
INVARIANT AgreesWithContiguous
