------------------------------- MODULE Recalc -------------------------------
(* Property C07, layer 1: cogent3.recalculation.calculation.Calculator.       *)
(*                                                                            *)
(* A Calculator evaluates a DAG of cells (optimisable parameters feeding      *)
(* evaluated cells) incrementally.  It keeps TWO buffers of cell values and a *)
(* one-deep undo: change(changes) computes the new values into the non-current*)
(* buffer, flips `_switch`; if the next call reverts everything the last call *)
(* changed it just flips back.  Cells declared `recycling` receive their own  *)
(* previous output array to overwrite in place, so the two buffers must never *)
(* share the array that is about to be written (`spare` juggling).            *)
(*                                                                            *)
(* This module transcribes change() statement by statement.  A cell VALUE is  *)
(* its PROVENANCE: the tuple, over all parameters, of the parameter values it *)
(* was computed from (0 = does not depend on it, Mixed = computed from        *)
(* inconsistent inputs).  "Stale" is therefore decidable.  Recycled cells hold*)
(* an ARRAY IDENTITY (index into `heap`); writing through an identity that is *)
(* also referenced from the other buffer corrupts that buffer, exactly the    *)
(* hazard in the real code.                                                   *)
EXTENDS Integers, Sequences, FiniteSets, TLC, Emit

CONSTANTS NPar,      \* optimisable parameters have ranks 1..NPar
          N,         \* evaluated cells have ranks NPar+1..N; N is the output cell
          Args,      \* Args[c]: sequence of argument ranks of evaluated cell c (all < c)
          Recycled,  \* evaluated cells that overwrite their previous output array
          BadCell, BadPar, BadVal,  \* BadCell raises ParameterOutOfBounds when computed from BadPar = BadVal
          Vals,      \* parameter values
          Default    \* initial value of every parameter

Pars  == 1..NPar
Cells == (NPar + 1)..N
Ranks == 1..N
NoArr == 0
Mixed == -1   \* (a token of a real trace can be any positive integer)

VARIABLES cv,     \* cv[b][r], b \in {0,1}: parameter value | provenance tuple | array id
          heap,   \* heap[id]: content of array id (a provenance tuple)
          sw,     \* Calculator._switch
          lastv,  \* Calculator.last_values
          undo,   \* Calculator.last_undo as a function: undo[p] = previous value, 0 = not in the list
          spare,  \* Calculator.spare (array ids, NoArr = None)
          ret     \* outcome of the last call: [kind: "init"|"value"|"raised", val: provenance of the output cell]
vars == <<cv, heap, sw, lastv, undo, spare, ret>>

------------------------------------------------------------------------------
ParProv(p, v) == [q \in Pars |-> IF q = p THEN v ELSE 0]

Content(data, hp, r) ==
    IF r \in Pars THEN ParProv(r, data[r])
    ELSE IF r \in Recycled THEN hp[data[r]]
    ELSE data[r]

Combine(ps) ==
    [q \in Pars |->
        LET S == {ps[k][q] : k \in 1..Len(ps)} \ {0}
        IN  IF S = {} THEN 0
            ELSE IF Cardinality(S) = 1 THEN CHOOSE x \in S : TRUE
            ELSE Mixed]

RECURSIVE DepPars(_)
DepPars(r) == IF r \in Pars THEN {r}
              ELSE UNION {DepPars(Args[r][k]) : k \in 1..Len(Args[r])}

(* cells_changed_by: evaluated cells depending on a changed parameter, in rank order *)
RECURSIVE ProgFrom(_, _)
ProgFrom(c, ch) == IF c > N THEN <<>>
                   ELSE IF DepPars(c) \cap ch # {} THEN <<c>> \o ProgFrom(c + 1, ch)
                   ELSE ProgFrom(c + 1, ch)
Program(ch) == ProgFrom(NPar + 1, ch)
InProg(prog, r) == \E k \in 1..Len(prog) : prog[k] = r

(* plain_update: evaluate the program in order; stops at an out-of-bounds cell *)
RECURSIVE Run(_, _, _)
Run(prog, data, hp) ==
    IF prog = <<>> THEN [data |-> data, heap |-> hp, ok |-> TRUE]
    ELSE LET c    == Head(prog)
             argv == [k \in 1..Len(Args[c]) |-> Content(data, hp, Args[c][k])]
             val  == Combine(argv)
         IN  IF c = BadCell /\ val[BadPar] = BadVal
             THEN [data |-> data, heap |-> hp, ok |-> FALSE]
             ELSE IF c \in Recycled
                  THEN IF data[c] = NoArr
                       THEN Run(Tail(prog), [data EXCEPT ![c] = Len(hp) + 1], Append(hp, val))
                       ELSE Run(Tail(prog), data, [hp EXCEPT ![data[c]] = val])
                  ELSE Run(Tail(prog), [data EXCEPT ![c] = val], hp)

(* Calculator.__init__: cell.prime() computes each cell into buffer 0 then buffer 1 *)
RECURSIVE Prime(_, _, _, _)
Prime(c, d0, d1, hp) ==
    IF c > N THEN [d0 |-> d0, d1 |-> d1, heap |-> hp]
    ELSE LET r0 == Run(<<c>>, d0, hp)
             r1 == Run(<<c>>, d1, r0.heap)
         IN  Prime(c + 1, r0.data, r1.data, r1.heap)

Blank == [r \in Ranks |-> IF r \in Pars THEN Default ELSE NoArr]

Init ==
    LET p == Prime(NPar + 1, Blank, Blank, <<>>)
    IN  /\ cv = [b \in {0, 1} |-> IF b = 0 THEN p.d0 ELSE p.d1]
        /\ heap = p.heap
        /\ sw = 0
        /\ lastv = [q \in Pars |-> Default]
        /\ undo = [q \in Pars |-> 0]
        /\ spare = [r \in Ranks |-> NoArr]
        /\ ret = [kind |-> "init", val |-> [q \in Pars |-> 0]]

St  == [cv |-> <<cv[0], cv[1]>>, heap |-> heap, sw |-> sw, lastv |-> lastv, undo |-> undo, spare |-> spare]
StP == [cv |-> <<cv'[0], cv'[1]>>, heap |-> heap', sw |-> sw', lastv |-> lastv', undo |-> undo', spare |-> spare']

(* change(changes): ch is a function from the set of changed parameters to new values *)
ChangeT(ch) ==
    LET undoSet == {q \in Pars : undo[q] # 0}
        canUndo == undoSet # {} /\ \A q \in undoSet : q \in DOMAIN ch /\ ch[q] = undo[q]
        D1      == IF canUndo THEN {q \in DOMAIN ch : ~(q \in undoSet)} ELSE DOMAIN ch
        sw1     == IF canUndo THEN 1 - sw ELSE sw
        lastv1  == IF canUndo THEN [q \in Pars |-> IF q \in undoSet THEN undo[q] ELSE lastv[q]] ELSE lastv
        prog    == Program(D1)
        sw2     == 1 - sw1
        data0   == cv[sw2]
        base    == cv[sw1]
        spare1  == [r \in Ranks |-> IF r \in Recycled /\ data0[r] # base[r] THEN data0[r] ELSE spare[r]]
        data2   == [r \in Ranks |-> IF r \in Recycled /\ InProg(prog, r) THEN spare1[r] ELSE base[r]]
        chopt   == [q \in Pars |-> IF q \in D1 THEN lastv1[q] ELSE 0]
        lastv2  == [q \in Pars |-> IF q \in D1 THEN ch[q] ELSE lastv1[q]]
        data3   == [r \in Ranks |-> IF r \in D1 THEN ch[r] ELSE data2[r]]
        res     == Run(prog, data3, heap)
    IN  /\ spare' = spare1
        /\ heap' = res.heap
        /\ cv' = [cv EXCEPT ![sw2] = res.data]
        /\ IF res.ok
           THEN /\ sw' = sw2 /\ lastv' = lastv2 /\ undo' = chopt
                /\ ret' = [kind |-> "value", val |-> Content(res.data, res.heap, N)]
           ELSE /\ sw' = sw1 /\ lastv' = lastv1 /\ undo' = [q \in Pars |-> 0]
                /\ ret' = [kind |-> "raised", val |-> [q \in Pars |-> 0]]

Change(ch) == ChangeT(ch) /\
    Emit([from |-> St, act |-> "Change",
          args |-> <<[q \in Pars |-> IF q \in DOMAIN ch THEN ch[q] ELSE 0]>>,
          to |-> StP, ret |-> ret'])

ChangeSets == UNION {[S -> Vals] : S \in SUBSET Pars}

Next == \E ch \in ChangeSets : Change(ch)
Spec == Init /\ [][Next]_vars

------------------------------------------------------------------------------
(* Design-level properties                                                    *)

Expected(r, pv) == [q \in Pars |-> IF q \in DepPars(r) THEN pv[q] ELSE 0]

(* The current buffer is what a from-scratch evaluation of last_values gives. *)
Fresh ==
    /\ \A p \in Pars : cv[sw][p] = lastv[p]
    /\ \A c \in Cells : Content(cv[sw], heap, c) = Expected(c, lastv)

(* When an undo is on offer, the other buffer is valid for the pre-change inputs. *)
UndoSound ==
    (\E q \in Pars : undo[q] # 0) =>
        LET pv == [q \in Pars |-> IF undo[q] # 0 THEN undo[q] ELSE lastv[q]]
        IN  /\ \A p \in Pars : cv[1 - sw][p] = pv[p]
            /\ \A c \in Cells : Content(cv[1 - sw], heap, c) = Expected(c, pv)

(* The value returned is the fresh output, or the call was refused and nothing visible changed. *)
ReturnIsTop == ret.kind = "value" => ret.val = Expected(N, lastv)
RefusedKeepsInputs == [][ret'.kind = "raised" => (lastv' = lastv \/ \E q \in Pars : undo[q] # 0)]_vars

(* No evaluated value is ever computed from inconsistent inputs in the current buffer. *)
NeverMixed == \A c \in Cells : \A q \in Pars : Content(cv[sw], heap, c)[q] # Mixed
=============================================================================
