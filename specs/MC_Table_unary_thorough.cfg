SPECIFICATION Spec
CONSTANTS
  Profile = "thorough"
  Group = "unary"
INVARIANT ResultShape
INVARIANT StableSortLaw
INVARIANT FilterLaw
INVARIANT UniqueLaw
INVARIANT TransposeLaw
