SPECIFICATION HSpec
CONSTANTS
  Tips = {"a", "b", "c", "d"}
  BMod = 1
  BRem = 0
INVARIANT ResultsAreTrees
PROPERTY BifurcatingResolves
PROPERTY RenamePreservesDistance
