SPECIFICATION Spec
CONSTANTS
  KindOps <- KindOpsDef
  MaxOps = 2
  MaxTrips = 1
PROPERTY Stutters
