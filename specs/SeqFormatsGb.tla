----------------------------- MODULE SeqFormatsGb -----------------------------
(* Property C06, GenBank part: on well-formed GenBank flat files every parser *)
(* (parse/genbank.py minimal_parser / rich_parser built on the bytes-splitting *)
(* iter_genbank_records, the line based MinimalGenbankParser, and the loaders  *)
(* load_seq / load_unaligned_seqs that use the registry entry "gb") yields the *)
(* same (locus, sequence) records.                                             *)
(*                                                                            *)
(* cogent3 has no GenBank writer, so the well-formed input is produced by a   *)
(* model of the NCBI flat-file layout:                                         *)
(*     LOCUS       <name, 16 wide> <length, 11 wide> bp    DNA     linear   UNK 01-JAN-1980 *)
(*     DEFINITION  model record.                                               *)
(*     ORIGIN                                                                  *)
(*     <position, 9 wide> <10 residues> <10 residues> ... (60 per line)        *)
(*     //                                                                      *)
(* ORACLE: records = <<name_i, Upper(seq_i)>> in file order.                   *)
(* MODEL : transcription of iter_genbank_records(bytes) at character level.    *)
(* TLC proves the transcription equal to the oracle for every generated file   *)
(* (GbBytesParserOk); until commit e6edfb689 it raised for every file with two  *)
(* or more records.                                                            *)
EXTENDS Naturals, Sequences, FiniteSets, TLC, Emit

CONSTANTS NRecs,      \* numbers of records per file
          GbLens,     \* sequence lengths (around the 10-residue group and 60-residue line boundaries)
          Shifts      \* rotations of the residue pattern a c g t

VARIABLES sel, case, stage
vars == <<sel, case, stage>>

NL == "\n"
SP == " "
Min(a, b) == IF a < b THEN a ELSE b

Digit == <<"0", "1", "2", "3", "4", "5", "6", "7", "8", "9">>
RECURSIVE Digits(_)
Digits(n) == IF n < 10 THEN <<Digit[n + 1]>> ELSE Digits(n \div 10) \o <<Digit[(n % 10) + 1]>>
Spaces(n) == [i \in 1..n |-> SP]
RJust(s, w) == IF Len(s) >= w THEN s ELSE Spaces(w - Len(s)) \o s
LJust(s, w) == IF Len(s) >= w THEN s ELSE s \o Spaces(w - Len(s))

Lower == <<"a", "c", "g", "t">>
UpperOf(ch) == CASE ch = "a" -> "A" [] ch = "c" -> "C" [] ch = "g" -> "G" [] ch = "t" -> "T" [] OTHER -> ch
Upper(s) == [i \in 1..Len(s) |-> UpperOf(s[i])]
Pattern(L, sh) == [i \in 1..L |-> Lower[((i + sh) % 4) + 1]]

Names == << <<"a", "b", "c">>, <<"d", "e", "1">>, <<"F", "_", "2", "x">> >>

RECURSIVE Concat(_)
Concat(ss) == IF ss = <<>> THEN <<>> ELSE Head(ss) \o Concat(Tail(ss))
RECURSIVE Flat(_)
Flat(lines) == IF lines = <<>> THEN <<>> ELSE Head(lines) \o <<NL>> \o Flat(Tail(lines))

-----------------------------------------------------------------------------
(* the flat-file layout                                                        *)
LocusLine(name, L) ==
    <<"L", "O", "C", "U", "S">> \o Spaces(7) \o LJust(name, 16) \o <<SP>> \o RJust(Digits(L), 11)
    \o <<SP, "b", "p">> \o Spaces(4) \o <<"D", "N", "A">> \o Spaces(5) \o <<"l", "i", "n", "e", "a", "r">>
    \o Spaces(3) \o <<"U", "N", "K", SP, "0", "1", "-", "J", "A", "N", "-", "1", "9", "8", "0">>
DefLine == <<"D", "E", "F", "I", "N", "I", "T", "I", "O", "N">> \o Spaces(2)
           \o <<"m", "o", "d", "e", "l", SP, "r", "e", "c", "o", "r", "d", ".">>
OriginLine == <<"O", "R", "I", "G", "I", "N">>
EndLine == <<"/", "/">>

Groups(chunk) == [j \in 1..((Len(chunk) + 9) \div 10) |-> <<SP>> \o SubSeq(chunk, (j - 1) * 10 + 1, Min(j * 10, Len(chunk)))]
SeqLine(sq, k) ==      \* k-th line: residues 60(k-1)+1 .. 60k
    RJust(Digits(60 * (k - 1) + 1), 9) \o Concat(Groups(SubSeq(sq, 60 * (k - 1) + 1, Min(60 * k, Len(sq)))))
SeqLines(sq) == [k \in 1..((Len(sq) + 59) \div 60) |-> SeqLine(sq, k)]
RecordLines(name, sq) == <<LocusLine(name, Len(sq)), DefLine, OriginLine>> \o SeqLines(sq) \o <<EndLine>>

RECURSIVE FileLinesFrom(_, _)
FileLinesFrom(c, i) == IF i > Len(c.names) THEN <<>>
                       ELSE RecordLines(c.names[i], c.seqs[i]) \o FileLinesFrom(c, i + 1)
FileLines(c) == FileLinesFrom(c, 1)

-----------------------------------------------------------------------------
(* ORACLE                                                                      *)
Rec(nm, sq) == [name |-> nm, seq |-> sq]
Exp(c) == [i \in 1..Len(c.names) |-> Rec(c.names[i], Upper(c.seqs[i]))]
Ok(recs) == [ok |-> TRUE, recs |-> recs]
Err(why) == [ok |-> FALSE, recs |-> <<>>, why |-> why]

-----------------------------------------------------------------------------
(* MODEL: iter_genbank_records(bytes)                                          *)
(*   for record in data.split(b"\n//"):                                        *)
(*       record = record.lstrip()                                              *)
(*       if not record: continue                                               *)
(*       features, seq = record.split(b"\nORIGIN")                              *)
(*       line = features[: features.find(b"\n")].split(); locus = line[1]      *)
(*       seq = converter(seq)      (deletes "\n\r\t 0123456789", upper-cases)   *)
IsWs(ch) == ch \in {SP, NL, "\r", "\t"}
Occurrences(s, pat) == {i \in 1..(Len(s) - Len(pat) + 1) : SubSeq(s, i, i + Len(pat) - 1) = pat}
RECURSIVE SortedSeq(_)
SortedSeq(S) == IF S = {} THEN <<>>
                ELSE LET m == CHOOSE x \in S : \A y \in S : x <= y IN <<m>> \o SortedSeq(S \ {m})
(* s.split(pat) for a pattern that cannot overlap itself                       *)
SplitSub(s, pat) ==
    LET pos == SortedSeq(Occurrences(s, pat))
        n   == Len(pos)
    IN [k \in 1..(n + 1) |->
          SubSeq(s, IF k = 1 THEN 1 ELSE pos[k - 1] + Len(pat), IF k = n + 1 THEN Len(s) ELSE pos[k] - 1)]
IsSpace(s) == s # <<>> /\ \A i \in 1..Len(s) : IsWs(s[i])         \* bytes.isspace()
FirstNL(s) == LET P == {i \in 1..Len(s) : s[i] = NL} IN IF P = {} THEN 0 ELSE CHOOSE i \in P : \A j \in P : i <= j
(* tokens of a line: maximal runs of non-blank characters                      *)
TokenStarts(l) == {i \in 1..Len(l) : ~IsWs(l[i]) /\ (i = 1 \/ IsWs(l[i - 1]))}
TokenAt(l, i) == LET E == {j \in i..Len(l) : ~IsWs(l[j]) /\ (j = Len(l) \/ IsWs(l[j + 1]))}
                 IN SubSeq(l, i, CHOOSE j \in E : \A j2 \in E : j <= j2)
Tokens(l) == LET st == SortedSeq(TokenStarts(l)) IN [k \in 1..Len(st) |-> TokenAt(l, st[k])]
SeqDelete == {NL, "\r", "\t", SP} \cup {Digit[d] : d \in 1..10}
Convert(s) == Upper(SelectSeq(s, LAMBDA ch : ch \notin SeqDelete))

OriginPat == <<NL>> \o OriginLine
EndPat == <<NL>> \o EndLine

GbPiece(r) ==      \* one piece -> Rec or an error marker
    LET parts == SplitSub(r, OriginPat) IN
    IF Len(parts) # 2 THEN Err("ValueError: unpack")
    ELSE LET features == parts[1]
             eol == FirstNL(features)
             \* bytes.find returns -1 when absent: features[:-1]
             first == IF eol = 0 THEN SubSeq(features, 1, Len(features) - 1) ELSE SubSeq(features, 1, eol - 1)
             toks == Tokens(first)
         IN IF Len(toks) < 2 THEN Err("IndexError: locus") ELSE Ok(<<Rec(toks[2], Convert(parts[2]))>>)

RECURSIVE LStrip(_)
LStrip(s) == IF s = <<>> THEN s ELSE IF IsWs(Head(s)) THEN LStrip(Tail(s)) ELSE s
RECURSIVE GbFold(_)
GbFold(pieces) ==
    IF pieces = <<>> THEN Ok(<<>>)
    ELSE LET r == LStrip(Head(pieces)) IN          \* record = record.lstrip()
         IF r = <<>> THEN GbFold(Tail(pieces))      \* if not record: continue
         ELSE LET h == GbPiece(r) IN
              IF ~h.ok THEN h
              ELSE LET t == GbFold(Tail(pieces)) IN IF ~t.ok THEN t ELSE Ok(h.recs \o t.recs)
GbBytesParser(lines) == GbFold(SplitSub(Flat(lines), EndPat))

-----------------------------------------------------------------------------
Selectors == {[n |-> n, sh |-> sh] : n \in NRecs, sh \in Shifts}
LenTuples(n) == [1..n -> GbLens]
CasesOf(sl) == {[names |-> SubSeq(Names, 1, sl.n),
                 seqs  |-> [i \in 1..sl.n |-> Pattern(ls[i], sl.sh + i)]] : ls \in LenTuples(sl.n)}
NoCase == [names |-> <<>>, seqs |-> <<>>]

Init == sel \in Selectors /\ case = NoCase /\ stage = "pick"
Pick == stage = "pick" /\ case' \in CasesOf(sel) /\ stage' = "ready" /\ UNCHANGED sel
ParseT == stage = "ready" /\ stage' = "done" /\ UNCHANGED <<sel, case>>
Parse == /\ ParseT
         /\ LET m == GbBytesParser(FileLines(case)) IN
            Emit([from |-> case, act |-> "ParseGenbank", args |-> <<>>,
                  to |-> [exp |-> Exp(case),
                          cls |-> IF Len(case.names) = 1 THEN "single-record" ELSE "multi-record",
                          lines |-> FileLines(case),
                          \* source representation (see SeqFormats.tla): lines a caller consumes from an open text
                          \* handle before handing it to a parser; the handle then stands for the remaining lines
                          preamble |-> << <<"#", SP, "c", "1">>, <<"#", SP, "c", "2">> >>,
                          model |-> IF m = Ok(Exp(case)) THEN [same |-> TRUE] ELSE [same |-> FALSE, res |-> m]]])
Next == Pick \/ Parse
Spec == Init /\ [][Next]_vars

-----------------------------------------------------------------------------
Ready == stage = "ready"
TypeOK == stage \in {"pick", "ready", "done"}

(* the layout is well-formed: every sequence line holds at most 60 residues in *)
(* groups of 10 and the residues of the record are those of the sequence       *)
LayoutSound ==
    Ready => \A i \in 1..Len(case.seqs) :
        LET sl == SeqLines(case.seqs[i]) IN
        /\ Convert(Concat(sl)) = Upper(case.seqs[i])
        /\ \A k \in 1..Len(sl) : Len(sl[k]) <= 9 + 66

(* the bytes-splitting parser returns the oracle for every file, whatever the  *)
(* number of records (since commit e6edfb689; before, the piece after "\n//"   *)
(* kept the line end, its locus line was empty and every multi-record file      *)
(* raised: mutants/C06_prefix_genbank_multi_record.diff restores that)          *)
GbBytesParserOk ==
    Ready => GbBytesParser(FileLines(case)) = Ok(Exp(case))
=============================================================================
