SPECIFICATION Spec
CONSTANTS
  Tips = {"a", "b", "c", "d", "e", "f"}
INVARIANT Symmetric
INVARIANT ZeroIffEqual
INVARIANT RFBounded
