---------------------------- MODULE MC_NestedInit ----------------------------
EXTENDS NestedInit, MC_MarkovQ

A(name, L, kind, pnames, rev, stat) == [name |-> name, L |-> L, kind |-> kind, pnames |-> pnames, reversible |-> rev, stationary |-> stat]
GTRn == <<"A/C", "A/G", "A/T", "C/G", "C/T">>
GNn  == <<"A>C", "A>G", "A>T", "C>A", "C>G", "C>T", "G>A", "G>C", "G>T", "T>A", "T>C">>

(* NucInstances: 1 JC69, 2 K80, 3 F81, 4 HKY85 k3 pi1234, 5 HKY85 khalf, 6 TN93 k53, 7 TN93 k27, 8 GTR, 9 GN *)
NucPairs == <<
    [null |-> NucInstances[1], alt |-> A("K80",   1, "word", <<"kappa">>, TRUE, TRUE)],
    [null |-> NucInstances[3], alt |-> A("HKY85", 1, "word", <<"kappa">>, TRUE, TRUE)],
    [null |-> NucInstances[4], alt |-> A("TN93",  1, "word", <<"kappa_y", "kappa_r">>, TRUE, TRUE)],
    [null |-> NucInstances[4], alt |-> A("GTR",   1, "word", GTRn, TRUE, TRUE)],
    [null |-> NucInstances[6], alt |-> A("GTR",   1, "word", GTRn, TRUE, TRUE)],
    [null |-> NucInstances[7], alt |-> A("GTR",   1, "word", GTRn, TRUE, TRUE)],
    [null |-> NucInstances[8], alt |-> A("GN",    1, "none", GNn, FALSE, FALSE)],
    [null |-> NucInstances[4], alt |-> A("GN",    1, "none", GNn, FALSE, FALSE)]
>>
(* CodonInstances: 1 GY94, 2 Y98, 3 MG94HKY, 4 MG94GTR, 5 CNFHKY, 6 CNFGTR *)
CodonPairs == <<
    [null |-> CodonInstances[3], alt |-> A("MG94GTR", 3, "monomer", GTRn \o <<"omega">>, TRUE, TRUE)],
    [null |-> CodonInstances[5], alt |-> A("CNFGTR",  3, "conditional", GTRn \o <<"omega">>, TRUE, TRUE)]
>>
AllPairs == NucPairs \o CodonPairs
=============================================================================
