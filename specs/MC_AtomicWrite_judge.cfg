\* emits the verdict table of OutcomeOK (no state exploration)
SPECIFICATION JudgeSpec
CONSTANTS
  Configs <- CurrentConfigs
  PreStates = {"absent"}
