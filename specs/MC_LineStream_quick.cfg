SPECIFICATION Spec
CONSTANTS
  Chars <- ABNR
  MaxLen = 5
  ChunkSizes = {1, 2, 3, 4, 5, 6, 7, 8}
  ShortReads = TRUE
  NumLines = {1, 2, 3}
INVARIANT TypeOK
INVARIANT Correct
INVARIANT Conservation
INVARIANT PrefixOfResult
INVARIANT TranslateKeepsLines
INVARIANT BlocksPartition
