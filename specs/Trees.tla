-------------------------------- MODULE Trees --------------------------------
(* Rooted phylogenetic trees with named, weighted edges: property C09.        *)
(*                                                                            *)
(* cogent3 stores an edge's name and length on the node at its lower end, so  *)
(* the name IS the edge.  A tree is therefore                                 *)
(*     T = [par |-> [D -> D \cup {ROOT}], ln |-> [D -> Nat]]                   *)
(* where D is the set of edge names (= non-root nodes), par[e] is the node at *)
(* the upper end of edge e and ln[e] its length in HALF units (the harness    *)
(* instantiates real length ln/2, exact in binary floating point; half units  *)
(* keep midpoint rooting integral).  The root is the node ROOT.               *)
(* Child order is not part of a tree: the property does not talk about it.    *)
(*                                                                            *)
(* This module defines what the property observes of a tree (tip set,         *)
(* unrooted splits, tip-to-tip path lengths, the partition of the tips made   *)
(* by the root) and the intended result of each transformation.               *)
EXTENDS Naturals, Sequences, FiniteSets, TLC

ROOT == "root"
NEWEDGE == "NEW"      \* the name of an edge created by an operation (real name is arbitrary)

Dom(T) == DOMAIN T.par
Nodes(T) == Dom(T) \cup {ROOT}
Kids(T, v) == {c \in Dom(T) : T.par[c] = v}
IsTip(T, v) == Kids(T, v) = {}
TipsOf(T) == {v \in Dom(T) : IsTip(T, v)}

RECURSIVE Anc(_, _)            \* v, its ancestors and ROOT
Anc(T, v) == IF v = ROOT THEN {ROOT} ELSE {v} \cup Anc(T, T.par[v])

Below(T, v) == {t \in TipsOf(T) : v \in Anc(T, t)}     \* tips at or below v

RECURSIVE UpLen(_, _, _)       \* path length from v up to its ancestor a
UpLen(T, v, a) == IF v = a THEN 0 ELSE T.ln[v] + UpLen(T, T.par[v], a)

LCA(T, u, v) == LET I == Anc(T, u) \cap Anc(T, v)
                IN  CHOOSE w \in I : I \subseteq Anc(T, w)

PathLen(T, u, v) == LET l == LCA(T, u, v) IN UpLen(T, u, l) + UpLen(T, v, l)

(* ---- what the property observes ----------------------------------------- *)
NonTrivial(sp) == \A side \in sp : Cardinality(side) >= 2
SplitOf(T, e) == {Below(T, e), TipsOf(T) \ Below(T, e)}
Splits(T) == {sp \in {SplitOf(T, e) : e \in Dom(T)} : NonTrivial(sp)}
RestrictSplits(S, R) == {sp \in {{side \cap R : side \in s} : s \in S} :
                            Cardinality(sp) = 2 /\ NonTrivial(sp)}
Dists(T) == {<<u, v, PathLen(T, u, v)>> : u, v \in TipsOf(T)} \ {<<u, u, 0>> : u \in TipsOf(T)}
RestrictDists(DS, R) == {d \in DS : d[1] \in R /\ d[2] \in R}
RootParts(T) == {Below(T, c) : c \in Kids(T, ROOT)}
Clusters(T) == {cl \in {Below(T, e) : e \in Dom(T)} : Cardinality(cl) >= 2}

Obs(T) == [tips |-> TipsOf(T), splits |-> Splits(T), dist |-> Dists(T),
           rootparts |-> RootParts(T), nnodes |-> Cardinality(Dom(T))]

(* T2 shows the same tips R, the same unrooted topology among them and the   *)
(* same tip-to-tip path lengths as T1 restricted to R                        *)
Preserves(T1, T2) ==
    LET R == TipsOf(T2) IN
    /\ R \subseteq TipsOf(T1)
    /\ Splits(T2) = RestrictSplits(Splits(T1), R)
    /\ Dists(T2) = RestrictDists(Dists(T1), R)

WellFormed(T) ==
    /\ Dom(T) = DOMAIN T.ln
    /\ ROOT \notin Dom(T)
    /\ \A e \in Dom(T) : T.par[e] \in Nodes(T) /\ T.ln[e] > 0
    /\ Cardinality(Kids(T, ROOT)) >= 2
    /\ Cardinality(TipsOf(T)) >= 2

(* ---- transformations ------------------------------------------------------ *)
(* Re-rooting at node n.  Along the path ROOT = x0 - x1 - ... - xk = n every   *)
(* edge flips; edge names stay with their edges, so the node that was the     *)
(* lower end of x_i becomes the lower end of x_(i+1), the old root becomes the *)
(* lower end of x_1 and n becomes ROOT.                                        *)
Reroot(T, n) ==
    IF n = ROOT THEN T ELSE
    LET P == Anc(T, n) \ {ROOT}
        Toward(x) == CHOOSE c \in Kids(T, x) \cap P : TRUE      \* next node on the way to n
        Rho(x) == IF x = n THEN ROOT
                  ELSE IF x = ROOT \/ x \in P THEN Toward(x)
                  ELSE x
    IN [par |-> [e \in Dom(T) |-> IF e \in P THEN Rho(e) ELSE Rho(T.par[e])],
        ln  |-> T.ln]

(* Removing a bifurcating root by dissolving the edge to its internal child c: *)
(* c's children hang off the root, the sibling edge absorbs c's length.        *)
Collapse(T, c) ==
    LET s == CHOOSE x \in Kids(T, ROOT) : x # c
        D2 == Dom(T) \ {c}
    IN [par |-> [e \in D2 |-> IF T.par[e] = c THEN ROOT ELSE T.par[e]],
        ln  |-> [e \in D2 |-> IF e = s THEN T.ln[s] + T.ln[c] ELSE T.ln[e]]]

CollapseCandidates(T) ==
    IF Cardinality(Kids(T, ROOT)) # 2 THEN {}
    ELSE {c \in Kids(T, ROOT) : ~IsTip(T, c)}

(* unrooted(): which internal child is dissolved is not part of the contract  *)
UnrootedSet(T) == IF CollapseCandidates(T) = {} THEN {T}
                  ELSE {Collapse(T, c) : c \in CollapseCandidates(T)}

RECURSIVE NearUp(_, _, _)      \* first node of S at or above w
NearUp(T, S, w) == IF w \in S THEN w ELSE NearUp(T, S, T.par[w])

(* The tree induced by the nodes Keep (tips and branching points) under Top:  *)
(* every chain of dropped nodes merges into the edge of its lowest node.      *)
Contract(T, Keep, Top) ==
    LET S == Keep \cup {Top}
        Up(e) == NearUp(T, S, T.par[e])
    IN [par |-> [e \in Keep |-> IF Up(e) = Top THEN ROOT ELSE Up(e)],
        ln  |-> [e \in Keep |-> UpLen(T, e, Up(e))]]

(* get_sub_tree(R): the sub tree spanned by the tips R, rooted at their LCA   *)
Induced(T, R) ==
    LET KeptKids(v) == {c \in Kids(T, v) : Below(T, c) \cap R # {}}
        Branching == {v \in Nodes(T) : Cardinality(KeptKids(v)) >= 2}
        Top == CHOOSE w \in Branching : Branching \subseteq {x \in Nodes(T) : w \in Anc(T, x)}
        Keep == (R \cup Branching) \ {Top}
    IN Contract(T, Keep, Top)

(* prune(): unary internal nodes are merged away (in place)                   *)
Pruned(T) ==
    LET Keep == {v \in Dom(T) : Cardinality(Kids(T, v)) # 1}
    IN Contract(T, Keep, ROOT)

(* ---- midpoint ---------------------------------------------------------------- *)
SetMax(S) == CHOOSE m \in S : \A x \in S : x <= m
Diameter(T) == SetMax({d[3] : d \in Dists(T)})

(* The midpoint of a longest tip-to-tip path (it is the same point for every  *)
(* longest path).  Returned as [edge, off]: the point off above the lower end *)
(* of edge `edge`, 0 < off <= ln[edge].                                        *)
MidPoint(T) ==
    LET dm == Diameter(T)
        h  == dm \div 2
        pr == CHOOSE p \in TipsOf(T) \X TipsOf(T) :
                 /\ p[1] # p[2] /\ PathLen(T, p[1], p[2]) = dm
                 /\ UpLen(T, p[1], LCA(T, p[1], p[2])) >= UpLen(T, p[2], LCA(T, p[1], p[2]))
        u  == pr[1]
        l  == LCA(T, u, pr[2])
        e  == CHOOSE x \in Anc(T, u) \ Anc(T, l) :
                 UpLen(T, u, x) < h /\ h <= UpLen(T, u, x) + T.ln[x]
    IN [edge |-> e, off |-> h - UpLen(T, u, e)]

MidOnNode(T) == LET m == MidPoint(T) IN m.off = T.ln[m.edge]

SplitEdge(T, e, off) ==
    LET D2 == Dom(T) \cup {NEWEDGE}
    IN [par |-> [x \in D2 |-> IF x = e THEN NEWEDGE ELSE IF x = NEWEDGE THEN T.par[e] ELSE T.par[x]],
        ln  |-> [x \in D2 |-> IF x = e THEN off ELSE IF x = NEWEDGE THEN T.ln[e] - off ELSE T.ln[x]]]

MidpointRooted(T) ==
    LET m == MidPoint(T)
    IN IF m.off = T.ln[m.edge] THEN Reroot(T, T.par[m.edge])
       ELSE Reroot(SplitEdge(T, m.edge, m.off), NEWEDGE)

RootHeight(T) == SetMax({UpLen(T, t, ROOT) : t \in TipsOf(T)})

(* ---- queries ------------------------------------------------------------------- *)
(* (nodes are named by the edge above them; ROOT is the root node)                   *)
NodeDist(T, u, v) == PathLen(T, u, v)                    \* PhyloNode.distance, any two nodes

(* lowest_common_ancestor(tipnames) *)
LCASet(T, S) == LET I == {w \in Nodes(T) : \A t \in S : w \in Anc(T, t)}
                IN  CHOOSE w \in I : I \subseteq Anc(T, w)

RECURSIVE UpSeq(_, _, _)       \* the nodes from v up to, not including, its ancestor a
UpSeq(T, v, a) == IF v = a THEN <<>> ELSE <<v>> \o UpSeq(T, T.par[v], a)
Rev(s) == [i \in 1..Len(s) |-> s[Len(s) + 1 - i]]

(* get_connecting_edges(u, v): the nodes on the way from u to v; the common      *)
(* ancestor is left out when both are tips (then these are exactly the edges of  *)
(* the path)                                                                      *)
ConnPath(T, u, v) ==
    LET l == LCA(T, u, v)
        mid == IF IsTip(T, u) /\ IsTip(T, v) THEN <<>> ELSE <<l>>
    IN UpSeq(T, u, l) \o mid \o Rev(UpSeq(T, v, l))

RECURSIVE SeqLen(_, _, _)
SeqLen(T, s, i) == IF i = 0 THEN 0 ELSE T.ln[s[i]] + SeqLen(T, s, i - 1)

(* get_edge_names(t1, t2, outgroup_name=o): the clade of t1 and t2 as seen from  *)
(* the outgroup tip o (o = "none": as seen from the root): its edges, and the    *)
(* edge it hangs on ("!root" when there is none)                                  *)
NoOutgroup == "none"
EdgeNames(T, t1, t2, o) ==
    LET R == IF o = NoOutgroup THEN T ELSE Reroot(T, o)
        j == LCA(R, t1, t2)
    IN [clade |-> {e \in Dom(R) : j \in Anc(R, e) /\ e # j},
        stem  |-> IF j = ROOT THEN "!root" ELSE j]

(* the unordered pairs of tips that are farthest apart (max_tip_tip_distance names one) *)
FarPairs(T) == {{p[1], p[2]} : p \in {q \in TipsOf(T) \X TipsOf(T) :
                                       q[1] # q[2] /\ PathLen(T, q[1], q[2]) = Diameter(T)}}

SwapTips(T, x, y) ==
    LET sw(e) == IF e = x THEN y ELSE IF e = y THEN x ELSE e
    IN [par |-> [e \in Dom(T) |-> T.par[sw(e)]], ln |-> [e \in Dom(T) |-> T.ln[sw(e)]]]
HasUnary(T) == \E v \in Nodes(T) : Cardinality(Kids(T, v)) = 1

(* ---- precondition classes (structural keys of findings) ------------------------- *)
Inner(T) == Nodes(T) \ TipsOf(T)
RootDeg(T) == Cardinality(Kids(T, ROOT))
RootCls(T) == IF RootDeg(T) = 2 THEN "root2" ELSE "root3"
RerootCls(T, n) == "flip" \o ToString(Cardinality(Anc(T, n)) - 1) \o "-" \o RootCls(T)
UnrootedCls(T) == IF RootDeg(T) # 2 THEN "root3"
                  ELSE IF CollapseCandidates(T) = {} THEN "root2-tips" ELSE "root2-inner"
SubTreeCls(T, R) == IF RootDeg(T) > 2 /\ CollapseCandidates(Induced(T, R)) # {}
                    THEN "collapse" ELSE "plain"
MidCls(T) == IF MidOnNode(T) THEN "on-node" ELSE "in-edge"
PruneCls(T) == IF Pruned(T) = T THEN "none" ELSE "unary"
BifurcCls(T) == IF \E v \in Nodes(T) : Cardinality(Kids(T, v)) > 2 THEN "multi" ELSE "binary"

(* ---- sorting --------------------------------------------------------------- *)
(* sorted(order): at every node the child holding the lowest ranked tip first *)
MinRank(T, rank, v) == CHOOSE m \in {rank[t] : t \in Below(T, v)} :
                           \A t \in Below(T, v) : m <= rank[t]

RECURSIVE TipOrderSet(_, _, _, _)
RECURSIVE TipOrder(_, _, _)
TipOrder(T, rank, v) == IF IsTip(T, v) THEN <<v>> ELSE TipOrderSet(T, rank, Kids(T, v), <<>>)
TipOrderSet(T, rank, S, acc) ==
    IF S = {} THEN acc
    ELSE LET c == CHOOSE x \in S : \A y \in S : MinRank(T, rank, x) <= MinRank(T, rank, y)
         IN TipOrderSet(T, rank, S \ {c}, acc \o TipOrder(T, rank, c))
=============================================================================
