SPECIFICATION Spec
CONSTANT Configs <- AllConfigs
INVARIANT PruningIsSumProduct
INVARIANT ColumnsSumToOne
INVARIANT AllAmbiguousIsOne
