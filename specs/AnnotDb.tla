------------------------------- MODULE AnnotDb -------------------------------
(* List-of-records model of a cogent3 annotation database                     *)
(* (BasicAnnotationDb, GffAnnotationDb, GenbankAnnotationDb): property C17.    *)
(*                                                                            *)
(* Abstract state: `bag`, the list of feature records held by the database.   *)
(* A record is (seqid, biotype, name, strand, attr, spans); `via` only says    *)
(* through which door it entered ("user" = add_feature, "ext" = a GFF /        *)
(* GenBank row) so that the harness can rebuild the state; it takes no part    *)
(* in any comparison.  start / stop are not stored: they are the extremes of   *)
(* spans (Start, Stop below).                                                  *)
(*                                                                            *)
(* The oracle for every query is a LINEAR SCAN of the list: the records r      *)
(* with Matches(r, q).  Each action is one public call.  The harness replays   *)
(* every emitted transition on the real classes and compares multisets of      *)
(* (seqid, biotype, name, strand, attr, spans, start, stop).                   *)
EXTENDS Naturals, FiniteSets, Sequences, TLC, Emit

CONSTANTS
    Seqids, Biotypes, Names, Strands, \* value domains of the text columns
    Attrs,          \* attribute tokens (a record carries one token or NoAttr)
    MaxCoord,       \* coordinates are 0..MaxCoord (0-based, half-open spans)
    NSpans,         \* subset of {1,2}: allowed number of spans per record
    Vias,           \* subset of {"user","ext"}
    MaxRecs,        \* records added one at a time (AddFeature / AddRow)
    MaxLen,         \* bound on the list length (Union / Update grow it)
    CanonFirst,     \* BOOLEAN: symmetry reduction, see CanonOK
    CanonSeqid, CanonBiotype, CanonName,
    QCats,          \* text columns a query may constrain: subset of CatFields
    WinKinds,       \* subset of {"none","both","start","stop"}
    Windows,        \* <<start, stop>> pairs used by two-sided windows
    Points,         \* positions used by one-sided windows
    SpanChoice,     \* if non-empty: the span lists records may have (instead of all)
    SubsetCats,     \* Subset(q) is explored for q constraining n columns, n in SubsetCats
    Ops,            \* subset of {"Subset","Union","Update","Copy","Pickle","Json","WriteLoad"}
    Others,         \* lists usable as the *other* database of Union / Update
    UpdateSeqids    \* values of update(seqids=...): sets of seqids, {} = not given

VARIABLES bag
vars == <<bag>>

AnyV    == "*"       \* query argument not given
NoAttr == "-"       \* record without attribute token
Coords == 0..MaxCoord
CatFields == {"seqid", "biotype", "name", "strand", "attr"}

------------------------------------------------------------------------------
(* Spans.                                                                     *)

Less(p, q) == p[1] < q[1] \/ (p[1] = q[1] /\ p[2] < q[2])
SortPair(p) == IF p[1] <= p[2] THEN p ELSE <<p[2], p[1]>>
(* what the database stores for the spans it is given: each span ordered,     *)
(* the list sorted ("spans: this will be sorted")                              *)
Normalise(sp) == SortSeq([i \in DOMAIN sp |-> SortPair(sp[i])], Less)

(* THE conversion, stated once: a GFF / GenBank row gives 1-based closed       *)
(* positions first..last; the span is 0-based half-open.                       *)
HalfOpen(c) == <<c[1] - 1, c[2]>>

SetMin(S) == CHOOSE x \in S : \A y \in S : x <= y
SetMax(S) == CHOOSE x \in S : \A y \in S : y <= x
AllCoords(sp) == {sp[i][1] : i \in DOMAIN sp} \cup {sp[i][2] : i \in DOMAIN sp}
Start(r) == SetMin(AllCoords(r.spans))
Stop(r)  == SetMax(AllCoords(r.spans))

Pairs == {p \in Coords \X Coords : p[1] <= p[2]}
Spans1 == {<<p>> : p \in Pairs}
(* two spans in stored (sorted) order: disjoint, abutting, OVERLAPPING, NESTED  *)
(* or identical -- the extent of a record is the min / max over ALL its spans,  *)
(* which for nested spans is not "first start, last stop" of the sorted list    *)
Spans2 == {<<p, q>> : <<p, q>> \in {pq \in Pairs \X Pairs : pq[1] = pq[2] \/ Less(pq[1], pq[2])}}
AllSpanLists == (IF 1 \in NSpans THEN Spans1 ELSE {}) \cup (IF 2 \in NSpans THEN Spans2 ELSE {})
SpanLists == IF SpanChoice # {} THEN SpanChoice ELSE AllSpanLists
(* rows of annotation files describe at least one base *)
ExtSpanLists == {sp \in SpanLists : \A i \in DOMAIN sp : sp[i][1] < sp[i][2]}

Rec(via, sq, bt, nm, sd, at, sp) ==
    [via |-> via, seqid |-> sq, biotype |-> bt, name |-> nm, strand |-> sd, attr |-> at, spans |-> sp]

RecordsWith(via, SP) ==
    {Rec(via, sq, bt, nm, sd, at, sp) :
        sq \in Seqids, bt \in Biotypes, nm \in Names, sd \in Strands,
        at \in Attrs \cup {NoAttr}, sp \in SP}
UserRecs == IF "user" \in Vias THEN RecordsWith("user", SpanLists) ELSE {}
ExtRecs  == IF "ext" \in Vias THEN RecordsWith("ext", ExtSpanLists) ELSE {}

Reverse(s) == [i \in DOMAIN s |-> s[Len(s) + 1 - i]]
Flip(p) == <<p[2], p[1]>>

(* constant sets the configurations choose from (cfg: Windows <- AllWindows ...) *)
AllWindows == Pairs
AllPoints == Coords
NoSpanChoice == {}
HistSpans == {<< <<0, 2>> >>, << <<0, 4>>, <<1, 2>> >>}   \* one span; a span nested in another
AttrSpans == {<< <<1, 3>> >>}
HistWindows == {<<1, 3>>, <<0, 2>>}
HistPoints == {1}
OtherStrand == IF "-" \in Strands THEN "-" ELSE CHOOSE sd \in Strands : TRUE
OtherU(sq) == Rec("user", sq, CanonBiotype, CanonName, OtherStrand, NoAttr, << <<1, 2>> >>)
OtherE(sq) == Rec("ext", sq, CanonBiotype, CanonName, OtherStrand, NoAttr, << <<0, 2>> >>)
OtherSeqid == CHOOSE sq \in Seqids : sq # CanonSeqid
OthersNone == {}
OthersUser == {<<>>, <<OtherU(OtherSeqid)>>, <<OtherU(CanonSeqid), OtherU(OtherSeqid)>>}
OthersMixed == {<<>>, <<OtherU(OtherSeqid)>>, <<OtherU(CanonSeqid), OtherE(OtherSeqid)>>}
OthersMore == OthersMixed \cup {<<OtherE(CanonSeqid)>>, <<OtherU(OtherSeqid), OtherU(OtherSeqid)>>}

(* the state as shown to the harness: every record with its derived extremes *)
View(b) == [i \in DOMAIN b |->
              [via |-> b[i].via, seqid |-> b[i].seqid, biotype |-> b[i].biotype,
               name |-> b[i].name, strand |-> b[i].strand, attr |-> b[i].attr,
               spans |-> b[i].spans, start |-> Start(b[i]), stop |-> Stop(b[i])]]

------------------------------------------------------------------------------
(* Queries and the linear-scan oracle.                                        *)

Queries ==
    {q \in [seqid : Seqids \cup {AnyV}, biotype : Biotypes \cup {AnyV}, name : Names \cup {AnyV},
            strand : Strands \cup {AnyV}, attr : Attrs \cup {AnyV},
            win : WinKinds, start : Coords, stop : Coords, partial : BOOLEAN] :
        /\ \A f \in CatFields : q[f] # AnyV => f \in QCats
        /\ q.win = "none"  => (q.start = 0 /\ q.stop = 0 /\ ~q.partial)
        /\ q.win = "start" => (q.stop = 0 /\ ~q.partial /\ q.start \in Points)
        /\ q.win = "stop"  => (q.start = 0 /\ ~q.partial /\ q.stop \in Points)
        /\ q.win = "both"  => <<q.start, q.stop>> \in Windows
           (* a window is start <= stop; "overlap" with an EMPTY window is left
              undefined by the property, so partial matching needs start < stop *)
        /\ q.win = "both"  => (q.start <= q.stop /\ (q.partial => q.start < q.stop))}

NumCats(q) == Cardinality({f \in CatFields : q[f] # AnyV})

(* record lies within the window *)
Within(s, e, ws, we) == ws <= s /\ e <= we
(* record and window share at least one position *)
Overlaps(s, e, ws, we) == s < we /\ ws < e
(* allow_partial: a linear scan keeps what is inside or overlapping; a
   zero-length record sitting on a window edge is inside, not overlapping *)
Partial(s, e, ws, we) == Within(s, e, ws, we) \/ Overlaps(s, e, ws, we)
(* only one end given: "any feature containing" that position *)
Contains(s, e, p) == s <= p /\ p < e

WinOK(r, q) ==
    LET s == Start(r) e == Stop(r) IN
    CASE q.win = "none"  -> TRUE
      [] q.win = "both"  -> IF q.partial THEN Partial(s, e, q.start, q.stop)
                                         ELSE Within(s, e, q.start, q.stop)
      [] q.win = "start" -> Contains(s, e, q.start)
      [] q.win = "stop"  -> Contains(s, e, q.stop)

FieldOK(v, a) == a = AnyV \/ a = v
Matches(r, q) ==
    /\ FieldOK(r.seqid, q.seqid) /\ FieldOK(r.biotype, q.biotype)
    /\ FieldOK(r.name, q.name)   /\ FieldOK(r.strand, q.strand)
    /\ FieldOK(r.attr, q.attr)
    /\ WinOK(r, q)

Select(b, q) == SelectSeq(b, LAMBDA r : Matches(r, q))
MatchIdx(b, q) == SelectSeq([i \in DOMAIN b |-> i], LAMBDA i : Matches(b[i], q))

------------------------------------------------------------------------------
(* Implementation model: the WHERE clause assembled by _matching_conditions,   *)
(* transcribed (four OR-ed overlap clauses).  Used only for the design check   *)
(* SqlAgrees below; the harness never uses it as an oracle.                    *)
SqlWindow(s, e, q) ==
    CASE q.win = "none"  -> TRUE
      [] q.win = "both"  ->
            IF q.partial
            THEN \/ (s >= q.start /\ e <= q.stop)     \* lies within the segment
                 \/ (s <= q.start /\ e > q.start)     \* straddles beginning of segment
                 \/ (s < q.stop /\ e >= q.stop)       \* straddles stop of segment
                 \/ (s <= q.start /\ e >= q.stop)     \* includes segment
            ELSE s >= q.start /\ e <= q.stop
      [] q.win = "start" -> s <= q.start /\ q.start < e
      [] q.win = "stop"  -> s <= q.stop /\ q.stop < e
SqlWhere(r, q) ==
    /\ \A f \in CatFields : q[f] # AnyV => r[f] = q[f]
    /\ SqlWindow(Start(r), Stop(r), q)

------------------------------------------------------------------------------
St  == View(bag)
StP == View(bag')
Log(act, args) == Emit([from |-> St, act |-> act, args |-> args, to |-> StP])

Init == bag = <<>>

(* symmetry reduction: the first record added uses the canonical seqid /       *)
(* biotype / name (the columns are interchangeable values; queries still       *)
(* range over all values, so match / mismatch / absent are all exercised)      *)
CanonOK(r) == (CanonFirst /\ bag = <<>>) =>
                  (r.seqid = CanonSeqid /\ r.biotype = CanonBiotype /\ r.name = CanonName)

(* add_feature(seqid, biotype, name, spans, strand, attributes): inp.spans is  *)
(* what the caller passes (possibly unsorted)                                  *)
AddFeatureT(inp) ==
    /\ Len(bag) < MaxRecs
    /\ bag' = Append(bag, [inp EXCEPT !.spans = Normalise(inp.spans)])
AddFeature(inp, ord) == AddFeatureT(inp) /\ Log("AddFeature", <<inp, ord>>)

(* one feature of a GFF / GenBank file: row.coords are 1-based closed          *)
(* first..last pairs (one line / one join() segment each), in file order       *)
RowRecord(row) ==
    Rec("ext", row.seqid, row.biotype, row.name, row.strand, row.attr,
        Normalise([i \in DOMAIN row.coords |-> HalfOpen(row.coords[i])]))
AddRowT(row) ==
    /\ Len(bag) < MaxRecs
    /\ bag' = Append(bag, RowRecord(row))
AddRow(row, ord) == AddRowT(row) /\ Log("AddRow", <<row, ord>>)

UserInput(r, ord) ==
    IF ord = "fwd" THEN r
    ELSE [r EXCEPT !.spans = Reverse([i \in DOMAIN r.spans |-> Flip(r.spans[i])])]
RowOf(r, ord) ==
    LET c == [i \in DOMAIN r.spans |-> <<r.spans[i][1] + 1, r.spans[i][2]>>] IN
    [seqid |-> r.seqid, biotype |-> r.biotype, name |-> r.name, strand |-> r.strand,
     attr |-> r.attr, coords |-> IF ord = "fwd" THEN c ELSE Reverse(c)]
(* the reversed presentation is explored where it differs from the forward one *)
OrdsUser(r) == IF UserInput(r, "rev") = r THEN {"fwd"} ELSE {"fwd", "rev"}
OrdsRow(r)  == IF Len(r.spans) = 1 THEN {"fwd"} ELSE {"fwd", "rev"}

(* get_features_matching / get_records_matching / num_matches / len: the       *)
(* database is unchanged; obs = positions of the records a linear scan selects *)
QueryT(q) == UNCHANGED bag
Query(q) == QueryT(q) /\ Emit([from |-> St, act |-> "Query", args |-> <<q>>, obs |-> MatchIdx(bag, q)])

(* --- further read-only calls (enabled per configuration through Ops) --------- *)
(* a column constrained to a LIST of values (biotype=("CDS","mRNA"), also seqid  *)
(* and name): the records whose value is one of the list, AND the rest of q      *)
ListFields == {"seqid", "biotype", "name"}
DomainOf(f) == CASE f = "seqid" -> Seqids [] f = "biotype" -> Biotypes [] f = "name" -> Names
ListArgs == {fv \in ListFields \X (SUBSET (Seqids \cup Biotypes \cup Names)) :
                fv[2] \subseteq DomainOf(fv[1]) /\ Cardinality(fv[2]) = 2}
MatchesList(r, q, f, vs) == Matches(r, q) /\ r[f] \in vs
QueryList(q, f, vs) ==
    /\ UNCHANGED bag
    /\ Emit([from |-> St, act |-> "QueryList", args |-> <<q, f, vs>>,
             obs |-> SelectSeq([i \in DOMAIN bag |-> i], LAMBDA i : MatchesList(bag[i], q, f, vs))])

(* the REPRESENTATION of an argument never matters: a window position given as  *)
(* a numpy integer (e.g. taken from spans the database returned) or a text value *)
(* given as numpy.str_ selects exactly what the plain int / str selects          *)
CoordReps == {"int64", "int32", "uint8"}
QueryRep(q, rep) ==
    /\ UNCHANGED bag
    /\ Emit([from |-> St, act |-> "QueryRep", args |-> <<q, rep>>, obs |-> MatchIdx(bag, q)])

(* count_distinct(seqid=, biotype=, name=): each argument is "no" (False),       *)
(* "group" (True: a column of the result) or a value (a constraint).  The result *)
(* has ONE row per distinct combination of the grouped columns among the         *)
(* selected records, with the number of records carrying it; no grouped column   *)
(* -> None                                                                       *)
CDArgs == [seqid : {"no", "group"} \cup Seqids, biotype : {"no", "group"} \cup Biotypes,
           name : {"no", "group"} \cup Names]
Grouped(c) == {f \in ListFields : c[f] = "group"}
CDSelected(b, c) == SelectSeq(b, LAMBDA r : \A f \in ListFields : c[f] \in {"no", "group"} \/ r[f] = c[f])
KeyOf(r, c) == [f \in Grouped(c) |-> r[f]]
CountRows(b, c) ==
    LET sel == CDSelected(b, c)
        keys == {KeyOf(sel[i], c) : i \in DOMAIN sel}
    IN {[key |-> k, n |-> Cardinality({i \in DOMAIN sel : KeyOf(sel[i], c) = k})] : k \in keys}
CountDistinct(c) ==
    /\ UNCHANGED bag
    /\ Emit([from |-> St, act |-> "CountDistinct", args |-> <<c>>,
             obs |-> [none |-> Grouped(c) = {}, rows |-> IF Grouped(c) = {} THEN {} ELSE CountRows(bag, c)]])

(* describe / biotype_counts: records per seqid, per biotype, per table *)
Tally(b, f) == {[value |-> v, n |-> Cardinality({i \in DOMAIN b : b[i][f] = v})] : v \in {b[i][f] : i \in DOMAIN b}}
Describe ==
    /\ UNCHANGED bag
    /\ Emit([from |-> St, act |-> "Describe", args |-> <<>>,
             obs |-> [seqid |-> Tally(bag, "seqid"), biotype |-> Tally(bag, "biotype"), table |-> Tally(bag, "via")]])

(* subset(q as keyword arguments): a new database holding the selected records *)
SubsetT(q) == bag' = Select(bag, q)
Subset(q) == SubsetT(q) /\ Log("Subset", <<q>>)

(* how the harness builds the *other* database: the Add calls, in order *)
Recipe(o) == [i \in DOMAIN o |->
                IF o[i].via = "user" THEN <<"AddFeature", UserInput(o[i], "fwd"), "fwd">>
                                     ELSE <<"AddRow", RowOf(o[i], "fwd"), "fwd">>]

(* self.union(other): a new database with the records of both *)
UnionT(o) == Len(bag) + Len(o) <= MaxLen /\ bag' = bag \o o
Union(o) == UnionT(o) /\ Log("Union", <<View(o), Recipe(o)>>)

(* self.update(other, seqids=ids): self gains other's records on those seqids *)
Chosen(o, ids) == SelectSeq(o, LAMBDA r : ids = {} \/ r.seqid \in ids)
UpdateT(o, ids) == Len(bag) + Len(o) <= MaxLen /\ bag' = bag \o Chosen(o, ids)
Update(o, ids) == UpdateT(o, ids) /\ Log("Update", <<View(o), Recipe(o), ids>>)

(* deepcopy, pickle round trip, to_json + deserialise, write + open *)
RoundTripKinds == Ops \cap {"Copy", "Pickle", "Json", "WriteLoad"}
RoundTripT(k) == UNCHANGED bag
RoundTrip(k) == RoundTripT(k) /\ Log(k, <<>>)

Next ==
    \/ \E r \in UserRecs : CanonOK(r) /\ \E ord \in OrdsUser(r) : AddFeature(UserInput(r, ord), ord)
    \/ \E r \in ExtRecs : CanonOK(r) /\ \E ord \in OrdsRow(r) : AddRow(RowOf(r, ord), ord)
    \/ \E q \in Queries : Query(q)
    \/ "QueryList" \in Ops /\ \E q \in Queries, fv \in ListArgs : NumCats(q) = 0 /\ QueryList(q, fv[1], fv[2])
    \/ "QueryRep" \in Ops /\ \E q \in Queries :
           \/ q.win # "none" /\ NumCats(q) = 0 /\ \E rep \in CoordReps : QueryRep(q, rep)
           \/ q.win = "none" /\ NumCats(q) > 0 /\ QueryRep(q, "str_")
    \/ "CountDistinct" \in Ops /\ \E c \in CDArgs : CountDistinct(c)
    \/ "Describe" \in Ops /\ Describe
    \/ "Subset" \in Ops /\ \E q \in Queries : NumCats(q) \in SubsetCats /\ Subset(q)
    \/ "Union" \in Ops /\ \E o \in Others : Union(o)
    \/ "Update" \in Ops /\ \E o \in Others, ids \in UpdateSeqids : Update(o, ids)
    \/ \E k \in RoundTripKinds : RoundTrip(k)

Spec == Init /\ [][Next]_vars

------------------------------------------------------------------------------
(* Design-level properties checked by TLC on the model itself.                *)

IsRecord(r) ==
    /\ r.via \in {"user", "ext"} /\ r.seqid \in Seqids /\ r.biotype \in Biotypes
    /\ r.name \in Names /\ r.strand \in Strands /\ r.attr \in Attrs \cup {NoAttr}
    /\ Len(r.spans) \in 1..2 /\ \A k \in DOMAIN r.spans : r.spans[k] \in Pairs
TypeOK == Len(bag) <= MaxLen /\ \A i \in DOMAIN bag : IsRecord(bag[i])

(* what is stored is in normal form, whatever order it was given in *)
StoredNormalised == \A i \in DOMAIN bag : Normalise(bag[i].spans) = bag[i].spans

(* a row's conversion: first..last (closed, 1-based) describes last-first+1    *)
(* positions, the same number the half-open span holds                         *)
ConversionKeepsLength ==
    \A f \in 1..MaxCoord, l \in 1..MaxCoord :
        f <= l => (HalfOpen(<<f, l>>)[2] - HalfOpen(<<f, l>>)[1] = l - f + 1
                   /\ HalfOpen(<<f, l>>)[1] = f - 1)

(* the interval lattice, all (record extent) x (window) pairs:                 *)
(*  - the overlap test used by the oracle is "share a position", defined       *)
(*    independently by enumerating positions;                                  *)
(*  - the transcribed SQL agrees with the oracle on every non-empty window.    *)
SharePosition(s, e, ws, we) == \E x \in Coords : s <= x /\ x < e /\ ws <= x /\ x < we
OverlapIsSharing ==
    \A p \in Pairs, w \in Pairs :
        (p[1] < p[2] /\ w[1] < w[2]) =>
            (Overlaps(p[1], p[2], w[1], w[2]) <=> SharePosition(p[1], p[2], w[1], w[2]))
(* a zero-length record (an insertion point) matches partially iff the point  *)
(* is inside the closed window                                                 *)
ZeroLengthPartialIsInside ==
    \A x \in Coords, w \in Pairs :
        w[1] < w[2] => (Partial(x, x, w[1], w[2]) <=> (w[1] <= x /\ x <= w[2]))
WithinImpliesPartial ==
    \A p \in Pairs, w \in Pairs : Within(p[1], p[2], w[1], w[2]) => Partial(p[1], p[2], w[1], w[2])

WindowQ(kind, ws, we, pa) ==
    [seqid |-> AnyV, biotype |-> AnyV, name |-> AnyV, strand |-> AnyV, attr |-> AnyV,
     win |-> kind, start |-> ws, stop |-> we, partial |-> pa]
OracleWindow(s, e, q) ==
    CASE q.win = "both"  -> IF q.partial THEN Partial(s, e, q.start, q.stop) ELSE Within(s, e, q.start, q.stop)
      [] q.win = "start" -> Contains(s, e, q.start)
      [] q.win = "stop"  -> Contains(s, e, q.stop)
      [] OTHER -> TRUE
LatticeQueries ==
    {WindowQ("both", w[1], w[2], pa) : w \in Pairs, pa \in BOOLEAN}
      \cup {WindowQ("start", x, 0, FALSE) : x \in Coords}
      \cup {WindowQ("stop", 0, x, FALSE) : x \in Coords}
NonEmptyWindow(q) == q.win = "both" /\ q.partial => q.start < q.stop
SqlAgrees ==
    \A p \in Pairs, q \in LatticeQueries :
        NonEmptyWindow(q) => (SqlWindow(p[1], p[2], q) <=> OracleWindow(p[1], p[2], q))
(* NOT expected to hold (vacuity guard for SqlAgrees): on EMPTY windows the    *)
(* clauses and the oracle differ, which is why the oracle excludes them        *)
SqlAgreesEvenOnEmptyWindows ==
    \A p \in Pairs, q \in LatticeQueries : SqlWindow(p[1], p[2], q) <=> OracleWindow(p[1], p[2], q)
(* on the actual lists: clause-by-clause model == linear scan *)
SqlAgreesOnBag == \A i \in DOMAIN bag, q \in Queries : SqlWhere(bag[i], q) <=> Matches(bag[i], q)

(* algebra of the list model *)
SubsetIdempotent == \A q \in Queries : Select(Select(bag, q), q) = Select(bag, q)
QueryDistributesOverUnion ==
    \A o \in Others, q \in Queries : Select(bag \o o, q) = Select(bag, q) \o Select(o, q)
(* laws of the read-only calls: a two-value list selects what the two single     *)
(* values select together; the rows of count_distinct account for every selected *)
(* record exactly once; describe's tallies each sum to the number of records     *)
ListIsUnionOfSingles ==
    \A q \in Queries, fv \in ListArgs :
        (NumCats(q) = 0) =>
            \A i \in DOMAIN bag :
                MatchesList(bag[i], q, fv[1], fv[2]) <=>
                    \E v \in fv[2] : Matches(bag[i], [q EXCEPT ![fv[1]] = v])
SumN(S) == LET RECURSIVE Sum(_)
               Sum(T) == IF T = {} THEN 0 ELSE LET x == CHOOSE y \in T : TRUE IN x.n + Sum(T \ {x})
           IN Sum(S)
CountRowsPartition ==
    \A c \in CDArgs : Grouped(c) # {} => SumN(CountRows(bag, c)) = Len(CDSelected(bag, c))
TalliesSumToLen == \A f \in {"seqid", "biotype", "via"} : SumN(Tally(bag, f)) = Len(bag)

(* no operation invents or alters a record: the new list is the old one,       *)
(* the old one extended, or a sub-list of the old one                          *)
OnlyGrowsOrFilters ==
    [][\/ (Len(bag') >= Len(bag) /\ SubSeq(bag', 1, Len(bag)) = bag)
       \/ (Len(bag') < Len(bag) /\ \A i \in DOMAIN bag' : \E j \in DOMAIN bag : bag'[i] = bag[j])]_vars

(* emitted once per (extent, window): the transcribed clause's verdict, for    *)
(* comparison with the SQL text the real _matching_conditions generates        *)
ClauseProbe ==
    \A p \in Pairs, q \in LatticeQueries :
        Emit([act |-> "Clause", args |-> <<p[1], p[2], q>>, obs |-> SqlWindow(p[1], p[2], q)])
=============================================================================
