SPECIFICATION Spec
CONSTANTS
  Edges = {"a", "b", "c"}
  Vals = {1, 2, 3}
INVARIANT Emitted
INVARIANT AltInherits
