SPECIFICATION Spec
CONSTANTS
  Edges = {"a", "b", "c"}
  Vals = {1, 2, 3}
  LenVals = {0, 2}
INVARIANT Emitted
INVARIANT AltInherits
