\* the transcribed current behaviour against the resume property: TLC is EXPECTED to report a counterexample
SPECIFICATION Spec
CONSTANTS
  N = 3
  NCSets <- NCNone
  Configs <- DirectoryConfigs
INVARIANT ResumeOK
INVARIANT RerunCompletes
