SPECIFICATION Spec
CONSTANT Contents = {1, 2, 3}
CONSTANT Gaps = {1, 2, 3, 4}
CONSTANT MaxCalls = 4
INVARIANT TypeOK
PROPERTY ResultIsForCurrentModel
PROPERTY EditsAreSilent
