------------------------------ MODULE MarkovP ------------------------------
(* Property C05, transition probabilities: for the Tamura-Nei family          *)
(* (TN93 >= HKY85, F81, K80, JC69) exp(Qt) has the published closed form       *)
(*   same group J:  P_ij = pi_j + pi_j (1/Pi_J - 1) e1 + (d_ij - pi_j/Pi_J) eJ *)
(*   other group :  P_ij = pi_j (1 - e1)                                       *)
(* with e1 = exp(-b tau), eR = exp(-(Pi_R kr + Pi_Y) b tau), eY likewise.     *)
(* For the instances below the three exponents are integer multiples n1,nR,nY  *)
(* of one unit, so e1 = q^n1, eR = q^nR, eY = q^nY for a rational q and P is   *)
(* rational.  TLC checks, exactly: rows sum to one, P(q=1) = I, stationarity,  *)
(* detailed balance and Chapman-Kolmogorov P(q1) P(q2) = P(q1 q2).  The        *)
(* harness sets branch length t = -mu n1 ln q (mu: mean rate of the            *)
(* unnormalised Q, emitted) and compares get_psub_for_edge under every expm    *)
(* back-end with these rationals.                                              *)
EXTENDS TN93, TLC, Emit

VARIABLES k, j
vars == <<k, j>>
Init == k = 1 /\ j = 1
StepT == /\ k <= Len(PInstances)
         /\ IF j < Len(Qs) THEN j' = j + 1 /\ k' = k ELSE j' = 1 /\ k' = k + 1
Step == StepT /\ Emit([act |-> "P", name |-> PInstances[k].name, par |-> PInstances[k].par,
                       ky |-> PInstances[k].ky, kr |-> PInstances[k].kr,
                       pi |-> {<<x, Pi(PInstances[k], x)>> : x \in Nuc},
                       mu |-> Mu(PInstances[k]), n1 |-> PInstances[k].n1, q |-> Qs[j],
                       cells |-> {<<x, y, P(PInstances[k], Qs[j])[x][y]>> : x \in Nuc, y \in Nuc}])
Spec == Init /\ [][Step]_vars

Cur == PInstances[IF k <= Len(PInstances) THEN k ELSE Len(PInstances)]
InstancesOK   == ExponentsOK(Cur)
RowStochastic == \A x \in Nuc : RSumSet(Nuc, P(Cur, Qs[j])[x]) = One /\ \A y \in Nuc : RGe0(P(Cur, Qs[j])[x][y])
IdentityAt0   == \A x, y \in Nuc : P(Cur, One)[x][y] = (IF x = y THEN One ELSE Zero)
StationaryP   == \A y \in Nuc : RSumSet(Nuc, [x \in Nuc |-> RMul(Pi(Cur, x), P(Cur, Qs[j])[x][y])]) = Pi(Cur, y)
DetailedBalP  == \A x, y \in Nuc : RMul(Pi(Cur, x), P(Cur, Qs[j])[x][y]) = RMul(Pi(Cur, y), P(Cur, Qs[j])[y][x])
ChapmanKolmogorov ==
    \A a, b \in 2..3 : MatMul(P(Cur, Qs[a]), P(Cur, Qs[b])) = P(Cur, RMul(Qs[a], Qs[b]))
=============================================================================
