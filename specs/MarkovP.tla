------------------------------ MODULE MarkovP ------------------------------
(* Property C05, transition probabilities: for the Tamura-Nei family          *)
(* (TN93 >= HKY85, F81, K80, JC69) exp(Qt) has the published closed form       *)
(*   same group J:  P_ij = pi_j + pi_j (1/Pi_J - 1) e1 + (d_ij - pi_j/Pi_J) eJ *)
(*   other group :  P_ij = pi_j (1 - e1)                                       *)
(* with e1 = exp(-b tau), eR = exp(-(Pi_R kr + Pi_Y) b tau), eY likewise.     *)
(* For the instances below the three exponents are integer multiples n1,nR,nY  *)
(* of one unit, so e1 = q^n1, eR = q^nR, eY = q^nY for a rational q and P is   *)
(* rational.  TLC checks, exactly: rows sum to one, P(q=1) = I, stationarity,  *)
(* detailed balance and Chapman-Kolmogorov P(q1) P(q2) = P(q1 q2).  The        *)
(* harness sets branch length t = -mu n1 ln q (mu: mean rate of the            *)
(* unnormalised Q, emitted) and compares get_psub_for_edge under every expm    *)
(* back-end with these rationals.                                              *)
EXTENDS Rational, TLC, Emit

Nuc == {"T", "C", "A", "G"}
Grp(x) == IF x \in {"A", "G"} THEN "R" ELSE "Y"

(* instance: name, pi (integers t,c,a,g over their sum), kappa_y, kappa_r, exponents n1,nR,nY *)
I(name, t, c, a, g, ky, kr, n1, nR, nY, par) ==
    [name |-> name, w |-> [x \in Nuc |-> CASE x = "T" -> t [] x = "C" -> c [] x = "A" -> a [] x = "G" -> g],
     ky |-> ky, kr |-> kr, n1 |-> n1, nR |-> nR, nY |-> nY, par |-> par]

PInstances == <<
    I("JC69",  1, 1, 1, 1, R(1,1), R(1,1), 1, 1, 1, "none"),
    I("K80",   1, 1, 1, 1, R(3,1), R(3,1), 1, 2, 2, "kappa"),
    I("F81",   1, 2, 3, 4, R(1,1), R(1,1), 1, 1, 1, "none"),
    I("HKY85", 1, 2, 1, 2, R(3,1), R(3,1), 1, 2, 2, "kappa"),
    I("TN93",  1, 2, 1, 2, R(5,1), R(3,1), 1, 2, 3, "kappa_y,kappa_r"),
    I("TN93",  1, 1, 2, 2, R(4,1), R(4,1), 1, 3, 2, "kappa_y,kappa_r")
>>
Qs == <<R(1,1), R(1,2), R(1,3), R(2,3)>>

Tot(m) == m.w["T"] + m.w["C"] + m.w["A"] + m.w["G"]
Pi(m, x) == R(m.w[x], Tot(m))
PiG(m, G) == RSumSet({x \in Nuc : Grp(x) = G}, [x \in Nuc |-> Pi(m, x)])
Kap(m, x, y) == IF Grp(x) # Grp(y) THEN One ELSE IF Grp(x) = "R" THEN m.kr ELSE m.ky

(* the exponents really are n1 : nR : nY (design-level sanity of the instance table) *)
ExpR(m) == RAdd(RMul(PiG(m, "R"), m.kr), PiG(m, "Y"))
ExpY(m) == RAdd(RMul(PiG(m, "Y"), m.ky), PiG(m, "R"))
ExponentsOK(m) == /\ RMul(ExpR(m), R(m.n1, 1)) = R(m.nR, 1)
                  /\ RMul(ExpY(m), R(m.n1, 1)) = R(m.nY, 1)

Mu(m) == RSumSet(Nuc, [x \in Nuc |-> RMul(Pi(m, x),
              RSumSet(Nuc \ {x}, [y \in Nuc |-> RMul(Kap(m, x, y), Pi(m, y))]))])

P(m, q) ==
    LET e1 == RPow(q, m.n1)
        eG == [G \in {"R", "Y"} |-> IF G = "R" THEN RPow(q, m.nR) ELSE RPow(q, m.nY)]
    IN  [x \in Nuc |-> [y \in Nuc |->
            IF Grp(x) = Grp(y)
            THEN LET PJ == PiG(m, Grp(y))
                 IN  RAdd(RAdd(Pi(m, y), RMul(RMul(Pi(m, y), RSub(RInv(PJ), One)), e1)),
                          RMul(RSub(IF x = y THEN One ELSE Zero, RDiv(Pi(m, y), PJ)), eG[Grp(y)]))
            ELSE RMul(Pi(m, y), RSub(One, e1))]]

MatMul(A, B) == [x \in Nuc |-> [y \in Nuc |-> RSumSet(Nuc, [z \in Nuc |-> RMul(A[x][z], B[z][y])])]]

VARIABLES k, j
vars == <<k, j>>
Init == k = 1 /\ j = 1
StepT == /\ k <= Len(PInstances)
         /\ IF j < Len(Qs) THEN j' = j + 1 /\ k' = k ELSE j' = 1 /\ k' = k + 1
Step == StepT /\ Emit([act |-> "P", name |-> PInstances[k].name, par |-> PInstances[k].par,
                       ky |-> PInstances[k].ky, kr |-> PInstances[k].kr,
                       pi |-> {<<x, Pi(PInstances[k], x)>> : x \in Nuc},
                       mu |-> Mu(PInstances[k]), n1 |-> PInstances[k].n1, q |-> Qs[j],
                       cells |-> {<<x, y, P(PInstances[k], Qs[j])[x][y]>> : x \in Nuc, y \in Nuc}])
Spec == Init /\ [][Step]_vars

Cur == PInstances[IF k <= Len(PInstances) THEN k ELSE Len(PInstances)]
InstancesOK   == ExponentsOK(Cur)
RowStochastic == \A x \in Nuc : RSumSet(Nuc, P(Cur, Qs[j])[x]) = One /\ \A y \in Nuc : RGe0(P(Cur, Qs[j])[x][y])
IdentityAt0   == \A x, y \in Nuc : P(Cur, One)[x][y] = (IF x = y THEN One ELSE Zero)
StationaryP   == \A y \in Nuc : RSumSet(Nuc, [x \in Nuc |-> RMul(Pi(Cur, x), P(Cur, Qs[j])[x][y])]) = Pi(Cur, y)
DetailedBalP  == \A x, y \in Nuc : RMul(Pi(Cur, x), P(Cur, Qs[j])[x][y]) = RMul(Pi(Cur, y), P(Cur, Qs[j])[y][x])
ChapmanKolmogorov ==
    \A a, b \in 2..3 : MatMul(P(Cur, Qs[a]), P(Cur, Qs[b])) = P(Cur, RMul(Qs[a], Qs[b]))
=============================================================================
