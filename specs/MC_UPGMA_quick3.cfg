SPECIFICATION Spec
CONSTANTS
  N = 3
  Heights = {1, 2, 3}
INVARIANT TypeOK
INVARIANT Recovered
INVARIANT ImplAgrees
INVARIANT SiblingLemma
INVARIANT PositiveLengths
