------------------------------ MODULE RefMerge ------------------------------
(* Property C18, reference-based alignment: merging pairwise alignments of a   *)
(* reference with several other sequences into one multiple alignment must     *)
(* KEEP each sequence's pairwise alignment with the reference:                 *)
(*   Valid(msa) == for every other sequence i, deleting from (msa[ref], msa[i]) *)
(*                 the columns where both are gaps gives exactly (ref_i, seq_i),*)
(*                 every row degaps to its sequence, rows have equal length.    *)
(* TLC enumerates every set of pairwise gap layouts within the bounds (the      *)
(* inputs); the real pairwise_to_multiple is run on each; Trace_RefMerge        *)
(* evaluates Valid on the real outputs.                                         *)
EXTENDS Naturals, Sequences, FiniteSets, TLC, Emit

CONSTANTS RefLen, NOthers, MaxIns

(* a pairwise layout: sequence over M (both), X (reference residue vs gap), Y (insertion vs gap in reference) *)
RECURSIVE Layouts(_, _, _)
Layouts(refleft, insleft, maxlen) ==
    IF maxlen = 0 THEN (IF refleft = 0 THEN {<<>>} ELSE {})
    ELSE (IF refleft = 0 THEN {<<>>} ELSE {})
         \cup (IF refleft > 0 THEN {<<"M">> \o t : t \in Layouts(refleft - 1, insleft, maxlen - 1)} ELSE {})
         \cup (IF refleft > 0 THEN {<<"X">> \o t : t \in Layouts(refleft - 1, insleft, maxlen - 1)} ELSE {})
         \cup (IF insleft > 0 THEN {<<"Y">> \o t : t \in Layouts(refleft, insleft - 1, maxlen - 1)} ELSE {})
(* complete layouts: all reference residues consumed, at least one residue of the other sequence *)
AllLayouts == {p \in Layouts(RefLen, MaxIns, RefLen + MaxIns) :
                 /\ Cardinality({c \in 1..Len(p) : p[c] \in {"M", "X"}}) = RefLen
                 /\ \E c \in 1..Len(p) : p[c] \in {"M", "Y"}}

VARIABLES lay   \* lay[i]: layout of other sequence i against the reference
vars == <<lay>>
Init == lay \in [1..NOthers -> AllLayouts]
Next == FALSE /\ UNCHANGED vars
Spec == Init /\ [][Next]_vars
Emitted == Emit([act |-> "RefMerge", layouts |-> lay])

------------------------------------------------------------------------------
(* the relation, on concrete rows (sequences of one-character strings, "-" = gap) *)
Degap(row) == SelectSeq(row, LAMBDA x : x # "-")
RECURSIVE DropBothGaps(_, _)
DropBothGaps(a, b) ==
    IF a = <<>> THEN <<>>
    ELSE IF Head(a) = "-" /\ Head(b) = "-" THEN DropBothGaps(Tail(a), Tail(b))
    ELSE <<<<Head(a), Head(b)>>>> \o DropBothGaps(Tail(a), Tail(b))
Zip(a, b) == [c \in 1..Len(a) |-> <<a[c], b[c]>>]

(* case: [ref: row, pairs: seq of [refrow, seqrow], msa: [refrow, rows: seq of row]] *)
Valid(case) ==
    /\ \A i \in 1..Len(case.pairs) :
          /\ Len(case.msa.rows[i]) = Len(case.msa.refrow)
          /\ DropBothGaps(case.msa.refrow, case.msa.rows[i]) = Zip(case.pairs[i].refrow, case.pairs[i].seqrow)
          /\ Degap(case.msa.rows[i]) = Degap(case.pairs[i].seqrow)
    /\ Degap(case.msa.refrow) = case.ref
=============================================================================
