SPECIFICATION CSpec
CONSTANTS
  Tips = {"a", "b", "c", "d"}
  SMod = 9
  SRem = 1
  FMod = 2
INVARIANT MajorityIsCompatible
INVARIANT GreedyExtendsStrict
INVARIANT ConsensusIsATree
INVARIANT ConsensusOfCopies
INVARIANT UnrootedIgnoresRoot
