SPECIFICATION Spec
CONSTANTS
  TableCodes = {}
  SeqCodes = {1, 2}
  MaxLen = 0
  OptLen = 0
  MaxCodons = 0
  PairCodons = 0
  OrfFamily = FALSE
  LongLens = {765, 768, 770, 771, 900, 3000, 65535, 65536, 65537, 196605, 196608, 196610}
  SymLen = 0
INVARIANT TypeOK
INVARIANT RcInvolution
INVARIANT ComplementLaws
INVARIANT ComplementRcLaw
INVARIANT ReprIndependent
INVARIANT EncodeResolveInverse
INVARIANT SixFrameLaw
INVARIANT AnticodonFrameLaw
INVARIANT StopLaws
INVARIANT UniqueFrameFamily
INVARIANT LongLaw
INVARIANT CodonLaw
