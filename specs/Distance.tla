------------------------------ MODULE Distance ------------------------------
(* Pairwise distance statistics of an alignment: property C15                  *)
(* (cogent3.evolve.fast_distance: fill_diversity_matrix, _hamming,            *)
(*  _PairwiseDistance.run / _expand; the *Pair calculators;                   *)
(*  Alignment.distance_matrix; app.dist.fast_slow_dist).                      *)
(*                                                                            *)
(* State: an alignment aln[s][c] of NSeq sequences over Syms.  The oracle is  *)
(* the integer 4x4 count matrix of a pair over the columns in which BOTH      *)
(* symbols are canonical nucleotides ("valid positions": a column with a gap, *)
(* an ambiguity code or a missing-data symbol in either sequence is skipped   *)
(* for that pair only), from which                                            *)
(*      total = number of valid columns, diff = columns with x # y,           *)
(*      p = diff / total (exact rational), hamming = diff,                    *)
(*      JC69 is defined iff total > 0 and 4 diff < 3 total.                   *)
(* The closed forms (JC69, TN93, paralinear, LogDet) need ln and det: the     *)
(* harness applies the published formula to the count matrix emitted here.    *)
(*                                                                            *)
(* Design-level properties (TLC): symmetry, zero diagonal, independence of    *)
(* the column order (all permutations), and the relation between the direct   *)
(* computation and the duplicate-sequence shortcut of the implementation      *)
(* (run/_expand, transcribed below): they agree on every alignment.  The      *)
(* record emitted for each alignment says for every pair where the shortcut   *)
(* takes its value from, so that the harness can attribute a disagreement of  *)
(* the real code to it.                                                       *)
EXTENDS NJTrees, Emit

CONSTANTS NSeq,       \* number of sequences
          NCol,       \* number of columns (Mode = "all")
          Syms,       \* alphabet, Canon \subseteq Syms
          Mode,       \* "all": every alignment NSeq x NCol over Syms
                      \* "blocks": two sequences given by a count matrix (DiagSet x OffSize x
                      \*           OffMults) plus one of NCBlocks of non-canonical columns
          DiagSet,    \* set of <<nAA, nCC, nGG, nTT>>
          OffSize,    \* subsets of at most this many off-diagonal cells
          OffMults,   \* multiplicity given to the chosen off-diagonal cells
          NCBlocks    \* set of sequences of columns <<x, y>> holding a non-canonical symbol

VARIABLES aln,    \* [Seqs -> sequence of symbols]
          base    \* Mode = "blocks": <<diagonal, multiplicity, non-canonical block>> the alignment is built on
vars == <<aln, base>>

CanonSeq == <<"A", "C", "G", "T">>
Canon == {"A", "C", "G", "T"}
Seqs == 1..NSeq
Cols(a) == 1..Len(a[1])

(* ---- the oracle ------------------------------------------------------------------ *)
ValidCols(a, i, j) == {c \in Cols(a) : a[i][c] \in Canon /\ a[j][c] \in Canon}
Count(a, i, j) == LET v == ValidCols(a, i, j)
                  IN [x \in Canon |-> [y \in Canon |->
                        Cardinality({c \in v : a[i][c] = x /\ a[j][c] = y})]]
Total(a, i, j) == Cardinality(ValidCols(a, i, j))
Diff(a, i, j) == Cardinality({c \in ValidCols(a, i, j) : a[i][c] # a[j][c]})
Undef == <<0, 0>>
P(a, i, j) == IF Total(a, i, j) = 0 THEN Undef ELSE Reduce(<<Diff(a, i, j), Total(a, i, j)>>)
JCDefined(a, i, j) == Total(a, i, j) > 0 /\ 4 * Diff(a, i, j) < 3 * Total(a, i, j)

(* ---- the exact boundary of each estimator's domain ------------------------------------- *)
(* Every closed form is a sum of logarithms; with exact counts the SIGN of each log         *)
(* argument is decidable.  A pair is "defined" when every argument is > 0, on the           *)
(* "boundary" when the smallest argument is exactly 0, "outside" when one is < 0; boundary   *)
(* and outside pairs are both INVALID (nan / ArithmeticError / dropped by drop_invalid):    *)
(* ln 0 is not a distance.  "undefined" = no valid column; "degenerate" = a coefficient of  *)
(* the formula is 0/0 (outcome left open by the property).                                  *)
Classify(nums) == IF \A k \in DOMAIN nums : nums[k] > 0 THEN "defined"
                  ELSE IF \E k \in DOMAIN nums : nums[k] < 0 THEN "outside" ELSE "boundary"

(* JC69: 1 - 4p/3 = (3 total - 4 diff) / (3 total) *)
JCClass(a, i, j) == IF Total(a, i, j) = 0 THEN "undefined"
                    ELSE Classify(<<3 * Total(a, i, j) - 4 * Diff(a, i, j)>>)

(* TN93 (Tamura & Nei 1993 eq. 7) with s[x] = row + column total of x (g[x] = s[x] / 2n):   *)
(*   1 - gR P1/(2 gA gG) - Q/(2 gR) = (sA sG sR - t1 sR^2 - tv sA sG) / (sA sG sR)           *)
(*   1 - gY P2/(2 gC gT) - Q/(2 gY) = (sC sT sY - t2 sY^2 - tv sC sT) / (sC sT sY)           *)
(*   1 - Q/(2 gR gY)                = (sR sY - 2 n tv) / (sR sY)                             *)
TNNums(c, n) ==
    LET s  == [x \in Canon |-> SumF(Canon, c[x]) + SumF(Canon, [y \in Canon |-> c[y][x]])]
        sR == s["A"] + s["G"]
        sY == s["C"] + s["T"]
        t1 == c["A"]["G"] + c["G"]["A"]
        t2 == c["C"]["T"] + c["T"]["C"]
        tv == n - t1 - t2 - SumF(Canon, [x \in Canon |-> c[x][x]])
    IN [s |-> s,
        nums |-> <<s["A"] * s["G"] * sR - t1 * sR * sR - tv * s["A"] * s["G"],
                   s["C"] * s["T"] * sY - t2 * sY * sY - tv * s["C"] * s["T"],
                   sR * sY - 2 * n * tv>>]
TNClass(a, i, j) ==
    IF Total(a, i, j) = 0 THEN "undefined"
    ELSE LET t == TNNums(Count(a, i, j), Total(a, i, j))
         IN IF \E x \in Canon : t.s[x] = 0 THEN "degenerate" ELSE Classify(t.nums)

(* paralinear / LogDet: ln det J, J = counts / n, so the sign is that of the integer         *)
(* determinant of the count matrix (only with all four diagonal counts > 0: otherwise the    *)
(* implementation substitutes pseudo-counts, which is not a published estimator)             *)
Perm4 == {f \in [1..4 -> 1..4] : \A x, y \in 1..4 : f[x] = f[y] => x = y}
Inversions(f) == Cardinality({p \in (1..4) \X (1..4) : p[1] < p[2] /\ f[p[1]] > f[p[2]]})
Det4(m) ==      \* m: [1..4 -> [1..4 -> Int]]
    LET term(f) == (IF Inversions(f) % 2 = 0 THEN 1 ELSE -1) * m[1][f[1]] * m[2][f[2]] * m[3][f[3]] * m[4][f[4]]
    IN SumF(Perm4, [f \in Perm4 |-> term(f)])
CountSeq(c) == [x \in 1..4 |-> [y \in 1..4 |-> c[CanonSeq[x]][CanonSeq[y]]]]
DetClass(a, i, j) ==
    IF Total(a, i, j) = 0 THEN "undefined"
    ELSE LET c == Count(a, i, j)
         IN IF \E x \in Canon : c[x][x] = 0 THEN "degenerate" ELSE Classify(<<Det4(CountSeq(c))>>)

EstClass(est, a, i, j) ==
    CASE est = "pdist" -> IF Total(a, i, j) = 0 THEN "undefined" ELSE "defined"
      [] est = "jc69"  -> JCClass(a, i, j)
      [] est = "tn93"  -> TNClass(a, i, j)
      [] est = "det"   -> DetClass(a, i, j)
Estimators == {"pdist", "jc69", "tn93", "det"}
Invalid(cl) == cl \in {"undefined", "boundary", "outside"}
(* drop_invalid: every sequence that takes part in an invalid pair is dropped *)
DroppedSeqs(est, a) == {s \in Seqs : \E t \in Seqs \ {s} :
                           Invalid(EstClass(est, a, IF s < t THEN s ELSE t, IF s < t THEN t ELSE s))}

(* ---- scale-freeness ---------------------------------------------------------------------- *)
(* Every estimator is a function of the count matrix alone, and of its PROPORTIONS only:     *)
(* multiplying the whole count matrix by k (the same alignment repeated k times, a genome    *)
(* scale alignment of the same composition) changes neither the class nor, for a defined     *)
(* pair, the value.  The classes restated on a count matrix c:                                *)
CTotal(c) == SumF(Canon, [x \in Canon |-> SumF(Canon, c[x])])
CDiff(c) == CTotal(c) - SumF(Canon, [x \in Canon |-> c[x][x]])
ClassC(est, c) ==
    LET n == CTotal(c) IN
    IF n = 0 THEN "undefined"
    ELSE CASE est = "pdist" -> "defined"
           [] est = "jc69"  -> Classify(<<3 * n - 4 * CDiff(c)>>)
           [] est = "tn93"  -> LET t == TNNums(c, n)
                               IN IF \E x \in Canon : t.s[x] = 0 THEN "degenerate" ELSE Classify(t.nums)
           [] est = "det"   -> IF \E x \in Canon : c[x][x] = 0 THEN "degenerate"
                               ELSE Classify(<<Det4(CountSeq(c))>>)
Scaled(c, k) == [x \in Canon |-> [y \in Canon |-> k * c[x][y]]]
ScaleKs == {2, 3}

(* what every estimator is a function of *)
Stat(a, i, j) == [cnt |-> Count(a, i, j), total |-> Total(a, i, j), diff |-> Diff(a, i, j)]
Direct(a) == [p \in {q \in Seqs \X Seqs : q[1] < q[2]} |-> Count(a, p[1], p[2])]   \* total, diff, p follow from it

(* ---- the duplicate-sequence shortcut of _PairwiseDistance.run / _expand --------------- *)
(* A later sequence j is declared a duplicate of i when the two index arrays are equal:    *)
(* the same canonical symbol, or a non-canonical symbol in both, at every position.  It is  *)
(* then left out and its distances are copied from i afterwards.  (Before the repair of     *)
(* C15 the test was "no difference observed on the valid columns", Diff(a, i, j) = 0, which *)
(* copies wrong values when gaps / ambiguity codes are present.)                            *)
SameIndexed(a, i, j) == \A c \in Cols(a) : a[i][c] = a[j][c] \/ (a[i][c] \notin Canon /\ a[j][c] \notin Canon)

RECURSIVE ScanDupes(_, _, _, _)       \* the double loop of run(): returns alias = [dup -> kept]
ScanDupes(a, i, j, alias) ==
    IF i >= NSeq THEN alias
    ELSE IF i \in DOMAIN alias \/ j > NSeq THEN ScanDupes(a, i + 1, i + 2, alias)
    ELSE IF j \in DOMAIN alias THEN ScanDupes(a, i, j + 1, alias)
    ELSE IF SameIndexed(a, i, j) THEN ScanDupes(a, i, j + 1, alias @@ (j :> i))
    ELSE ScanDupes(a, i, j + 1, alias)
Alias(a) == ScanDupes(a, 1, 2, <<>>)

(* a value of the pairwise table: <<i, j>> = "computed on the pair i, j", Zero, None *)
Zero == <<0, 0>>
None == <<0, 1>>
RECURSIVE ExpandFrom(_, _, _)         \* _expand: redundants in order of (kept, dup)
ExpandFrom(alias, todo, pw) ==
    IF todo = <<>> THEN pw
    ELSE LET add == Head(todo)
             al  == alias[add]
             val(name) == IF name = al THEN Zero ELSE pw[<<al, name>>]
             pw2 == [p \in Seqs \X Seqs |->
                        IF p[1] = add /\ p[2] # add THEN val(p[2])
                        ELSE IF p[2] = add /\ p[1] # add THEN val(p[1])
                        ELSE pw[p]]
         IN ExpandFrom(alias, Tail(todo), pw2)

RECURSIVE SortedBy(_, _)              \* dups ordered by (kept, dup)
SortedBy(S, alias) ==
    IF S = {} THEN <<>>
    ELSE LET m == CHOOSE x \in S : \A y \in S : alias[x] < alias[y] \/ (alias[x] = alias[y] /\ x <= y)
         IN <<m>> \o SortedBy(S \ {m}, alias)

Shortcut(a) ==
    LET alias == Alias(a)
        D == DOMAIN alias
        pw0 == [p \in Seqs \X Seqs |->
                   IF p[1] # p[2] /\ p[1] \notin D /\ p[2] \notin D THEN p ELSE None]
    IN ExpandFrom(alias, SortedBy(D, alias), pw0)

(* the shortcut reproduces the directly computed statistics; 0 is exact for sequences     *)
(* without an observed difference and, by identity, for equal sequences even when they     *)
(* share no valid column                                                                   *)
ShortcutExactT(a, tab, i, j) ==
    LET v == tab[<<i, j>>]
    IN IF v = Zero THEN (Total(a, i, j) > 0 /\ Diff(a, i, j) = 0) \/ SameIndexed(a, i, j)
       ELSE IF v = None THEN FALSE
       ELSE Stat(a, v[1], v[2]) = Stat(a, i, j) \/ Stat(a, v[2], v[1]) = Stat(a, i, j)
            \* (the table is filled symmetrically; every estimator is symmetric in the pair)

ShortcutExact(a, i, j) == ShortcutExactT(a, Shortcut(a), i, j)

AllCanonical(a) == \A s \in Seqs : \A c \in Cols(a) : a[s][c] \in Canon

(* ---- alignments --------------------------------------------------------------------- *)
Rep(x, k) == [i \in 1..k |-> x]
OffCells == {c \in Canon \X Canon : c[1] # c[2]}
OffSubsets == {S \in SUBSET OffCells : Cardinality(S) <= OffSize}
Idx(x) == CHOOSE k \in 1..4 : CanonSeq[k] = x
RECURSIVE CellSeqI(_)
CellSeqI(S) == IF S = {} THEN <<>>
               ELSE LET c == CHOOSE x \in S : \A y \in S :
                               Idx(x[1]) < Idx(y[1]) \/ (Idx(x[1]) = Idx(y[1]) /\ Idx(x[2]) <= Idx(y[2]))
                    IN <<c>> \o CellSeqI(S \ {c})
RECURSIVE Concat(_, _)                \* cells: sequence of <<x, y, k>>; row r
Concat(cells, r) == IF cells = <<>> THEN <<>>
                    ELSE Rep(Head(cells)[r], Head(cells)[3]) \o Concat(Tail(cells), r)
BlockAln(dg, off, m, nc) ==
    LET cells == [k \in 1..4 |-> <<CanonSeq[k], CanonSeq[k], dg[k]>>]
                 \o [k \in 1..Cardinality(off) |-> <<CellSeqI(off)[k][1], CellSeqI(off)[k][2], m>>]
                 \o [k \in 1..Len(nc) |-> <<nc[k][1], nc[k][2], 1>>]
    IN <<Concat(cells, 1), Concat(cells, 2)>>

(* constants of the "blocks" configurations (a cfg file cannot hold tuples) *)
DiagQuick == {<<3, 3, 3, 3>>, <<5, 2, 4, 1>>, <<2, 0, 3, 1>>, <<2, 0, 0, 0>>}   \* the last one reaches p = 3/4 exactly
DiagThorough == DiagQuick \cup {<<1, 1, 1, 1>>, <<1, 4, 2, 6>>, <<9, 7, 8, 6>>}
(* profiles around which small off-diagonal sets land EXACTLY on a domain boundary:          *)
(* AAGGCCTT / GAGACCTT (TN93 purine term), AGCT / CGAT (TN93 transversion term),              *)
(* two equal rows (determinant 0), p = 3/4 (JC69)                                             *)
DiagBoundary == {<<1, 2, 1, 2>>, <<2, 1, 2, 1>>, <<0, 0, 1, 1>>, <<1, 1, 1, 1>>, <<2, 0, 0, 0>>, <<2, 2, 2, 2>>,
                 <<1, 3, 1, 3>>, <<3, 1, 3, 1>>}    \* the last two: 1 - 3/4 - 1/4 etc. round to a few ulp above 0 in floating point
(* with three off-diagonal cells of weight 3 this profile holds the singular matrix          *)
(* [[3,3,3,0],[0,1,0,0],[3,0,3,0],[0,0,0,1]] whose floating point determinant is not 0       *)
DiagSingular == {<<3, 1, 3, 1>>}
NCNone == {<<>>}
NCSome == {<<>>, <<<<"N", "A">>, <<"C", "-">>, <<"R", "G">>, <<"-", "-">>, <<"T", "R">>, <<"N", "N">>>>}

(* ---- behaviour: build an alignment, measure every alignment met ------------------------------ *)
(* Mode "all": start from no columns, append any column; every alignment of 1..NCol columns   *)
(* is reached exactly once.  Mode "blocks": start from a diagonal profile, add a set of        *)
(* off-diagonal cells.                                                                         *)
Init == IF Mode = "all"
        THEN aln = [s \in Seqs |-> <<>>] /\ base = <<>>
        ELSE \E dg \in DiagSet, m \in OffMults, nc \in NCBlocks :
                aln = BlockAln(dg, {}, m, nc) /\ base = <<dg, m, nc>>

PairList == {p \in Seqs \X Seqs : p[1] < p[2]}
Measured(a) ==
    LET tab == Shortcut(a) IN
    [seqs |-> a,
     pairs |-> {[i |-> p[1], j |-> p[2],
                 cnt |-> LET c == Count(a, p[1], p[2])
                         IN [x \in 1..4 |-> [y \in 1..4 |-> c[CanonSeq[x]][CanonSeq[y]]]],
                 total |-> Total(a, p[1], p[2]),
                 diff |-> Diff(a, p[1], p[2]),
                 jc |-> JCDefined(a, p[1], p[2]),
                 cls |-> [est \in Estimators |-> EstClass(est, a, p[1], p[2])],
                 src |-> tab[p],
                 exact |-> ShortcutExactT(a, tab, p[1], p[2]),
                 same |-> SameIndexed(a, p[1], p[2])] : p \in PairList},
     dropped |-> [est \in Estimators |-> DroppedSeqs(est, a)],
     canonical |-> AllCanonical(a)]

AddColumnT(col) == /\ Mode = "all" /\ Len(aln[1]) < NCol
                   /\ aln' = [s \in Seqs |-> Append(aln[s], col[s])]
                   /\ UNCHANGED base
AddColumn(col) == /\ AddColumnT(col)
                  /\ Emit([from |-> [seqs |-> aln], act |-> "AddColumn", args |-> <<col>>,
                           to |-> Measured(aln')])

AddOffT(off) == /\ Mode = "blocks" /\ aln = BlockAln(base[1], {}, base[2], base[3])
                /\ aln' = BlockAln(base[1], off, base[2], base[3])
                /\ UNCHANGED base
AddOff(off) == /\ AddOffT(off)
               /\ Emit([from |-> [seqs |-> aln], act |-> "AddOff", args |-> <<off>>,
                        to |-> Measured(aln')])

Next == \/ \E col \in [Seqs -> Syms] : AddColumn(col)
        \/ \E off \in OffSubsets : AddOff(off)
Spec == Init /\ [][Next]_vars

(* ---- design-level properties ---------------------------------------------------------------- *)
Symmetric == \A i, j \in Seqs : i <= j =>
                /\ Total(aln, i, j) = Total(aln, j, i)
                /\ Diff(aln, i, j) = Diff(aln, j, i)
                /\ P(aln, i, j) = P(aln, j, i)
                /\ LET cij == Count(aln, i, j)
                       cji == Count(aln, j, i)
                   IN \A x, y \in Canon : cij[x][y] = cji[y][x]

ZeroDiagonal == \A i \in Seqs : Diff(aln, i, i) = 0

(* the class and the exact proportion do not depend on the scale of the count matrix *)
ScaleInvariant ==
    \A i, j \in Seqs : i < j =>
        LET c == Count(aln, i, j) IN
        \A est \in Estimators :
            /\ ClassC(est, c) = EstClass(est, aln, i, j)
            /\ \A k \in ScaleKs :
                  /\ ClassC(est, Scaled(c, k)) = ClassC(est, c)
                  /\ CTotal(c) > 0 => Reduce(<<CDiff(Scaled(c, k)), CTotal(Scaled(c, k))>>) = P(aln, i, j)

(* the domain classification does not depend on the order of the pair, and agrees with JCDefined *)
ClassesSymmetric == \A i, j \in Seqs : i < j =>
                       /\ \A est \in Estimators : EstClass(est, aln, i, j) = EstClass(est, aln, j, i)
                       /\ JCDefined(aln, i, j) <=> JCClass(aln, i, j) = "defined"

Perms(S) == {f \in [S -> S] : \A x, y \in S : f[x] = f[y] => x = y}
Permuted(a, f) == [s \in Seqs |-> [c \in Cols(a) |-> a[s][f[c]]]]
ColumnOrderFree ==
    Mode = "all" =>
        LET dir == Direct(aln) IN \A f \in Perms(Cols(aln)) : Direct(Permuted(aln, f)) = dir

(* the shortcut is the direct computation, on every alignment *)
ShortcutSound ==
    Len(aln[1]) > 0 => LET tab == Shortcut(aln) IN \A p \in PairList : ShortcutExactT(aln, tab, p[1], p[2])
(* the shortcut never changes a pair of two kept sequences *)
ShortcutKeepsComputed ==
    LET tab == Shortcut(aln)
        D == DOMAIN Alias(aln)
    IN \A p \in PairList : (p[1] \notin D /\ p[2] \notin D) => tab[p] = p

TypeOK == \A s \in Seqs : Len(aln[s]) = Len(aln[1])
=============================================================================
