SPECIFICATION Spec
CONSTANTS
  N = 3
  TipLens = {1, 2, 3}
  IntLens = {1}
INVARIANT TypeOK
INVARIANT Recovered
INVARIANT ResultShape
INVARIANT CherryLemma
INVARIANT NoClamp
