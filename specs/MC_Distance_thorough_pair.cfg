SPECIFICATION Spec
CONSTANTS
  NSeq = 2
  NCol = 2
  Syms = {"A", "C", "G", "T", "R", "N", "-"}
  Mode = "all"
  DiagSet = {}
  OffSize = 0
  OffMults = {}
  NCBlocks = {}
INVARIANT TypeOK
INVARIANT Symmetric
INVARIANT ZeroDiagonal
INVARIANT ClassesSymmetric
INVARIANT ScaleInvariant
INVARIANT ColumnOrderFree
INVARIANT ShortcutSound
INVARIANT ShortcutKeepsComputed
