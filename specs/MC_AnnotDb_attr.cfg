SPECIFICATION Spec
CONSTANTS
  Seqids = {"s1"}
  Biotypes = {"gene"}
  Names = {"n1", "n2"}
  Strands = {"-"}
  Attrs = {"qxa", "qxb"}
  MaxCoord = 4
  NSpans = {1, 2}
  Vias = {"user", "ext"}
  MaxRecs = 2
  MaxLen = 2
  CanonFirst = TRUE
  CanonSeqid = "s1"
  CanonBiotype = "gene"
  CanonName = "n1"
  QCats = {"name", "attr"}
  WinKinds = {"none", "both"}
  Windows <- HistWindows
  Points <- HistPoints
  SpanChoice <- AttrSpans
  SubsetCats = {0, 1, 2}
  Ops = {"Subset"}
  Others <- OthersNone
  UpdateSeqids = {}
INVARIANT TypeOK
INVARIANT StoredNormalised
INVARIANT SqlAgreesOnBag
INVARIANT ListIsUnionOfSingles
INVARIANT CountRowsPartition
INVARIANT TalliesSumToLen
PROPERTY OnlyGrowsOrFilters
