SPECIFICATION Spec
CONSTANTS
  Apps = {"L", "A", "P", "R", "W"}
INVARIANT TypeOK
INVARIANT WellFormed
INVARIANT Compatible
INVARIANT Reusable
INVARIANT FirstFailureNamed
PROPERTY AddIsLocal
PROPERTY DisconnectFrees
