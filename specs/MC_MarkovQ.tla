----------------------------- MODULE MC_MarkovQ -----------------------------
(* Model instances: every parameter value is a distinct prime (or inverse) so *)
(* that applying a parameter to the wrong cell changes a number.              *)
EXTENDS MarkovQ

Pi1(t, c, a, g) == LET d == t + c + a + g IN
    [w \in AllWords(1) |-> CASE w = <<"T">> -> R(t, d) [] w = <<"C">> -> R(c, d) [] w = <<"A">> -> R(a, d) [] w = <<"G">> -> R(g, d)]

(* a fixed, non-uniform codon distribution *)
CodonWt(w) == 1 + ((NIdx(w[1]) + 2 * NIdx(w[2]) + 3 * NIdx(w[3])) % 5)
RECURSIVE IntSum(_, _)
IntSum(S, f) == IF S = {} THEN 0 ELSE LET x == CHOOSE x \in S : TRUE IN f[x] + IntSum(S \ {x}, f)
CodonTot == IntSum(States(3), [w \in States(3) |-> CodonWt(w)])
PiCodon == [w \in States(3) |-> R(CodonWt(w), CodonTot)]
PiCodonEq == [w \in States(3) |-> R(1, 61)]

MG(name, L, kind, params, pi, rev, stat, tag, gc) ==
    [name |-> name, L |-> L, kind |-> kind, params |-> params, pi |-> pi, reversible |-> rev, stationary |-> stat, tag |-> tag, gc |-> gc]
M(name, L, kind, params, pi, rev, stat, tag) == MG(name, L, kind, params, pi, rev, stat, tag, 1)
(* the same for the vertebrate mitochondrial code (60 sense codons) *)
CodonTot2 == IntSum(StatesG(3, 2), [w \in StatesG(3, 2) |-> CodonWt(w)])
PiCodon2 == [w \in StatesG(3, 2) |-> R(CodonWt(w), CodonTot2)]

GTRp == << <<"A/C", R(2,1)>>, <<"A/G", R(3,1)>>, <<"A/T", R(5,1)>>, <<"C/G", R(7,1)>>, <<"C/T", R(1,2)>> >>
(* smaller values where 61x61 exact arithmetic would exceed 32 bits *)
GTRs == << <<"A/C", R(2,1)>>, <<"A/G", R(3,1)>>, <<"A/T", R(1,2)>>, <<"C/G", R(3,2)>>, <<"C/T", R(1,3)>> >>
GNp  == << <<"A>C", R(2,1)>>, <<"A>G", R(3,1)>>, <<"A>T", R(5,1)>>, <<"C>A", R(7,1)>>, <<"C>G", R(1,2)>>, <<"C>T", R(1,3)>>,
           <<"G>A", R(11,1)>>, <<"G>C", R(1,5)>>, <<"G>T", R(13,1)>>, <<"T>A", R(1,7)>>, <<"T>C", R(17,1)>> >>

GNtied == << <<"A>C", R(1,1)>>, <<"A>G", R(1,1)>>, <<"A>T", R(1,1)>>, <<"C>A", R(1,1)>>, <<"C>G", R(2,1)>>, <<"C>T", R(1,1)>>,
            <<"G>A", R(1,1)>>, <<"G>C", R(1,1)>>, <<"G>T", R(1,1)>>, <<"T>A", R(1,1)>>, <<"T>C", R(2,1)>> >>

NucInstances == <<
    M("JC69",  1, "word", <<>>, Pi1(1,1,1,1), TRUE, TRUE, "eq"),
    M("K80",   1, "word", << <<"kappa", R(3,1)>> >>, Pi1(1,1,1,1), TRUE, TRUE, "k3"),
    M("F81",   1, "word", <<>>, Pi1(1,2,3,4), TRUE, TRUE, "p1234"),
    M("HKY85", 1, "word", << <<"kappa", R(3,1)>> >>, Pi1(1,2,3,4), TRUE, TRUE, "k3"),
    M("HKY85", 1, "word", << <<"kappa", R(1,2)>> >>, Pi1(2,1,1,1), TRUE, TRUE, "khalf"),
    M("TN93",  1, "word", << <<"kappa_y", R(5,1)>>, <<"kappa_r", R(3,1)>> >>, Pi1(1,2,1,2), TRUE, TRUE, "k53"),
    M("TN93",  1, "word", << <<"kappa_y", R(2,1)>>, <<"kappa_r", R(7,1)>> >>, Pi1(2,1,1,1), TRUE, TRUE, "k27"),
    M("GTR",   1, "word", GTRp, Pi1(1,2,3,4), TRUE, TRUE, "primes"),
    M("GN",    1, "none", GNp, Pi1(1,2,3,4), FALSE, FALSE, "primes"),
    \* user-built predicate models: overlapping predicates multiply; a directed predicate in a general model
    M("user:TimeReversibleNucleotide", 1, "word", << <<"u_or", R(3,1)>>, <<"u_not_ac", R(5,1)>> >>, Pi1(1,2,3,4), TRUE, TRUE, "algebra"),
    M("user:NonReversibleNucleotide",  1, "none", << <<"u_fwd", R(3,1)>> >>, Pi1(1,2,3,4), FALSE, FALSE, "directed"),
    \* exact TIES between the terms of a general model (C>G = T>C = 2, all others 1): a legal, in-bounds point at which Q has a
    \* repeated eigenvalue with too few eigenvectors (not diagonalisable): exponentiation by eigen-decomposition is meaningless there
    M("GN",    1, "none", GNtied, Pi1(1,1,1,1), FALSE, FALSE, "tied-not-diagonalisable")
>>

CodonInstances == <<
    M("GY94",    3, "word", << <<"kappa", R(3,1)>>, <<"omega", R(1,2)>> >>, PiCodon, TRUE, TRUE, "k3w"),
    M("Y98",     3, "word", << <<"kappa", R(2,1)>>, <<"omega", R(5,1)>> >>, PiCodonEq, TRUE, TRUE, "eq"),
    M("MG94HKY", 3, "monomer", << <<"kappa", R(3,1)>>, <<"omega", R(1,2)>> >>, Pi1(1,2,3,4), TRUE, TRUE, "k3w"),
    M("MG94GTR", 3, "monomer", GTRp \o << <<"omega", R(11,1)>> >>, Pi1(2,1,1,1), TRUE, TRUE, "primes"),
    M("CNFHKY",  3, "conditional", << <<"kappa", R(3,1)>>, <<"omega", R(1,2)>> >>, PiCodon, TRUE, TRUE, "k3w"),
    M("CNFGTR",  3, "conditional", GTRs \o << <<"omega", R(2,1)>> >>, PiCodon, TRUE, TRUE, "small")
>>
(* another genetic code, instantiated AFTER models of the standard code and followed by the standard code again *)
Gc2Instances == <<
    MG("GY94",    3, "word", << <<"kappa", R(3,1)>>, <<"omega", R(1,2)>> >>, PiCodon2, TRUE, TRUE, "k3w-gc2", 2),
    MG("MG94HKY", 3, "monomer", << <<"kappa", R(3,1)>>, <<"omega", R(1,2)>> >>, Pi1(1,2,3,4), TRUE, TRUE, "k3w-gc2", 2),
    M("Y98",      3, "word", << <<"kappa", R(3,1)>>, <<"omega", R(1,2)>> >>, PiCodon, TRUE, TRUE, "k3w-after-gc2")
>>

(* dinucleotide models (16 states), built by the user from the predicate algebra; three motif-probability forms *)
DinucWt(w) == 1 + ((NIdx(w[1]) + 3 * NIdx(w[2])) % 4)
DinucTot == IntSum(States(2), [w \in States(2) |-> DinucWt(w)])
PiDinuc == [w \in States(2) |-> R(DinucWt(w), DinucTot)]
DinucInstances == <<
    M("user:Dinucleotide:tuple",       2, "word",        << <<"kappa", R(3,1)>> >>, PiDinuc, TRUE, TRUE, "k3"),
    M("user:Dinucleotide:monomer",     2, "monomer",     << <<"kappa", R(3,1)>> >>, Pi1(1,2,3,4), TRUE, TRUE, "k3"),
    M("user:Dinucleotide:conditional", 2, "conditional", << <<"kappa", R(3,1)>> >>, PiDinuc, TRUE, TRUE, "k3")
>>
Pi3(a, b, c) ==   \* three per-position distributions, each <<t,c,a,g>>
    [kk \in {"0", "1", "2"} \X NucSet |->
        LET v == CASE kk[1] = "0" -> a [] kk[1] = "1" -> b [] kk[1] = "2" -> c
            d == v[1] + v[2] + v[3] + v[4]
        IN  R(v[NIdx(kk[2])], d)]
PsInstances == <<
    M("user:Codon:monomers", 3, "monomers", << <<"kappa", R(3,1)>>, <<"omega", R(1,2)>> >>,
      Pi3(<<1,2,3,4>>, <<2,1,1,1>>, <<1,1,2,2>>), TRUE, TRUE, "k3w")
>>
(* parameterisations a TimeReversible class must refuse: one directed term; two mirrored directed terms with different values *)
RefusedInstances == <<
    M("user:TimeReversibleNucleotide:directed", 1, "word", << <<"u_fwd", R(3,1)>> >>, Pi1(1,2,3,4), TRUE, TRUE, "one-directed-term"),
    M("user:TimeReversibleNucleotide:mirrored", 1, "word", << <<"u_fwd", R(3,1)>>, <<"u_bwd", R(5,1)>> >>, Pi1(1,2,3,4), TRUE, TRUE, "mirrored-directed-terms")
>>
NoRefused == <<>>
AllInstances == NucInstances \o CodonInstances \o Gc2Instances \o DinucInstances \o PsInstances
QuickInstances == NucInstances \o <<CodonInstances[1], CodonInstances[3], CodonInstances[5], Gc2Instances[1], Gc2Instances[3]>> \o DinucInstances \o PsInstances
CnfOnly == <<CodonInstances[5]>>
CnfGtrOnly == <<CodonInstances[6]>>
=============================================================================
