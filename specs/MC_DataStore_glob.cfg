SPECIFICATION Spec
CONSTANTS
  Ids = {"gene1", "gene[1]"}
  Data = {"x", "y"}
  LogIds = {"l1"}
  Aliases = {FALSE, TRUE}
INVARIANT TypeOK
PROPERTY Isolation
PROPERTY AppendNeverOverwrites
PROPERTY ReadOnlyNeverMutates
PROPERTY RefusedChangesNothing
PROPERTY WriteRetiresExactlyMatching
