SPECIFICATION Spec
CONSTANTS
  MinTips = 2
  MaxTips = 5
  ExhaustNodes = 5
  Patterns = {1, 2, 3}
  Ops = {"NewickRT", "NewickNamesRT", "NewickDefaultRT", "JsonRT", "RichDictRT", "Copy", "DeepCopy", "CopyModule", "DndRT", "Sorted", "SortedRev", "RootedAt", "RootedWithTip", "Unrooted", "SubTree", "RootAtMidpoint", "Prune", "Bifurcating", "Query"}
  TipsOnlyVals = {FALSE}
  ShapeMod = 1
  ShapeRem = 0
  MaxLevel = 99
INVARIANT TreeOK
INVARIANT NamesUnique
PROPERTY CreatedNameIsFresh
PROPERTY StepPreserves
PROPERTY TipsIntended
PROPERTY MidpointCentred
PROPERTY RerootLandsThere
PROPERTY UnrootedDegree
INVARIANT ConnectingEdgesSpanThePath
INVARIANT ConnectingEdgesReverse
INVARIANT LCAIsLowest
INVARIANT CladeIsTheFarSideOfItsStem
PROPERTY CladeWithOutgroupIsRootFree
