---------------------------- MODULE ComposedApp ----------------------------
(* Property C14: a composed cogent3 app  loader + generic* + writer  applied  *)
(* to a set of inputs accounts for every input exactly once, on any schedule.  *)
(*                                                                            *)
(* Inputs are 1..N (the identifier of input i is i).  A *plan* gives, for each *)
(* input and each of the S steps before the writer (step 1 = loader, steps    *)
(* 2..S generic apps), the outcome class of that step's `main` on that input: *)
(*   ok     returns a value of the declared type                               *)
(*   raise  raises an exception                                                *)
(*   none   returns None                                                       *)
(*   wrong  returns a value of a type the next step does not accept            *)
(*   nc     returns a NotCompleted of its own (type FAIL)                      *)
(*                                                                            *)
(* Values:  [k |-> "val", src, trail, wrong]   trail = steps that transformed  *)
(*                                   it, wrong = step that produced a wrongly  *)
(*                                   typed value (0 = correctly typed)         *)
(*          [k |-> "nc", type, origin, msg, src]  a NotCompleted               *)
(*                                                                            *)
(* Execution model (implementation shaped: cogent3.app.composable._apply_to,  *)
(* cogent3.util.parallel._as_completed_mproc on a loky executor):             *)
(*   Submit       every input is wrapped in a proxy carrying its source and    *)
(*                queued, in input order                                       *)
(*   Start(t)     a free worker (|running| < w) takes the HEAD of the queue     *)
(*   Complete(t)  ANY running task finishes: the schedule nondeterminism       *)
(*   Consume(t)   the master takes ANY finished result and writes it under the *)
(*                identifier of the proxy's source                             *)
(*   Serial(t)    w = 0: the head of the queue is computed and written at once *)
(* `order` / `cons` are history variables (completion / consumption order).    *)
EXTENDS Naturals, FiniteSets, Sequences, TLC, Emit

CONSTANTS N,            \* number of inputs
          S,            \* steps before the writer
          Ws,           \* worker counts explored; 0 = serial execution
          WriterTyped,  \* set of BOOLEAN: TRUE = the writer declares an input type (write_seqs),
                        \*   FALSE = it accepts any serialisable value (write_json, write_db)
          Namings,      \* naming schemes explored for the inputs' identifiers (see Name below)
          RetireRule,   \* "equal": completing identifier x retires the not-completed record OF x (the
                        \*   contract of the data store); "suffix": of every identifier that ends with x -
                        \*   the design-level counterexample of MC_ComposedApp_retire.cfg
          Reversed,     \* set of BOOLEAN: TRUE = the inputs are handed over in reversed order
          Reps,         \* how the collection of inputs is REPRESENTED when it is handed to apply_to /
                        \*   as_completed: "list", "tuple", "liststr", "members", "datastore", or a ONE-SHOT
                        \*   iterable that can be walked only once: "generator", "map", "iter", "reversed"
                        \*   (which also reverses the order), "glob".  The submitted inputs are the same
                        \*   for every representation, so every law below holds for each of them
          FnStep,       \* the step (0 = none) that is a FUNCTION STYLE app constructed with mutable
                        \*   arguments (a list, a dict) which its body changes in place while it works
          Isolated,     \* TRUE = every call of that step gets the arguments as constructed (what
                        \*   define_app promises: a deep copy per call); FALSE = one copy shared by
                        \*   all calls of the instance - the design-level counterexample, see ArgPristine
          Named         \* set of BOOLEAN: value classes explored, per input: TRUE = the values that
                        \*   flow between the steps of that record name their source (a cogent3 object
                        \*   with info.source, a dict with info.source or source, a path string),
                        \*   FALSE = they do not (a dict with "info": None as to_rich_dict() makes,
                        \*   a dict without info, bytes): a NotCompleted made from such a value
                        \*   cannot name the source, everything else must hold all the same

VARIABLES plan, named, naming, rev, rep, w, wtyped, submitted, pending, running, finished, result, order, cons, written,
          arg, argseen
vars == <<plan, named, naming, rev, rep, w, wtyped, submitted, pending, running, finished, result, order, cons, written, arg, argseen>>

Inputs   == 1..N
Steps    == 1..S
Writer   == S + 1
Outcomes == {"ok", "raise", "none", "wrong", "nc"}
None     == [kind |-> "none"]

(* after the first non-ok outcome no later `main` is ever invoked, so a       *)
(* canonical profile has at most one non-ok entry                              *)
Profiles == {p \in [Steps -> Outcomes] : Cardinality({s \in Steps : p[s] # "ok"}) <= 1}

(* all plans over the canonical profiles, unless the environment variable      *)
(* PLAN_FILE names a JSON array of plans (a seeded pairwise-covering selection  *)
(* made by the harness for the larger input counts)                             *)
PlanFile == IF "PLAN_FILE" \in DOMAIN IOEnv THEN IOEnv.PLAN_FILE ELSE ""
PlanSel  == IF PlanFile = "" THEN {}
            ELSE LET a == JsonDeserialize(PlanFile) IN {a[k] : k \in DOMAIN a}
Plans    == IF PlanSel = {} THEN [Inputs -> Profiles] ELSE PlanSel

-----------------------------------------------------------------------------
(* The identifier of input i.  Accounting is per INPUT: whatever textual relation *)
(* the identifiers have to each other - one a proper suffix or prefix of another,  *)
(* identifiers containing dots - every input keeps a record of its own.            *)
Digit  == <<"1", "2", "3", "4">>
Letter == <<"a", "b", "c", "d">>
Name(nm, i) ==
    CASE nm = "plain"      -> "t" \o Digit[i]                                       \* t1 t2 t3 ..
      [] nm = "suffix"     -> IF i = 1 THEN "1" ELSE Digit[i - 1] \o "1"             \* 1 11 21 ..
      [] nm = "suffixlast" -> IF i = N THEN "1" ELSE Digit[i] \o "1"                 \* 11 21 .. 1
      [] nm = "prefix"     -> IF i = 1 THEN "g" ELSE "g" \o Letter[i - 1]            \* g ga gb ..
      [] nm = "prefixlast" -> IF i = N THEN "g" ELSE "g" \o Letter[i]                \* ga gb .. g
      [] nm = "dotted"     -> IF i = 1 THEN "gene" ELSE "gene." \o Digit[i - 1]      \* gene gene.1 ..
      \* unusual but legal identifiers: one that, read as a glob pattern, matches the others
      [] nm = "globlast"   -> IF i = N THEN "gene[1234]" ELSE "gene" \o Digit[i]     \* gene1 gene2 .. gene[1234]
      [] nm = "globfirst"  -> IF i = 1 THEN "gene[1234]" ELSE "gene" \o Digit[i]     \* gene[1234] gene2 ..
      [] nm = "wildcards"  -> <<"ab", "a*b", "a?b", "a[!x]b">>[i]
      \* blanks, quotes (also doubled), colons, commas, '#', '|', parentheses
      [] nm = "punct"      -> <<"a b  c", "it's \"q\"\"d\"", "x:1,2#3|4", "(p){q}=r;s&t">>[i]
      \* leading digit, only digits, very long with many dots, non-ASCII (\uXXXX is decoded by the harness)
      [] nm = "digits"     -> <<"9lives", "007", "1e5", "0x1F">>[i]
      [] nm = "long"       -> <<"v.1.2.3.4.5.6.7.8.9.10.11.12.13.14.15.16.17.18.19.20.a.very.long.identifier.with.many.dots.in.it.x",
                                "v.1.2.3.4.5.6.7.8.9.10.11.12.13.14.15.16.17.18.19.20.a.very.long.identifier.with.many.dots.in.it.y",
                                "\\u00fcn\\u00ef\\u00e7\\u00f8d\\u00e9", "\\u65e5\\u672c.1">>[i]
(* identifier of a is a proper suffix of the identifier of b *)
ProperSuffix(nm, a, b) == a # b /\ ((nm = "suffix" /\ a = 1) \/ (nm = "suffixlast" /\ a = N))

-----------------------------------------------------------------------------
(* what the composed function computes for ONE input, alone                    *)

Input(i) == [k |-> "val", src |-> i, trail |-> <<>>, wrong |-> 0]
NC(type, origin, msg, src) == [k |-> "nc", type |-> type, origin |-> origin, msg |-> msg, src |-> src]

(* the source a NotCompleted made by step s from value v names: the loader's    *)
(* input is the identifier itself; later steps see what the value tells them    *)
Unknown == 0
NameOf(s, v) == IF s = 1 \/ named[v.src] THEN v.src ELSE Unknown

(* step s (outcome class out) called with value v *)
StepApply(s, v, out) ==
    IF v.k = "nc" THEN v                                         \* passes through unchanged
    ELSE IF v.wrong # 0 THEN NC("ERROR", s, "invalid-type", NameOf(s, v)) \* input type check of step s
    ELSE CASE out = "ok"    -> [v EXCEPT !.trail = Append(@, s)]
           [] out = "raise" -> NC("ERROR", s, "exception", NameOf(s, v))
           [] out = "none"  -> NC("BUG", s, "none-out", NameOf(s, v))
           [] out = "wrong" -> [v EXCEPT !.wrong = s]
           [] out = "nc"    -> NC("FAIL", s, "custom", NameOf(s, v))

RECURSIVE UpTo(_, _, _)
UpTo(p, i, s) == IF s = 0 THEN Input(i) ELSE StepApply(s, UpTo(p, i, s - 1), p[i][s])
Run(p, i) == UpTo(p, i, S)

(* the record the writer stores for value v *)
Rec(v, typed) ==
    IF v.k = "nc"
    THEN [kind |-> "not_completed", type |-> v.type, origin |-> v.origin, msg |-> v.msg, src |-> v.src]
    ELSE IF v.wrong # 0 /\ typed
    THEN [kind |-> "not_completed", type |-> "ERROR", origin |-> Writer, msg |-> "invalid-type", src |-> v.src]
    ELSE [kind |-> "completed", src |-> v.src, trail |-> v.trail, wrong |-> v.wrong]

Expected(p, typed, i) == Rec(Run(p, i), typed)

-----------------------------------------------------------------------------
(* The function style step's mutable constructor arguments, abstractly: a list  *)
(* of tickets (head, number left) and a call counter in a dict.  Each call       *)
(* takes the first ticket and counts itself - in ITS copy.  `arg` is the copy    *)
(* held by the app instance in the master (which runs every record of a serial   *)
(* run); a parallel task unpickles an instance of its own.  argseen[i] = what    *)
(* the call for record i found (NoArg = the step was not invoked for i).         *)
NoArg == [head |-> 0, left |-> 0, calls |-> 0]
Arg0  == [head |-> 1, left |-> 2, calls |-> 0]
Mutate(a) == [head |-> a.head + 1, left |-> IF a.left > 0 THEN a.left - 1 ELSE 0, calls |-> a.calls + 1]
Invoked(i) == /\ FnStep # 0
              /\ LET v == UpTo(plan, i, FnStep - 1) IN v.k = "val" /\ v.wrong = 0
(* the record shows what the call found iff it went on to complete with the step's output *)
Shows(i) == LET v == Run(plan, i) IN
            v.k = "val" /\ v.wrong = 0 /\ \E j \in DOMAIN v.trail : v.trail[j] = FnStep

Init == /\ plan \in Plans
        /\ rev \in Reversed
        /\ naming \in Namings
        /\ rep \in Reps
        /\ arg = Arg0
        /\ argseen = [i \in Inputs |-> NoArg]
        /\ named \in [Inputs -> Named]
        /\ w \in Ws
        /\ wtyped \in WriterTyped
        /\ submitted = FALSE
        /\ pending = <<>>
        /\ running = {} /\ finished = {}
        /\ result = [i \in Inputs |-> None]
        /\ order = <<>> /\ cons = <<>>
        /\ written = [i \in Inputs |-> None]

Quiescent(sub, pen, run, fin) == sub /\ pen = <<>> /\ run = {} /\ fin = {}
AtQuiescence == Quiescent(submitted, pending, running, finished)

(* One JSON line per *complete behaviour* whose results were consumed as they  *)
(* completed: the harness forces exactly this schedule on the real executor.   *)
LogFinal(act) ==
    IF Quiescent(submitted', pending', running', finished') /\ cons' = order'
    THEN Emit([act |-> act, n |-> N, plan |-> plan, named |-> named, w |-> w, wtyped |-> wtyped,
               order |-> order', cons |-> cons', written |-> written',
               vals |-> [i \in Inputs |-> Run(plan, i)], rev |-> rev,
               rep |-> rep, naming |-> naming, names |-> [i \in Inputs |-> Name(naming, i)],
               argseen |-> [i \in Inputs |-> IF Shows(i) THEN argseen'[i] ELSE NoArg], ret |-> "ok"])
    ELSE TRUE

(* the store after record r has been written for input i: a completed record      *)
(* retires the not-completed record of the SAME identifier and of no other          *)
Stored(i, r) ==
    [j \in Inputs |->
        IF j = i THEN r
        ELSE IF /\ RetireRule = "suffix" /\ r.kind = "completed"
                /\ written[j].kind = "not_completed" /\ ProperSuffix(naming, i, j)
             THEN None
             ELSE written[j]]

(* the order the inputs are submitted in *)
Backwards == rev # (rep = "reversed")

SubmitT ==
    /\ ~submitted
    /\ submitted' = TRUE
    /\ pending' = [i \in Inputs |-> IF Backwards THEN N + 1 - i ELSE i]      \* all of them, once each
    /\ UNCHANGED <<plan, named, naming, rev, rep, w, wtyped, running, finished, result, order, cons, written, arg, argseen>>

StartT(t) ==
    /\ w > 0 /\ pending # <<>> /\ t = Head(pending)
    /\ Cardinality(running) < w
    /\ pending' = Tail(pending)
    /\ running' = running \cup {t}
    /\ UNCHANGED <<plan, named, naming, rev, rep, w, wtyped, submitted, finished, result, order, cons, written, arg, argseen>>

(* the worker returns the proxy: source kept, object replaced by the result *)
CompleteT(t) ==
    /\ t \in running
    /\ running' = running \ {t}
    /\ finished' = finished \cup {t}
    /\ result' = [result EXCEPT ![t] = [src |-> t, obj |-> Run(plan, t)]]
    /\ order' = Append(order, t)
    /\ argseen' = [argseen EXCEPT ![t] = IF Invoked(t) THEN Arg0 ELSE NoArg]   \* the task's own instance
    /\ UNCHANGED <<plan, named, naming, rev, rep, w, wtyped, submitted, pending, cons, written, arg>>

(* the master writes result t under the identifier of the proxy's source *)
ConsumeT(t) ==
    /\ t \in finished
    /\ finished' = finished \ {t}
    /\ written' = Stored(result[t].src, Rec(result[t].obj, wtyped))
    /\ cons' = Append(cons, result[t].src)
    /\ UNCHANGED <<plan, named, naming, rev, rep, w, wtyped, submitted, pending, running, result, order, arg, argseen>>

SerialT(t) ==
    /\ w = 0 /\ pending # <<>> /\ t = Head(pending)
    /\ pending' = Tail(pending)
    /\ result' = [result EXCEPT ![t] = [src |-> t, obj |-> Run(plan, t)]]
    /\ written' = Stored(t, Rec(Run(plan, t), wtyped))
    /\ order' = Append(order, t)
    /\ cons' = Append(cons, t)
    /\ argseen' = [argseen EXCEPT ![t] = IF Invoked(t) THEN arg ELSE NoArg]     \* the master's instance
    /\ arg' = IF Invoked(t) /\ ~Isolated THEN Mutate(arg) ELSE arg
    /\ UNCHANGED <<plan, named, naming, rev, rep, w, wtyped, submitted, running, finished>>

Submit      == SubmitT
Start(t)    == StartT(t)
Complete(t) == CompleteT(t)
Consume(t)  == ConsumeT(t) /\ LogFinal("Parallel")
Serial(t)   == SerialT(t) /\ LogFinal("Serial")

Next == \/ Submit
        \/ \E t \in Inputs : Start(t) \/ Complete(t) \/ Consume(t) \/ Serial(t)

Spec == Init /\ [][Next]_vars
FairSpec == Spec /\ WF_vars(Next)

-----------------------------------------------------------------------------
(* Design-level properties checked by TLC on the model itself.                *)

TypeOK == /\ ~submitted => plan \in [Inputs -> Profiles]      \* the plan never changes
          /\ named \in [Inputs -> BOOLEAN] /\ rev \in BOOLEAN
          /\ \A i, j \in Inputs : i # j => Name(naming, i) # Name(naming, j)     \* identifiers are unique
          /\ w \in Ws /\ wtyped \in BOOLEAN /\ submitted \in BOOLEAN
          /\ running \subseteq Inputs /\ finished \subseteq Inputs
          /\ Cardinality(running) <= w
          /\ \A i \in Inputs : written[i] # None => written[i].kind \in {"completed", "not_completed"}

Count(seq, x) == Cardinality({j \in DOMAIN seq : seq[j] = x})

(* every task is in exactly one place *)
Conservation ==
    submitted => \A i \in Inputs :
        Count(pending, i) + (IF i \in running THEN 1 ELSE 0) + (IF i \in finished THEN 1 ELSE 0) + Count(cons, i) = 1

(* no identifier is ever written twice, and only after its task completed *)
AtMostOnce == \A i \in Inputs : Count(cons, i) <= 1 /\ (written[i] # None <=> Count(cons, i) = 1)

(* at quiescence every input has exactly one record, and it is the record that *)
(* calling the composed function on that input alone gives                     *)
Accounted ==
    AtQuiescence => \A i \in Inputs : Count(cons, i) = 1 /\ written[i] = Expected(plan, wtyped, i)

(* which step fails first, read off the plan (0 = none) *)
FirstFail(p, typed, i) ==
    LET bad == {s \in Steps : p[i][s] # "ok"} IN
    IF bad = {} THEN 0
    ELSE LET s == CHOOSE x \in bad : TRUE IN
         IF p[i][s] = "wrong" THEN (IF s < S \/ typed THEN s + 1 ELSE 0) ELSE s

KindAndStep ==
    AtQuiescence => \A i \in Inputs :
        LET ff == FirstFail(plan, wtyped, i) IN
        /\ (written[i].kind = "completed") <=> (ff = 0)
        /\ ff # 0 => /\ written[i].origin = ff
                      /\ (written[i].src = i \/ (~named[i] /\ written[i].src = Unknown))
        /\ ff = 0 => written[i].src = i

(* a NotCompleted passes unchanged through every later step *)
PassThrough ==
    ~submitted =>     \* depends on the plan only: evaluated in the initial states
    \A i \in Inputs : \A s \in Steps :
        UpTo(plan, i, s).k = "nc" => \A r \in s..S : UpTo(plan, i, r) = UpTo(plan, i, s)

(* a written record never changes afterwards *)
WriteOnce == [][\A i \in Inputs : written[i] # None => written'[i] = written[i]]_vars

(* dispatch is FIFO: tasks complete only if every earlier input has been started *)
Pos(i) == IF Backwards THEN N + 1 - i ELSE i
Fifo == \A i \in Inputs : (i \in running \/ i \in finished \/ Count(cons, i) = 1) =>
            \A j \in Inputs : Pos(j) < Pos(i) => Count(pending, j) = 0

(* No state leaks from one record to another through the app instance: whatever  *)
(* a call does to the mutable arguments its step was constructed with, the next   *)
(* call finds them as constructed.  With this, and only with this, a record's     *)
(* outcome is a function of the record alone (Accounted) in serial order, in      *)
(* reversed order and in parallel alike.  TLC refutes it for Isolated = FALSE     *)
(* (MC_ComposedApp_leak.cfg).                                                     *)
ArgPristine == arg = Arg0 /\ \A i \in Inputs : argseen[i] \in {NoArg, Arg0}

Terminates == <>AtQuiescence
=============================================================================
