SPECIFICATION Spec
CONSTANTS
  Profile = "thorough"
  Group = "big"
INVARIANT ResultShape
