SPECIFICATION Spec
CONSTANTS
  N = 3
  S = 3
  Ws = {0, 1, 2, 3}
  WriterTyped = {TRUE, FALSE}
  Namings = {"plain"}
  RetireRule = "equal"
  Reps = {"list"}
  Reversed = {FALSE}
  FnStep = 2
  Isolated = TRUE
  Named = {TRUE}
INVARIANT TypeOK
INVARIANT Conservation
INVARIANT AtMostOnce
INVARIANT Accounted
INVARIANT KindAndStep
INVARIANT PassThrough
INVARIANT Fifo
INVARIANT ArgPristine
PROPERTY WriteOnce
