------------------------------- MODULE PySlice -------------------------------
(* Python extended-slice semantics, written from the language reference       *)
(* (Data model, slice.indices(); Objects/sliceobject.c PySlice_AdjustIndices): *)
(*   seq[a:b:k]  ==  [seq[i] : i in range(start, stop, step)]                 *)
(*   where (start, stop, step) = slice(a,b,k).indices(len(seq))                *)
(* None is represented by the integer sentinel None (no slice argument of the  *)
(* models ever gets near it).  Sequences here are TLA+ sequences (1-based);    *)
(* Python positions are 0-based, hence the "+ 1" in Apply.                     *)
EXTENDS Integers, Sequences

None == 9999

Max(a, b) == IF a > b THEN a ELSE b
Min(a, b) == IF a < b THEN a ELSE b
Abs(a) == IF a < 0 THEN -a ELSE a

(* Python's floor division a // b for b # 0 (TLC's \div needs a positive divisor) *)
FloorDiv(a, b) == IF b > 0 THEN a \div b ELSE (-a) \div (-b)

Step(k) == IF k = None THEN 1 ELSE k                 \* k # 0 is a precondition
Lower(k) == IF Step(k) < 0 THEN -1 ELSE 0
Upper(n, k) == IF Step(k) < 0 THEN n - 1 ELSE n

Bound(x, n, k, dflt) ==
    IF x = None THEN dflt
    ELSE IF x < 0 THEN Max(x + n, Lower(k))
    ELSE Min(x, Upper(n, k))

Start(n, a, k) == Bound(a, n, k, IF Step(k) < 0 THEN Upper(n, k) ELSE Lower(k))
Stop(n, b, k)  == Bound(b, n, k, IF Step(k) < 0 THEN Lower(k) ELSE Upper(n, k))

(* len(range(start, stop, step)) *)
Count(n, a, b, k) ==
    LET s == Start(n, a, k)
        e == Stop(n, b, k)
        st == Step(k)
    IN IF st > 0 THEN (IF e > s THEN (e - s + st - 1) \div st ELSE 0)
       ELSE (IF s > e THEN (s - e + (-st) - 1) \div (-st) ELSE 0)

(* seq[a:b:k] *)
Apply(seq, a, b, k) ==
    LET n == Len(seq) IN
    [j \in 1..Count(n, a, b, k) |-> seq[Start(n, a, k) + (j - 1) * Step(k) + 1]]

(* seq[i] for an integer i: the 1-based position, or 0 when out of range (IndexError) *)
Pos(n, i) == IF i >= 0 /\ i < n THEN i + 1
             ELSE IF i < 0 /\ -i <= n THEN n + i + 1
             ELSE 0
=============================================================================
