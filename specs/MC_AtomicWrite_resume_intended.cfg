\* atomic record writes with completeness-based skipping, and the transcribed sqlite store: the resume property holds
SPECIFICATION Spec
CONSTANTS
  N = 4
  NCSets <- NCThorough
  Configs <- HoldingConfigs
INVARIANT TypeOK
INVARIANT UninterruptedCompletes
INVARIANT ResumeOK
INVARIANT RerunCompletes
