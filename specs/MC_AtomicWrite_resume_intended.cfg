\* atomic record writes, completeness-based skipping: the resume property holds
SPECIFICATION Spec
CONSTANTS
  N = 4
  NCSets <- NCThorough
  Configs <- IntendedConfigs
INVARIANT TypeOK
INVARIANT UninterruptedCompletes
INVARIANT ResumeOK
INVARIANT RerunCompletes
