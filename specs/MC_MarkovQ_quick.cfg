SPECIFICATION Spec
CONSTANT Instances <- QuickInstances
CONSTANT Refused <- RefusedInstances
INVARIANT ZeroRowSums
INVARIANT NonNegOffDiag
INVARIANT Calibrated
INVARIANT StationaryOK
INVARIANT DetailedBal
INVARIANT WordProbsSum
INVARIANT AdmittedAreAdmissible
INVARIANT RefusedAreNot
INVARIANT RefusalJustified
