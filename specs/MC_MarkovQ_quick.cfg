SPECIFICATION Spec
CONSTANT Instances <- QuickInstances
INVARIANT ZeroRowSums
INVARIANT NonNegOffDiag
INVARIANT Calibrated
INVARIANT StationaryOK
INVARIANT DetailedBal
INVARIANT WordProbsSum
