SPECIFICATION Spec
CONSTANTS
  Batch = 25
INVARIANT EventsWellFormed
