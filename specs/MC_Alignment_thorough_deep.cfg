SPECIFICATION Spec
CONSTANTS
  ShapeIds = {}
  PickedIds = {"p1", "p4"}
  Mols = {"rna"}
  MaxDepth = 3
  MaxLen = 6
  Forms = {"plain", "open", "neg", "over"}
  ColFamily = "small"
  PairFamily = "all"
INVARIANT TypeOK
INVARIANT Rectangular
INVARIANT UniqueNames
INVARIANT NoCellInvented
INVARIANT RcInvolution
INVARIANT SliceCommutesWithTakeSeqs
INVARIANT RcOfSliceIsSliceOfRc
INVARIANT NegateKeepsTheOthers
INVARIANT ConcatOfCutIsIdentity
