SPECIFICATION Spec
CONSTANTS
  N = 5
  Heights = {1, 2, 3, 4, 5, 6}
INVARIANT TypeOK
INVARIANT Recovered
INVARIANT ImplAgrees
INVARIANT SiblingLemma
INVARIANT PositiveLengths
