SPECIFICATION Spec
CONSTANTS
  N = 4
  TipLens = {1, 2, 3}
  IntLens = {0, 1, 2}
INVARIANT TypeOK
INVARIANT Recovered
INVARIANT ResultShape
INVARIANT CherryLemma
INVARIANT NoClamp
