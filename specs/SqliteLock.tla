----------------------------- MODULE SqliteLock -----------------------------
(* Property C13, the sqlite store's LOCK: a store file records the process it is locked to; the lock is what     *)
(* keeps a second analysis from OVERWRITING records of a store another analysis produced.                        *)
(*                                                                                                                *)
(*   lock     the pid recorded in the file's `state` table, or None                                               *)
(*   content  record id -> version of its data (0 = absent)                                                       *)
(*   handle   per process: the store object it holds: closed | r | w | a | refused                                *)
(*            (refused: an object created with mode w whose first use was refused because the file was locked;     *)
(*             the process still holds that object and may use it again)                                           *)
(* The connection (and the lock) is made lazily at the first use of a store object: Access.                        *)
(*   Access(p, r)  no effect on the file                                                                           *)
(*   Access(p, w)  refused (IOError) when the file is locked to ANY pid - also p's own from an earlier object -,   *)
(*                 otherwise locks the file to p                                                                   *)
(*   Access(p, a)  always succeeds and (re)locks the file to p (documented: the user expects to modify it)         *)
(*   Retry(p)      any further use of a refused object: refused again while the file is locked                     *)
(*   Write(p,i,v)  w: stores/overwrites; a: refuses to overwrite; r: refuses                                       *)
(*   Unlock(p,f)   clears the lock if it is p's or f (force); nothing on a read-only object                        *)
(*   Close(p)      the lock STAYS in the file                                                                       *)
EXTENDS Naturals, FiniteSets, TLC, Emit

CONSTANTS Pids, Ids, Vers, MaxSteps
None == "none"

VARIABLES lock, content, handle, ret, n
vars == <<lock, content, handle, ret, n>>

St == [lock |-> lock, content |-> content, handle |-> handle]
StP == [lock |-> lock', content |-> content', handle |-> handle']
Log(act, args) == Emit([from |-> St, act |-> act, args |-> args, to |-> StP, ret |-> ret'])

Init == /\ lock = None /\ content = [i \in Ids |-> 0] /\ handle = [p \in Pids |-> "closed"]
        /\ ret = "init" /\ n = 0
Exists == lock # None \/ \E i \in Ids : content[i] # 0 \/ \E p \in Pids : handle[p] \in {"w", "a"}

Step == n < MaxSteps /\ n' = n + 1
AccessT(p, m) ==
    /\ Step /\ handle[p] = "closed"
    /\ CASE m = "r" -> /\ Exists
                       /\ handle' = [handle EXCEPT ![p] = "r"] /\ ret' = "ok" /\ UNCHANGED <<lock, content>>
         [] m = "w" -> IF lock # None
                       THEN handle' = [handle EXCEPT ![p] = "refused"] /\ ret' = "raised" /\ UNCHANGED <<lock, content>>
                       ELSE handle' = [handle EXCEPT ![p] = "w"] /\ lock' = p /\ ret' = "ok" /\ UNCHANGED content
         [] m = "a" -> handle' = [handle EXCEPT ![p] = "a"] /\ lock' = p /\ ret' = "ok" /\ UNCHANGED content
RetryT(p) ==
    /\ Step /\ handle[p] = "refused"
    /\ IF lock # None
       THEN ret' = "raised" /\ UNCHANGED <<lock, content, handle>>
       ELSE handle' = [handle EXCEPT ![p] = "w"] /\ lock' = p /\ ret' = "ok" /\ UNCHANGED content
WriteT(p, i, v) ==
    /\ Step /\ handle[p] \in {"r", "w", "a", "refused"}
    /\ CASE handle[p] = "r" -> ret' = "raised" /\ UNCHANGED <<lock, content, handle>>
         [] handle[p] = "refused" ->
                IF lock # None THEN ret' = "raised" /\ UNCHANGED <<lock, content, handle>>
                ELSE /\ handle' = [handle EXCEPT ![p] = "w"] /\ lock' = p /\ ret' = "ok"
                     /\ content' = [content EXCEPT ![i] = v]
         [] handle[p] = "a" /\ content[i] # 0 -> ret' = "raised" /\ UNCHANGED <<lock, content, handle>>
         [] OTHER -> content' = [content EXCEPT ![i] = v] /\ ret' = "ok" /\ UNCHANGED <<lock, handle>>
UnlockT(p, force) ==
    /\ Step /\ handle[p] \in {"r", "w", "a"}
    /\ ret' = "ok" /\ UNCHANGED <<content, handle>>
    /\ lock' = IF handle[p] # "r" /\ lock # None /\ (lock = p \/ force) THEN None ELSE lock
CloseT(p) ==
    /\ Step /\ handle[p] # "closed"
    /\ handle' = [handle EXCEPT ![p] = "closed"] /\ ret' = "ok" /\ UNCHANGED <<lock, content>>

Access(p, m) == AccessT(p, m) /\ Log("Access", <<p, m>>)
Retry(p) == RetryT(p) /\ Log("Retry", <<p>>)
Write(p, i, v) == WriteT(p, i, v) /\ Log("Write", <<p, i, v>>)
Unlock(p, f) == UnlockT(p, f) /\ Log("Unlock", <<p, f>>)
Close(p) == CloseT(p) /\ Log("Close", <<p>>)
Next == \E p \in Pids :
          \/ \E m \in {"r", "w", "a"} : Access(p, m)
          \/ Retry(p) \/ Close(p)
          \/ \E i \in Ids, v \in Vers : Write(p, i, v)
          \/ \E f \in BOOLEAN : Unlock(p, f)
Spec == Init /\ [][Next]_vars

TypeOK == lock \in Pids \cup {None} /\ content \in [Ids -> {0} \cup Vers]
          /\ handle \in [Pids -> {"closed", "r", "w", "a", "refused"}]
(* a record of a LOCKED store changes only through an object that was allowed to connect: never through an      *)
(* object whose connection was refused, however often it is used                                                   *)
RefusedNeverWrites ==
    [][\A p \in Pids : (handle[p] = "refused" /\ lock # None) => (content' = content \/ \E q \in Pids \ {p} : handle[q] \in {"w", "a"})]_vars
RefusedStaysRefusedWhileLocked ==
    [][\A p \in Pids : (handle[p] = "refused" /\ lock # None /\ lock' # None /\ handle'[p] # "closed") => handle'[p] = "refused" \/ lock = None]_vars
(* the lock changes only by Access (w on an unlocked file, a) / Retry / a refused Write on an unlocked file / Unlock *)
CloseKeepsLock == [][\A p \in Pids : CloseT(p) => lock' = lock]_vars
=============================================================================
