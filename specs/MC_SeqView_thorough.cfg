SPECIFICATION Spec
CONSTANTS
  MinL = 0
  MaxL = 4
  Offsets = {0, 3}
  MaxStep = 7
  MaxGen = 1
  Margin = 2
  Reps = {"str", "bytes", "tuple", "list", "array", "seqview", "sequence"}
  Steps <- StepsFull
CONSTRAINT StepBound
INVARIANT TypeOK
INVARIANT Refines
INVARIANT RefinesSdv
INVARIANT CompDirection
INVARIANT CoordsRefine
INVARIANT Progression
INVARIANT RcInvolution
PROPERTY CopyKeepsCoords
