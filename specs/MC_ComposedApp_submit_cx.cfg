SPECIFICATION Spec
CONSTANTS
  Ns = {4, 5}
  Windows = {1, 2}
  Extra = 1
  Fifo = FALSE
  FailMod = 3
  FailRem = 1
INVARIANT TypeOK
INVARIANT Bounded
INVARIANT NoneLost
INVARIANT ExactlyOnce
INVARIANT AllDone
