SPECIFICATION Spec
CONSTANTS
  MaxP = 3
  MaxSpans = 2
  MaxLost = 2
  MaxArgSpans = 2
  MaxArgLen = 3
  MaxSliceLen = 3
  MaxAddSpans = 2
  Scales = {1, 2, 3}
INVARIANT TypeOK
INVARIANT InParent
INVARIANT CoverShadowPartition
INVARIANT InverseLaw
INVARIANT NucRevLaw
INVARIANT ComposeLaw
INVARIANT GapPartition
PROPERTY ReceiverPreserved
