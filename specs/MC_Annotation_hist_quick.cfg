SPECIFICATION Spec
CONSTANTS
  P = 5
  MaxDepth = 3
  MaxAdds = 2
  Derives = {"head", "tail", "mid", "rc", "copy", "degap", "rna"}
CONSTRAINT DepthBound
INVARIANT TypeOK
INVARIANT Refines
INVARIANT SharedCoherent
INVARIANT OrderFree
