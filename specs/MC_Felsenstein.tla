--------------------------- MODULE MC_Felsenstein ---------------------------
EXTENDS Felsenstein

(* PInstances (module TN93): 1 JC69, 2 K80 k3, 3 F81 pi(1,2,3,4), 4 HKY85 k3 pi(1,2,1,2),
   5 TN93 k5/3 pi(1,2,1,2), 6 TN93 k4/4 pi(1,1,2,2) *)
Half == R(1,2)
Third == R(1,3)
TwoThirds == R(2,3)

Col(seq) == seq   \* a column: sequence indexed by node; inner nodes carry "N"

CQ(id, newick, par, leafname, edgename, inst, rootinst, s, qpow, bprobs, mult, cols, nbrute, normalise) ==
    [id |-> id, newick |-> newick, par |-> par, leafname |-> leafname, edgename |-> edgename, inst |-> inst,
     rootinst |-> rootinst, s |-> s, qpow |-> qpow, bprobs |-> bprobs, mult |-> mult, cols |-> cols, nbrute |-> nbrute, normalise |-> normalise,
     hmm |-> FALSE, switch |-> Zero, bininst |-> <<>>, loci |-> FALSE, loccols |-> <<>>]
(* several loci sharing the tree: locus l uses instance locinst[l] (base s^mult[l]) on its own columns loccols[l] *)
CL(id, newick, par, leafname, edgename, inst, rootinst, s, qpow, mult, locinst, loccols, normalise) ==
    [CQ(id, newick, par, leafname, edgename, inst, rootinst, s, qpow, <<>>, mult, <<>>, 0, normalise)
        EXCEPT !.loci = TRUE, !.bininst = locinst, !.loccols = loccols]
(* site classes along a hidden Markov chain; classes differ in a model parameter (bininst).  The branch LENGTH is shared by the
   classes, so a class whose instance has another expected rate sees another base: q_b = s^mult[b] with
   mult[b] * mu_b * n1_b = qpow * mu_edge * n1_edge (checked: BinLengthsConsistent) *)
CH(id, newick, par, leafname, edgename, inst, rootinst, s, qpow, bprobs, mult, bininst, switch, cols, normalise) ==
    [CQ(id, newick, par, leafname, edgename, inst, rootinst, s, qpow, bprobs, mult, cols, 0, normalise)
        EXCEPT !.hmm = TRUE, !.switch = switch, !.bininst = bininst]

C(id, newick, par, leafname, edgename, inst, rootinst, s, bprobs, mult, cols, nbrute, normalise) ==
    CQ(id, newick, par, leafname, edgename, inst, rootinst, s, 1, bprobs, mult, cols, nbrute, normalise)

(* all columns over a symbol set for the leaves of a tree given as the list of leaf nodes *)
RECURSIVE SeqOfSet(_)
SeqOfSet(S) == IF S = {} THEN <<>> ELSE LET x == CHOOSE x \in S : TRUE IN <<x>> \o SeqOfSet(S \ {x})
AllCols(n, leaves, Sym) == SeqOfSet({[m \in 1..n |-> IF m \in leaves THEN f[m] ELSE "N"] : f \in [leaves -> Sym]})

Sym7 == {"T", "C", "A", "G", "R", "Y", "N"}
Sym5 == {"T", "C", "A", "G", "N"}
Sym4 == {"T", "C", "A", "G"}

(* 2 tips: (a,b); nodes 1 root, 2 a, 3 b *)
T2 == C("t2-F81", "(a,b)", <<0, 1, 1>>, <<"", "a", "b">>, <<"", "a", "b">>, <<0, 3, 3>>, 3,
        <<One, Half, Third>>, <<>>, <<>>, AllCols(3, {2, 3}, Sym7), 49, TRUE)

(* 3-tip star: (a,b,c) *)
S3jc == C("star3-JC69", "(a,b,c)", <<0, 1, 1, 1>>, <<"", "a", "b", "c">>, <<"", "a", "b", "c">>, <<0, 1, 1, 1>>, 1,
          <<One, Half, Third, TwoThirds>>, <<>>, <<>>, AllCols(4, {2, 3, 4}, Sym7), 40, TRUE)
S3tn == C("star3-TN93", "(a,b,c)", <<0, 1, 1, 1>>, <<"", "a", "b", "c">>, <<"", "a", "b", "c">>, <<0, 5, 5, 5>>, 5,
          <<One, Half, Third, Half>>, <<>>, <<>>, AllCols(4, {2, 3, 4}, Sym5), 20, TRUE)

(* rooted 3 tips: ((a,b)ab,c): nodes 1 root, 2 ab, 3 c, 4 a, 5 b *)
R3hk == C("rooted3-HKY85", "((a,b)ab,c)", <<0, 1, 1, 2, 2>>, <<"", "", "c", "a", "b">>, <<"", "ab", "c", "a", "b">>, <<0, 4, 4, 4, 4>>, 4,
          <<One, Half, Third, Half, TwoThirds>>, <<>>, <<>>, AllCols(5, {3, 4, 5}, Sym5), 20, TRUE)

(* per-edge parameter scope: kappa = 3 on edges a and ab (HKY85 inst 4), kappa = 1 elsewhere is not an instance with the
   same pi, so scope is exercised with K80 (inst 2) on a, ab and JC69 (inst 1) on b, c: same (equal) motif probs *)
R3sc == C("rooted3-K80-scoped", "((a,b)ab,c)", <<0, 1, 1, 2, 2>>, <<"", "", "c", "a", "b">>, <<"", "ab", "c", "a", "b">>, <<0, 2, 1, 2, 1>>, 1,
          <<One, Half, Third, Half, TwoThirds>>, <<>>, <<>>, AllCols(5, {3, 4, 5}, Sym5), 20, TRUE)

(* 4 tips balanced: ((a,b)ab,(c,d)cd): nodes 1 root, 2 ab, 3 cd, 4 a, 5 b, 6 c, 7 d *)
B4k8 == C("balanced4-K80", "((a,b)ab,(c,d)cd)", <<0, 1, 1, 2, 2, 3, 3>>, <<"", "", "", "a", "b", "c", "d">>, <<"", "ab", "cd", "a", "b", "c", "d">>,
          <<0, 2, 2, 2, 2, 2, 2>>, 2, <<One, Half, Third, Half, Half, Third, Half>>, <<>>, <<>>, AllCols(7, {4, 5, 6, 7}, Sym4), 6, TRUE)

(* root trifurcation with an inner clade: (a,b,(c,d)cd): nodes 1 root, 2 a, 3 b, 4 cd, 5 c, 6 d *)
P4f == C("trifurcation4-F81", "(a,b,(c,d)cd)", <<0, 1, 1, 1, 4, 4>>, <<"", "a", "b", "", "c", "d">>, <<"", "a", "b", "cd", "c", "d">>,
         <<0, 3, 3, 3, 3, 3>>, 3, <<One, Half, Third, Half, Half, Third>>, <<>>, <<>>, AllCols(6, {2, 3, 5, 6}, Sym5), 6, TRUE)

(* 4-tip star *)
S4jc == C("star4-JC69", "(a,b,c,d)", <<0, 1, 1, 1, 1>>, <<"", "a", "b", "c", "d">>, <<"", "a", "b", "c", "d">>, <<0, 1, 1, 1, 1>>, 1,
          <<One, Half, Third, TwoThirds, Half>>, <<>>, <<>>, AllCols(5, {2, 3, 4, 5}, Sym5), 10, TRUE)

(* two rate classes, bprobs 1/2,1/2, rates 2/3 and 4/3 (cogent3's default free rates): q = s^3, classes s^2 and s^4 *)
S3bins == CQ("star3-F81-2bins", "(a,b,c)", <<0, 1, 1, 1>>, <<"", "a", "b", "c">>, <<"", "a", "b", "c">>, <<0, 3, 3, 3>>, 3,
            <<One, Half, Third, Half>>, 3, <<R(1,2), R(1,2)>>, <<2, 4>>, AllCols(4, {2, 3, 4}, Sym5), 10, TRUE)

(* unequal class weights 1/4,3/4: cogent3's free rates are then 4/7 and 8/7: q = s^7, classes s^4 and s^8 *)
T2bins == CQ("t2-F81-2bins-unequal", "(a,b)", <<0, 1, 1>>, <<"", "a", "b">>, <<"", "a", "b">>, <<0, 3, 3>>, 3,
            <<One, Half, Half>>, 7, <<R(1,4), R(3,4)>>, <<4, 8>>, AllCols(3, {2, 3}, Sym5), 25, TRUE)

(* site-HMM: two classes (JC69 = K80 with kappa 1; K80 kappa 3) with UNEQUAL weights 1/4,3/4 (an asymmetric patch chain),
   bin_switch 1/2; tip a sits on the root (q = 1) so that the exact numbers stay within 32 bits over two columns.
   K80(kappa 3) has expected rate 5/4 per unit q-exponent, JC69 3/4: the edge's q = s^3 is s^5 for the JC69 class *)
ColsOf(n, leaves, seqs) == [i \in 1..Len(seqs[CHOOSE m \in leaves : TRUE]) |-> [m \in 1..n |-> IF m \in leaves THEN seqs[m][i] ELSE "N"]]
H2 == CH("t2-K80-hmm-unequal", "(a,b)", <<0, 1, 1>>, <<"", "a", "b">>, <<"", "a", "b">>, <<0, 2, 2>>, 1,
         <<One, One, Half>>, 3, <<R(1,4), R(3,4)>>, <<5, 3>>, <<1, 2>>, R(1,2),
         ColsOf(3, {2, 3}, << <<>>, <<"A", "C">>, <<"G", "C">> >>), TRUE)
(* three classes 1/4,1/4,1/2 (patch 1 = class 1 with 1/4; patch 2 = classes 2,3 with 3/4), bin_switch 1/3, an ambiguous symbol *)
H3 == CH("t2-K80-hmm-3classes", "(a,b)", <<0, 1, 1>>, <<"", "a", "b">>, <<"", "a", "b">>, <<0, 2, 2>>, 1,
         <<One, One, Half>>, 3, <<R(1,4), R(1,4), R(1,2)>>, <<3, 5, 3>>, <<2, 1, 2>>, R(1,3),
         ColsOf(3, {2, 3}, << <<>>, <<"A", "R">>, <<"G", "T">> >>), FALSE)
(* equal patch probabilities (the symmetric chain) *)
H2eq == CH("t2-K80-hmm-equal", "(a,b)", <<0, 1, 1>>, <<"", "a", "b">>, <<"", "a", "b">>, <<0, 2, 2>>, 1,
         <<One, One, Half>>, 3, <<R(1,2), R(1,2)>>, <<5, 3>>, <<1, 2>>, R(1,2),
         ColsOf(3, {2, 3}, << <<>>, <<"A", "T">>, <<"G", "T">> >>), FALSE)

(* two loci on a 3-tip star: locus x is K80 kappa 3, locus y is JC69 (kappa 1); the loci have different columns and
   different numbers of them *)
L3 == CL("star3-K80-2loci", "(a,b,c)", <<0, 1, 1, 1>>, <<"", "a", "b", "c">>, <<"", "a", "b", "c">>, <<0, 2, 2, 2>>, 1,
         <<One, One, Half, Half>>, 3, <<3, 5>>, <<2, 1>>,
         << ColsOf(4, {2, 3, 4}, << <<>>, <<"A", "C", "G", "T", "A">>, <<"G", "C", "G", "T", "R">>, <<"A", "T", "G", "C", "A">> >>),
            ColsOf(4, {2, 3, 4}, << <<>>, <<"T", "T", "C">>, <<"C", "T", "N">>, <<"T", "A", "C">> >>) >>, TRUE)
(* a WIDE polytomy: 9 tips under the root (kernels that take their children in groups must still multiply all of them);
   JC69, q = 1/2 on odd edges, q = 1 (zero length) on even ones keeps the exact numbers small; no brute force (4^10 assignments) *)
S9jc == C("star9-JC69", "(a,b,c,d,e,f,g,h,i)", <<0, 1, 1, 1, 1, 1, 1, 1, 1, 1>>, <<"", "a", "b", "c", "d", "e", "f", "g", "h", "i">>,
          <<"", "a", "b", "c", "d", "e", "f", "g", "h", "i">>, <<0, 1, 1, 1, 1, 1, 1, 1, 1, 1>>, 1,
          <<One, Half, Half, Half, Half, Half, Half, Half, Half, Half>>, <<>>, <<>>,
          ColsOf(10, 2..10, << <<>>, <<"A", "A", "C">>, <<"A", "C", "C">>, <<"A", "A", "G">>, <<"A", "G", "T">>, <<"A", "A", "A">>,
                                       <<"A", "T", "N">>, <<"A", "A", "C">>, <<"A", "C", "R">>, <<"A", "G", "G">> >>), 0, FALSE)
(* tree shapes for the root-free parameter scopes of Invariance.tla (two columns only: the scopes need the tree, not the data) *)
TwoCols(n, leaves) == << [m \in 1..n |-> IF m \in leaves THEN "A" ELSE "N"], [m \in 1..n |-> IF m \in leaves THEN (IF m % 2 = 0 THEN "C" ELSE "T") ELSE "N"] >>
P4s == [P4f EXCEPT !.id = "trifurcation4-scopes", !.cols = TwoCols(6, {2, 3, 5, 6}), !.nbrute = 2, !.normalise = FALSE]
B4s == [B4k8 EXCEPT !.id = "balanced4-scopes", !.cols = TwoCols(7, {4, 5, 6, 7}), !.nbrute = 2, !.normalise = FALSE]
(* 5 tips, root trifurcation over two cherries and a tip: ((a,b)ab,(c,d)cd,e): nodes 1 root, 2 ab, 3 cd, 4 e, 5 a, 6 b, 7 c, 8 d *)
T5s == C("trifurcation5-scopes", "((a,b)ab,(c,d)cd,e)", <<0, 1, 1, 1, 2, 2, 3, 3>>, <<"", "", "", "e", "a", "b", "c", "d">>,
         <<"", "ab", "cd", "e", "a", "b", "c", "d">>, <<0, 4, 4, 4, 4, 4, 4, 4>>, 4,
         <<One, Half, Third, Half, Half, Third, Half, TwoThirds>>, <<>>, <<>>, TwoCols(8, {4, 5, 6, 7, 8}), 2, FALSE)
ScopeConfigs == <<P4s, B4s, T5s>>
HmmConfigs == <<H2, H3, H2eq>>
QuickConfigs == <<T2, S3jc, R3hk, R3sc, S3bins, T2bins, H2, H3, H2eq, L3, S9jc>>
AllConfigs == <<T2, S3jc, S3tn, R3hk, R3sc, B4k8, P4f, S4jc, S3bins, T2bins, H2, H3, H2eq, L3, S9jc>>
QuickInvConfigs == QuickConfigs \o ScopeConfigs
AllInvConfigs == AllConfigs \o ScopeConfigs
=============================================================================
