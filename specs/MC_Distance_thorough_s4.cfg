SPECIFICATION Spec
CONSTANTS
  NSeq = 4
  NCol = 2
  Syms = {"A", "G", "-"}
  Mode = "all"
  DiagSet = {}
  OffSize = 0
  OffMults = {}
  NCBlocks = {}
INVARIANT TypeOK
INVARIANT Symmetric
INVARIANT ZeroDiagonal
INVARIANT ClassesSymmetric
INVARIANT ScaleInvariant
INVARIANT ColumnOrderFree
INVARIANT ShortcutSound
INVARIANT ShortcutKeepsComputed
