SPECIFICATION Spec
CONSTANTS
  RefLen = 2
  NOthers = 2
  MaxIns = 2
INVARIANT Emitted
