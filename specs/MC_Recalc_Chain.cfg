SPECIFICATION Spec
CONSTANTS
  NPar = 3
  N = 6
  Args <- ChainArgs
  Recycled <- ChainRecycled
  BadCell = 5
  BadPar = 3
  BadVal = 3
  Vals = {1, 2, 3}
  Default = 1
INVARIANT Fresh
INVARIANT UndoSound
INVARIANT ReturnIsTop
INVARIANT NeverMixed
PROPERTY RefusedKeepsInputs
