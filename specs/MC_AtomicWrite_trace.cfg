\* code -> spec trace validation (Trace_AtomicWrite.tla); Configs / PreStates are unused by TraceSpec
SPECIFICATION TraceSpec
CONSTANTS
  Configs <- AllConfigs
  PreStates = {"absent", "Old"}
