SPECIFICATION Spec
CONSTANTS
  N = 2
  S = 3
  Ws = {0, 1, 2, 3}
  WriterTyped = {TRUE, FALSE}
  Namings = {"plain"}
  RetireRule = "equal"
  Reps = {"list"}
  Reversed = {FALSE, TRUE}
  FnStep = 2
  Isolated = TRUE
  Named = {TRUE, FALSE}
INVARIANT TypeOK
INVARIANT Conservation
INVARIANT AtMostOnce
INVARIANT Accounted
INVARIANT KindAndStep
INVARIANT PassThrough
INVARIANT Fifo
INVARIANT ArgPristine
PROPERTY WriteOnce
