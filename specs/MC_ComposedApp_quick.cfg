SPECIFICATION Spec
CONSTANTS
  N = 2
  S = 3
  Ws = {0, 1, 2, 3}
  WriterTyped = {TRUE, FALSE}
  Named = {TRUE, FALSE}
INVARIANT TypeOK
INVARIANT Conservation
INVARIANT AtMostOnce
INVARIANT Accounted
INVARIANT KindAndStep
INVARIANT PassThrough
INVARIANT Fifo
PROPERTY WriteOnce
