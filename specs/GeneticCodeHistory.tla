-------------------------- MODULE GeneticCodeHistory --------------------------
(* Property C12, purity made explicit.                                        *)
(*                                                                            *)
(* GeneticCode.tla treats every operation as a function of its input.  The    *)
(* real library keeps module-level objects (molecular types, genetic codes)   *)
(* alive for the whole process, so "a function of its input" is a claim about *)
(* HISTORIES: whatever was asked before, of whichever molecular type, the     *)
(* answer to the next question is the same.                                   *)
(*                                                                            *)
(* State: hist, the sequence of questions put to the library so far in one    *)
(* process (at most MaxHist), and ans, the answer to the last one.  Every      *)
(* action asks one more question.  The questions are chosen so that their      *)
(* motif sets COLLIDE across alphabets: {A,G} is purine R for DNA/RNA but      *)
(* Ala/Gly for protein; {A,T} is W for DNA but Ala/Thr for protein; "N" is no  *)
(* base but is asparagine; the full base set is N; {D,N} is protein B but two  *)
(* DNA symbols.  Translation of degenerate codons asks the protein type for    *)
(* the symbol of an amino-acid set, which is where such sets meet.             *)
(*                                                                            *)
(* The harness (harness/history_C12.py) replays every maximal history in a     *)
(* pristine forked child process (nothing asked before), in the emitted order, *)
(* on the old and new molecular types, sequences and collections, and          *)
(* compares every answer with the one emitted here.  All ordered pairs of      *)
(* questions are histories, so both "query then translate" and "translate then *)
(* query" are covered.                                                         *)
EXTENDS GeneticCode

CONSTANTS MaxHist      \* number of questions in one process

VARIABLES hist, ans
hvars == <<inp, hist, ans>>

-----------------------------------------------------------------------------
(* the questions                                                             *)

Q(op, mt, s, set) == [op |-> op, mt |-> mt, s |-> s, set |-> set]
WA(mt, S) == Q("WA", mt, <<>>, S)       \* what_ambiguity / degenerate_from_seq: symbol of a motif set
TR(s)     == Q("TR", "dna", s, {})      \* translate s (IUPAC nucleotide string), genetic code 1, every entry point
CP(mt, s) == Q("CP", mt, s, {})         \* complement of an IUPAC string
RS(mt, x) == Q("RS", mt, <<x>>, {})     \* resolve_ambiguity of a symbol

(* M N A: asparagine, whose letter is the nucleotide symbol N *)
Canon1 == <<"A","T","G", "A","A","T", "G","C","T">>
(* A C G T N R Y W S K M D H V: every amino acid whose letter is also a nucleotide symbol *)
Canon2 == <<"G","C","T", "T","G","T", "G","G","T", "A","C","T", "A","A","T", "C","G","T", "T","A","T",
            "T","G","G", "T","C","T", "A","A","A", "A","T","G", "G","A","T", "C","A","T", "G","T","T">>
(* degenerate codons whose amino-acid sets are the colliding sets: GSA = {Ala, Gly}, RCA = {Thr, Ala} *)
Deg1 == <<"G","S","A">>
Deg2 == <<"R","C","A">>
Deg3 == <<"A","T","G", "G","S","A", "A","A","T", "R","C","A">>

Questions ==
    { WA("dna", {"A","G"}), WA("dna", {"A","T"}), WA("dna", {"C","T"}), WA("dna", {"N"}), WA("dna", {"R"}),
      WA("dna", {"A","C","G","T"}),
      WA("rna", {"A","G"}), WA("rna", {"A","U"}), WA("rna", {"N"}),
      WA("protein", {"D","N"}), WA("protein", {"E","Q"}), WA("protein", {"A","G"}), WA("protein", {"A","T"}),
      WA("protein", {"N"}),
      TR(Canon1), TR(Canon2), TR(Deg1), TR(Deg2), TR(Deg3),
      CP("dna", <<"R","N","A">>), CP("rna", <<"Y","U","K">>),
      RS("dna", "R"), RS("dna", "N"), RS("rna", "Y"), RS("protein", "B") }

-----------------------------------------------------------------------------
(* the answers: functions of the question alone                              *)

(* the least degenerate symbol whose set holds all of S; the missing symbol when there is none *)
NucWhatAmb(mt, S) ==
    LET cands == {x \in AllSyms(mt) : S \subseteq Resolve(mt, x)}
    IN IF cands = {} THEN "?"
       ELSE CHOOSE x \in cands : \A y \in cands : Cardinality(Resolve(mt, x)) <= Cardinality(Resolve(mt, y))

(* protein: a single amino acid is itself, Asx = B, Glx = Z, anything else is X *)
ProtWhatAmb(S) ==
    IF Cardinality(S) = 1 THEN CHOOSE a \in S : TRUE
    ELSE IF S \subseteq {"D", "N"} THEN "B"
    ELSE IF S \subseteq {"E", "Q"} THEN "Z"
    ELSE "X"

ToT(b) == IF b = "U" THEN "T" ELSE b
CodonAAs(id, c) ==
    {AA(id, <<ToT(b1), ToT(b2), ToT(b3)>>) : b1 \in Resolve("dna", c[1]), b2 \in Resolve("dna", c[2]), b3 \in Resolve("dna", c[3])}
(* codon by codon; a degenerate codon gives the symbol of its amino-acid set.  The questions only  *)
(* use degenerate codons whose set is neither a single amino acid nor Asx / Glx, where the old      *)
(* (symbol of the set) and new ("X") conventions coincide.                                          *)
DegTranslate(id, s) == [j \in 1..(Len(s) \div 3) |-> ProtWhatAmb(CodonAAs(id, CodonAt(s, 0, j)))]

A(str, set) == [str |-> str, set |-> set]
Answer(q) ==
    CASE q.op = "WA" -> A(<<IF q.mt = "protein" THEN ProtWhatAmb(q.set) ELSE NucWhatAmb(q.mt, q.set)>>, {})
      [] q.op = "TR" -> A(DegTranslate(1, q.s), {})
      [] q.op = "CP" -> A(CompStr(q.mt, q.s), {})
      [] q.op = "RS" -> A(<<>>, IF q.mt = "protein" THEN ProtResolve(q.s[1]) ELSE Resolve(q.mt, q.s[1]))

-----------------------------------------------------------------------------
NoAns == A(<<"-">>, {})

HInit == inp = Start /\ hist = <<>> /\ ans = NoAns

AskT(q) == /\ Len(hist) < MaxHist
           /\ hist' = Append(hist, q)
           /\ ans' = Answer(q)
           /\ UNCHANGED inp
Ask(q) == AskT(q) /\ Emit([act |-> "Ask", hist |-> hist, q |-> q, ans |-> ans'])

HNext == \E q \in Questions : Ask(q)

HSpec == HInit /\ [][HNext]_hvars

-----------------------------------------------------------------------------
(* design-level properties                                                   *)

HTypeOK == /\ hist \in Seq(Questions) /\ Len(hist) <= MaxHist
           /\ ans.set \subseteq SymPool \cup AAStar
           /\ \A i \in 1..Len(ans.str) : ans.str[i] \in SymPool \cup AAStar \cup {"X", "Z"}

(* The answer to a question does not depend on what was asked before: after any history, *)
(* asking q yields the same answer as asking q first.                                     *)
HistoryIndependent ==
    [][\A q \in Questions : hist' = Append(hist, q) => ans' = Answer(q)]_hvars

(* and the same question asked twice in one history is answered twice the same way *)
AnswerOfLast == hist # <<>> => ans = Answer(hist[Len(hist)])

(* the model's own answers fit the rest of the oracle (constant-level: checked once as an assumption) *)
ASSUME AnswersFitOracle ==
    /\ \A mt \in MolTypes : \A S \in BaseSets(mt) : NucWhatAmb(mt, S) = Encode(mt, S)
    /\ \A x \in ProtSyms : ProtWhatAmb(ProtResolve(x)) = x
    /\ DegTranslate(1, Canon1) = Translate(1, Canon1, 0)
    /\ DegTranslate(1, Canon2) = Translate(1, Canon2, 0)
    /\ DegTranslate(1, Deg1) = <<"X">> /\ DegTranslate(1, Deg2) = <<"X">>
    /\ NucWhatAmb("dna", {"N"}) = "?" /\ ProtWhatAmb({"N"}) = "N"
=============================================================================
