------------------------------ MODULE Optimiser ------------------------------
(* Property C16, second clause: an optimisation run seen from the calculator.  *)
(* The optimiser is an adversary: it may evaluate any parameter vector and     *)
(* observe any value; runs may be cut short by an evaluation limit.  What must *)
(* hold: every evaluated vector is within the declared bounds, and the value   *)
(* the likelihood function reports when the run is over is not below the value *)
(* it started from.  Values are dense ranks of the observed log-likelihoods.   *)
EXTENDS Naturals, Sequences, TLC

CONSTANTS MaxRank

VARIABLES phase, start, best, final, evals, allin
vars == <<phase, start, best, final, evals, allin>>

Init == phase = "idle" /\ start = 0 /\ best = 0 /\ final = 0 /\ evals = 0 /\ allin = TRUE

StartT(f) == /\ phase = "idle" /\ phase' = "running"
             /\ start' = f /\ best' = f /\ evals' = 0 /\ allin' = TRUE /\ UNCHANGED final
EvalT(f, inb) == /\ phase = "running"
                 /\ evals' = evals + 1
                 /\ best' = IF inb /\ f > best THEN f ELSE best
                 /\ allin' = (allin /\ inb)
                 /\ UNCHANGED <<phase, start, final>>
(* the calculator REFUSES a vector during the evaluation (ParameterOutOfBoundsError / ArithmeticError raised by a   *)
(* cell, e.g. GeneralStationary's exchangeability matrix): the optimiser sees -infinity; legal, changes nothing      *)
RejectedT == /\ phase = "running"
             /\ evals' = evals + 1
             /\ UNCHANGED <<phase, start, best, final, allin>>
FinishT(f) == /\ phase = "running" /\ phase' = "done" /\ final' = f
              /\ UNCHANGED <<start, best, evals, allin>>
ResetT == phase = "done" /\ phase' = "idle" /\ UNCHANGED <<start, best, final, evals, allin>>

Next == \/ \E f \in 0..MaxRank : StartT(f) \/ FinishT(f)
        \/ \E f \in 0..MaxRank, b \in BOOLEAN : EvalT(f, b)
        \/ RejectedT
        \/ ResetT
Spec == Init /\ [][Next]_vars

(* There is NO action by which a running optimisation ends other than FinishT: a run started from a point with a     *)
(* finite likelihood that ends by RAISING (Trace event "raised") is not a behaviour of this specification.            *)
(* the obligations (checked on recorded runs by Trace_Optimiser) *)
NeverLoses == phase = "done" => final >= start
WithinBounds == allin
=============================================================================
