SPECIFICATION Spec
CONSTANTS
  Tips = {"a", "b", "c", "d"}
INVARIANT Symmetric
INVARIANT ZeroIffEqual
INVARIANT RFBounded
