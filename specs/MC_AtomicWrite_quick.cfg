\* the transcribed current protocol, explored completely; transitions are emitted with the
\* verdict of OutcomeOK on the successor (Atomic is NOT an invariant here: see MC_AtomicWrite_cx.cfg)
SPECIFICATION FairSpec
CONSTANTS
  Configs <- CurrentConfigs
  PreStates = {"absent", "Old"}
INVARIANT TypeOK
PROPERTY HappyPathSucceeds
PROPERTY Terminates
