\* the transcribed current protocol, explored completely: Atomic holds; transitions are emitted
\* with the verdict of OutcomeOK on the successor
SPECIFICATION FairSpec
CONSTANTS
  Configs <- CurrentConfigs
  PreStates = {"absent", "Old"}
INVARIANT TypeOK
INVARIANT Atomic
INVARIANT CloseFailureIsAFailure
PROPERTY HappyPathSucceeds
PROPERTY Terminates
