-------------------------------- MODULE UPGMA --------------------------------
(* UPGMA clustering (Sokal & Michener; cogent3.cluster.UPGMA.upgma,            *)
(* UPGMA_cluster, condense_matrix, condense_node_order): property C15.         *)
(*                                                                            *)
(* Abstract state: the current clusters (sets of tips, identified by their    *)
(* least tip), the height of each cluster's node, the edges fixed so far.     *)
(* The published algorithm: the distance between clusters is the MEAN of the  *)
(* tip-to-tip distances across them; join ANY closest pair (ties are          *)
(* nondeterministic), the new node sits at half that distance, each child     *)
(* edge spans the difference of heights.  Exact arithmetic: cluster distance  *)
(* is kept as the sum S(x,y) over |x||y| pairs, heights are rationals.        *)
(*                                                                            *)
(* The implementation replaces the two rows by their plain average            *)
(* (condense_matrix); the variable w carries that matrix (at scale wsc) and   *)
(* ImplAgrees states that on the checked inputs it is the mean distance.      *)
(*                                                                            *)
(* Design-level property (TLC): for EVERY rooted labelled binary tree on N    *)
(* tips with every strictly increasing assignment of integer node heights     *)
(* from Heights (an ultrametric generator; equal heights on unrelated nodes   *)
(* give ties) the matrix D = 2 * height(lca) leads, along every tie-break, to *)
(* exactly the generator's clades with the generator's edge lengths.          *)
EXTENDS UPGMATrees, Emit      \* UPGMATrees: constants N, Heights; the ultrametric generators

VARIABLES gen,      \* [tree |-> family of clades over 1..N, h |-> [internal clades -> Heights]]
          dm,       \* the input matrix [Tips -> [Tips -> Nat]]
          mem,      \* [id -> tips of the cluster]
          ht,       \* [id -> <<num, den>>] height of the cluster's node
          w, wsc,   \* implementation matrix [id -> [id -> Int]] at scale wsc
          edges,    \* {<<clade, <<num, den>>>>}
          phase
vars == <<gen, dm, mem, ht, w, wsc, edges, phase>>

(* ---- the algorithm, on any matrix ------------------------------------------------ *)
Ids == DOMAIN mem
L == Cardinality(Ids)
Pairs == {p \in Ids \X Ids : p[1] < p[2]}
Size(p) == Cardinality(mem[p[1]]) * Cardinality(mem[p[2]])
S(p) == SumF(mem[p[1]] \X mem[p[2]], [ab \in mem[p[1]] \X mem[p[2]] |-> dm[ab[1]][ab[2]]])
ArgMin == LET s == [p \in Pairs |-> S(p)]
              n == [p \in Pairs |-> Size(p)]
          IN  {p \in Pairs : \A o \in Pairs : s[p] * n[o] <= s[o] * n[p]}

StartOn(M) ==
    /\ dm = M
    /\ mem = [t \in Tips |-> {t}]
    /\ ht = [t \in Tips |-> <<0, 1>>]
    /\ w = M
    /\ wsc = 1
    /\ edges = {}

JoinStep(a, b) ==
    LET p    == <<a, b>>
        hnew == Reduce(<<S(p), 2 * Size(p)>>)
        I2   == Ids \ {b}
    IN /\ mem' = [x \in I2 |-> IF x = a THEN mem[a] \cup mem[b] ELSE mem[x]]
       /\ ht' = [x \in I2 |-> IF x = a THEN hnew ELSE ht[x]]
       /\ edges' = edges \cup {<<mem[a], RSub(hnew, ht[a])>>, <<mem[b], RSub(hnew, ht[b])>>}
       /\ w' = [x \in I2 |-> [y \in I2 |->
                   IF x = y THEN 0
                   ELSE IF x = a THEN w[a][y] + w[b][y]
                   ELSE IF y = a THEN w[a][x] + w[b][x]
                   ELSE 2 * w[x][y]]]
       /\ wsc' = 2 * wsc
       /\ phase' = IF L = 2 THEN "done" ELSE "join"
       /\ UNCHANGED <<gen, dm>>

JoinT(a, b) == /\ phase = "join"
               /\ <<a, b>> \in ArgMin
               /\ JoinStep(a, b)

(* ---- the checked behaviour ---------------------------------------------------------- *)
(* the generator is chosen in two steps (shape, then heights) so that TLC explores the *)
(* generators in parallel; phase "pick" is not part of the algorithm                   *)
ZeroM == [a \in Tips |-> [b \in Tips |-> 0]]
Init == /\ \E T \in Families(1, N) : gen = [tree |-> T, h |-> [C \in Internal(T) |-> 0]]
        /\ StartOn(ZeroM)
        /\ phase = "pick"
Pick == /\ phase = "pick"
        /\ \E h \in HeightMaps(gen.tree) :
              /\ gen' = [tree |-> gen.tree, h |-> h]
              /\ dm' = GenMatrix(gen')
              /\ w' = dm'
        /\ phase' = "join"
        /\ UNCHANGED <<mem, ht, wsc, edges>>

Join == /\ phase = "join"
        /\ \E p \in ArgMin : JoinStep(p[1], p[2])
        /\ IF phase' = "done"
           THEN Emit([from |-> [n |-> N, D |-> dm, gen |-> GenEdges(gen)],
                      act |-> "UPGMA", args |-> <<>>, to |-> [edges |-> edges']])
           ELSE TRUE
Next == Pick \/ Join
Spec == Init /\ [][Next]_vars

(* ---- design-level properties ------------------------------------------------------------ *)
Recovered == phase = "done" => edges = GenEdges(gen)

(* the plain row average of the implementation is the mean distance between clusters *)
ImplAgrees == phase # "pick" => \A p \in Pairs : w[p[1]][p[2]] * Size(p) = S(p) * wsc

(* every closest pair is a pair of sibling clades of the generator *)
SiblingLemma == phase = "join" =>
                   \A p \in ArgMin : (mem[p[1]] \cup mem[p[2]]) \in gen.tree

PositiveLengths == \A e \in edges : e[2][1] > 0

TypeOK == /\ phase \in {"pick", "join", "done"}
          /\ \A x \in Ids : x \in mem[x] /\ \A t \in mem[x] : x <= t
          /\ UNION {mem[x] : x \in Ids} = Tips
=============================================================================
