SPECIFICATION Spec
CONSTANTS
  N = 5
  TipLens = {1, 2}
  IntLens = {0, 1, 2}
INVARIANT TypeOK
INVARIANT Recovered
INVARIANT ResultShape
INVARIANT CherryLemma
INVARIANT NoClamp
