SPECIFICATION Spec
CONSTANTS
  Profile = "thorough"
  Group = "long"
INVARIANT ResultShape
INVARIANT LongTypeLaw
