SPECIFICATION Spec
CONSTANTS
  Ids = {"a"}
  Data = {"x", "y"}
  LogIds = {"l1"}
  Aliases = {FALSE, TRUE}
INVARIANT TypeOK
PROPERTY Isolation
PROPERTY AppendNeverOverwrites
PROPERTY ReadOnlyNeverMutates
PROPERTY RefusedChangesNothing
PROPERTY WriteRetiresExactlyMatching
