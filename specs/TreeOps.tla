------------------------------- MODULE TreeOps -------------------------------
(* State machine of cogent3 tree transformations (property C09).              *)
(*                                                                            *)
(* State: the current tree (Trees.tla representation; EMPTY before make_tree).*)
(* One action per public call; the successor is the tree the call is meant to *)
(* return.  The reachable set is closed (no depth bound): every composition   *)
(* of the transformations on every initial tree is a path of this graph.      *)
(* The property is the action property StepPreserves: every step keeps the    *)
(* retained tips, the unrooted topology among them and all tip-to-tip path    *)
(* lengths.  TLC emits each transition with the observations the result must  *)
(* show; the harness replays it on the real PhyloNode reached by the same     *)
(* history.  "tree" is the only variable: a call that returns a new tree has  *)
(* no effect on its receiver, so the harness also requires the real receiver  *)
(* to be unmodified after the call and after the result is changed in place.  *)
(* Which internal child unrooted() dissolves is left open (nondeterministic). *)
(*                                                                            *)
(* NAMES are part of the state: a node is identified by the name of the edge  *)
(* above it (Trees.tla), so a tree of the model has pairwise different names  *)
(* by construction (NamesUnique) and an action that creates a node gives it a *)
(* name that is not in use (CreatedNameIsFresh; WHICH name is not modelled).  *)
(* The harness requires the same of every real result, and requires the       *)
(* name-carrying round trips (json, rich dict, newick with node names) to     *)
(* return every name on the same node.  Names of the model are opaque; the    *)
(* harness instantiates them in several name classes, among them: internal    *)
(* names left to the newick parser (Make's second argument is the newick      *)
(* text without internal labels: edge.0, edge.1, ...) and user-given internal *)
(* names that look like generated ones (edge.0, edge.0.1, ...).               *)
(* LENGTHS of the model are whole numbers of half units.  The harness          *)
(* instantiates the half unit as 1/2 (exact binary floats, every action) and,  *)
(* for the text round trips of freshly made trees, as 1.23456789e-9 / 2 and    *)
(* 50.000000000123 / 2 (extreme but legal lengths, not representable in a few  *)
(* decimals; path lengths then compared with relative tolerance 1e-9).         *)
EXTENDS Trees, Emit

CONSTANTS MinTips, MaxTips,    \* initial trees have MinTips..MaxTips tips
          ExhaustNodes,        \* trees with at most this many nodes get every length assignment
          Patterns,            \* subset of 1..4: length patterns for larger trees
          Ops,                 \* set of enabled operation names
          TipsOnlyVals,        \* values of get_sub_tree's tipsonly flag to exercise
          ShapeMod, ShapeRem,  \* sampling of initial shapes: keep those with hash % ShapeMod = ShapeRem
          MaxLevel             \* bound on the history length for sampled configurations (DepthBound)

VARIABLE tree
vars == <<tree>>

EMPTY == [par |-> <<>>, ln |-> <<>>]
TipSeq == <<"a", "b", "c", "d", "e", "f", "g">>
IntSeq == <<"n1", "n2", "n3", "n4", "n5", "n6">>
TipNames == {TipSeq[i] : i \in 1..Len(TipSeq)}
Rank == [t \in TipNames |-> CHOOSE i \in 1..Len(TipSeq) : TipSeq[i] = t]
RevRank == [t \in TipNames |-> Len(TipSeq) + 1 - Rank[t]]

(* ---- initial trees: all plane shapes without unary nodes -------------------- *)
(* p[i-1] is the parent of node i (node 1 is the root); level-order numbering  *)
(* makes p nondecreasing, so every ordered shape appears exactly once.         *)
RECURSIVE PVnd(_)
PVnd(n) == IF n = 2 THEN {<<1>>}
           ELSE UNION {{Append(p, k) : k \in p[Len(p)]..(n - 1)} : p \in PVnd(n - 1)}
Range(p) == {p[i] : i \in 1..Len(p)}
NoUnary(p) == \A v \in Range(p) : Cardinality({i \in 1..Len(p) : p[i] = v}) >= 2
NTips(p) == Len(p) + 1 - Cardinality(Range(p))
ShapesN(n) == {p \in PVnd(n) : NoUnary(p) /\ NTips(p) >= MinTips /\ NTips(p) <= MaxTips}
RECURSIVE ShapeHash(_, _)
ShapeHash(p, i) == IF i = 0 THEN Len(p) ELSE (i + 2) * p[i] + ShapeHash(p, i - 1)
Shapes == {p \in UNION {ShapesN(n) : n \in 3..(2 * MaxTips - 1)} :
              ShapeHash(p, Len(p)) % ShapeMod = ShapeRem}

Pattern(k, i) == CASE k = 1 -> 2
                   [] k = 2 -> 2 * (1 + (i % 3))
                   [] k = 3 -> 2 * (1 + ((2 * i + (i \div 3)) % 3))
                   [] k = 4 -> 2 * (1 + ((i * i + 1) % 3))
LenChoices(p) ==
    LET n == Len(p) + 1 IN
    IF n <= ExhaustNodes THEN [2..n -> {2, 4, 6}]
    ELSE {[i \in 2..n |-> Pattern(k, i)] : k \in Patterns}

(* names: tips a, b, ... and internal nodes n1, n2, ... in node order *)
IsLeaf(p, i) == i \notin Range(p)
NameOf(p, i) ==
    IF i = 1 THEN ROOT
    ELSE IF IsLeaf(p, i) THEN TipSeq[Cardinality({j \in 2..i : IsLeaf(p, j)})]
    ELSE IntSeq[Cardinality({j \in 2..i : ~IsLeaf(p, j)})]

TreeOfShape(p, lens) ==
    LET n == Len(p) + 1
        D == {NameOf(p, i) : i \in 2..n}
        Id(e) == CHOOSE i \in 2..n : NameOf(p, i) = e
    IN [par |-> [e \in D |-> NameOf(p, p[Id(e) - 1])],
        ln  |-> [e \in D |-> lens[Id(e)]]]

(* newick text of the initial tree in real units (half of the model length),  *)
(* children in plane order                                                     *)
RECURSIVE NwkNode(_, _, _)
RECURSIVE NwkKids(_, _, _, _)
NwkKids(p, lens, ks, acc) ==
    IF ks = {} THEN acc
    ELSE LET c == CHOOSE x \in ks : \A y \in ks : x <= y
         IN NwkKids(p, lens, ks \ {c},
                    (IF acc = "" THEN "" ELSE acc \o ",") \o NwkNode(p, lens, c))
NwkNode(p, lens, i) ==
    LET ks == {j \in 2..(Len(p) + 1) : p[j - 1] = i}
        body == IF ks = {} THEN "" ELSE "(" \o NwkKids(p, lens, ks, "") \o ")"
    IN IF i = 1 THEN body \o ";"
       ELSE body \o NameOf(p, i) \o ":" \o ToString(lens[i] \div 2)

(* the same text without labels on internal nodes: the parser names them itself *)
RECURSIVE NwkNodeU(_, _, _)
RECURSIVE NwkKidsU(_, _, _, _)
NwkKidsU(p, lens, ks, acc) ==
    IF ks = {} THEN acc
    ELSE LET c == CHOOSE x \in ks : \A y \in ks : x <= y
         IN NwkKidsU(p, lens, ks \ {c},
                     (IF acc = "" THEN "" ELSE acc \o ",") \o NwkNodeU(p, lens, c))
NwkNodeU(p, lens, i) ==
    LET ks == {j \in 2..(Len(p) + 1) : p[j - 1] = i}
        body == IF ks = {} THEN "" ELSE "(" \o NwkKidsU(p, lens, ks, "") \o ")"
    IN IF i = 1 THEN body \o ";"
       ELSE body \o (IF ks = {} THEN NameOf(p, i) ELSE "") \o ":" \o ToString(lens[i] \div 2)

(* ---- binding ----------------------------------------------------------------- *)
Log(act, args, cls, exp) ==
    Emit([from |-> tree, act |-> act, args |-> args, to |-> tree',
          obs |-> Obs(tree'), cls |-> cls, exp |-> exp])
NoExp == [none |-> TRUE]

Init == tree = EMPTY

(* make_tree(newick) *)
MakeT(p, lens) == /\ tree = EMPTY
                  /\ tree' = TreeOfShape(p, lens)
Make(p, lens) == /\ MakeT(p, lens)
                 /\ Log("Make", <<NwkNode(p, lens, 1), NwkNodeU(p, lens, 1)>>, "n" \o ToString(NTips(p)), NoExp)

Live == tree # EMPTY

(* operations whose result has the structure of the receiver:                  *)
(* newick (make_tree and the older DndParser) / json round trips, copies        *)
SameT == Live /\ tree' = tree
Same(op) == /\ op \in Ops /\ SameT /\ Log(op, <<>>, "any", NoExp)

SortedOp(op, rank) ==
    /\ op \in Ops /\ SameT
    /\ Log(op, <<>>, "any", [tiporder |-> TipOrder(tree, rank, ROOT)])

(* rooted_at(name) *)
RootedAtT(n) == /\ Live /\ n \in Inner(tree)
                /\ tree' = Reroot(tree, n)
RootedAt(n) == /\ "RootedAt" \in Ops /\ RootedAtT(n)
               /\ Log("RootedAt", <<n>>, RerootCls(tree, n), NoExp)

(* rooted_with_tip(name) *)
RootedWithTipT(t) == /\ Live /\ t \in TipsOf(tree)
                     /\ tree' = Reroot(tree, tree.par[t])
RootedWithTip(t) == /\ "RootedWithTip" \in Ops /\ RootedWithTipT(t)
                    /\ Log("RootedWithTip", <<t>>, RerootCls(tree, tree.par[t]), NoExp)

(* unrooted() *)
UnrootedT == /\ Live /\ tree' \in UnrootedSet(tree)
Unrooted == /\ "Unrooted" \in Ops /\ UnrootedT
            /\ Log("Unrooted", <<>>, UnrootedCls(tree), NoExp)

(* get_sub_tree(R): tips R; a receiver with more than two root children stays  *)
(* unrooted (the code applies unrooted() to the result)                        *)
SubTreeT(R) == /\ Live /\ R \subseteq TipsOf(tree) /\ Cardinality(R) >= 2
               /\ LET S == Induced(tree, R)
                  IN tree' \in (IF RootDeg(tree) > 2 THEN UnrootedSet(S) ELSE {S})
SubTree(R, tipsonly) == /\ "SubTree" \in Ops /\ SubTreeT(R)
                        /\ Log("SubTree", <<R, tipsonly>>, SubTreeCls(tree, R), NoExp)

(* root_at_midpoint(): half units keep the midpoint integral only while the    *)
(* diameter is even; one created edge name is modelled                         *)
MidEnabled(T) == /\ Diameter(T) % 2 = 0
                 /\ (MidOnNode(T) \/ NEWEDGE \notin Dom(T))
RootAtMidpointT == /\ Live /\ MidEnabled(tree)
                   /\ tree' = MidpointRooted(tree)
RootAtMidpoint == /\ "RootAtMidpoint" \in Ops /\ RootAtMidpointT
                  /\ Log("RootAtMidpoint", <<>>, MidCls(tree), [height2 |-> Diameter(tree)])

(* prune(): in place *)
PruneT == /\ Live /\ tree' = Pruned(tree)
Prune == /\ "Prune" \in Ops /\ PruneT
         /\ Log("Prune", <<>>, PruneCls(tree), NoExp)

(* bifurcating(): the result (new zero-length edges) is observed, not kept:    *)
(* same tips, same path lengths, every original split still present           *)
Bifurcating == /\ "Bifurcating" \in Ops /\ SameT
               /\ Log("Bifurcating", <<>>, BifurcCls(tree), NoExp)

(* read-only queries of the current tree, emitted in four parts (an emitted line   *)
(* must stay well below 8 KB), for trees of at most MaxQueryTips tips              *)
MaxQueryTips == 5
QueryExp(T, part) ==
    LET tips == TipsOf(T)
        nodes == Nodes(T)
    IN CASE part = "dist" ->
              [nodedist |-> {<<u, v, NodeDist(T, u, v)>> : u, v \in nodes},
               lcaset   |-> {<<S, LCASet(T, S)>> : S \in (SUBSET tips) \ {{}}},
               maxdist  |-> Diameter(T),
               farpairs |-> FarPairs(T),
               sametopo |-> IF RootDeg(T) >= 3 /\ ~HasUnary(T)
                            THEN {<<p[1], p[2], Splits(T) = Splits(SwapTips(T, p[1], p[2]))>> :
                                      p \in {q \in tips \X tips : Rank[q[1]] < Rank[q[2]]}}
                            ELSE {}]
         [] part = "lca" ->
              [lca2    |-> {<<u, v, LCA(T, u, v)>> : u, v \in Dom(T)},
               enddist |-> {<<S, RestrictDists(Dists(T), S)>> :
                               S \in {X \in SUBSET tips : Cardinality(X) = 2
                                         \/ (Cardinality(X) >= 2 /\ Cardinality(X) + 1 >= Cardinality(tips))}}]
         [] part = "conn" ->
              [conn |-> {<<p[1], p[2], ConnPath(T, p[1], p[2])>> : p \in {q \in nodes \X nodes : q[1] # q[2]}}]
         [] part = "edgenames" ->
              [edgenames |-> {<<q[1], q[2], q[3], EdgeNames(T, q[1], q[2], q[3])>> :
                                 q \in {r \in tips \X tips \X (tips \cup {NoOutgroup}) :
                                           Rank[r[1]] < Rank[r[2]] /\ r[3] # r[1] /\ r[3] # r[2]}}]
Query(part) ==
    /\ "Query" \in Ops /\ SameT /\ Cardinality(TipsOf(tree)) <= MaxQueryTips
    /\ Emit([from |-> tree, act |-> "Query", args |-> <<part>>, to |-> tree', obs |-> NoExp,
             cls |-> "any", exp |-> QueryExp(tree, part)])

Next == \/ tree = EMPTY /\ \E p \in Shapes : \E lens \in LenChoices(p) : Make(p, lens)
        \/ \E op \in {"NewickRT", "NewickNamesRT", "NewickDefaultRT", "JsonRT", "RichDictRT",
                      "Copy", "DeepCopy", "CopyModule", "DndRT"} : Same(op)
        \/ SortedOp("Sorted", Rank) \/ SortedOp("SortedRev", RevRank)
        \/ \E n \in Nodes(tree) : RootedAt(n)
        \/ \E t \in Dom(tree) : RootedWithTip(t)
        \/ Unrooted
        \/ \E R \in SUBSET TipsOf(tree) : \E tonly \in TipsOnlyVals : SubTree(R, tonly)
        \/ RootAtMidpoint
        \/ Prune
        \/ Bifurcating
        \/ \E part \in {"dist", "lca", "conn", "edgenames"} : Query(part)

Spec == Init /\ [][Next]_vars

(* sampled configurations only: histories of at most MaxLevel - 1 calls *)
DepthBound == TLCGet("level") < MaxLevel

------------------------------------------------------------------------------
(* Design-level properties checked by TLC on the model itself.                *)

TreeOK == Live => WellFormed(tree)

(* names are unique: as many names as non-root nodes, none of them the root's *)
NamesUnique == Live => /\ ROOT \notin Dom(tree)
                       /\ Cardinality(Dom(tree)) + 1 = Cardinality(Nodes(tree))
(* a step adds at most one name, and that name was not in use before *)
CreatedNameIsFresh ==
    [][Live => LET added == Dom(tree') \ Dom(tree)
               IN /\ Cardinality(added) <= 1
                  /\ added # {} => (RootAtMidpointT /\ ~MidOnNode(tree) /\ added = {NEWEDGE})]_vars

(* THE PROPERTY: every transformation keeps the retained tips, the unrooted   *)
(* topology among them and every tip-to-tip path length.                      *)
StepPreserves == [][Live => Preserves(tree, tree')]_vars

(* only get_sub_tree changes the tip set, and exactly to the requested one    *)
TipsIntended ==
    [][Live => \/ TipsOf(tree') = TipsOf(tree)
               \/ SubTreeT(TipsOf(tree'))]_vars

(* midpoint rooting puts the root half a diameter from the farthest tips      *)
MidpointCentred == [][RootAtMidpointT => 2 * RootHeight(tree') = Diameter(tree)]_vars

(* re-rooting puts the root where asked: the named node's neighbours become   *)
(* the root's children                                                         *)
RerootLandsThere ==
    [][\A n \in Nodes(tree) : RootedAtT(n) /\ n # ROOT =>
          RootParts(tree') = {Below(tree, c) : c \in Kids(tree, n)}
                              \cup {TipsOf(tree) \ Below(tree, n)}]_vars

(* unrooted() leaves at least three root children whenever the tree allows    *)
UnrootedDegree ==
    [][UnrootedT /\ CollapseCandidates(tree) # {} =>
          RootDeg(tree') >= 3 \/ \E c \in CollapseCandidates(tree) : Cardinality(Kids(tree, c)) = 1]_vars

(* ---- laws of the queries ----------------------------------------------------------- *)
(* the edges get_connecting_edges names between two tips add up to their distance *)
ConnectingEdgesSpanThePath ==
    Live => \A u, v \in TipsOf(tree) :
               u # v => LET s == ConnPath(tree, u, v) IN SeqLen(tree, s, Len(s)) = PathLen(tree, u, v)
(* a path read the other way round is the reversed path *)
ConnectingEdgesReverse ==
    Live => \A u, v \in Nodes(tree) : u # v => ConnPath(tree, v, u) = Rev(ConnPath(tree, u, v))
(* the common ancestor of a set of tips is above all of them and none of its children is *)
LCAIsLowest ==
    Live => \A S \in (SUBSET TipsOf(tree)) \ {{}} :
               LET w == LCASet(tree, S)
               IN /\ \A t \in S : w \in Anc(tree, t)
                  /\ \A c \in Kids(tree, w) : \E t \in S : c \notin Anc(tree, t)
(* with an outgroup the clade of two tips does not depend on where the root is *)
CladeWithOutgroupIsRootFree ==
    [][\A n \in Nodes(tree) : RootedAtT(n) =>
          \A t1, t2, o \in TipsOf(tree) :
              (t1 # t2 /\ o # t1 /\ o # t2) =>
                  EdgeNames(tree', t1, t2, o) = EdgeNames(tree, t1, t2, o)]_vars
(* ... and it is the part of the tree cut off by its stem, on the side away from the outgroup *)
CladeIsTheFarSideOfItsStem ==
    Live => \A t1, t2, o \in TipsOf(tree) :
               (t1 # t2 /\ o # t1 /\ o # t2) =>
                   LET en == EdgeNames(tree, t1, t2, o)
                       R == Reroot(tree, o)
                   IN /\ en.stem # "!root"
                      /\ {e \in en.clade : IsTip(R, e)} = Below(R, en.stem)
                      /\ t1 \in Below(R, en.stem) /\ t2 \in Below(R, en.stem) /\ o \notin Below(R, en.stem)
=============================================================================
