SPECIFICATION Spec
CONSTANTS
  Profile = "quick"
  Group = "long"
INVARIANT ResultShape
INVARIANT LongTypeLaw
