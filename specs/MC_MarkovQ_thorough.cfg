SPECIFICATION Spec
CONSTANT Instances <- AllInstances
CONSTANT Refused <- RefusedInstances
INVARIANT ZeroRowSums
INVARIANT NonNegOffDiag
INVARIANT Calibrated
INVARIANT StationaryOK
INVARIANT DetailedBal
INVARIANT WordProbsSum
INVARIANT AdmittedAreAdmissible
INVARIANT RefusedAreNot
INVARIANT RefusalJustified
