SPECIFICATION Spec
CONSTANT Instances <- AllInstances
INVARIANT ZeroRowSums
INVARIANT NonNegOffDiag
INVARIANT Calibrated
INVARIANT StationaryOK
INVARIANT DetailedBal
INVARIANT WordProbsSum
