------------------------- MODULE ComposedAppLinks -------------------------
(* Composition of cogent3 apps (cogent3.app.composable: __add__, disconnect,  *)
(* __call__): the `.input` links between app OBJECTS are the state.  Extends    *)
(* property C14 to what happens between runs: the same app objects composed,    *)
(* used, disconnected and composed again in another pipeline.                   *)
(*                                                                              *)
(* Apps (one object each):                                                      *)
(*   L  loader                      path -> seqs                                *)
(*   A  generic                     seqs -> seqs | serialisable                 *)
(*   P  generic                     seqs -> seqs (nothing else); raises on a     *)
(*                                  record flagged "bad"                         *)
(*   R  generic, skip_not_completed = False, accepts anything: opts in to        *)
(*      receive NotCompleted and turns it into a value again ("recovered")       *)
(*   X  generic                     table -> table (never fits sequence data)    *)
(*   W  writer (write_seqs)         seqs -> identifier                           *)
(*                                                                              *)
(* x + y (docstring of define_app): y must be composable and free               *)
(* (ValueError: "already part of composed function, use disconnect()"), not x   *)
(* itself (ValueError); a writer cannot be on the left, a loader not on the      *)
(* right, and x's return type must overlap y's input type unless x returns       *)
(* something serialisable (TypeError).  On success y.input = x, nothing else      *)
(* changes.  disconnect() "resets input to None, breaks all connections among     *)
(* members of a composed function": every link on the chain ending in the app.   *)
(* Calling an app runs the chain of links ending in it; a value of a type a step *)
(* does not accept becomes a NotCompleted naming that step - a call never raises. *)
(* Compositions that would close a cycle of links are outside the model.         *)
EXTENDS Naturals, FiniteSets, Sequences, TLC, Emit

CONSTANT Apps      \* the app objects in play, a subset of {"L", "A", "P", "R", "X", "W"} containing "L"

VARIABLES link
vars == <<link>>

ASSUME Apps \subseteq {"L", "A", "P", "R", "X", "W"} /\ "L" \in Apps
NoLink == "none"
Loader(a) == a = "L"
Writer(a) == a = "W"

(* what an app returns / accepts, as the sets of type names _add compares *)
Returns(a) == CASE a = "L" -> {"seqs", "serialisable"}
                [] a = "A" -> {"seqs", "serialisable"}
                [] a = "P" -> {"seqs"}
                [] a = "R" -> {"seqs", "serialisable"}
                [] a = "X" -> {"table"}
                [] a = "W" -> {"identifier"}
Accepts(a) == CASE a = "L" -> {"identifier"}
                [] a = "A" -> {"seqs"}
                [] a = "P" -> {"seqs"}
                [] a = "R" -> {"serialisable"}
                [] a = "X" -> {"table"}
                [] a = "W" -> {"seqs"}
AnyType == {"serialisable", "identifier"}

St  == [link |-> link]
StP == [link |-> link']
(* every outcome is a record: a status ("ok", "ValueError", ..) or the result of a call *)
Status(st) == [k |-> st, origin |-> "-", msg |-> "-", trail |-> <<>>]
Log(act, args, r) == Emit([from |-> St, act |-> act, args |-> args, to |-> StP, ret |-> r])

Init == link = [a \in Apps |-> NoLink]

(* the chain of links ending in app a, root first *)
RECURSIVE Chain(_, _)
Chain(lk, a) == IF lk[a] = NoLink THEN <<a>> ELSE Append(Chain(lk, lk[a]), a)
Upstream(lk, a) == {Chain(lk, a)[j] : j \in DOMAIN Chain(lk, a)}

(* x + y ; the order of the tests is the order the exceptions take precedence in *)
TypesFit(x, y) == Returns(x) \cap AnyType # {} \/ Returns(x) \cap Accepts(y) # {}
AddRet(x, y) ==
    IF ~Loader(y) /\ link[y] # NoLink THEN "ValueError"       \* y is part of a composed function
    ELSE IF x = y THEN "ValueError"                           \* an app cannot be added to itself
    ELSE IF Writer(x) \/ Loader(y) THEN "TypeError"
    ELSE IF ~TypesFit(x, y) THEN "TypeError"
    ELSE "ok"
AddT(x, y) ==
    /\ y \notin Upstream(link, x) \/ x = y            \* no cycles (outside the model)
    /\ link' = IF AddRet(x, y) = "ok" THEN [link EXCEPT ![y] = x] ELSE link
Add(x, y) == AddT(x, y) /\ Log("Add", <<x, y>>, Status(AddRet(x, y)))

(* something that is not an app on the right *)
AddJunkT(x) == UNCHANGED link
AddJunk(x) == AddJunkT(x) /\ Log("AddJunk", <<x>>, Status("TypeError"))

DisconnectT(a) ==
    /\ link' = [b \in Apps |-> IF b \in Upstream(link, a) /\ ~Loader(a) THEN NoLink ELSE link[b]]
Disconnect(a) == DisconnectT(a) /\ Log("Disconnect", <<a>>, Status("ok"))

-----------------------------------------------------------------------------
(* calling app a on one record (flag: "good" / "bad"): a value is               *)
(*   [k |-> "val", trail]  trail = the apps whose main() transformed it          *)
(*   [k |-> "nc", origin, msg]                                                   *)
(*   [k |-> "written", trail]  a writer stored the value                         *)
NCv(origin, msg) == [k |-> "nc", origin |-> origin, msg |-> msg, trail |-> <<>>]
Val(trail) == [k |-> "val", origin |-> "-", msg |-> "-", trail |-> trail]

StepOf(a, v, flag) ==
    IF v.k = "nc" /\ a # "R" THEN v                                       \* passes through, nothing written
    ELSE IF v.k = "nc" THEN Val(<<"recovered:" \o v.origin, "R">>)         \* R opted in
    ELSE IF a = "X" THEN NCv("X", "invalid-type")                          \* sequence data is not a table
    ELSE IF a = "P" /\ flag = "bad" THEN NCv("P", "exception")
    ELSE IF a = "W" THEN [k |-> "written", origin |-> "-", msg |-> "-", trail |-> v.trail]
    ELSE Val(Append(v.trail, a))

RECURSIVE Eval(_, _, _)
Eval(ch, n, flag) == IF n = 0 THEN Val(<<>>) ELSE StepOf(ch[n], Eval(ch, n - 1, flag), flag)
Result(lk, a, flag) == Eval(Chain(lk, a), Len(Chain(lk, a)), flag)

CallT(a, flag) == UNCHANGED link
Call(a, flag) == CallT(a, flag) /\ Log("Call", <<a, flag>>, Result(link, a, flag))

(* apply_to needs a composed function *)
ApplyToT == UNCHANGED link
ApplyTo == "W" \in Apps /\ ApplyToT /\ Log("ApplyTo", <<>>, Status(IF link["W"] = NoLink THEN "RuntimeError" ELSE "ok"))

Next == \/ \E x, y \in Apps : Add(x, y)
        \/ \E x \in Apps : AddJunk(x) \/ Disconnect(x)
        \/ \E a \in Apps, flag \in {"good", "bad"} : Call(a, flag)
        \/ ApplyTo

Spec == Init /\ [][Next]_vars

-----------------------------------------------------------------------------
TypeOK == link \in [Apps -> Apps \cup {NoLink}] /\ link["L"] = NoLink

(* links never form a cycle, a writer is never anybody's input, a loader has none *)
WellFormed == \A a \in Apps : /\ link[a] # "W"
                              /\ link[a] # a
                              /\ Len(Chain(link, a)) <= Cardinality(Apps)

(* types along every link were compatible when it was made *)
Compatible == \A a \in Apps : link[a] # NoLink =>
                  (Returns(link[a]) \cap AnyType # {} \/ Returns(link[a]) \cap Accepts(a) # {})

(* a refused composition changes nothing; an accepted one sets exactly one link *)
AddIsLocal == [][\A x, y \in Apps : AddT(x, y) =>
                    \/ link' = link
                    \/ (link[y] = NoLink /\ link' = [link EXCEPT ![y] = x])]_vars

(* disconnect frees the whole chain it is called on, and nothing else *)
DisconnectFrees == [][\A a \in Apps : DisconnectT(a) /\ ~Loader(a) =>
                         /\ \A b \in Upstream(link, a) : link'[b] = NoLink
                         /\ \A b \in Apps \ Upstream(link, a) : link'[b] = link[b]]_vars

(* after disconnect the same objects can be composed again, in any admissible order *)
CanLink(x, y) == /\ x # y /\ ~Writer(x) /\ ~Loader(y)
                 /\ (Returns(x) \cap AnyType # {} \/ Returns(x) \cap Accepts(y) # {})
Reusable == \A a \in Apps : \A x \in Apps :
               (link[a] = NoLink /\ CanLink(x, a)) => AddRet(x, a) = "ok"

(* a call never raises and never changes the composition.  Its result is a        *)
(* NotCompleted iff some step fails after the last R of the chain (R turns earlier  *)
(* failures into values again), and then it names the FIRST such step              *)
Min(T) == CHOOSE m \in T : \A t \in T : m <= t
Max0(T) == IF T = {} THEN 0 ELSE CHOOSE m \in T : \A t \in T : m >= t
FirstFailureNamed ==
    \A a \in Apps : \A flag \in {"good", "bad"} :
        LET ch == Chain(link, a)
            r == Result(link, a, flag)
            lastR == Max0({j \in DOMAIN ch : ch[j] = "R"})
            fails == {j \in DOMAIN ch : j > lastR /\ (ch[j] = "X" \/ (ch[j] = "P" /\ flag = "bad"))}
        IN  /\ (r.k = "nc") <=> (fails # {})
            /\ fails # {} => r.origin = ch[Min(fails)]
=============================================================================
