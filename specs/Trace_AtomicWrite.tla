-------------------------- MODULE Trace_AtomicWrite --------------------------
(* code -> spec for C19.  TRACE_FILE holds a JSON array of traces recorded    *)
(* from real cogent3 writes under fault injection (harness/faults_C19.py):    *)
(*   [cfg |-> name of the configuration that transcribes the writer,          *)
(*    pre |-> "absent" | "Old", name |-> class of the destination file name,  *)
(*    events |-> << [call |-> c, kind |-> "call"|"fault"|"interrupt"|"kill",  *)
(*                   dest |-> d, tmp |-> "absent" | "present"] ... >>,        *)
(*    end |-> [how |-> h, dest |-> d, tmp |-> t]]                             *)
(* Each event is logged at a call boundary, with the file-system state seen   *)
(* just BEFORE the call.  A trace is accepted iff AtomicWrite has a behaviour *)
(* that makes these calls in this order (the OSError / the kill at the marked *)
(* boundary), passes through these states, and ends as observed.  Steps of    *)
(* the spec that are no file-system call (leaving the with-block, the         *)
(* formatter raising) may occur between events.                               *)
EXTENDS AtomicWrite, TLCExt

Traces == JsonDeserialize(IOEnv.TRACE_FILE)

VARIABLES tid, l
tvars == <<cfg, name, pre, dest, tmp, pc, how, fcall, exc, tid, l>>

Coarse(t) == IF t = "absent" THEN "absent" ELSE "present"
ConfigNamed(n) == CHOOSE c \in AllConfigs : c.name = n
Tr == Traces[tid]

TraceInit ==
    /\ tid \in 1..Len(Traces) /\ l = 1
    /\ cfg = ConfigNamed(Traces[tid].cfg) /\ pre = Traces[tid].pre /\ name = Traces[tid].name
    /\ dest = pre /\ tmp = "absent" /\ pc = "mkdtemp"
    /\ how = "running" /\ fcall = "none" /\ exc = "no"

Sees(e) == dest = e.dest /\ Coarse(tmp) = e.tmp

CallStep ==
    /\ l <= Len(Tr.events)
    /\ LET e == Tr.events[l] IN
         /\ Sees(e)
         /\ CASE e.kind = "call"  -> \/ CallT(e.call)
                                     \* the call failed by itself: the staged name is not usable for this destination name
                                     \/ (StagedNameUnusable /\ e.call = "open_tmp" /\ FaultT("open_tmp"))
              [] e.kind = "fault" -> FaultT(e.call)
              [] e.kind = "interrupt" -> InterruptT(e.call)
              [] e.kind = "kill"  -> CrashT /\ e.call \in NextCall(pc)
              [] OTHER            -> FALSE
    /\ l' = l + 1 /\ UNCHANGED tid

SilentStep == l <= Len(Tr.events) + 1 /\ SilentT /\ UNCHANGED <<tid, l>>

Finish ==
    /\ l = Len(Tr.events) + 1
    /\ pc = "done" /\ how = Tr.end.how /\ Sees(Tr.end)
    /\ PrintT(<<"TRACE-OK", tid>>)
    /\ l' = l + 1
    /\ UNCHANGED <<cfg, name, pre, dest, tmp, pc, how, fcall, exc, tid>>

TraceNext == CallStep \/ SilentStep \/ Finish
TraceSpec == TraceInit /\ [][TraceNext]_tvars
=============================================================================
