SPECIFICATION Spec
CONSTANTS
  MaxP = 4
  MaxSpans = 3
  MaxLost = 2
  MaxArgSpans = 2
  MaxArgLen = 3
  MaxSliceLen = 4
  MaxAddSpans = 2
  Scales = {1, 2, 3}
INVARIANT TypeOK
INVARIANT InParent
INVARIANT CoverShadowPartition
INVARIANT InverseLaw
INVARIANT NucRevLaw
INVARIANT ComposeLaw
INVARIANT GapPartition
PROPERTY ReceiverPreserved
