------------------------------ MODULE Trace_NJ ------------------------------
(* code -> spec: validates recorded runs of the real cogent3.phylo.nj.nj on    *)
(* arbitrary (not additive) symmetric integer matrices against NJ.tla.        *)
(* TRACE_FILE holds a JSON array of traces                                    *)
(*    [M |-> <<row, ...>>,                the input matrix over tips 1..N     *)
(*     joins |-> << <<A, B>>, ... >>,     tips of the two nodes handed to     *)
(*                                        PartialTree.join, in call order     *)
(*     edges |-> << <<clade, num, den>>, ... >>]  the returned tree: tips     *)
(*                                        below each edge and its length      *)
(* Event l <= Len(joins) is accepted iff joining those two clusters is a      *)
(* minimal-Q join of the spec in the current state (JoinT); the last event is *)
(* accepted iff the three-point Finish yields exactly the logged edge set     *)
(* (clamped lengths included).  Rejected events are collected.                *)
EXTENDS NJ, TLCExt

Traces == JsonDeserialize(IOEnv.TRACE_FILE)

VARIABLES tid, l, bad
tvars == <<gen, mem, d, sc, edges, raw, phase, tid, l, bad>>

Tr == Traces[tid]
ToSet(s) == {s[k] : k \in 1..Len(s)}
NoGen == [tree |-> {}, len |-> <<>>]

TraceInit ==
    /\ tid = 1 /\ l = 1 /\ bad = {}
    /\ gen = NoGen
    /\ StartOn(Traces[1].M)
    /\ phase = "join"

(* start of trace k (or stay put after the last one) *)
ResetTo(k) ==
    IF k <= Len(Traces)
    THEN /\ mem' = Start(Traces[k].M).mem /\ d' = Traces[k].M /\ sc' = 1
         /\ edges' = {} /\ raw' = {} /\ phase' = "join" /\ UNCHANGED gen
    ELSE UNCHANGED <<gen, mem, d, sc, edges, raw, phase>>

IdOf(A) == CHOOSE x \in Ids : mem[x] = A
AcceptJoin ==
    /\ l <= Len(Tr.joins)
    /\ LET A == ToSet(Tr.joins[l][1])
           B == ToSet(Tr.joins[l][2])
       IN /\ \E x \in Ids : mem[x] = A
          /\ \E x \in Ids : mem[x] = B
          /\ A # B
          /\ LET a == IdOf(A)
                 b == IdOf(B)
             IN IF a < b THEN JoinT(a, b) ELSE JoinT(b, a)
AcceptFinish ==
    /\ l = Len(Tr.joins) + 1
    /\ FinishT
    /\ edges' = {<<ToSet(e[1]), Reduce(<<e[2], e[3]>>)>> : e \in ToSet(Tr.edges)}

Accept ==
    /\ tid <= Len(Traces) /\ l <= Len(Tr.joins) + 1
    /\ (AcceptJoin \/ AcceptFinish)
    /\ l' = l + 1 /\ UNCHANGED <<tid, bad>>

Reject ==
    /\ tid <= Len(Traces) /\ l <= Len(Tr.joins) + 1
    /\ ~ ENABLED Accept
    /\ bad' = bad \cup {<<tid, l>>}
    /\ tid' = tid + 1 /\ l' = 1
    /\ ResetTo(tid + 1)

NextTrace ==
    /\ tid <= Len(Traces) /\ l > Len(Tr.joins) + 1
    /\ tid' = tid + 1 /\ l' = 1
    /\ ResetTo(tid + 1)
    /\ UNCHANGED bad

TraceNext == Accept \/ Reject \/ NextTrace
TraceSpec == TraceInit /\ [][TraceNext]_tvars

Finished == tid = Len(Traces) + 1
Report == Finished => PrintT(<<"TRACE-VERDICT", Len(Traces), bad>>)
=============================================================================
