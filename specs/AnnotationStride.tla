--------------------------- MODULE AnnotationStride ---------------------------
(* Property C04 on STRIDED views: seq[a:b:k] with k in 1..3, rc() of them and   *)
(* strided slices of slices (cogent3 keeps the annotation db for positive       *)
(* strides).  Same universe, same features and the same position-set meaning as *)
(* Annotation.tla (which this module extends): a feature is shown at the view   *)
(* positions whose root position it denotes, in view order, and its slice reads *)
(* the retained residues on the feature's strand.  Span ends on and off the      *)
(* stride lattice, one and two spans, both strands all occur because features    *)
(* range over every placement and views over every start / stop / stride.        *)
(*                                                                            *)
(* Membership on a strided view: a feature with a displayed residue must be      *)
(* returned by the partial query.  What "inside" / "overlaps" means for the      *)
(* residues a stride skips at the ends of a view is not stated (the plus-strand  *)
(* coordinates of a strided view may include the unused remainder of its last    *)
(* stride, see SeqView.tla); there the outcome is left open ("opt").  On         *)
(* contiguous views the rule is exactly the one of Annotation.tla                *)
(* (AgreesWithContiguous).                                                       *)
EXTENDS Annotation

CONSTANTS Strides,   \* strides tried, e.g. {1, 2, 3}
          MaxStep    \* views with a larger step are produced (and judged) but not explored further

StepOf(ix) == IF Len(ix) >= 2 THEN (IF ix[2] > ix[1] THEN ix[2] - ix[1] ELSE ix[1] - ix[2]) ELSE 1
Hull(ix, slack) == (SetMin(RangeOf(ix)) - slack)..(SetMax(RangeOf(ix)) + slack)
Slack == MaxStep * 3

StatusS(ix, f, partial) ==
    IF ~partial
    THEN (IF ExtSet(f.spans) \subseteq Hull(ix, 0) /\ (StepOf(ix) = 1 \/ Len(ix) = 1 => ExtSet(f.spans) \subseteq RangeOf(ix)) THEN
              (IF StepOf(ix) = 1 /\ Len(ix) >= 2 THEN "in" ELSE IF ExtSet(f.spans) \subseteq RangeOf(ix) THEN "in" ELSE "opt")
          ELSE IF StepOf(ix) = 1 /\ Len(ix) >= 2 THEN "out"
          ELSE IF ExtSet(f.spans) \subseteq Hull(ix, Slack) THEN "opt" ELSE "out")
    ELSE IF DenSet(f.spans) \cap RangeOf(ix) # {} THEN "in"
    ELSE IF StepOf(ix) = 1 /\ Len(ix) >= 2
         THEN (IF ExtSet(f.spans) \cap RangeOf(ix) # {} THEN "opt" ELSE "out")
         ELSE IF ExtSet(f.spans) \cap Hull(ix, Slack) # {} THEN "opt" ELSE "out"

ObsS(ix, c) ==
    [k \in 1..2 |->
        LET f == Feats[k] IN
        [name |-> f.name, bio |-> f.bio,
         pos  |-> PosOn(ix, f.spans),
         read |-> ReadOn(ix, f),
         fcomp |-> f.strand = "-",
         rev  |-> (f.strand = "-") # c,
         vis  |-> StatusS(ix, f, TRUE),
         inside |-> StatusS(ix, f, FALSE),
         cls  |-> FeatClass(ix, f.spans)]]

LogS(act, args) == Emit([from |-> St, act |-> act, args |-> args, to |-> StP, obs |-> ObsS(idx', comp')])

(* seq[a:b:k], 0 <= a < b <= len(seq), k >= 1 *)
StrideT(a, b, k) ==
    /\ 0 <= a /\ a < b /\ b <= Len(idx)
    /\ idx' = [j \in 1..((b - a + k - 1) \div k) |-> idx[a + 1 + (j - 1) * k]]
    /\ UNCHANGED <<comp, blo, bhi, hasdb, ncopy>>
    /\ Universe
StrideSlice(a, b, k) == StrideT(a, b, k) /\ LogS("Slice", <<a, b, k>>)
RcS == RcT /\ LogS("Rc", <<>>)
LookS == /\ UNCHANGED vars
         /\ Emit([act |-> "Look", from |-> St, obs |-> ObsS(idx, comp), queries |-> {}, algebra |-> <<>>])

NextS == \/ \E a \in 0..P, b \in 0..P, k \in Strides : StrideSlice(a, b, k)
         \/ RcS
         \/ LookS
         \/ Meta
SpecS == Init /\ [][NextS]_vars
StepBound == StepOf(idx) <= MaxStep

------------------------------------------------------------------------------
(* displayed positions form an arithmetic progression, descending exactly when complemented *)
ProgressionS ==
    /\ \A j \in 1..(Len(idx) - 1) : idx[j + 1] - idx[j] = (IF comp THEN 0 - StepOf(idx) ELSE StepOf(idx))
(* positions are listed in view order; as many residues are read as positions are shown; nothing outside Denotes *)
RestrictionS ==
    \A k \in 1..2 :
        LET f == Feats[k]
            ps == PosOn(idx, f.spans)
        IN /\ \A j \in 1..(Len(ps) - 1) : ps[j] < ps[j + 1]
           /\ Len(ReadOn(idx, f)) = Len(ps)
           /\ RangeOf(ReadOn(idx, f)) = DenSet(f.spans) \cap RangeOf(idx)
           /\ {idx[ps[j] + 1] : j \in 1..Len(ps)} = RangeOf(ReadOn(idx, f))
(* on contiguous views of at least two positions membership is the rule of Annotation.tla *)
AgreesWithContiguous ==
    (StepOf(idx) = 1 /\ Len(idx) >= 2) =>
        \A k \in 1..2, pt \in BOOLEAN :
            StatusS(idx, Feats[k], pt) = Status(idx, TRUE, Feats[k], 0, Len(idx), pt, "none")
(* a strided view of a view shows a subset of what the view shows *)
StrideOnlyLoses ==
    [][(\E a \in 0..P, b \in 0..P, k \in Strides : StrideT(a, b, k)) =>
          \A k2 \in 1..2 : RangeOf(ReadOn(idx', Feats[k2])) \subseteq RangeOf(ReadOn(idx, Feats[k2]))]_vars
=============================================================================
