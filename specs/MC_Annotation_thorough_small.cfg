SPECIFICATION Spec
CONSTANTS
  P = 5
  Offsets = {0, 3}
  MaxSpans = 2
  MinSpans = 1
  MaxCopy = 0
  Filters = {"none", "bio", "name"}
CONSTRAINT CopyBound
INVARIANT TypeOK
INVARIANT ViewShape
INVARIANT ClipRefines
INVARIANT Restriction
INVARIANT QueryMonotone
INVARIANT InsideIsComplete
INVARIANT AlgebraLaws
PROPERTY RcKeepsReading
PROPERTY SliceOnlyLoses
PROPERTY CopyKeepsMeaning
PROPERTY FeatSliceShowsItself
