SPECIFICATION Spec
CONSTANTS
  N = 4
  Heights = {1, 2, 3}
INVARIANT TypeOK
INVARIANT Recovered
INVARIANT ImplAgrees
INVARIANT SiblingLemma
INVARIANT PositiveLengths
