---------------------------- MODULE IndelMapTrace ----------------------------
(* code -> spec for C08: validates recorded executions of the real call sites *)
(* of IndelMap (cogent3.core.alignment.Aligned / Alignment, draw.dotplot)     *)
(* against the string operators of IndelMap.tla.                              *)
(*                                                                            *)
(* TRACE_FILE is a JSON array of events                                       *)
(*     [op |-> "Slice"|"Index"|"Rc"|"Concat"|"Joined"|"Minus"|"SeqIndex"|     *)
(*             "Unchanged" (the object the calls were made on, read again),   *)
(*      from |-> gapped sequence, args |-> <<...>>, to |-> gapped sequence,   *)
(*      ok |-> the call returned, exc |-> text of the exception otherwise]    *)
(* A gapped sequence is a sequence over 0..4: 0 gap, 1..4 = A C G T, i.e. the *)
(* residues are kept, so an accepted event also shows that the map and the    *)
(* sliced sequence data stayed in step.  Sequences are much longer than the   *)
(* exhaustive bound of MC_IndelMap_*.cfg.                                     *)
(* Events are independent (the operations are pure); rejected event numbers   *)
(* are collected and printed once, in the final state.                        *)
EXTENDS IndelMap

Events == JsonDeserialize(IOEnv.TRACE_FILE)

VARIABLES k, bad
tvars == <<g, out, k, bad>>

Comp(x) == IF x = 0 THEN 0 ELSE 5 - x                 \* A<->T, C<->G, gap stays
RcS(s)  == [i \in 1..Len(s) |-> Comp(s[Len(s) + 1 - i])]
Bits(s) == [i \in 1..Len(s) |-> IF s[i] = 0 THEN Gap ELSE Res]

Matches(e) ==
    /\ e.ok                      \* none of the recorded calls may raise
    /\ CASE e.op = "Slice"    -> e.to = SliceS(e.from, e.args[1], e.args[2])
         [] e.op = "Index"    -> e.to = IndexS(e.from, e.args[1])
         [] e.op = "Rc"       -> e.to = RcS(e.from)
         [] e.op = "Unchanged" -> e.to = e.from      \* the receiver read again after calls on it
         [] e.op = "Concat"   -> e.to = ConcatS(e.from, e.args[1])
         [] e.op = "Joined"   -> e.to = JoinS(e.from, e.args[1])
         [] e.op = "Minus"    -> e.to = MinusS(e.from, e.args[1])
         [] e.op = "SeqIndex" -> e.to = <<SeqIndexS(Bits(e.from), e.args[1])>>
         [] OTHER             -> FALSE

TraceInit == g = <<>> /\ out = NoOut /\ k = 1 /\ bad = {}

TraceNext ==
    /\ k <= Len(Events)
    /\ k' = k + 1
    /\ g' = Events[k].to
    /\ out' = out
    /\ bad' = IF Matches(Events[k]) THEN bad ELSE bad \cup {k}

TraceSpec == TraceInit /\ [][TraceNext]_tvars

Finished == k = Len(Events) + 1
Report == Finished => PrintT(<<"TRACE-VERDICT", Len(Events), bad>>)
=============================================================================
