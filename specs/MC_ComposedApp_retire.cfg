SPECIFICATION Spec
CONSTANTS
  N = 2
  S = 3
  Ws = {0}
  WriterTyped = {FALSE}
  Namings = {"suffixlast"}
  RetireRule = "suffix"
  Reps = {"list"}
  Reversed = {FALSE}
  FnStep = 2
  Isolated = TRUE
  Named = {TRUE}
INVARIANT Accounted
