SPECIFICATION NSpec
CONSTANT Pairs <- NucPairs
CONSTANT Instances <- NucInstances
CONSTANT Refused <- NoRefused
INVARIANT MappingUnambiguous
INVARIANT SameProcess
