SPECIFICATION NSpec
CONSTANT Pairs <- NucPairs
CONSTANT Instances <- NucInstances
INVARIANT MappingUnambiguous
INVARIANT SameProcess
