SPECIFICATION Spec
CONSTANTS
  Parent <- ParentA
  Offsets = {0, 4}
INVARIANT TypeOK
INVARIANT RcLaw
INVARIANT NothingInvented
INVARIANT FramesAgree
PROPERTY TakePartition
