------------------------------ MODULE Serialise ------------------------------
(* Property C10: serialisation is a STUTTERING step of every object's state   *)
(* machine.                                                                    *)
(*                                                                            *)
(* An object of some kind is taken through a history of view / mutation        *)
(* operations (slice, reverse complement, annotate, re-scope, optimise, ...).  *)
(* At any point it may be replaced by the result of a round trip               *)
(*     rich dict -> JSON -> deserialise_object      or      pickle -> unpickle *)
(* and the history continues on the copy.  The abstract state is the history   *)
(* of operations WITHOUT the round trips: a round trip changes nothing that    *)
(* can be observed, now or after any further operations.                       *)
(* TLC enumerates every behaviour within the depth bound; the harness replays  *)
(* each on a real object and compares its observable projection with that of a *)
(* reference object that performed the same operations with no round trip.     *)
EXTENDS Naturals, Sequences, FiniteSets, TLC, Emit

CONSTANTS KindOps,    \* function: kind -> set of operation names applicable to it
          MaxOps,     \* bound on the number of operations in a history
          MaxTrips    \* bound on the number of round trips in a behaviour
Methods == {"json", "pickle"}

VARIABLES kind, hist, trips, copy
(* copy: the live object is a deserialised copy (TRUE after the first round trip) *)
vars == <<kind, hist, trips, copy>>

St  == [kind |-> kind, hist |-> hist, copy |-> copy]
StP == [kind |-> kind', hist |-> hist', copy |-> copy']

Init == kind \in DOMAIN KindOps /\ hist = <<>> /\ trips = 0 /\ copy = FALSE

ApplyT(op) == /\ op \in KindOps[kind] /\ Len(hist) < MaxOps
              /\ hist' = Append(hist, op)
              /\ UNCHANGED <<kind, trips, copy>>
Apply(op) == ApplyT(op) /\ Emit([from |-> St, act |-> "Apply", args |-> <<op>>, to |-> StP])

RoundTripT(m) == /\ trips < MaxTrips
                 /\ trips' = trips + 1 /\ copy' = TRUE
                 /\ UNCHANGED <<kind, hist>>          \* <- the property: nothing observable changes
RoundTrip(m) == RoundTripT(m) /\ Emit([from |-> St, act |-> "RoundTrip", args |-> <<m>>, to |-> StP])

Next == \/ \E op \in UNION {KindOps[k] : k \in DOMAIN KindOps} : Apply(op)
        \/ \E m \in Methods : RoundTrip(m)
Spec == Init /\ [][Next]_vars

(* round trips never alter the operation history (the observable state) *)
Stutters == [][\A m \in Methods : RoundTripT(m) => hist' = hist /\ kind' = kind]_vars
=============================================================================
