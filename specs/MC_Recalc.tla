------------------------------ MODULE MC_Recalc ------------------------------
(* DAG shapes for model checking Recalc (ranks are 1-based; parameters first). *)
EXTENDS Recalc

(* chain: p1,p2 -> c4* ; c4,p3 -> c5 (may raise) ; c5 -> c6 ; * = recycled *)
ChainArgs == [c \in 4..6 |-> CASE c = 4 -> <<1, 2>> [] c = 5 -> <<4, 3>> [] c = 6 -> <<5>>]
ChainRecycled == {4}

(* diamond: p1 -> c3 ; p1,p2 -> c4* ; c3,c4 -> c5* (may raise) ; c5 -> c6 *)
DiamondArgs == [c \in 3..6 |-> CASE c = 3 -> <<1>> [] c = 4 -> <<1, 2>> [] c = 5 -> <<3, 4>> [] c = 6 -> <<5>>]
DiamondRecycled == {4, 5}

(* shared: p1 -> c3* ; p2 -> c4* ; c3,c4 -> c5* output (recycled output, like a likelihood array; may raise) *)
SharedArgs == [c \in 3..5 |-> CASE c = 3 -> <<1>> [] c = 4 -> <<2>> [] c = 5 -> <<3, 4>>]
SharedRecycled == {3, 4, 5}
=============================================================================
