SPECIFICATION Spec
CONSTANTS
  P = 4
INVARIANT TypeOK
INVARIANT Distinct
INVARIANT OwnRecordsOnly
INVARIANT ForeignFilterEmpty
