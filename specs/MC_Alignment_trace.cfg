SPECIFICATION TraceSpec
CONSTANTS
  ShapeIds = {}
  PickedIds = {}
  Mols = {"dna"}
  MaxDepth = 1000
  MaxLen = 64
  Forms = {"plain", "open", "neg", "over"}
  ColFamily = "small"
  PairFamily = "all"
INVARIANT Report
