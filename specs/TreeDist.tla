------------------------------ MODULE TreeDist -------------------------------
(* Tree-to-tree distances of cogent3 (property C09, second sentence):         *)
(* rooted / unrooted Robinson-Foulds, matching cluster, Lin-Rajan-Moret.      *)
(*                                                                            *)
(* A topology on the tip set Tips is its family of clusters (tip sets below   *)
(* internal non-root nodes, 2 <= size < |Tips|): a laminar family.  The module *)
(* enumerates ALL topologies on Tips (every bi-/multifurcating labelled tree), *)
(* defines the four distances independently of the code (set differences;     *)
(* matchings as a minimum over all bijections), checks on the model that each *)
(* distance is symmetric and zero exactly for equal topologies, and emits the *)
(* expected value for every ordered pair of trees.                            *)
EXTENDS Naturals, FiniteSets, Sequences, TLC, Emit

CONSTANTS Tips       \* set of tip names

VARIABLE pair
vars == <<pair>>

(* ---- all topologies on a tip set ------------------------------------------- *)
RECURSIVE Partitions(_)
Partitions(X) ==
    IF X = {} THEN {{}}
    ELSE LET x == CHOOSE y \in X : TRUE
         IN UNION {{{B} \cup P : P \in Partitions(X \ B)} : B \in {C \in SUBSET X : x \in C}}

RECURSIVE Topologies(_)      \* cluster families (clusters of size >= 2, X itself excluded) of trees on X
RECURSIVE Combine(_)         \* families for a set of blocks: one sub-topology per block, plus the block
Combine(blocks) ==
    IF blocks = {} THEN {{}}
    ELSE LET B == CHOOSE b \in blocks : TRUE
             sub == IF Cardinality(B) = 1 THEN {{}} ELSE {t \cup {B} : t \in Topologies(B)}
         IN UNION {{s \cup r : r \in Combine(blocks \ {B})} : s \in sub}
Topologies(X) ==
    IF Cardinality(X) = 1 THEN {{}}
    ELSE UNION {Combine(P) : P \in {Q \in Partitions(X) : Cardinality(Q) >= 2}}

AllTrees == Topologies(Tips)

(* number of children of the root: maximal clusters and tips in no cluster *)
Maximal(F) == {c \in F : ~\E d \in F : c # d /\ c \subseteq d}
RootDeg(F) == Cardinality(Maximal(F)) + Cardinality(Tips \ UNION F)
IsRooted(F) == RootDeg(F) = 2        \* cogent3 convention: a bifurcating root

(* ---- the distances ------------------------------------------------------------ *)
SymDiff(a, b) == (a \ b) \cup (b \ a)

RootedRF(F, G) == Cardinality(SymDiff(F, G))

SplitsOf(F) == {{c, Tips \ c} : c \in F}
UnrootedRF(F, G) == Cardinality(SymDiff(SplitsOf(F), SplitsOf(G)))

RECURSIVE SetToSeq(_)
SetToSeq(S) == IF S = {} THEN <<>> ELSE LET x == CHOOSE y \in S : TRUE IN <<x>> \o SetToSeq(S \ {x})
Pad(s, k) == s \o [i \in 1..(k - Len(s)) |-> {}]
RECURSIVE SumTo(_, _)
SumTo(f, k) == IF k = 0 THEN 0 ELSE f[k] + SumTo(f, k - 1)
SetMin(S) == CHOOSE m \in S : \A x \in S : m <= x
Bijections(k) == {f \in [1..k -> 1..k] : \A i, j \in 1..k : f[i] = f[j] => i = j}

(* minimum-weight perfect matching by brute force *)
MinMatching(sa, sb, W(_, _)) ==
    LET k == Len(sa)
    IN IF k = 0 THEN 0
       ELSE SetMin({SumTo([i \in 1..k |-> W(sa[i], sb[f[i]])], k) : f \in Bijections(k)})

(* matching cluster distance: clusters matched one to one, the shorter list   *)
(* padded with empty clusters, cost = size of the symmetric difference        *)
MatchingCluster(F, G) ==
    LET k == IF Cardinality(F) >= Cardinality(G) THEN Cardinality(F) ELSE Cardinality(G)
        W(a, b) == Cardinality(SymDiff(a, b))
    IN MinMatching(Pad(SetToSeq(F), k), Pad(SetToSeq(G), k), W)

(* Lin-Rajan-Moret: splits matched one to one; cost = fewest tips to move to  *)
(* turn one split into the other.  Defined for equally resolved trees only.   *)
SplitCost(a, b) ==
    LET d1 == Cardinality(SymDiff(a, b))
        d2 == Cardinality(SymDiff(a, Tips \ b))
    IN IF d1 <= d2 THEN d1 ELSE d2
LRMDefined(F, G) == Cardinality(F) = Cardinality(G)
LinRajanMoret(F, G) == MinMatching(SetToSeq(F), SetToSeq(G), SplitCost)

Expected(F, G) ==
    IF IsRooted(F) /\ IsRooted(G)
    THEN [kind |-> "rooted", rf |-> RootedRF(F, G), matching |-> MatchingCluster(F, G), defined |-> TRUE]
    ELSE IF ~IsRooted(F) /\ ~IsRooted(G)
    THEN [kind |-> "unrooted", rf |-> UnrootedRF(F, G),
          matching |-> IF LRMDefined(F, G) THEN LinRajanMoret(F, G) ELSE 0,
          defined |-> LRMDefined(F, G)]
    ELSE [kind |-> "mixed", rf |-> 0, matching |-> 0, defined |-> FALSE]

(* ---- machine: one step picks an ordered pair of trees ------------------------ *)
(* (the first tree is chosen by the initial state so that TLC's workers share the pairs) *)
Init == \E F \in AllTrees : pair = <<F>>

MeasureT(G) == Len(pair) = 1 /\ pair' = <<pair[1], G>>
Measure(G) == /\ MeasureT(G)
              /\ Emit([from |-> "first", act |-> "TreeDistance", args |-> <<pair[1], G>>,
                       to |-> "pair", obs |-> Expected(pair[1], G)])

Next == \E G \in AllTrees : Measure(G)
Spec == Init /\ [][Next]_vars

------------------------------------------------------------------------------
(* Design-level properties of the definitions, checked on every pair.         *)
Pair == Len(pair) = 2
F1 == pair[1]
G1 == pair[2]
SameKind == IsRooted(F1) = IsRooted(G1)

Symmetric ==
    Pair /\ SameKind =>
        IF IsRooted(F1)
        THEN RootedRF(F1, G1) = RootedRF(G1, F1) /\ MatchingCluster(F1, G1) = MatchingCluster(G1, F1)
        ELSE /\ UnrootedRF(F1, G1) = UnrootedRF(G1, F1)
             /\ LRMDefined(F1, G1) => LinRajanMoret(F1, G1) = LinRajanMoret(G1, F1)

ZeroIffEqual ==
    Pair /\ SameKind =>
        IF IsRooted(F1)
        THEN /\ (RootedRF(F1, G1) = 0) = (F1 = G1)
             /\ (MatchingCluster(F1, G1) = 0) = (F1 = G1)
        ELSE /\ (UnrootedRF(F1, G1) = 0) = (SplitsOf(F1) = SplitsOf(G1))
             /\ LRMDefined(F1, G1) => ((LinRajanMoret(F1, G1) = 0) = (SplitsOf(F1) = SplitsOf(G1)))

(* Robinson-Foulds never exceeds the number of clusters / splits of both trees *)
RFBounded ==
    Pair /\ SameKind =>
        IF IsRooted(F1) THEN RootedRF(F1, G1) <= Cardinality(F1) + Cardinality(G1)
        ELSE UnrootedRF(F1, G1) <= Cardinality(SplitsOf(F1)) + Cardinality(SplitsOf(G1))
=============================================================================
