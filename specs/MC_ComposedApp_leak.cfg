SPECIFICATION Spec
CONSTANTS
  N = 2
  S = 3
  Ws = {0}
  WriterTyped = {FALSE}
  Namings = {"plain"}
  RetireRule = "equal"
  Reps = {"list"}
  Reversed = {FALSE}
  FnStep = 2
  Isolated = FALSE
  Named = {TRUE}
INVARIANT ArgPristine
