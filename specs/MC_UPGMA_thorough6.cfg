SPECIFICATION Spec
CONSTANTS
  N = 6
  Heights = {1, 2, 3, 4, 5}
INVARIANT TypeOK
INVARIANT Recovered
INVARIANT ImplAgrees
INVARIANT SiblingLemma
INVARIANT PositiveLengths
