----------------------------- MODULE IndelMapUse -----------------------------
(* C08, users of the gapped-coordinate maps, stated on the same gapped-string *)
(* model as IndelMap.tla (EXTENDS it: same state, same string operators).    *)
(*                                                                            *)
(* CIGAR (cogent3.parse.cigar): a cigar line is the run-length text of the    *)
(* gapped string (M = residues, D = gap).                                     *)
(*    map_to_cigar / cigar_to_map / aligned_from_cigar  <-> CigarRuns         *)
(*    slice_cigar(by_align=True)   = the slice of the string + the sequence   *)
(*                                   interval of the residues it keeps        *)
(*    slice_cigar(by_align=False)  = the tightest alignment interval holding  *)
(*                                   residues p..q-1, and that slice          *)
(*    CigarParser(sliced=True)     = every row cut at the columns of the      *)
(*                                   reference row's residues p..q-1          *)
(*                                                                            *)
(* Aligned (cogent3.core.alignment.Aligned = an IndelMap paired with a        *)
(* sequence view): what an Aligned SHOWS is its entry sequence, per column    *)
(* the index of the residue of the underlying ungapped sequence (or -1 gap,   *)
(* -2 unknown terminus), plus whether residues are complemented.  Slicing,    *)
(* reverse complement, feature-map indexing and their compositions (slice of  *)
(* slice, slice of rc, rc of slice, slice of rc of slice) are the generic     *)
(* string operators of IndelMap.tla applied to the entry sequence, so the     *)
(* map and the sequence view must stay in step.                               *)
(*                                                                            *)
(* All actions are queries (g' = g, nothing returned into `out`); the harness *)
(* (harness/use_C08.py) makes the real calls and compares with `ret`.         *)
EXTENDS IndelMap

CONSTANTS UseLen,     \* receivers of length <= UseLen
          PairLen,    \* CigarParser: pairs of rows of length <= PairLen
          DeepLen     \* three-call compositions (slice of slice, slice of rc of slice): length <= DeepLen

---------------------------------------------------------------------------
(* CIGAR                                                                    *)

AllRuns(s) == ByStart(Runs(s, Gap) \cup Runs(s, Res))
CigarRuns(s) == LET rr == AllRuns(s)
                IN [k \in 1..Len(rr) |-> <<rr[k][2] - rr[k][1], IF s[rr[k][1] + 1] = Res THEN "M" ELSE "D">>]

RECURSIVE CigarDecode(_)
CigarDecode(c) == IF c = <<>> THEN <<>>
                  ELSE [i \in 1..c[1][1] |-> IF c[1][2] = "M" THEN Res ELSE Gap] \o CigarDecode(Tail(c))

(* alignment interval holding exactly residues p..q-1 (as get_align_index does) *)
SeqToAln(s, p, q) == <<AlignIndexS(s, p), AlignStopS(s, q)>>

---------------------------------------------------------------------------
(* Aligned: entry sequences                                                 *)

Unknown == 0 - 2
Ent(s) == [i \in 1..Len(s) |-> IF s[i] = Res THEN Ones(s, i) - 1 ELSE MinusOne]

(* with_termini_unknown: gap columns before the first / after the last residue *)
TermS(E) == [i \in 1..Len(E) |->
               IF E[i] = MinusOne /\ ((\A j \in 1..i : E[j] = MinusOne) \/ (\A j \in i..Len(E) : E[j] = MinusOne))
               THEN Unknown ELSE E[i]]

Shown(E, comp) == [ents |-> E, comp |-> comp]

---------------------------------------------------------------------------
Ask(act, args, ret) == AskT /\ Log(act, args, g, ret)

Cigar == Ask("Cigar", <<>>, CigarRuns(g))

SliceCigarAln(a, b) ==
    Ask("SliceCigarAln", <<a, b>>, [to |-> SliceS(g, a, b), loc |-> <<SeqIndexS(g, a), SeqIndexS(g, b)>>])

SliceCigarSeq(p, q) ==
    LET ab == SeqToAln(g, p, q)
    IN Ask("SliceCigarSeq", <<p, q>>, [to |-> SliceS(g, ab[1], ab[2]), loc |-> ab])

(* rows g (reference) and h; residues p..q-1 of the reference *)
CigarParserSliced(h, p, q) ==
    LET ab == SeqToAln(g, p, q)
    IN Ask("CigarParserSliced", <<h, p, q>>,
           [rows |-> <<SliceS(g, ab[1], ab[2]), SliceS(h, ab[1], ab[2])>>,
            ents |-> <<SliceS(Ent(g), ab[1], ab[2]), SliceS(Ent(h), ab[1], ab[2])>>])
CigarParserFull(h) == Ask("CigarParserFull", <<h>>, [rows |-> <<g, h>>, ents |-> <<Ent(g), Ent(h)>>])

AlignedDescribe ==
    Ask("AlignedDescribe", <<>>,
        [len |-> Len(g), ents |-> Ent(g), unknown |-> TermS(Ent(g)),
         gapvec |-> [i \in 1..Len(g) |-> IF g[i] = Gap THEN 1 ELSE 0]])

ASlice(a, b)  == Ask("ASlice", <<a, b>>, Shown(SliceS(Ent(g), a, b), 0))
AIndex(i)     == Ask("AIndex", <<i>>, Shown(IndexS(Ent(g), i), 0))
ARc           == Ask("ARc", <<>>, Shown(RevS(Ent(g)), 1))
ARcRc         == Ask("ARcRc", <<>>, Shown(Ent(g), 0))
ARcSlice(a, b) == Ask("ARcSlice", <<a, b>>, Shown(SliceS(RevS(Ent(g)), a, b), 1))      \* al.rc()[a:b]
ASliceRc(a, b) == Ask("ASliceRc", <<a, b>>, Shown(RevS(SliceS(Ent(g), a, b)), 1))      \* al[a:b].rc()
ASliceSlice(a, b, c, d) ==                                                             \* al[a:b][c:d]
    Ask("ASliceSlice", <<a, b, c, d>>, Shown(SliceS(SliceS(Ent(g), a, b), c, d), 0))
ASliceRcSlice(a, b, c, d) ==                                                           \* al[a:b].rc()[c:d]
    Ask("ASliceRcSlice", <<a, b, c, d>>, Shown(SliceS(RevS(SliceS(Ent(g), a, b)), c, d), 1))
AFeature(cs)  == Ask("AFeature", <<cs>>, Shown(JoinS(Ent(g), cs), 0))                   \* al[FeatureMap]
AUnknownSlice(a, b) ==                                                                 \* al[a:b].with_termini_unknown()
    Ask("AUnknownSlice", <<a, b>>, Shown(TermS(SliceS(Ent(g), a, b)), 0))

Intervals(n) == {r \in (0..n) \X (0..n) : r[1] <= r[2]}

UseInit == g \in Str(UseLen) /\ out = NoOut

UseNext ==
    /\ ~out.has
    /\ \/ Cigar
       \/ \E r \in Intervals(Len(g)) : SliceCigarAln(r[1], r[2])
       \/ \E p \in 0..(PLen(g) - 1) : \E q \in p..PLen(g) : SliceCigarSeq(p, q)
       \/ \E h \in StrN(Len(g)) :
             /\ Len(g) <= PairLen
             /\ \/ CigarParserFull(h)
                \/ \E p \in 0..(PLen(g) - 1) : \E q \in (p + 1)..PLen(g) : CigarParserSliced(h, p, q)
       \/ AlignedDescribe
       \/ \E a, b \in (0 - Len(g))..Len(g) : ASlice(a, b) \/ ARcSlice(a, b)
       \/ \E i \in (0 - Len(g))..(Len(g) - 1) : AIndex(i)
       \/ ARc \/ ARcRc
       \/ \E r \in Intervals(Len(g)) :
             \/ ASliceRc(r[1], r[2])
             \/ AUnknownSlice(r[1], r[2])
             \/ \E t \in Intervals(r[2] - r[1]) :
                   /\ Len(g) <= DeepLen
                   /\ (ASliceSlice(r[1], r[2], t[1], t[2]) \/ ASliceRcSlice(r[1], r[2], t[1], t[2]))
       \/ \E cs \in CL[Len(g)] : AFeature(cs)

UseSpec == UseInit /\ [][UseNext]_vars

---------------------------------------------------------------------------
(* Laws of the model, checked by TLC                                        *)

(* a cigar line is a lossless encoding: runs alternate, are non-empty, decode to the string *)
CigarLaw ==
    LET c == CigarRuns(g)
    IN /\ CigarDecode(c) = g
       /\ \A k \in 1..Len(c) : c[k][1] >= 1
       /\ \A k \in 1..(Len(c) - 1) : c[k][2] # c[k + 1][2]

(* slicing by sequence coordinates keeps exactly residues p..q-1 and is tight *)
SeqSliceLaw ==
    \A p \in 0..(PLen(g) - 1) : \A q \in (p + 1)..PLen(g) :
        LET ab == SeqToAln(g, p, q)
            t == SliceS(g, ab[1], ab[2])
        IN /\ PLen(t) = q - p
           /\ t[1] = Res /\ t[Len(t)] = Res
           /\ SeqIndexS(g, ab[1]) = p /\ SeqIndexS(g, ab[2]) = q

(* slicing by alignment coordinates: the location is the residue interval kept *)
AlnSliceLaw ==
    \A r \in Intervals(Len(g)) :
        PLen(SliceS(g, r[1], r[2])) = SeqIndexS(g, r[2]) - SeqIndexS(g, r[1])

(* the entry sequence is the identity-labelled string; reversal is an involution on it *)
EntLaw ==
    /\ [i \in 1..Len(g) |-> IF Ent(g)[i] = MinusOne THEN Gap ELSE Res] = g
    /\ RevS(RevS(Ent(g))) = Ent(g)
    /\ \A r \in Intervals(Len(g)) :
          RevS(SliceS(Ent(g), r[1], r[2])) = SliceS(RevS(Ent(g)), Len(g) - r[2], Len(g) - r[1])

(* only terminal gap runs become unknown, and residues are never touched *)
TermLaw ==
    LET E == Ent(g)
        T == TermS(E)
    IN \A i \in 1..Len(E) :
          /\ (E[i] # MinusOne => T[i] = E[i])
          /\ (T[i] = Unknown <=> (E[i] = MinusOne /\ (Ones(g, i) = 0 \/ Ones(g, i) = PLen(g))))
=============================================================================
