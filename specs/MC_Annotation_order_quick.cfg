SPECIFICATION Spec
CONSTANTS
  P = 5
  Offsets = {0}
  MaxSpans = 3
  MinSpans = 2
  MaxCopy = 0
  Filters = {"none"}
CONSTRAINT OrderStage
INVARIANT TypeOK
INVARIANT OrderIrrelevant
