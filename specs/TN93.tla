-------------------------------- MODULE TN93 --------------------------------
(* Constant-level definitions shared by MarkovP (C05) and Felsenstein (C02,  *)
(* C11): the Tamura-Nei family with exact rational transition probabilities. *)
EXTENDS Rational

Nuc == {"T", "C", "A", "G"}
Grp(x) == IF x \in {"A", "G"} THEN "R" ELSE "Y"

(* instance: name, pi (integers t,c,a,g over their sum), kappa_y, kappa_r, exponents n1,nR,nY *)
I(name, t, c, a, g, ky, kr, n1, nR, nY, par) ==
    [name |-> name, w |-> [x \in Nuc |-> CASE x = "T" -> t [] x = "C" -> c [] x = "A" -> a [] x = "G" -> g],
     ky |-> ky, kr |-> kr, n1 |-> n1, nR |-> nR, nY |-> nY, par |-> par]

PInstances == <<
    I("JC69",  1, 1, 1, 1, R(1,1), R(1,1), 1, 1, 1, "none"),
    I("K80",   1, 1, 1, 1, R(3,1), R(3,1), 1, 2, 2, "kappa"),
    I("F81",   1, 2, 3, 4, R(1,1), R(1,1), 1, 1, 1, "none"),
    I("HKY85", 1, 2, 1, 2, R(3,1), R(3,1), 1, 2, 2, "kappa"),
    I("TN93",  1, 2, 1, 2, R(5,1), R(3,1), 1, 2, 3, "kappa_y,kappa_r"),
    I("TN93",  1, 1, 2, 2, R(4,1), R(4,1), 1, 3, 2, "kappa_y,kappa_r")
>>
Qs == <<R(1,1), R(1,2), R(1,3), R(2,3)>>

Tot(m) == m.w["T"] + m.w["C"] + m.w["A"] + m.w["G"]
Pi(m, x) == R(m.w[x], Tot(m))
PiG(m, G) == RSumSet({x \in Nuc : Grp(x) = G}, [x \in Nuc |-> Pi(m, x)])
Kap(m, x, y) == IF Grp(x) # Grp(y) THEN One ELSE IF Grp(x) = "R" THEN m.kr ELSE m.ky

(* the exponents really are n1 : nR : nY (design-level sanity of the instance table) *)
ExpR(m) == RAdd(RMul(PiG(m, "R"), m.kr), PiG(m, "Y"))
ExpY(m) == RAdd(RMul(PiG(m, "Y"), m.ky), PiG(m, "R"))
ExponentsOK(m) == /\ RMul(ExpR(m), R(m.n1, 1)) = R(m.nR, 1)
                  /\ RMul(ExpY(m), R(m.n1, 1)) = R(m.nY, 1)

Mu(m) == RSumSet(Nuc, [x \in Nuc |-> RMul(Pi(m, x),
              RSumSet(Nuc \ {x}, [y \in Nuc |-> RMul(Kap(m, x, y), Pi(m, y))]))])

P(m, q) ==
    LET e1 == RPow(q, m.n1)
        eG == [G \in {"R", "Y"} |-> IF G = "R" THEN RPow(q, m.nR) ELSE RPow(q, m.nY)]
    IN  [x \in Nuc |-> [y \in Nuc |->
            IF Grp(x) = Grp(y)
            THEN LET PJ == PiG(m, Grp(y))
                 IN  RAdd(RAdd(Pi(m, y), RMul(RMul(Pi(m, y), RSub(RInv(PJ), One)), e1)),
                          RMul(RSub(IF x = y THEN One ELSE Zero, RDiv(Pi(m, y), PJ)), eG[Grp(y)]))
            ELSE RMul(Pi(m, y), RSub(One, e1))]]

MatMul(A, B) == [x \in Nuc |-> [y \in Nuc |-> RSumSet(Nuc, [z \in Nuc |-> RMul(A[x][z], B[z][y])])]]

=============================================================================
