------------------------------ MODULE PairAlign ------------------------------
(* Property C18 (pairwise part): the space of pairwise alignment PATHS.        *)
(*                                                                            *)
(* A path is a sequence of states M (consume one residue of each sequence),    *)
(* X (consume a residue of the first sequence against a gap) and Y (the        *)
(* converse).  A GLOBAL path consumes both sequences entirely.  A LOCAL path   *)
(* consumes a contiguous part of each, and begins and ends with M.             *)
(* TLC enumerates every path of every sequence pair within the bounds and      *)
(* hands the harness, per complete path: the two gapped rows it denotes, the   *)
(* multiset of aligned residue pairs, the multiset of state transitions and    *)
(* the first state -- the sufficient statistics of the pair-HMM score          *)
(*    ln start(first) + sum ln T[s,s'] + sum_M (S[a,b] + ln n).                *)
(* The harness evaluates that (ln / dot product, float) for a scoring system   *)
(* and demands of the real aligner: the returned rows ARE one of these paths,  *)
(* the reported score is that path's score, and no path scores higher.         *)
EXTENDS Naturals, Sequences, FiniteSets, TLC, Emit

CONSTANTS Alphabet, MaxLen1, MaxLen2

Seqs(n) == UNION {[1..k -> Alphabet] : k \in 1..n}

VARIABLES s1, s2, mode, i0, j0, i, j, path
vars == <<s1, s2, mode, i0, j0, i, j, path>>

Init == /\ s1 \in Seqs(MaxLen1) /\ s2 \in Seqs(MaxLen2)
        /\ mode \in {"global", "local"}
        /\ i0 \in 0..(Len(s1) - 1) /\ j0 \in 0..(Len(s2) - 1)
        /\ (mode = "global" => i0 = 0 /\ j0 = 0)
        /\ i = i0 /\ j = j0 /\ path = <<>>

(* local paths start with M; classic gap scoring has no X<->Y transition, but the path space keeps them:
   the scoring system decides (ln 0 = -infinity) *)
ExtendT(st) ==
    /\ CASE st = "M" -> i < Len(s1) /\ j < Len(s2) /\ i' = i + 1 /\ j' = j + 1
         [] st = "X" -> i < Len(s1) /\ i' = i + 1 /\ j' = j
         [] st = "Y" -> j < Len(s2) /\ j' = j + 1 /\ i' = i
    /\ (mode = "local" /\ path = <<>> => st = "M")
    /\ path' = Append(path, st)
    /\ UNCHANGED <<s1, s2, mode, i0, j0>>

Complete == /\ path # <<>>
            /\ IF mode = "global" THEN i = Len(s1) /\ j = Len(s2)
               ELSE path[1] = "M" /\ path[Len(path)] = "M"

(* position in s1 / s2 consumed by column c of the path *)
RECURSIVE Count(_, _, _)
Count(p, c, S) == IF c = 0 THEN 0 ELSE Count(p, c - 1, S) + (IF p[c] \in S THEN 1 ELSE 0)
Row1(p) == [c \in 1..Len(p) |-> IF p[c] \in {"M", "X"} THEN s1[i0 + Count(p, c, {"M", "X"})] ELSE "-"]
Row2(p) == [c \in 1..Len(p) |-> IF p[c] \in {"M", "Y"} THEN s2[j0 + Count(p, c, {"M", "Y"})] ELSE "-"]

States == {"M", "X", "Y"}
PairCount(p, a, b) == Cardinality({c \in 1..Len(p) : p[c] = "M" /\ Row1(p)[c] = a /\ Row2(p)[c] = b})
TransCount(p, s, t) == Cardinality({c \in 2..Len(p) : p[c - 1] = s /\ p[c] = t})

Report(p) == Emit([act |-> "Path", s1 |-> s1, s2 |-> s2, mode |-> mode, i0 |-> i0, j0 |-> j0,
                   path |-> p, row1 |-> Row1(p), row2 |-> Row2(p), first |-> p[1],
                   pairs |-> {<<a, b, PairCount(p, a, b)>> : a \in Alphabet, b \in Alphabet},
                   trans |-> {<<s, t, TransCount(p, s, t)>> : s \in States, t \in States}])

Extend(st) == ExtendT(st) /\ (Complete' => Report(path'))
Next == \E st \in States : Extend(st)
Spec == Init /\ [][Next]_vars

(* design-level sanity of the path space *)
Degap(row) == SelectSeq(row, LAMBDA x : x # "-")
RowsWellFormed ==
    path # <<>> =>
      /\ Len(Row1(path)) = Len(Row2(path))
      /\ \A c \in 1..Len(path) : ~(Row1(path)[c] = "-" /\ Row2(path)[c] = "-")
      /\ Degap(Row1(path)) = SubSeq(s1, i0 + 1, i)
      /\ Degap(Row2(path)) = SubSeq(s2, j0 + 1, j)
=============================================================================
