----------------------------- MODULE NestedScope -----------------------------
(* Property C16, nesting by parameter SCOPE: the null model ties a parameter   *)
(* over blocks of edges (a partition with one value per block); the richer     *)
(* model uses a finer partition.  Initialising the richer from the null gives  *)
(* every fine block the value of the null block that contains it, hence the    *)
(* same per-edge values and the same likelihood.                               *)
EXTENDS Naturals, FiniteSets, Sequences, TLC, Emit

CONSTANTS Edges, Vals,
          LenVals   \* branch-length values of the null (0 = a length sitting on its lower bound)

Partitions == {P \in SUBSET (SUBSET Edges \ {{}}) :
                 /\ UNION P = Edges
                 /\ \A a, b \in P : a # b => a \cap b = {}}
Refines(A, P) == \A a \in A : \E b \in P : a \subseteq b
BlockOf(P, e) == CHOOSE b \in P : e \in b

VARIABLES null, nval, alt, blen
vars == <<null, nval, alt, blen>>

Init == /\ null \in Partitions
        /\ nval \in [null -> Vals]
        /\ alt \in {A \in Partitions : Refines(A, null) /\ A # null}
        /\ blen \in [Edges -> LenVals]

(* value every edge must have in the initialised rich function *)
Expected == [e \in Edges |-> nval[BlockOf(null, e)]]

DoneT == FALSE
Report == Emit([act |-> "NestedScope",
                null |-> {<<b, nval[b]>> : b \in null},
                alt |-> alt,
                expected |-> Expected,
                lengths |-> blen])   \* every edge keeps the null's branch length, whatever its value
Next == DoneT
Spec == Init /\ [][Next]_vars
(* evaluated once per initial state *)
Emitted == Report
AltInherits == \A a \in alt : \A e, f \in a : Expected[e] = Expected[f]
=============================================================================
