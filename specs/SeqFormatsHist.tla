---------------------------- MODULE SeqFormatsHist ----------------------------
(* Property C06, histories: SeqFormats.tla treats a load as a function of the  *)
(* file alone.  This module makes that explicit.  The loader of every line    *)
(* based format is ONE process-wide object (parse/sequence.py PARSERS: a       *)
(* LineBasedParser instance per format), so its configuration is state:        *)
(*                                                                            *)
(*     conf[f] = the options a load of format f WITHOUT options will use       *)
(*                                                                            *)
(* and the property is that it never leaves Default:                           *)
(*     LoadOpt(f, k) ; RoundTrip(f, ..)  =  RoundTrip(f, ..)                    *)
(* i.e. a load with parser_kw / loader arguments configures that one call      *)
(* only, whether it succeeds or raises (an option the format's parser does not *)
(* accept raises TypeError and must not stick either).                         *)
(*                                                                            *)
(* The constant Leaky selects the design: FALSE is the design of cogent3       *)
(* (options are per call); TRUE is the design in which per-call options are    *)
(* merged into the shared object.  TLC proves ConfStaysDefault and             *)
(* PlainLoadIsPure for Leaky = FALSE and must REFUTE them for Leaky = TRUE     *)
(* (binding self-test run by the harness: the property can tell the designs    *)
(* apart on histories of this length).                                         *)
(*                                                                            *)
(* One behaviour = one history of at most MaxOps public calls on ONE format in *)
(* one process; every transition is emitted with the history that precedes it *)
(* and the observation the spec predicts; the harness replays each maximal     *)
(* history in a pristine process.                                              *)
EXTENDS Naturals, Sequences, FiniteSets, TLC, Emit

CONSTANTS HFmts,     \* format suffixes under test (all registered line based formats)
          MaxOps,    \* length of the histories
          Leaky      \* FALSE: options are per call (cogent3).  TRUE: merged into the shared parser

VARIABLES fmt,       \* the format of this history
          conf,      \* configuration a plain load of fmt will use
          hist,      \* calls made so far: <<act, args, obs>>
          obs        \* observation of the last call
vars == <<fmt, conf, hist, obs>>

(* what a format can do ------------------------------------------------------ *)
HasWriter(f)  == f \in {"gde", "phylip", "paml"}         \* format/alignment.py FORMATTERS (line based ones)
MultiWord(f)  == f \in {"gde", "phylip", "paml"}         \* names may hold blanks
FastaFamily(f) == f \in {"gde", "xmfa"}
(* keyword arguments accepted by the format's parser (parse/fasta.py MinimalGdeParser(strict, label_to_name), *)
(* MinimalXmfaParser(strict), parse/clustal.py ClustalParser(strict), parse/phylip.py MinimalPhylipParser(interleaved)) *)
Options == {"pkw_label_first", "pkw_nonstrict", "pkw_interleaved_false", "arg_label_first"}
Accepts(f, k) == CASE k = "pkw_label_first"       -> f = "gde"
                   [] k = "pkw_nonstrict"         -> f \in {"gde", "xmfa", "aln", "clustal"}
                   [] k = "pkw_interleaved_false" -> f = "phylip"
                   [] k = "arg_label_first"       -> TRUE       \* argument of load_*_seqs itself

Default == [label |-> "verbatim", strict |-> TRUE, poisoned |-> FALSE]
With(c, f, k) == CASE ~Accepts(f, k)           -> [c EXCEPT !.poisoned = TRUE]   \* an unknown keyword reaches the parser: TypeError
                   [] k = "pkw_label_first"    -> [c EXCEPT !.label = "first"]
                   [] k = "pkw_nonstrict"      -> [c EXCEPT !.strict = FALSE]
                   [] OTHER                    -> c

(* what a load returns under configuration c: "raised", or how the names of    *)
(* the records relate to the names in the file ("verbatim" / "first" word);    *)
(* sequences and order are those of the file in both cases                     *)
Outcome(f, c) == IF c.poisoned THEN "raised"
                 ELSE IF c.label = "first" /\ MultiWord(f) THEN "first" ELSE "verbatim"

Compressions == {"plain", "gz", "bz2"}
Kinds == {"aligned", "unaligned"}

Init == /\ fmt \in HFmts
        /\ conf = Default
        /\ hist = <<>>
        /\ obs = "init"

Step(act, args, o) == /\ Len(hist) < MaxOps
                      /\ obs' = o
                      /\ hist' = Append(hist, <<act, args, o>>)
                      /\ UNCHANGED fmt
Log(act, args) == Emit([from |-> [fmt |-> fmt, hist |-> hist, multi |-> MultiWord(fmt), writer |-> HasWriter(fmt)],
                        act |-> act, args |-> args,
                        to |-> [obs |-> obs', hist |-> hist']])

(* load_aligned_seqs(first.<fmt>, <option k>): the option applies to this call *)
LoadOptT(k) ==
    LET used == IF k = "arg_label_first"
                THEN conf                    \* the loader renames after parsing; the parser runs as configured
                ELSE With(conf, fmt, k)
        o == IF used.poisoned THEN "raised"
             ELSE IF k = "arg_label_first" /\ MultiWord(fmt) THEN "first"
             ELSE Outcome(fmt, used)
    IN /\ Step("LoadOpt", <<k>>, o)
       /\ conf' = IF Leaky /\ k # "arg_label_first" THEN With(conf, fmt, k) ELSE conf
LoadOpt(k) == LoadOptT(k) /\ Log("LoadOpt", <<k>>)

(* write second.<fmt>[.gz|.bz2] ; load_aligned_seqs / load_unaligned_seqs without options *)
RoundTripT(cmp, kind) ==
    /\ Step("RoundTrip", <<cmp, kind>>, Outcome(fmt, conf))
    /\ UNCHANGED conf
RoundTrip(cmp, kind) == RoundTripT(cmp, kind) /\ Log("RoundTrip", <<cmp, kind>>)

(* plain load of a file holding a label without residues: the default is strict *)
ProbeT ==
    /\ FastaFamily(fmt)
    /\ Step("ProbeStrict", <<>>, IF conf.poisoned \/ conf.strict THEN "raised" ELSE "lenient")
    /\ UNCHANGED conf
Probe == ProbeT /\ Log("ProbeStrict", <<>>)

Next == \/ \E k \in Options : LoadOpt(k)
        \/ \E cmp \in Compressions, kind \in Kinds : RoundTrip(cmp, kind)
        \/ Probe
Spec == Init /\ [][Next]_vars

-----------------------------------------------------------------------------
TypeOK == fmt \in HFmts /\ Len(hist) <= MaxOps

(* the configuration used by later loads never changes *)
ConfStaysDefault == conf = Default

(* a load without options is a function of the file: whatever came before, the *)
(* records are those of the file and the strict default holds                   *)
PlainLoadIsPure ==
    [][/\ (\E cmp \in Compressions, kind \in Kinds : RoundTripT(cmp, kind)) => obs' = "verbatim"
       /\ ProbeT => obs' = "raised"]_vars

(* a load with options is a function of the file and of ITS options *)
OptionLoadIsPure ==
    [][\A k \in Options : LoadOptT(k) =>
          obs' = IF ~Accepts(fmt, k) THEN "raised"
                 ELSE IF k \in {"pkw_label_first", "arg_label_first"} /\ MultiWord(fmt) THEN "first"
                 ELSE "verbatim"]_vars
=============================================================================
