SPECIFICATION Spec
CONSTANTS
  Roots <- RootsThorough
  Offsets = {0, 5}
  Steps <- StepsAll
  CmpEvery = 1
  CmpSteps <- CmpAll
INVARIANT TypeOK
INVARIANT CountsPartition
INVARIANT CountsMonotone
INVARIANT KmersLaw
INVARIANT GapLaw
INVARIANT TerminiLaw
INVARIANT RcLaw
INVARIANT OrderLaw
INVARIANT WindowLaw
INVARIANT FastaLaw
INVARIANT TranslateLaw
