------------------------------ MODULE MarkovQ ------------------------------
(* Property C05 (and the Q-level part of C02/C16): the PUBLISHED definition   *)
(* of cogent3's continuous-time substitution models, in exact rational        *)
(* arithmetic.                                                                *)
(*                                                                            *)
(* A model instance is a record                                               *)
(*   [name, L (motif length 1|2|3), kind ("word"|"monomer"|"conditional"|"none"),*)
(*    params: sequence of <<predicate name, rational value>>, pi: motif probs] *)
(* States are words over T,C,A,G (sense codons of the standard code for L=3). *)
(*   Inst(i,j)   == i and j differ at exactly one position                     *)
(*   R[i,j]      == product of the parameters whose predicate holds for (i,j)  *)
(*   W[i,j]      == "word": pi_j | "monomer": pi(target nucleotide)            *)
(*                  | "monomers": pi_position(target nucleotide), word probs =  *)
(*                  product over positions normalised over the states           *)
(*                  | "conditional": pi_j / sum of pi_k over words k that       *)
(*                  differ from j at most at the changed position               *)
(*                  | "none" (general non-stationary models): 1                 *)
(*   Qraw[i,j]   == Inst(i,j) * R[i,j] * W[i,j];  Qraw[i,i] == -rowsum          *)
(*   Q           == Qraw / (sum_i wp_i * rowsum_i)   (wp: word probabilities)   *)
(* so that a unit of branch length is one expected substitution.              *)
EXTENDS Rational, TLC, Emit

CONSTANTS Instances,  \* sequence of model instances (defined in MC_MarkovQ.tla)
          Refused     \* sequence of parameterisations a time-reversible class must REFUSE to build

Nuc == <<"T", "C", "A", "G">>
NucSet == {"T", "C", "A", "G"}
NIdx(x) == CHOOSE k \in 1..4 : Nuc[k] = x

(* standard genetic code, TCAG order, index 16*i1 + 4*i2 + i3 (0-based) *)
StdAA == <<"F","F","L","L","S","S","S","S","Y","Y","*","*","C","C","*","W",
           "L","L","L","L","P","P","P","P","H","H","Q","Q","R","R","R","R",
           "I","I","I","M","T","T","T","T","N","N","K","K","S","S","R","R",
           "V","V","V","V","A","A","A","A","D","D","E","E","G","G","G","G">>
(* NCBI genetic codes: 1 standard; 2 vertebrate mitochondrial (TGA=W, ATA=M, AGA=AGG=stop): a different   *)
(* state space (60 sense codons) and a different synonymous/replacement partition for omega            *)
CodeTable(gc) == IF gc = 2 THEN [StdAA EXCEPT ![15] = "W", ![35] = "M", ![47] = "*", ![48] = "*"] ELSE StdAA
CodonIdx(w) == 16 * (NIdx(w[1]) - 1) + 4 * (NIdx(w[2]) - 1) + (NIdx(w[3]) - 1) + 1
AAg(gc, w) == CodeTable(gc)[CodonIdx(w)]
AA(w) == AAg(1, w)

AllWords(L) == IF L = 1 THEN {<<a>> : a \in NucSet}
               ELSE IF L = 2 THEN {<<a, b>> : a \in NucSet, b \in NucSet}
               ELSE {<<a, b, c>> : a \in NucSet, b \in NucSet, c \in NucSet}
StatesG(L, gc) == IF L \in {1, 2} THEN AllWords(L) ELSE {w \in AllWords(3) : AAg(gc, w) # "*"}
States(L) == StatesG(L, 1)
SM(m) == StatesG(m.L, m.gc)

Diffs(i, j) == {p \in 1..Len(i) : i[p] # j[p]}
Inst(i, j) == Cardinality(Diffs(i, j)) = 1
Pos(i, j) == CHOOSE p \in Diffs(i, j) : TRUE
Purine(x) == x \in {"A", "G"}
Transition(a, b) == a # b /\ Purine(a) = Purine(b)

(* predicates, by the parameter names cogent3 uses *)
Holds(gc, pn, i, j) ==
    LET p == Pos(i, j)
        a == i[p]
        b == j[p]
    IN  CASE pn = "kappa"   -> Transition(a, b)
          [] pn = "kappa_y" -> {a, b} = {"C", "T"}
          [] pn = "kappa_r" -> {a, b} = {"A", "G"}
          [] pn = "omega"   -> AAg(gc, i) # AAg(gc, j)
          [] pn = "A/C"     -> {a, b} = {"A", "C"}
          [] pn = "A/G"     -> {a, b} = {"A", "G"}
          [] pn = "A/T"     -> {a, b} = {"A", "T"}
          [] pn = "C/G"     -> {a, b} = {"C", "G"}
          [] pn = "C/T"     -> {a, b} = {"C", "T"}
          [] pn = "A>C"     -> a = "A" /\ b = "C"
          [] pn = "A>G"     -> a = "A" /\ b = "G"
          [] pn = "A>T"     -> a = "A" /\ b = "T"
          [] pn = "C>A"     -> a = "C" /\ b = "A"
          [] pn = "C>G"     -> a = "C" /\ b = "G"
          [] pn = "C>T"     -> a = "C" /\ b = "T"
          [] pn = "G>A"     -> a = "G" /\ b = "A"
          [] pn = "G>C"     -> a = "G" /\ b = "C"
          [] pn = "G>T"     -> a = "G" /\ b = "T"
          [] pn = "T>A"     -> a = "T" /\ b = "A"
          [] pn = "T>C"     -> a = "T" /\ b = "C"
          \* user-built predicates (predicate algebra: | , ~ , forward_only)
          [] pn = "u_or"     -> {a, b} = {"A", "G"} \/ {a, b} = {"C", "T"}
          [] pn = "u_not_ac" -> ~({a, b} = {"A", "C"})
          [] pn = "u_fwd"    -> a = "A" /\ b = "G"
          [] pn = "u_bwd"    -> a = "G" /\ b = "A"

RECURSIVE Factor(_, _, _, _)
Factor(gc, ps, i, j) == IF ps = <<>> THEN One
                    ELSE RMul(IF Holds(gc, Head(ps)[1], i, j) THEN Head(ps)[2] ELSE One,
                              Factor(gc, Tail(ps), i, j))

(* word probabilities: the distribution the calibration (and stationarity) refers to *)
MonoProd(m, w) == IF m.L = 2 THEN RMul(m.pi[<<w[1]>>], m.pi[<<w[2]>>])
                  ELSE RMul(RMul(m.pi[<<w[1]>>], m.pi[<<w[2]>>]), m.pi[<<w[3]>>])
PosName(p) == CASE p = 1 -> "0" [] p = 2 -> "1" [] p = 3 -> "2"
PosProd(m, w) == RMul(RMul(m.pi[<<"0", w[1]>>], m.pi[<<"1", w[2]>>]), m.pi[<<"2", w[3]>>])
WordProbs(m) ==
    IF m.kind = "monomers"      \* position-specific nucleotide probabilities (codon positions differ)
    THEN LET S == SM(m)
             raw == [w \in S |-> PosProd(m, w)]
             tot == RSumSet(S, raw)
         IN  [w \in S |-> RDiv(raw[w], tot)]
    ELSE IF m.kind = "monomer"
    THEN LET S == SM(m)
             raw == [w \in S |-> MonoProd(m, w)]
             tot == RSumSet(S, raw)
         IN  [w \in S |-> RDiv(raw[w], tot)]
    ELSE m.pi

Weight(m, wp, i, j) ==
    LET p == Pos(i, j)
    IN  CASE m.kind = "word"        -> wp[j]
          [] m.kind = "monomer"     -> m.pi[<<j[p]>>]
          [] m.kind = "monomers"    -> m.pi[<<PosName(p), j[p]>>]
          [] m.kind = "conditional" ->
                LET ctx == {k \in SM(m) : \A q \in 1..m.L : q # p => k[q] = j[q]}
                IN  RDiv(wp[j], RSumSet(ctx, wp))
          [] m.kind = "none"        -> One

Compute(m) ==
    LET S    == SM(m)
        wp   == WordProbs(m)
        raw  == [i \in S |-> [j \in S |-> IF Inst(i, j) THEN RMul(Factor(m.gc, m.params, i, j), Weight(m, wp, i, j)) ELSE Zero]]
        rows == [i \in S |-> RSumSet(S, raw[i])]
        mu   == RSumSet(S, [i \in S |-> RMul(wp[i], rows[i])])
        Q    == [i \in S |-> [j \in S |-> IF i = j THEN RNeg(RDiv(rows[i], mu)) ELSE RDiv(raw[i][j], mu)]]
    IN  [name |-> m.name, L |-> m.L, kind |-> m.kind, S |-> S, wp |-> wp, Q |-> Q, mu |-> mu,
         reversible |-> m.reversible, stationary |-> m.stationary]

(* Admission rule of the time-reversible classes: every exchangeability term must apply to (i,j) exactly  *)
(* when it applies to (j,i).  Two mirrored DIRECTED terms (A>G and G>A as separate parameters) touch the     *)
(* same number of cells on both sides of the diagonal yet are not symmetric: with different values Q breaks  *)
(* detailed balance (RefusalJustified), so the constructor has to refuse them.                               *)
SymmetricTerms(m) == \A q \in 1..Len(m.params) : \A i, j \in SM(m) :
                        Inst(i, j) => (Holds(m.gc, m.params[q][1], i, j) <=> Holds(m.gc, m.params[q][1], j, i))
Admissible(m) == m.reversible => SymmetricTerms(m)
BreaksDetailedBalance(m) == LET rep == Compute(m) IN
                              \E i, j \in rep.S : RMul(rep.wp[i], rep.Q[i][j]) # RMul(rep.wp[j], rep.Q[j][i])

VARIABLES k, r   \* index into Instances (then into Refused); the computed report of the instance
vars == <<k, r>>

Init == k = 1 /\ r = Compute(Instances[1])

EvalT == /\ k < Len(Instances) + 1
         /\ k' = k + 1
         /\ r' = IF k + 1 <= Len(Instances) THEN Compute(Instances[k + 1]) ELSE r

(* one record per instance: the off-diagonal non-zero cells, the diagonal, the word probs *)
Cells(rep) == {<<i, j>> \in rep.S \X rep.S : i = j \/ rep.Q[i][j] # Zero}
Eval == EvalT /\ Emit([act |-> "Q", name |-> Instances[k].name, L |-> Instances[k].L, kind |-> Instances[k].kind,
                       params |-> Instances[k].params, tag |-> Instances[k].tag, gc |-> Instances[k].gc,
                       pi |-> {<<w, Instances[k].pi[w]>> : w \in DOMAIN Instances[k].pi}, mu |-> r.mu,
                       wp |-> {<<w, r.wp[w]>> : w \in r.S},
                       cells |-> {<<c[1], c[2], r.Q[c[1]][c[2]]>> : c \in Cells(r)}])
RefuseT == /\ k > Len(Instances) /\ k <= Len(Instances) + Len(Refused)
           /\ k' = k + 1 /\ UNCHANGED r
Refuse == RefuseT /\ LET m == Refused[k - Len(Instances)] IN
              Emit([act |-> "Refuse", name |-> m.name, L |-> m.L, kind |-> m.kind, params |-> m.params, tag |-> m.tag, gc |-> m.gc,
                    pi |-> {<<w, m.pi[w]>> : w \in DOMAIN m.pi}])
Next == Eval \/ Refuse
Spec == Init /\ [][Next]_vars

------------------------------------------------------------------------------
(* Design-level properties of the published definitions (exact).              *)
ZeroRowSums   == \A i \in r.S : RSumSet(r.S, r.Q[i]) = Zero
NonNegOffDiag == \A i, j \in r.S : i # j => RGe0(r.Q[i][j])
Calibrated    == RNeg(RSumSet(r.S, [i \in r.S |-> RMul(r.wp[i], r.Q[i][i])])) = One
StationaryOK  == r.stationary =>
                   \A j \in r.S : RSumSet(r.S, [i \in r.S |-> RMul(r.wp[i], r.Q[i][j])]) = Zero
DetailedBal   == r.reversible =>
                   \A i, j \in r.S : RMul(r.wp[i], r.Q[i][j]) = RMul(r.wp[j], r.Q[j][i])
WordProbsSum  == RSumSet(r.S, r.wp) = One
AdmittedAreAdmissible == \A q \in 1..Len(Instances) : Admissible(Instances[q])
RefusedAreNot         == \A q \in 1..Len(Refused) : Refused[q].reversible /\ ~Admissible(Refused[q])
RefusalJustified      == \A q \in 1..Len(Refused) : BreaksDetailedBalance(Refused[q])
=============================================================================
