SPECIFICATION Spec
CONSTANTS
  NRecs = {1, 2, 3}
  GbLens = {1, 9, 10, 11, 59, 60, 61, 120, 121}
  Shifts = {0, 1}
INVARIANT TypeOK
INVARIANT LayoutSound
INVARIANT GbBytesParserOk
