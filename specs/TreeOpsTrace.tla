---------------------------- MODULE TreeOpsTrace ----------------------------
(* code -> spec for property C09: recorded executions of the real tree         *)
(* transformations on larger random trees (more tips, dyadic branch lengths,   *)
(* longer compositions than the exhaustive TreeOps model reaches) are judged   *)
(* by the property as Trees.tla states it.                                      *)
(*                                                                            *)
(* TRACE_FILE is a JSON array of events                                        *)
(*   [op, args, pre, post, recv]                                               *)
(* pre / post / recv are Trees.tla records read off the real objects: the      *)
(* receiver before the call, the result, the receiver after the call.          *)
(* For every event the module evaluates which part of the property fails       *)
(* (empty set = the event is a behaviour the property allows) and the          *)
(* precondition class of the call, and emits both; the harness only reports.   *)
EXTENDS Trees, Emit

CONSTANT Batch            \* events per fan-out state (lets TLC's workers share the file)

Events == JsonDeserialize(IOEnv.TRACE_FILE)
N == Len(Events)
NB == (N + Batch - 1) \div Batch

VARIABLE i
vars == <<i>>

SeqRange(s) == {s[k] : k \in 1..Len(s)}
InPlace == {"Prune"}

(* the partition of the tips the root must make after rooting pre at node n *)
PartsAt(T, n) ==
    IF n = ROOT THEN RootParts(T)
    ELSE {Below(T, c) : c \in Kids(T, n)} \cup {TipsOf(T) \ Below(T, n)}

Fails(e) ==
    LET pre == e.pre
        post == e.post
        R == TipsOf(post)
        want == IF e.op = "SubTree" THEN SeqRange(e.args[1]) ELSE TipsOf(pre)
        sub == R \subseteq TipsOf(pre)
        splitsBad ==
            IF ~sub THEN TRUE
            ELSE IF e.op = "Bifurcating"      \* zero-length edges may add splits, none may vanish
                 THEN ~(RestrictSplits(Splits(pre), R) \subseteq Splits(post))
                 ELSE Splits(post) # RestrictSplits(Splits(pre), R)
        distBad == ~sub \/ Dists(post) # RestrictDists(Dists(pre), R)
        rootBad ==
            CASE e.op = "RootedAt" -> RootParts(post) # PartsAt(pre, e.args[1])
              [] e.op = "RootedWithTip" -> RootParts(post) # PartsAt(pre, pre.par[e.args[1]])
              [] e.op = "RootAtMidpoint" -> 2 * RootHeight(post) # Diameter(pre)
              [] OTHER -> FALSE
    IN  (IF R # want THEN {"tips"} ELSE {})
        \cup (IF splitsBad THEN {"splits"} ELSE {})
        \cup (IF distBad THEN {"dist"} ELSE {})
        \cup (IF rootBad THEN {"rootparts"} ELSE {})
        \cup (IF e.op \notin InPlace /\ e.recv # pre THEN {"receiver-modified"} ELSE {})

Cls(e) ==
    CASE e.op = "RootedAt" -> RerootCls(e.pre, e.args[1])
      [] e.op = "RootedWithTip" -> RerootCls(e.pre, e.pre.par[e.args[1]])
      [] e.op = "Unrooted" -> UnrootedCls(e.pre)
      [] e.op = "SubTree" -> SubTreeCls(e.pre, SeqRange(e.args[1]))
      [] e.op = "RootAtMidpoint" -> MidCls(e.pre)
      [] e.op = "Prune" -> PruneCls(e.pre)
      [] e.op = "Bifurcating" -> BifurcCls(e.pre)
      [] OTHER -> "any"

Init == i = 0
Fan == /\ i = 0 /\ \E b \in 1..NB : i' = N + b
Judge == /\ i > N
         /\ \E k \in ((i - N - 1) * Batch + 1)..(IF (i - N) * Batch < N THEN (i - N) * Batch ELSE N) :
               /\ i' = k
               /\ Emit([i |-> k, op |-> Events[k].op, fails |-> Fails(Events[k]), cls |-> Cls(Events[k])])
Next == Fan \/ Judge
Spec == Init /\ [][Next]_vars

(* every recorded tree is a tree of the model *)
EventsWellFormed ==
    (i > 0 /\ i <= N) => /\ WellFormed(Events[i].pre)
                         /\ Events[i].op # "Bifurcating" => WellFormed(Events[i].post)
=============================================================================
