\* current, intended and the two partial repairs, explored completely (emission with verdicts)
SPECIFICATION FairSpec
CONSTANTS
  Configs <- AllConfigs
  PreStates = {"absent", "Old"}
INVARIANT TypeOK
PROPERTY HappyPathSucceeds
PROPERTY Terminates
