\* current code, the code before the repairs and the two partial repairs, explored completely
\* (emission with verdicts; Atomic is not an invariant here because the historic protocols violate it)
SPECIFICATION FairSpec
CONSTANTS
  Configs <- AllConfigs
  PreStates = {"absent", "Old"}
INVARIANT TypeOK
PROPERTY HappyPathSucceeds
PROPERTY Terminates
