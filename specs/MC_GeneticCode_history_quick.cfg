SPECIFICATION HSpec
CONSTANTS
  TableCodes = {}
  SeqCodes = {}
  MaxLen = 0
  OptLen = 0
  MaxCodons = 0
  PairCodons = 0
  OrfFamily = FALSE
  LongLens = {}
  SymLen = 0
  MaxHist = 2
INVARIANT HTypeOK
INVARIANT AnswerOfLast
PROPERTY HistoryIndependent
