SPECIFICATION Spec
CONSTANTS
  Profile = "quick"
  Group = "binary"
INVARIANT ResultShape
INVARIANT JoinLaw
