-------------------------- MODULE TreeOpsConsensus --------------------------
(* Consensus trees of cogent3 (phylo/consensus.py): majority_rule,            *)
(* weighted_majority_rule(method = "rooted" | "unrooted"), with and without   *)
(* strict=, as functions of the weighted frequencies of clusters / splits in  *)
(* a list of input trees.  (Growth of the C09 tree specification.)            *)
(*                                                                            *)
(* Input: K trees on the same tips (topologies from TreeDist.AllTrees, every  *)
(* edge with an integer length LenOf) with integer weights.  What the         *)
(* docstrings promise:                                                        *)
(*   rooted   : clusters are counted with the tree weights; strict keeps      *)
(*              exactly the clusters whose weight exceeds half the total;     *)
(*              otherwise clusters are added greedily by decreasing weight as *)
(*              long as they are compatible with those already accepted       *)
(*              ("arbitrarily chosen on sort order" among equal weights: the  *)
(*              spec allows every greedy outcome);                            *)
(*   unrooted : the same on splits ("treat the trees as if they were such":   *)
(*              the two root edges of a bifurcating root are one edge);       *)
(*   every edge of the consensus carries its weight (attr; normalised by the  *)
(*              total for unrooted) and the weighted mean of its length over  *)
(*              the trees that have it (Holland 2006).                        *)
EXTENDS TreeDist

CONSTANTS SMod, SRem,   \* trees 2..K are drawn from those with SHash % SMod = SRem
          FMod            \* the first tree from those with SHash % FMod = 0 (1: every topology)

K == 3                                              \* number of input trees
WeightSets == {<<1, 1, 1>>, <<2, 1, 1>>}            \* weights, non-increasing as the docstring asks;
                                                    \* with <<2,1,1>> the first tree alone is exactly half

VARIABLE c            \* <<>>, <<T1>> or the full case record
cvars == <<c, pair>>

TipSeq == SetToSeq(Tips)
TipRank(t) == CHOOSE i \in 1..Len(TipSeq) : TipSeq[i] = t
RECURSIVE Wt(_, _)
Wt(s, k) == IF s = {} THEN 0
            ELSE LET t == CHOOSE x \in s : TRUE IN k * TipRank(t) * TipRank(t) + Wt(s \ {t}, k)
RECURSIVE SumWt(_)
SumWt(F) == IF F = {} THEN 0 ELSE LET x == CHOOSE y \in F : TRUE IN Wt(x, Cardinality(x)) + SumWt(F \ {x})
SHash(F) == 3 * Cardinality(F) + SumWt(F)
Sample == {G \in AllTrees : SHash(G) % SMod = SRem}

RECURSIVE SumFun(_)
SumFun(g) == IF DOMAIN g = {} THEN 0
             ELSE LET x == CHOOSE y \in DOMAIN g : TRUE
                  IN g[x] + SumFun([y \in DOMAIN g \ {x} |-> g[y]])
SumOver(S, f(_)) == SumFun([x \in S |-> f(x)])
Idx == 1..K
Total(w) == SumOver(Idx, LAMBDA i : w[i])

(* ---- input trees with lengths -------------------------------------------------- *)
Singletons == {{t} : t \in Tips}
EdgesOf(F) == F \cup Singletons                    \* one edge per cluster and per tip
LenOf(i, cl) == 1 + ((Cardinality(cl) + 2 * i + Wt(cl, 1)) % 3)
TreeRec(i, F) == {<<cl, LenOf(i, cl)>> : cl \in EdgesOf(F)}

(* ---- rooted: clusters -------------------------------------------------------------- *)
RCands(ts) == UNION {ts[i] : i \in Idx}                       \* proper clusters seen in some tree
RCount(ts, w, cl) == SumOver({i \in Idx : cl \in EdgesOf(ts[i])}, LAMBDA i : w[i])
RLenNum(ts, w, cl) == SumOver({i \in Idx : cl \in EdgesOf(ts[i])}, LAMBDA i : w[i] * LenOf(i, cl))
Conflict(a, b) == a \cap b # {} /\ ~(a \subseteq b) /\ ~(b \subseteq a)
RMajority(ts, w) == {cl \in RCands(ts) : 2 * RCount(ts, w, cl) > Total(w)}
RGreedy(ts, w) ==      \* every outcome of adding clusters by decreasing weight, ties in any order
    {G \in SUBSET RCands(ts) :
        /\ RMajority(ts, w) \subseteq G
        /\ \A a, b \in G : ~Conflict(a, b)
        /\ \A x \in RCands(ts) \ G :
              \E a \in G : Conflict(a, x) /\ RCount(ts, w, a) >= RCount(ts, w, x)}
RAllowed(ts, w, strict) == IF strict THEN {RMajority(ts, w)} ELSE RGreedy(ts, w)
RStats(ts, w) == {<<cl, RCount(ts, w, cl), RLenNum(ts, w, cl)>> : cl \in RCands(ts) \cup Singletons}

(* ---- unrooted: splits ---------------------------------------------------------------- *)
SplitOfEdge(cl) == {cl, Tips \ cl}
USplits(F) == {SplitOfEdge(cl) : cl \in EdgesOf(F)}
Trivial(s) == \E side \in s : Cardinality(side) = 1
(* length of the unrooted edge: the edges of the rooted drawing that are this split *)
USplitLen(i, F, s) == SumOver({cl \in EdgesOf(F) : SplitOfEdge(cl) = s}, LAMBDA cl : LenOf(i, cl))
UCands(ts) == {s \in UNION {USplits(ts[i]) : i \in Idx} : ~Trivial(s)}
UCount(ts, w, s) == SumOver({i \in Idx : s \in USplits(ts[i])}, LAMBDA i : w[i])
ULenNum(ts, w, s) == SumOver({i \in Idx : s \in USplits(ts[i])}, LAMBDA i : w[i] * USplitLen(i, ts[i], s))
Compatible(s1, s2) == \E a \in s1 : \E b \in s2 : a \cap b = {}
UMajority(ts, w) == {s \in UCands(ts) : 2 * UCount(ts, w, s) > Total(w)}
UGreedy(ts, w) ==
    {G \in SUBSET UCands(ts) :
        /\ UMajority(ts, w) \subseteq G
        /\ \A a, b \in G : Compatible(a, b)
        /\ \A x \in UCands(ts) \ G :
              \E a \in G : ~Compatible(a, x) /\ UCount(ts, w, a) >= UCount(ts, w, x)}
UAllowed(ts, w, strict) == IF strict THEN {UMajority(ts, w)} ELSE UGreedy(ts, w)
UStats(ts, w) == {<<s, UCount(ts, w, s), ULenNum(ts, w, s)>> :
                     s \in UCands(ts) \cup {SplitOfEdge(x) : x \in Singletons}}

(* ---- machine: one step builds a case --------------------------------------------------- *)
Methods == {"majority_rule", "rooted", "unrooted"}
CInit == (\E F \in {G \in AllTrees : SHash(G) % FMod = 0} : c = <<F>>) /\ pair = <<>>

Case(rest, w, strict, m) ==
    /\ Len(c) = 1
    /\ m = "majority_rule" => \A i \in Idx : w[i] = 1          \* majority_rule counts every tree once
    /\ LET ts == [i \in Idx |-> IF i = 1 THEN c[1] ELSE rest[i]]
       IN /\ c' = <<ts, w, strict, m>>
          /\ Emit([from |-> "first", act |-> "Consensus",
                   args |-> [trees |-> [i \in Idx |-> TreeRec(i, ts[i])], weights |-> w,
                             strict |-> strict, method |-> m],
                   to |-> "case",
                   obs |-> IF m = "unrooted"
                           THEN [allowed |-> UAllowed(ts, w, strict), stats |-> UStats(ts, w), total |-> Total(w)]
                           ELSE [allowed |-> RAllowed(ts, w, strict), stats |-> RStats(ts, w), total |-> Total(w)]])

CNext == /\ pair' = pair
         /\ \E rest \in [2..K -> Sample] : \E w \in WeightSets : \E strict \in BOOLEAN : \E m \in Methods :
               Case(rest, w, strict, m)
CSpec == CInit /\ [][CNext]_cvars

------------------------------------------------------------------------------
(* Laws of the definitions, checked on every enumerated case.                  *)
IsCase == Len(c) = 4
Ts == c[1]
W == c[2]

(* clusters / splits found in more than half of the weight never conflict *)
MajorityIsCompatible ==
    IsCase => /\ \A a, b \in RMajority(Ts, W) : ~Conflict(a, b)
              /\ \A a, b \in UMajority(Ts, W) : Compatible(a, b)
(* a greedy consensus exists, and every one extends the strict consensus *)
GreedyExtendsStrict ==
    IsCase => /\ RGreedy(Ts, W) # {} /\ \A G \in RGreedy(Ts, W) : RMajority(Ts, W) \subseteq G
              /\ UGreedy(Ts, W) # {} /\ \A G \in UGreedy(Ts, W) : UMajority(Ts, W) \subseteq G
(* every accepted set is a tree: it is one of the topologies on Tips *)
ConsensusIsATree == IsCase => \A G \in RGreedy(Ts, W) : G \in AllTrees
(* the consensus of K copies of one tree is that tree *)
ConsensusOfCopies ==
    IsCase /\ (\A i \in Idx : Ts[i] = Ts[1]) =>
        /\ RGreedy(Ts, W) = {Ts[1]} /\ RMajority(Ts, W) = Ts[1]
        /\ UGreedy(Ts, W) = {{s \in USplits(Ts[1]) : ~Trivial(s)}}
(* the unrooted consensus does not depend on how the input trees are drawn     *)
(* (rooted): its candidate splits are those of the trees' clusters             *)
UnrootedIgnoresRoot ==
    IsCase => UCands(Ts) = {SplitOfEdge(cl) : cl \in RCands(Ts)} \ {s \in {SplitOfEdge(cl) : cl \in RCands(Ts)} : Trivial(s)}
=============================================================================
