SPECIFICATION Spec
CONSTANTS
  RefLen = 3
  NOthers = 2
  MaxIns = 2
INVARIANT Emitted
