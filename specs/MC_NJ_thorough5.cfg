SPECIFICATION Spec
CONSTANTS
  N = 5
  TipLens = {1, 2, 3}
  IntLens = {1, 2}
INVARIANT TypeOK
INVARIANT Recovered
INVARIANT ResultShape
INVARIANT CherryLemma
INVARIANT NoClamp
