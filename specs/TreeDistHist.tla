---------------------------- MODULE TreeDistHist ----------------------------
(* Tree-to-tree distances over HISTORIES (property C09, second sentence).     *)
(*                                                                            *)
(* TreeDist.tla measures every pair of freshly built trees once.  Here a      *)
(* state holds the current topology A of a tree object, the tree B it is      *)
(* compared with, and whether A's object has already been measured; between   *)
(* measurements the object is transformed by calls that keep the same Python  *)
(* object or derive the new one by copying it: copy / deepcopy, prune()       *)
(* (in place), bifurcating() / multifurcating(3) (copy, then restructure in   *)
(* place), reassign_names() on a copy and in place.  The expected distance    *)
(* is always the independent definition (TreeDist.tla) on the CURRENT         *)
(* topology: nothing a tree remembered from an earlier measurement may show.  *)
(* The harness replays each history on real objects, measuring where the      *)
(* history measures, so measurement happens before and after a transformation *)
(* on the same objects.                                                        *)
EXTENDS TreeDist

CONSTANTS BMod, BRem      \* the trees compared with: those with BHash % BMod = BRem

VARIABLE h                \* [live |-> BOOLEAN, A |-> topology, B |-> topology, meas |-> BOOLEAN]
hvars == <<h, pair>>

TipSeq == SetToSeq(Tips)
TipRank(t) == CHOOSE i \in 1..Len(TipSeq) : TipSeq[i] = t
RECURSIVE Weight(_, _)      \* a label-dependent weight of a set of tips / of a cluster family
Weight(c, k) == IF c = {} THEN 0
                ELSE LET t == CHOOSE x \in c : TRUE IN k * TipRank(t) * TipRank(t) + Weight(c \ {t}, k)
RECURSIVE SumWeight(_)
SumWeight(F) == IF F = {} THEN 0
                ELSE LET c == CHOOSE x \in F : TRUE IN Weight(c, Cardinality(c)) + SumWeight(F \ {c})
BHash(F) == 3 * Cardinality(F) + SumWeight(F)
Others == {G \in AllTrees : BHash(G) % BMod = BRem}

(* ---- topology of the results of the transformations ------------------------- *)
NodesOf(F) == F \cup {Tips}
KidsIn(F, n) == Maximal({d \in F : d \subseteq n /\ d # n})
Deg(F, n) == Cardinality(KidsIn(F, n)) + Cardinality(n \ UNION KidsIn(F, n))

(* multifurcating(k): nodes with more than k children get new internal nodes  *)
(* (each takes k children); which children are grouped depends on child order *)
(* and is left open: any refinement with the right number of new nodes        *)
Added(d, k) == IF d <= k THEN 0 ELSE (d - 2) \div (k - 1)
RECURSIVE AddedAll(_, _, _)
AddedAll(F, S, k) == IF S = {} THEN 0
                     ELSE LET n == CHOOSE x \in S : TRUE
                          IN Added(Deg(F, n), k) + AddedAll(F, S \ {n}, k)
Multifurcated(F, k) ==
    {G \in AllTrees : /\ F \subseteq G
                      /\ \A n \in NodesOf(G) : Deg(G, n) <= k
                      /\ Cardinality(G) = Cardinality(F) + AddedAll(F, NodesOf(F), k)}

Swapped(F, x, y) ==
    LET sw(t) == IF t = x THEN y ELSE IF t = y THEN x ELSE t
    IN {{sw(t) : t \in c} : c \in F}

(* ---- binding ------------------------------------------------------------------- *)
NoTrees == [live |-> FALSE, A |-> {}, B |-> {}, meas |-> FALSE]
Live == h.live
HLog(act, args, obs) == Emit([from |-> h, act |-> act, args |-> args, to |-> h', obs |-> obs])
NoObs == [none |-> TRUE]

HInit == h = NoTrees /\ pair = <<>>

(* two freshly built trees *)
Start(F, G) == /\ ~Live
               /\ h' = [live |-> TRUE, A |-> F, B |-> G, meas |-> FALSE]
               /\ HLog("Start", <<F, G>>, NoObs)

(* every distance between the current tree and B, both ways round; subsets() and  *)
(* compare_by_subsets (1 - 2 * common / total) of the current tree                *)
MeasureNow == /\ Live
              /\ h' = [h EXCEPT !.meas = TRUE]
              /\ HLog("Measure", <<>>,
                      [dist |-> Expected(h.A, h.B), subsets |-> h.A,
                       common |-> Cardinality(h.A \cap h.B),
                       total |-> Cardinality(h.A) + Cardinality(h.B)])

Same(act) == /\ Live /\ h' = h /\ HLog(act, <<>>, NoObs)

Multi(act, k) == /\ Live
                 /\ \E G \in Multifurcated(h.A, k) : h' = [h EXCEPT !.A = G]
                 /\ HLog(act, <<>>, NoObs)

Swap(act, x, y) == /\ Live /\ TipRank(x) < TipRank(y)      \* each unordered pair once
                   /\ h' = [h EXCEPT !.A = Swapped(h.A, x, y)]
                   /\ HLog(act, <<x, y>>, NoObs)

HNext == /\ pair' = pair
         /\ \/ \E F \in AllTrees : \E G \in Others : Start(F, G)
            \/ MeasureNow
            \/ Same("Copy") \/ Same("DeepCopy") \/ Same("Prune")
            \/ Multi("Bifurcating", 2) \/ Multi("Multifurcating3", 3)
            \/ \E x, y \in Tips : Swap("CopyRename", x, y) \/ Swap("RenameInPlace", x, y)
HSpec == HInit /\ [][HNext]_hvars

------------------------------------------------------------------------------
(* Design-level checks of the model.                                           *)
(* bifurcating() leaves no node with more than two children and keeps every    *)
(* cluster; the distance to an unchanged B can only stay or change by the new  *)
(* clusters                                                                     *)
ResultsAreTrees == Live => h.A \in AllTrees /\ h.B \in AllTrees
BifurcatingResolves ==
    [][Live /\ h'.A \in Multifurcated(h.A, 2) /\ h'.A # h.A =>
          /\ h.A \subseteq h'.A
          /\ \A n \in NodesOf(h'.A) : Deg(h'.A, n) <= 2]_hvars
(* renaming is a relabelling: distances to an equally relabelled B are unchanged *)
RenamePreservesDistance ==
    [][\A x, y \in Tips :
          (Live /\ x # y /\ h'.A = Swapped(h.A, x, y) /\ IsRooted(h.A) /\ IsRooted(h.B)) =>
              RootedRF(h'.A, Swapped(h.B, x, y)) = RootedRF(h.A, h.B)]_hvars
=============================================================================
