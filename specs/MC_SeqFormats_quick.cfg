SPECIFICATION Spec
CONSTANTS
  Fmts = {"fasta", "phylip", "paml", "gde", "json"}
  MaxN = 2
  Blocks = {3, 4}
  NameAlpha1 = {"a", " ", ">", "|", "#", ";", "'", "%"}
  NameLen1 = 2
  NameAlpha2 = {"a", " ", ">"}
  NameLen2 = 3
  TailAlpha = {"a", " ", ">", "|"}
  LongLens = {9, 10, 11}
  SeqAlphaA = {"A", "-"}
  SeqLensA = {1, 2, 3, 4, 5}
  SeqAlphaB = {"A", "C", "-"}
  SeqLensB = {3}
  HomoLens = {6, 7, 8, 9}
  RunLevel = 1
  QSeqs = 2
  PairAlpha = {}
  PairLen = 0
INVARIANT TypeOK
INVARIANT RoundTripOnClean
INVARIANT LineParsersKeepGt
INVARIANT BytesParserKeepsGt
INVARIANT BytesParserKeepsEmpty
INVARIANT HasGtCovered
INVARIANT BlankEdgesAreLost
INVARIANT HandleAtKIsRemainingLines
INVARIANT SecondParseSame
INVARIANT OrderFamilyUnsorted
INVARIANT LayoutsSound
INVARIANT CanonIsALayout
