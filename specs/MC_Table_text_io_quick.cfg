SPECIFICATION Spec
CONSTANTS
  Profile = "quick"
  Group = "io"
INVARIANT LawWriterPathLossless
