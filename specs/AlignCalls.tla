----------------------------- MODULE AlignCalls -----------------------------
(* Property C18 over HISTORIES: the scoring model handed to the pairwise aligners is an OBJECT (a Python dict   *)
(* of substitution scores, plus gap penalties) that callers keep and edit between calls (parameter sweeps).     *)
(* "Optimal for their own model" means: optimal for the model's content AT THE TIME OF THE CALL.               *)
(*                                                                                                            *)
(*   cur    content of the one score-table object (an id from Contents)                                        *)
(*   gaps   current gap penalties (an id from Gaps)                                                            *)
(*   hist   the calls made so far on that object                                                               *)
(*   res    what the last alignment call was optimal for: <<content, gaps>>                                    *)
(* Actions: Align(mode)  - global / local alignment with the object as it is now                                *)
(*          Edit(c)      - the SAME object is edited in place to content c                                      *)
(*          Regap(g)     - other gap penalties from now on                                                      *)
(* The harness replays every history on one real dict object and demands of every Align: rows are a path,      *)
(* reported score = score of that path under <<cur, gaps>>, no path scores higher under <<cur, gaps>>          *)
(* (path space and sufficient statistics from PairAlign.tla).                                                  *)
EXTENDS Naturals, Sequences, TLC, Emit

CONSTANTS Contents, Gaps, MaxCalls

VARIABLES cur, gaps, hist, res
vars == <<cur, gaps, hist, res>>

Init == cur \in Contents /\ gaps \in Gaps /\ hist = <<>> /\ res = <<>>

AlignT(mode) == /\ Len(hist) < MaxCalls
                /\ hist' = Append(hist, <<"align", mode>>)
                /\ res' = <<cur, gaps>>
                /\ UNCHANGED <<cur, gaps>>
EditT(c) == /\ Len(hist) < MaxCalls /\ c # cur
            /\ cur' = c /\ hist' = Append(hist, <<"edit", c>>)
            /\ UNCHANGED <<gaps, res>>
RegapT(g) == /\ Len(hist) < MaxCalls /\ g # gaps
             /\ gaps' = g /\ hist' = Append(hist, <<"regap", g>>)
             /\ UNCHANGED <<cur, res>>

(* How the model reaches an alignment APP (the apps take it as constructor arguments): the score table handed over *)
(* explicitly, or - when its content is the apps' documented default, id 1 = make_dna_scoring_dict(10, -1, -8) -    *)
(* left out, with the molecular type that selects the default given by name or as a MolType object.  The model    *)
(* the call must be optimal for is <<cur, gaps>> in every case.                                                    *)
(* The reference of align_to_ref may be named or left at its default ("longest"): an option that does not touch    *)
(* the model - the harness alternates between the two.                                                               *)
DefaultContent == 1
Vias == IF cur = DefaultContent THEN {"explicit", "default:name", "default:object"} ELSE {"explicit"}
Align(mode) == AlignT(mode) /\ Emit([act |-> "Align", mode |-> mode, hist |-> hist, model |-> cur, gaps |-> gaps, vias |-> Vias])
Next == \/ \E m \in {"global", "local"} : Align(m)
        \/ \E c \in Contents : EditT(c)
        \/ \E g \in Gaps : RegapT(g)
Spec == Init /\ [][Next]_vars

(* the result of an alignment call is for the model as it is when the call is made *)
ResultIsForCurrentModel == [][\A m \in {"global", "local"} : AlignT(m) => res' = <<cur, gaps>>]_vars
(* editing the model never changes what an earlier call returned, and is not itself an alignment *)
EditsAreSilent == [][(\E c \in Contents : EditT(c)) \/ (\E g \in Gaps : RegapT(g)) => res' = res]_vars
TypeOK == cur \in Contents /\ gaps \in Gaps /\ Len(hist) <= MaxCalls
=============================================================================
