SPECIFICATION SpecS
CONSTANTS
  P = 6
  Offsets = {0, 3}
  MaxSpans = 2
  MinSpans = 1
  MaxCopy = 0
  Filters = {"none"}
  Strides = {1, 2, 3}
  MaxStep = 3
CONSTRAINT StepBound
INVARIANT TypeOK
INVARIANT ProgressionS
INVARIANT RestrictionS
INVARIANT AgreesWithContiguous
PROPERTY StrideOnlyLoses
