SPECIFICATION CSpec
CONSTANTS
  Tips = {"a", "b", "c", "d", "e"}
  SMod = 61
  SRem = 7
  FMod = 4
INVARIANT MajorityIsCompatible
INVARIANT GreedyExtendsStrict
INVARIANT ConsensusIsATree
INVARIANT ConsensusOfCopies
INVARIANT UnrootedIgnoresRoot
