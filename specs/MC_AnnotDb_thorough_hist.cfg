SPECIFICATION Spec
CONSTANTS
  Seqids = {"s1", "s2"}
  Biotypes = {"gene"}
  Names = {"n1", "n2"}
  Strands = {"+", "-"}
  Attrs = {}
  MaxCoord = 4
  NSpans = {1, 2}
  Vias = {"user", "ext"}
  MaxRecs = 2
  MaxLen = 3
  CanonFirst = TRUE
  CanonSeqid = "s1"
  CanonBiotype = "gene"
  CanonName = "n1"
  QCats = {"seqid", "name", "strand"}
  WinKinds = {"none", "both"}
  Windows <- HistWindows
  Points <- HistPoints
  SpanChoice <- HistSpans
  SubsetCats = {0, 1, 3}
  Ops = {"Subset", "Union", "Update", "Copy", "Pickle", "Json", "WriteLoad", "QueryList", "CountDistinct", "Describe"}
  Others <- OthersMore
  UpdateSeqids = {{}, {"s1"}, {"s2"}, {"s1", "s2"}}
INVARIANT TypeOK
INVARIANT StoredNormalised
INVARIANT SqlAgreesOnBag
INVARIANT SubsetIdempotent
INVARIANT QueryDistributesOverUnion
INVARIANT ListIsUnionOfSingles
INVARIANT CountRowsPartition
INVARIANT TalliesSumToLen
PROPERTY OnlyGrowsOrFilters
