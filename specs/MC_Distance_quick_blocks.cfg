SPECIFICATION Spec
CONSTANTS
  NSeq = 2
  NCol = 0
  Syms = {"A", "C", "G", "T", "R", "N", "-"}
  Mode = "blocks"
  DiagSet <- DiagQuick
  OffSize = 2
  OffMults = {3}
  NCBlocks <- NCSome
INVARIANT TypeOK
INVARIANT Symmetric
INVARIANT ZeroDiagonal
INVARIANT ClassesSymmetric
INVARIANT ScaleInvariant
INVARIANT ShortcutSound
INVARIANT ShortcutKeepsComputed
