---------------------------- MODULE Trace_Recalc ----------------------------
(* code -> spec for C07 layer 1: sequences of Calculator.change() calls       *)
(* recorded from REAL likelihood-function calculators while the optimisers    *)
(* (Powell, simulated annealing) drive them are validated against Recalc.tla. *)
(* The DAG (arguments of every cell, recycled cells) is taken from the real    *)
(* calculator; parameter values are tokenised per parameter.  Each event logs *)
(* the change vector and, after the call, _switch, last_values, last_undo and *)
(* whether the call raised; buffer contents, array identities and spare are   *)
(* NOT logged: they are inferred by Recalc!ChangeT.  A step is accepted iff    *)
(* the logged scalars equal the model's, and Fresh / UndoSound are checked in  *)
(* every state of the accepted behaviour.                                      *)
EXTENDS Recalc, Json, IOUtils, TLCExt

RTrace == JsonDeserialize(IOEnv.TRACE_FILE)   \* [init |-> <<tokens>>, events |-> <<...>>]

VARIABLES l, bad
tvars == <<cv, heap, sw, lastv, undo, spare, ret, l, bad>>

BlankT == [r \in Ranks |-> IF r \in Pars THEN RTrace.init[r] ELSE NoArr]
TInit ==
    LET p == Prime(NPar + 1, BlankT, BlankT, <<>>)
    IN  /\ cv = [b \in {0, 1} |-> IF b = 0 THEN p.d0 ELSE p.d1]
        /\ heap = p.heap
        /\ sw = 0
        /\ lastv = [q \in Pars |-> RTrace.init[q]]
        /\ undo = [q \in Pars |-> 0]
        /\ spare = [r \in Ranks |-> NoArr]
        /\ ret = [kind |-> "init", val |-> [q \in Pars |-> 0]]
        /\ l = 1 /\ bad = 0

Ev == RTrace.events[l]
ChOf(e) == [q \in {x \in Pars : e.ch[x] # 0} |-> e.ch[q]]

Accept ==
    /\ bad = 0 /\ l <= Len(RTrace.events)
    /\ ChangeT(ChOf(Ev))
    /\ sw' = Ev.sw
    /\ lastv' = Ev.lastv
    /\ undo' = Ev.undo
    /\ (ret'.kind = "raised") = Ev.raised
    /\ l' = l + 1 /\ UNCHANGED bad
Reject ==
    /\ bad = 0 /\ l <= Len(RTrace.events)
    /\ ~ ENABLED Accept
    /\ bad' = l /\ UNCHANGED <<cv, heap, sw, lastv, undo, spare, ret, l>>
TNext == Accept \/ Reject
TSpec == TInit /\ [][TNext]_tvars

Finished == bad # 0 \/ l = Len(RTrace.events) + 1
Report == Finished => PrintT(<<"TRACE-VERDICT", Len(RTrace.events), bad>>)
=============================================================================
