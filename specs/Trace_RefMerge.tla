---------------------------- MODULE Trace_RefMerge ----------------------------
(* Evaluates RefMerge!Valid on outputs recorded from the real                  *)
(* cogent3.app.align.pairwise_to_multiple / align_to_ref.                      *)
EXTENDS RefMerge, Json, IOUtils

Cases == JsonDeserialize(IOEnv.TRACE_FILE)
Bad == {c \in 1..Len(Cases) : ~Valid(Cases[c])}
Report == PrintT(<<"TRACE-VERDICT", Len(Cases), Bad>>)
=============================================================================
