SPECIFICATION Spec
CONSTANTS
  NRecs = {1, 2}
  GbLens = {1, 10, 11, 60, 61}
  Shifts = {0}
INVARIANT TypeOK
INVARIANT LayoutSound
INVARIANT GbBytesParserOk
