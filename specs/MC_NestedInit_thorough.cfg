SPECIFICATION NSpec
CONSTANT Pairs <- AllPairs
CONSTANT Instances <- NucInstances
CONSTANT Refused <- NoRefused
INVARIANT MappingUnambiguous
INVARIANT SameProcess
