SPECIFICATION NSpec
CONSTANT Pairs <- AllPairs
CONSTANT Instances <- NucInstances
INVARIANT MappingUnambiguous
INVARIANT SameProcess
