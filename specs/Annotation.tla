------------------------------ MODULE Annotation ------------------------------
(* Property C04 (sequence level): annotations keep denoting the same residues  *)
(* through every view.                                                         *)
(*                                                                            *)
(* The model is index-symbolic, like SeqView.tla.  A *universe* is a root      *)
(* sequence of length P that sits at annotation offset `off` and carries two   *)
(* features whose meaning is fixed when they are created:                      *)
(*     Denotes(f) = the ordered list of root (plus strand) positions covered   *)
(*                  by f's spans,   Strand(f) in {"+", "-"}.                    *)
(* Feature a (biotype gene, name a, "+" strand) has the spans chosen in Init;  *)
(* feature b (biotype cds, name b, "-" strand) is its mirror image, so both    *)
(* range over every 1- and 2-span placement on 0..P.                           *)
(* A *view* is idx, the sequence of root positions it displays, and comp (it   *)
(* is displayed complemented).  Views are made by seq[a:b], seq.rc(),          *)
(* seq.copy(), seq[feature], seq.degap(), seq[::-1]; the reachable set is      *)
(* closed (no depth bound) apart from the number of derived objects (copies,   *)
(* feature slices, degapped sequences) in a history.                            *)
(*                                                                            *)
(* Oracle.  On a view v:                                                        *)
(*   * f is shown at the view positions k with idx[k] in Denotes(f)  (Pos);     *)
(*   * its slice reads the retained part of Denotes(f) on the feature's own    *)
(*     strand: ascending root order for "+", descending and complemented for   *)
(*     "-" - whatever the orientation of the view                     (Read);  *)
(*   * relative to the view it is reversed iff (Strand(f) = "-") # comp;        *)
(*   * get_features(start, stop, allow_partial) returns f iff it passes the     *)
(*     biotype/name filter and its extent lies inside the window (no partial   *)
(*     matches) / one of its residues is in the window (partial matches).  A   *)
(*     feature whose extent overlaps the window only with the gap between its  *)
(*     spans may or may not be returned ("opt": the statement says "overlap"   *)
(*     and leaves extent vs. residues open).  Partial overlap never raises.     *)
(*   * seq[::-1] is not a view cogent3 keeps annotations for: the result must   *)
(*     report no features (rather than wrong ones).                             *)
(*   * seq[feature] and seq.degap() (of a gap-free sequence) are again views:   *)
(*     nested queries keep denoting the same residues, or the db is dropped.    *)
(* harness/check_C04.py replays every emitted record on old- and new-style     *)
(* sequences (features added with add_feature, or loaded as absolute           *)
(* coordinates into a BasicAnnotationDb).                                      *)
EXTENDS Integers, Sequences, FiniteSets, TLC, Emit

CONSTANTS P,         \* root length
          Offsets,   \* annotation offsets of the root
          MaxSpans,  \* 1 or 2 spans per feature
          MaxCopy,   \* views behind more than MaxCopy derived objects (copy, feature slice, degap) are produced (and judged) but not explored further
          Filters,   \* subset of {"none", "bio", "name"}: biotype / name restriction of the queries
          MinSpans   \* features of at least so many spans (1 everywhere but in the span-order configuration)

VARIABLES off,       \* annotation offset of the root
          fa,        \* spans of feature a: <<<<s, e>>, ...>> in root coordinates, ordered, disjoint
          idx, comp, \* the view
          blo, bhi,  \* root segment the current object physically holds (changed by copy / seq[feature] / degap)
          hasdb,     \* FALSE behind seq[::-1] and behind feature slices that answer no queries
          ncopy      \* number of derived objects (copy(sliced=True), seq[feature], degap()) behind the view
vars == <<off, fa, idx, comp, blo, bhi, hasdb, ncopy>>

(* ---------------------------------------------------------------- helpers *)
Ident(n) == [i \in 1..n |-> i - 1]
Reverse(s) == [i \in 1..Len(s) |-> s[Len(s) + 1 - i]]
RangeOf(s) == {s[i] : i \in DOMAIN s}
SetMin(S) == CHOOSE x \in S : \A y \in S : x <= y
SetMax(S) == CHOOSE x \in S : \A y \in S : x >= y

(* complement table the harness renders expected strings with (roots are drawn *)
(* from symbols that differ from their complement, each used once)             *)
Compl == [A |-> "T", C |-> "G", G |-> "C", T |-> "A", R |-> "Y", Y |-> "R",
          M |-> "K", K |-> "M", H |-> "D", D |-> "H", B |-> "V", V |-> "B"]

Pairs == {p \in (0..P) \X (0..P) : p[1] < p[2]}
Quads == {q \in (0..P) \X (0..P) \X (0..P) \X (0..P) : q[1] < q[2] /\ q[2] <= q[3] /\ q[3] < q[4]}
Sixes == {q \in (0..P) \X (0..P) \X (0..P) \X (0..P) \X (0..P) \X (0..P) :
             q[1] < q[2] /\ q[2] <= q[3] /\ q[3] < q[4] /\ q[4] <= q[5] /\ q[5] < q[6]}
SpanLists == {<<p>> : p \in Pairs}
             \cup (IF MaxSpans >= 2 THEN {<< <<q[1], q[2]>>, <<q[3], q[4]>> >> : q \in Quads} ELSE {})
             \cup (IF MaxSpans >= 3 THEN {<< <<q[1], q[2]>>, <<q[3], q[4]>>, <<q[5], q[6]>> >> : q \in Sixes} ELSE {})

(* add_feature(spans=...) takes the spans as a SEQUENCE in any order (e.g. the   *)
(* exons of a minus-strand gene in transcription order) and each span with its   *)
(* two ends in either order; "this will be sorted": the record is the ascending  *)
(* list, so what a feature denotes does not depend on the order supplied.        *)
(* Orders(sp) lists every way of supplying sp; Normalise is what is recorded.     *)
(* seq.add_feature may refuse an order (it raises); a refused call is a           *)
(* stuttering step: no later query may show the record.                           *)
Perms(n) == {f \in [1..n -> 1..n] : \A i \in 1..n, j \in 1..n : i # j => f[i] # f[j]}
Orders(sp) == {[i \in 1..Len(sp) |-> sp[f[i]]] : f \in Perms(Len(sp))}
                \cup {[i \in 1..Len(sp) |-> <<sp[f[i]][2], sp[f[i]][1]>>] : f \in Perms(Len(sp))}
Lo(pr) == IF pr[1] < pr[2] THEN pr[1] ELSE pr[2]
Hi(pr) == IF pr[1] < pr[2] THEN pr[2] ELSE pr[1]
Normalise(q) ==
    LET rank(i) == Cardinality({j \in 1..Len(q) : Lo(q[j]) < Lo(q[i])}) + 1
    IN [r \in 1..Len(q) |-> LET i == CHOOSE i \in 1..Len(q) : rank(i) = r IN <<Lo(q[i]), Hi(q[i])>>]

Mirror(sp) == [k \in 1..Len(sp) |-> <<P - sp[Len(sp) + 1 - k][2], P - sp[Len(sp) + 1 - k][1]>>]

(* the two features of the universe *)
Feats == <<[name |-> "a", bio |-> "gene", strand |-> "+", spans |-> fa],
           [name |-> "b", bio |-> "cds",  strand |-> "-", spans |-> Mirror(fa)]>>

(* ----------------------------------------------------------------- meaning *)
InSpans(sp, r) == \E k \in 1..Len(sp) : sp[k][1] <= r /\ r < sp[k][2]
Denotes(sp) == SelectSeq(Ident(P), LAMBDA r : InSpans(sp, r))       \* ascending root positions
DenSet(sp) == {r \in 0..(P - 1) : InSpans(sp, r)}
ExtSet(sp) == sp[1][1]..(sp[Len(sp)][2] - 1)                          \* covering span, gaps between spans included

(* view positions (0-based) showing a residue of the feature *)
PosOn(ix, sp) == SelectSeq(Ident(Len(ix)), LAMBDA k : InSpans(sp, ix[k + 1]))
(* retained residues in the feature's reading order *)
Retained(ix, sp) == SelectSeq(Denotes(sp), LAMBDA r : r \in RangeOf(ix))
ReadOn(ix, f) == IF f.strand = "+" THEN Retained(ix, f.spans) ELSE Reverse(Retained(ix, f.spans))

(* where a span lies relative to the view's extent [lo, hi) on the plus strand *)
(* (only a label for structural finding keys; the view is contiguous):         *)
(* B before, b abuts the start, L straddles the start, I inside, C covers,     *)
(* R straddles the end, a abuts the end, A after                               *)
SpanClass(ix, s, e) ==
    LET lo == SetMin(RangeOf(ix))
        hi == SetMax(RangeOf(ix)) + 1
    IN IF e < lo THEN "B" ELSE IF e = lo THEN "b"
       ELSE IF s > hi THEN "A" ELSE IF s = hi THEN "a"
       ELSE IF s < lo /\ e > hi THEN "C"
       ELSE IF s < lo THEN "L" ELSE IF e > hi THEN "R" ELSE "I"
FeatClass(ix, sp) == [k \in 1..Len(sp) |-> SpanClass(ix, sp[k][1], sp[k][2])]

(* ------------------------------------------------------------------ queries *)
WinSet(ix, ws, we) == {ix[k + 1] : k \in ws..(we - 1)}
Passes(f, filt) == CASE filt = "none" -> TRUE
                     [] filt = "bio"  -> f.bio = "gene"      \* get_features(biotype="gene")
                     [] filt = "name" -> f.name = "b"        \* get_features(name="b")
Status(ix, db, f, ws, we, partial, filt) ==
    IF ~db \/ ~Passes(f, filt) THEN "out"
    ELSE IF ~partial
         THEN (IF ExtSet(f.spans) \subseteq WinSet(ix, ws, we) THEN "in" ELSE "out")
         ELSE IF DenSet(f.spans) \cap WinSet(ix, ws, we) # {} THEN "in"
         ELSE IF ExtSet(f.spans) \cap WinSet(ix, ws, we) # {} THEN "opt"
         ELSE "out"

(* what a view shows of the two features *)
ObsOf(ix, c, db) ==
    [k \in 1..2 |->
        LET f == Feats[k] IN
        [name |-> f.name, bio |-> f.bio,
         pos  |-> IF db THEN PosOn(ix, f.spans) ELSE <<>>,
         read |-> IF db THEN ReadOn(ix, f) ELSE <<>>,
         fcomp |-> f.strand = "-",
         rev  |-> (f.strand = "-") # c,
         vis  |-> Status(ix, db, f, 0, Len(ix), TRUE, "none"),      \* get_features(allow_partial=True) on the whole view
         inside |-> Status(ix, db, f, 0, Len(ix), FALSE, "none"),  \* get_features() on the whole view
         cls  |-> FeatClass(ix, f.spans)]]

(* --------------------------------------------------------- feature algebra *)
(* Derived features and derived sequences, all on the same position sets.       *)
(* For a feature f shown by the view at positions Pos (non-empty):               *)
(*   f.as_one_span()          covers min(Pos)..max(Pos), gaps between the spans  *)
(*                            included ("preserves any gaps");                   *)
(*   f.shadow()               covers the view positions NOT in Pos ("disjoint    *)
(*                            of self coordinates");                             *)
(*   f.without_lost_spans()   covers Pos again and is complete;                  *)
(*   f.get_slice(complete=True) is the slice when the whole of Denotes(f) is     *)
(*                            retained and must fail otherwise ("if feature not  *)
(*                            complete on parent, causes an exception");         *)
(*   a.union([b])             covers Pos(a) \cup Pos(b) ("overlapping spans are *)
(*                            merged"), whichever of the two it is called on;    *)
(* each derived feature keeps the strand of f, so its slice reads the covered    *)
(* residues on f's strand (for the union of a plus- and a minus-strand feature   *)
(* the docstrings leave the strand open: only its positions are stated).        *)
(*   seq.with_masked_annotations(biotypes, shadow) shows the mask character at   *)
(*   the positions of the retained features of those biotypes (shadow=False) or  *)
(*   at all other positions (shadow=True), the view's own residues elsewhere.    *)
PosSet(ix, sp) == RangeOf(PosOn(ix, sp))
AscSeq(S, n) == SelectSeq(Ident(n), LAMBDA k : k \in S)
(* root positions shown at view positions S, in the reading order of feature f *)
ReadAt(ix, f, S) ==
    LET asc == SelectSeq(Ident(P), LAMBDA r : \E k \in S : ix[k + 1] = r)
    IN IF f.strand = "+" THEN asc ELSE Reverse(asc)
OneSpan(ix, sp) == IF PosSet(ix, sp) = {} THEN {} ELSE SetMin(PosSet(ix, sp))..SetMax(PosSet(ix, sp))
ShadowSet(ix, sp) == (0..(Len(ix) - 1)) \ PosSet(ix, sp)
UnionSet(ix) == PosSet(ix, Feats[1].spans) \cup PosSet(ix, Feats[2].spans)
MaskSet(ix, bios, shadow) ==
    LET hit == UNION {PosSet(ix, Feats[k].spans) : k \in {j \in 1..2 : Feats[j].bio \in bios}}
    IN IF shadow THEN (0..(Len(ix) - 1)) \ hit ELSE hit
Algebra(ix, db) ==
    IF ~db THEN <<>>
    ELSE <<[feat |-> [k \in 1..2 |->
                LET f == Feats[k] IN
                [name |-> f.name,
                 one |-> AscSeq(OneSpan(ix, f.spans), Len(ix)), oneread |-> ReadAt(ix, f, OneSpan(ix, f.spans)),
                 shadow |-> AscSeq(ShadowSet(ix, f.spans), Len(ix)), shadowread |-> ReadAt(ix, f, ShadowSet(ix, f.spans)),
                 complete |-> Len(PosOn(ix, f.spans)) = Len(Denotes(f.spans))]],
             union |-> AscSeq(UnionSet(ix), Len(ix)),
             masks |-> {<<bios, sh, AscSeq(MaskSet(ix, bios, sh), Len(ix))>> :
                            bios \in {{"gene"}, {"cds"}, {"gene", "cds"}}, sh \in BOOLEAN}]>>

Windows(n) == {w \in (0..n) \X (0..n) : w[1] < w[2]}
QueryTable ==       \* <<ws, we, partial, filter, status of a, status of b>>
    {<<w[1], w[2], pt, fl, Status(idx, hasdb, Feats[1], w[1], w[2], pt, fl),
                          Status(idx, hasdb, Feats[2], w[1], w[2], pt, fl)>> :
        w \in (IF hasdb THEN Windows(Len(idx)) ELSE {<<0, Len(idx)>>}), pt \in BOOLEAN, fl \in Filters}

(* ----------------------------------------------------------------- emission *)
Enc(o, f, ix, c, l, h, d, n) == <<o, f, ix, c, l, h, d, n>>
St == Enc(off, fa, idx, comp, blo, bhi, hasdb, ncopy)
StP == Enc(off', fa', idx', comp', blo', bhi', hasdb', ncopy')
Log(act, args) ==
    Emit([from |-> St, act |-> act, args |-> args, to |-> StP, obs |-> ObsOf(idx', comp', hasdb')])

Universe == UNCHANGED <<off, fa>>

IsRoot == idx = Ident(P) /\ ~comp /\ blo = 0 /\ bhi = P /\ hasdb /\ ncopy = 0

Init == /\ off \in Offsets
        /\ fa \in {sp \in SpanLists : Len(sp) >= MinSpans}
        /\ idx = Ident(P) /\ comp = FALSE
        /\ blo = 0 /\ bhi = P
        /\ hasdb = TRUE
        /\ ncopy = 0

(* seq[a:b], 0 <= a < b <= len(seq) *)
SliceT(a, b) ==
    /\ hasdb
    /\ 0 <= a /\ a < b /\ b <= Len(idx)
    /\ idx' = SubSeq(idx, a + 1, b)
    /\ UNCHANGED <<comp, blo, bhi, hasdb, ncopy>>
    /\ Universe
Slice(a, b) == SliceT(a, b) /\ Log("Slice", <<a, b>>)

(* seq.rc() *)
RcT == /\ hasdb
       /\ idx' = Reverse(idx) /\ comp' = ~comp
       /\ UNCHANGED <<blo, bhi, hasdb, ncopy>>
       /\ Universe
Rc == RcT /\ Log("Rc", <<>>)

(* seq[::-1]: reads like rc() but is a view cogent3 does not keep the annotations for *)
RevSliceT == /\ hasdb
             /\ idx' = Reverse(idx) /\ comp' = ~comp
             /\ hasdb' = FALSE
             /\ UNCHANGED <<blo, bhi, ncopy>>
             /\ Universe
RevSlice == RevSliceT /\ Log("RevSlice", <<>>)

(* seq.copy(sliced): same view; sliced=True cuts the underlying string to the view's extent *)
CopyT(sliced) ==
    /\ hasdb
    /\ UNCHANGED <<idx, comp, hasdb>>
    /\ IF sliced
       THEN /\ blo' = SetMin(RangeOf(idx)) /\ bhi' = SetMax(RangeOf(idx)) + 1
            /\ ncopy' = ncopy + 1
       ELSE UNCHANGED <<blo, bhi, ncopy>>
    /\ Universe
Copy(sliced) == CopyT(sliced) /\ Log("Copy", <<sliced>>)

(* seq[feature] / feature.get_slice() for feature k as the view returns it: a    *)
(* new sequence reading the retained residues on the feature's strand.  When    *)
(* they are one contiguous run this is again a view that may keep the           *)
(* annotations (nested queries must then go on denoting the same residues) or   *)
(* drop them (cogent3 drops them whenever the feature's map has more than one   *)
(* span, lost spans included); a slice made of several runs must not answer     *)
(* queries at all ("db querying will be incorrect so make sure it can't be      *)
(* done").                                                                      *)
Runs(ps) == Cardinality({k \in 1..Len(ps) : k = 1 \/ ps[k] # ps[k - 1] + 1})
FeatSliceT(k) ==
    LET f == Feats[k] IN
    /\ hasdb
    /\ PosOn(idx, f.spans) # <<>>
    /\ idx' = ReadOn(idx, f)
    /\ comp' = (f.strand = "-")
    /\ IF Runs(PosOn(idx, f.spans)) > 1 THEN hasdb' = FALSE ELSE hasdb' \in BOOLEAN
    /\ blo' = SetMin(RangeOf(idx')) /\ bhi' = SetMax(RangeOf(idx')) + 1
    /\ ncopy' = ncopy + 1
    /\ Universe
FeatSlice(k) == FeatSliceT(k) /\ Log("FeatSlice", <<Feats[k].name>>)

(* seq.degap(): the model's sequences have no gaps, so it reads the same and     *)
(* must keep denoting the same residues                                          *)
DegapT ==
    /\ hasdb
    /\ UNCHANGED <<idx, comp, hasdb>>
    /\ blo' = SetMin(RangeOf(idx)) /\ bhi' = SetMax(RangeOf(idx)) + 1
    /\ ncopy' = ncopy + 1
    /\ Universe
Degap == DegapT /\ Log("Degap", <<>>)

(* once per explored state: what the view shows and what every query returns *)
Look == /\ UNCHANGED vars
        /\ Emit([act |-> "Look", from |-> St, obs |-> ObsOf(idx, comp, hasdb), queries |-> QueryTable,
                 algebra |-> Algebra(idx, hasdb)])

(* A feature added to a *view* with view-relative spans r denotes the root      *)
(* positions the view shows there (for a forward slice root[lo:hi]: lo + r).    *)
(* OnSlice gives the tightest slice containing both features and the           *)
(* view-relative spans that denote exactly the universe's features - a second   *)
(* way of creating the same universe.                                           *)
OnSlice ==
    LET n == Len(fa)
        lo == IF fa[1][1] < P - fa[n][2] THEN fa[1][1] ELSE P - fa[n][2]
        hi == IF fa[n][2] > P - fa[1][1] THEN fa[n][2] ELSE P - fa[1][1]
        rel(sp) == [k \in 1..Len(sp) |-> <<sp[k][1] - lo, sp[k][2] - lo>>]
    IN [lo |-> lo, hi |-> hi, spans |-> <<rel(Feats[1].spans), rel(Feats[2].spans)>>]

(* once per universe: what the harness has to instantiate *)
Meta == /\ IsRoot
        /\ UNCHANGED vars
        /\ Emit([act |-> "Universe", from |-> St, P |-> P, off |-> off, feats |-> Feats, compl |-> Compl,
                 onslice |-> OnSlice,
                 orders |-> <<Orders(Feats[1].spans) \ {Feats[1].spans}, Orders(Feats[2].spans) \ {Feats[2].spans}>>])

Next == \/ \E a \in 0..P, b \in 0..P : Slice(a, b)
        \/ Rc
        \/ RevSlice
        \/ \E sl \in BOOLEAN : Copy(sl)
        \/ \E k \in 1..2 : FeatSlice(k)
        \/ Degap
        \/ Look
        \/ Meta

Spec == Init /\ [][Next]_vars

CopyBound == ncopy <= MaxCopy
(* the span-order configuration only needs the root and the views one slice / rc away *)
OrderStage == ncopy = 0 /\ hasdb /\ (Len(idx) = P \/ (comp = FALSE /\ Len(idx) >= P - 3))

------------------------------------------------------------------------------
(* Design-level properties checked on the model itself.                        *)

TypeOK == /\ off \in Nat /\ fa \in SpanLists
          /\ idx \in Seq(0..(P - 1)) /\ Len(idx) >= 1
          /\ comp \in BOOLEAN /\ hasdb \in BOOLEAN /\ ncopy \in Nat
          /\ 0 <= blo /\ blo < bhi /\ bhi <= P

(* views are contiguous, read right-to-left exactly when complemented, and lie in the held segment *)
ViewShape ==
    /\ hasdb => \A k \in 1..(Len(idx) - 1) : idx[k + 1] = idx[k] + (IF comp THEN -1 ELSE 1)
    /\ RangeOf(idx) \subseteq blo..(bhi - 1)

(* Implementation-shaped arithmetic (what make_feature must come to): clip   *)
(* every span to the view's extent and translate; it must denote exactly the  *)
(* residues the abstract meaning retains.                                     *)
ClipPos(sp) ==
    LET lo == SetMin(RangeOf(idx))
        hi == SetMax(RangeOf(idx)) + 1
        cl(k) == <<IF sp[k][1] > lo THEN sp[k][1] ELSE lo, IF sp[k][2] < hi THEN sp[k][2] ELSE hi>>
    IN UNION {{IF comp THEN hi - 1 - r ELSE r - lo : r \in cl(k)[1]..(cl(k)[2] - 1)} : k \in 1..Len(sp)}
ClipRefines == hasdb => \A k \in 1..2 : RangeOf(PosOn(idx, Feats[k].spans)) = ClipPos(Feats[k].spans)

(* the slice shows as many residues as the view has positions of the feature,  *)
(* they are exactly Denotes restricted to the view, and never more than Denotes *)
Restriction ==
    \A k \in 1..2 :
        LET f == Feats[k] IN
        /\ Len(ReadOn(idx, f)) = Len(PosOn(idx, f.spans))
        /\ RangeOf(ReadOn(idx, f)) = DenSet(f.spans) \cap RangeOf(idx)
        /\ RangeOf(ReadOn(Ident(P), f)) = DenSet(f.spans)

(* a query without partial matches returns a subset of the one with; "in" without partial => fully shown *)
QueryMonotone ==
    \A w \in Windows(Len(idx)), fl \in Filters, k \in 1..2 :
        Status(idx, hasdb, Feats[k], w[1], w[2], FALSE, fl) = "in"
            => Status(idx, hasdb, Feats[k], w[1], w[2], TRUE, fl) = "in"
InsideIsComplete ==
    \A k \in 1..2 :
        Status(idx, hasdb, Feats[k], 0, Len(idx), FALSE, "none") = "in"
            => Len(PosOn(idx, Feats[k].spans)) = Len(Denotes(Feats[k].spans))

(* whatever order the spans are supplied in, the same record is made *)
OrderIrrelevant == \A k \in 1..2 : \A q \in Orders(Feats[k].spans) : Normalise(q) = Feats[k].spans

(* laws of the feature algebra on any view *)
AlgebraLaws ==
    hasdb =>
        LET all == 0..(Len(idx) - 1) IN
        /\ \A k \in 1..2 :
              LET sp == Feats[k].spans IN
              /\ PosSet(idx, sp) \cup ShadowSet(idx, sp) = all                 \* a feature and its shadow partition the view
              /\ PosSet(idx, sp) \cap ShadowSet(idx, sp) = {}
              /\ PosSet(idx, sp) \subseteq OneSpan(idx, sp)                    \* the one-span version covers it, tightly
              /\ (PosSet(idx, sp) # {} => /\ SetMin(OneSpan(idx, sp)) = SetMin(PosSet(idx, sp))
                                          /\ SetMax(OneSpan(idx, sp)) = SetMax(PosSet(idx, sp)))
              /\ Len(ReadAt(idx, Feats[k], PosSet(idx, sp))) = Len(ReadOn(idx, Feats[k]))
              /\ ReadAt(idx, Feats[k], PosSet(idx, sp)) = ReadOn(idx, Feats[k])  \* reading "at the positions" is reading the retained residues
        /\ all \ UnionSet(idx) = ShadowSet(idx, Feats[1].spans) \cap ShadowSet(idx, Feats[2].spans)   \* De Morgan
        /\ MaskSet(idx, {"gene", "cds"}, FALSE) = UnionSet(idx)
        /\ \A bios \in {{"gene"}, {"cds"}, {"gene", "cds"}} :
              /\ MaskSet(idx, bios, TRUE) \cup MaskSet(idx, bios, FALSE) = all
              /\ MaskSet(idx, bios, TRUE) \cap MaskSet(idx, bios, FALSE) = {}

(* the slice of a feature does not depend on the orientation of the view;      *)
(* slicing only ever loses residues; copying changes nothing                   *)
RcKeepsReading ==
    [][RcT => \A k \in 1..2 : ReadOn(idx', Feats[k]) = ReadOn(idx, Feats[k])]_vars
SliceOnlyLoses ==
    [][(\E a \in 0..P, b \in 0..P : SliceT(a, b)) =>
          \A k \in 1..2 : RangeOf(ReadOn(idx', Feats[k])) \subseteq RangeOf(ReadOn(idx, Feats[k]))]_vars
CopyKeepsMeaning ==
    [][((\E sl \in BOOLEAN : CopyT(sl)) \/ DegapT) => ObsOf(idx', comp', hasdb') = ObsOf(idx, comp, hasdb)]_vars
(* a feature slice shows the feature itself completely retained, in reading order, never reversed *)
FeatSliceShowsItself ==
    [][\A k \in 1..2 : FeatSliceT(k) =>
          /\ ReadOn(idx', Feats[k]) = idx'
          /\ PosOn(idx', Feats[k].spans) = Ident(Len(idx'))
          /\ comp' = (Feats[k].strand = "-")]_vars
=============================================================================
