SPECIFICATION PSpec
CONSTANTS
  Seqids = {"s1", "s2"}
  Biotypes = {"gene"}
  Names = {"n1"}
  Strands = {"-"}
  Attrs = {}
  MaxCoord = 4
  NSpans = {1, 2}
  Vias = {"user", "ext"}
  MaxRecs = 1
  MaxLen = 3
  KinMax = 3
  CanonFirst = TRUE
  CanonSeqid = "s1"
  CanonBiotype = "gene"
  CanonName = "n1"
  QCats = {}
  WinKinds = {"none"}
  Windows <- HistWindows
  Points <- HistPoints
  SpanChoice <- AttrSpans
  SubsetCats = {}
  Ops = {}
  Others <- OthersNone
  UpdateSeqids = {}
INVARIANT PTypeOK
PROPERTY Independent
PROPERTY OnlyGrows
