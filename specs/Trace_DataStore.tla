--------------------------- MODULE Trace_DataStore ---------------------------
(* code -> spec: validates executions recorded from real DataStoreDirectory / *)
(* DataStoreSqlite objects (random drivers and the repository's own tests run *)
(* under a tracer) against DataStore.tla.  TRACE_FILE holds a JSON array of    *)
(* traces; each trace is an array of events                                    *)
(*    [op |-> "Init"|"Write"|..., args |-> <<...>>, ret |-> "ok"|"raised",     *)
(*     post |-> [comp |-> .., nc |-> .., logs |-> .., mode |-> ..]]            *)
(* An event is accepted iff the named DataStore action, with the logged        *)
(* arguments, can produce exactly the logged post-state and outcome.           *)
(* Rejected events are collected (the rest of that trace is skipped, the next  *)
(* trace is still checked) and reported by the POSTCONDITION.                  *)
EXTENDS DataStore, TLCExt

Traces == JsonDeserialize(IOEnv.TRACE_FILE)

VARIABLES tid, l, bad
tvars == <<comp, nc, logs, mode, ret, fresh, tid, l, bad>>

Ev == Traces[tid][l]

TraceInit ==
    /\ tid = 1 /\ l = 1 /\ bad = {}
    /\ comp = [i \in Ids |-> None] /\ nc = [i \in Ids |-> None]
    /\ logs = [i \in LogIds |-> FALSE] /\ mode = "w" /\ ret = "init" /\ fresh = TRUE

Matches(e) ==
    /\ comp' = e.post.comp /\ nc' = e.post.nc /\ logs' = e.post.logs
    /\ mode' = e.post.mode /\ ret' = e.ret

Step(e) ==
    CASE e.op = "Init"      -> ret' = "ok" /\ fresh' = TRUE      \* a store opened on whatever the path already held
      [] e.op = "Write"     -> WriteT(e.args[1], e.args[2], e.args[3])
      [] e.op = "WriteNC"   -> WriteNCT(e.args[1], e.args[2], e.args[3])
      [] e.op = "WriteLog"  -> WriteLogT(e.args[1], e.args[2])
      [] e.op = "DropNC"    -> DropNCT(e.args[1], e.args[2])
      [] e.op = "DropAllNC" -> DropAllNCT
      [] e.op = "Reopen"    -> ReopenT(e.args[1])
      [] OTHER              -> FALSE

Accept ==
    /\ tid <= Len(Traces) /\ l <= Len(Traces[tid])
    /\ Step(Ev) /\ Matches(Ev)
    /\ l' = l + 1 /\ UNCHANGED <<tid, bad>>

(* the logged event is not a behaviour of the spec: record it, abandon this trace *)
Reject ==
    /\ tid <= Len(Traces) /\ l <= Len(Traces[tid])
    /\ ~ ENABLED Accept
    /\ bad' = bad \cup {<<tid, l>>}
    /\ tid' = tid + 1 /\ l' = 1
    /\ UNCHANGED <<comp, nc, logs, mode, ret, fresh>>

NextTrace ==
    /\ tid <= Len(Traces) /\ l > Len(Traces[tid])
    /\ tid' = tid + 1 /\ l' = 1
    /\ UNCHANGED <<comp, nc, logs, mode, ret, fresh, bad>>

TraceNext == Accept \/ Reject \/ NextTrace
TraceSpec == TraceInit /\ [][TraceNext]_tvars

Finished == tid = Len(Traces) + 1
(* evaluated in every state; prints the verdict once, in the final state *)
Report == Finished => PrintT(<<"TRACE-VERDICT", Len(Traces), bad>>)
=============================================================================
