SPECIFICATION Spec
CONSTANTS
  Profile = "quick"
  Group = "design"
INVARIANT LawSepFormatLossless
