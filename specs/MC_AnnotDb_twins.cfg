SPECIFICATION Spec
CONSTANTS
  Seqids = {"chr_1", "chrA1", "Chr_1"}
  Biotypes = {"CDS", "cds"}
  Names = {"NP_001", "NPx001"}
  Strands = {"+"}
  Attrs = {}
  MaxCoord = 4
  NSpans = {1, 2}
  Vias = {"user", "ext"}
  MaxRecs = 2
  MaxLen = 3
  CanonFirst = TRUE
  CanonSeqid = "chr_1"
  CanonBiotype = "CDS"
  CanonName = "NP_001"
  QCats = {"seqid", "biotype", "name"}
  WinKinds = {"none"}
  Windows <- HistWindows
  Points <- HistPoints
  SpanChoice <- AttrSpans
  SubsetCats = {}
  Ops = {"Update", "QueryList", "CountDistinct"}
  Others <- OthersUser
  UpdateSeqids = {{"chr_1"}, {"chr_1", "chrA1"}}
INVARIANT TypeOK
INVARIANT SqlAgreesOnBag
PROPERTY OnlyGrowsOrFilters
