SPECIFICATION HSpec
CONSTANTS
  Tips = {"a", "b", "c", "d", "e"}
  BMod = 7
  BRem = 2
INVARIANT ResultsAreTrees
PROPERTY BifurcatingResolves
PROPERTY RenamePreservesDistance
