------------------------------- MODULE Table -------------------------------
(* Property C20, first half: cogent3.util.table.Table follows the            *)
(* list-of-rows model.                                                        *)
(*                                                                            *)
(* A table is  [header : Seq(name), rows : Seq(row), title : chars]  where a  *)
(* row is a tuple of cells and a cell is  <<tag, chars>> :                    *)
(*     tag "i" int, "f" float, "b" bool, "s" str, "n" missing (None)          *)
(*     chars = the cell text as a sequence of one-character strings           *)
(* so that every value TLC compares has the same shape, string order can be   *)
(* defined from code points, and the harness maps cells to Python values      *)
(* (int("10"), float("0.5"), "a,b", None) without knowing any expected result.*)
(*                                                                            *)
(* Every public operation of the property is a pure operator written as the   *)
(* list comprehension it denotes (stable sort = order by (key, position);     *)
(* join = nested loop; ...).  One action per operation computes the spec's    *)
(* answer for the table(s) in the state and emits {from, act, args, to, cls}; *)
(* the harness builds the real Table(s) with make_table, performs the call and*)
(* compares header and to_list().                                             *)
EXTENDS Naturals, FiniteSets, Sequences, SequencesExt, TLC, Emit

CONSTANTS Profile,   \* "quick" | "thorough" : size of the table universe
          Group      \* "unary" | "binary" | "big" : which operations / universe

VARIABLES tab,       \* the receiver table
          oth,       \* the second table of binary operations ("-" for unary)
          res,       \* the result of the one operation applied
          done       \* FALSE until the operation has been applied

vars == <<tab, oth, res, done>>

-----------------------------------------------------------------------------
(* Cells                                                                      *)

None == <<"n", <<>>>>
Tag(c) == c[1]
Txt(c) == c[2]

cTrue  == <<"b", <<"T","r","u","e">>>>
cFalse == <<"b", <<"F","a","l","s","e">>>>
Bool(p) == IF p THEN cTrue ELSE cFalse

I(s) == <<"i", s>>
F(s) == <<"f", s>>
S(s) == <<"s", s>>

DigitVal == ("0" :> 0) @@ ("1" :> 1) @@ ("2" :> 2) @@ ("3" :> 3) @@ ("4" :> 4) @@
            ("5" :> 5) @@ ("6" :> 6) @@ ("7" :> 7) @@ ("8" :> 8) @@ ("9" :> 9)
Digits == <<"0","1","2","3","4","5","6","7","8","9">>

(* Unicode code points of the characters used in cell text *)
Code == ("\t" :> 9) @@ ("\n" :> 10) @@ (" " :> 32) @@ ("\"" :> 34) @@ ("," :> 44) @@
        ("." :> 46) @@ ("0" :> 48) @@ ("1" :> 49) @@ ("2" :> 50) @@ ("5" :> 53) @@
        ("T" :> 84) @@ ("a" :> 97) @@ ("b" :> 98) @@ ("c" :> 99) @@ ("q" :> 113)

RECURSIVE DecVal(_)
DecVal(s) == IF s = <<>> THEN 0
             ELSE 10 * DecVal(SubSeq(s, 1, Len(s) - 1)) + DigitVal[s[Len(s)]]

RECURSIVE DecText(_)
DecText(n) == IF n < 10 THEN <<Digits[n + 1]>>
              ELSE DecText(n \div 10) \o <<Digits[(n % 10) + 1]>>

(* numeric value of a numeric cell; every model float has exactly one decimal, *)
(* so its value times ten is the digits without the point                      *)
NumVal(c) == CASE Tag(c) = "i" -> 10 * DecVal(Txt(c))
               [] Tag(c) = "f" -> DecVal(SelectSeq(Txt(c), LAMBDA ch : ch # "."))
               [] Tag(c) = "b" -> IF c = cTrue THEN 1 ELSE 0

RECURSIVE LexLess(_, _)
LexLess(a, b) == IF a = <<>> THEN b # <<>>
                 ELSE IF b = <<>> THEN FALSE
                 ELSE IF Code[a[1]] # Code[b[1]] THEN Code[a[1]] < Code[b[1]]
                 ELSE LexLess(Tail(a), Tail(b))

(* Python's < on two cells of the same type *)
CellLess(a, b) == IF Tag(a) = "s" THEN LexLess(Txt(a), Txt(b)) ELSE NumVal(a) < NumVal(b)

RECURSIVE Join(_)
Join(s) == IF s = <<>> THEN "" ELSE Head(s) \o Join(Tail(s))
StrOf(c) == IF c = None THEN "None" ELSE Join(Txt(c))      \* Python str(cell)

ProperPrefix(a, b) == Len(a) < Len(b) /\ SubSeq(b, 1, Len(a)) = a

-----------------------------------------------------------------------------
(* Tables as lists of rows                                                    *)

Idx(h, name) == CHOOSE i \in 1..Len(h) : h[i] = name
Col(t, name) == [i \in 1..Len(t.rows) |-> t.rows[i][Idx(t.header, name)]]
KeyOf(t, cols, row) == [k \in 1..Len(cols) |-> row[Idx(t.header, cols[k])]]
Map(s, Op(_)) == [i \in 1..Len(s) |-> Op(s[i])]

(* ---- sorted(columns=cols, reverse=rev) : [r for r in sorted(rows, key)] ---- *)
KeyLess(t, cols, rev, r1, r2) ==
    \E k \in 1..Len(cols) :
       LET i == Idx(t.header, cols[k]) IN
       /\ \A j \in 1..(k - 1) : r1[Idx(t.header, cols[j])] = r2[Idx(t.header, cols[j])]
       /\ IF cols[k] \in rev THEN CellLess(r2[i], r1[i]) ELSE CellLess(r1[i], r2[i])

(* stable insertion: a row goes after every row already placed that is not greater *)
SortedRows(t, cols, rev) ==
    LET Insert(acc, x) ==
            LET k == Cardinality({i \in 1..Len(acc) : ~KeyLess(t, cols, rev, x, acc[i])})
            IN SubSeq(acc, 1, k) \o <<x>> \o SubSeq(acc, k + 1, Len(acc))
    IN FoldLeft(Insert, <<>>, t.rows)

SortedTable(t, cols, rev) == [header |-> t.header, rows |-> SortedRows(t, cols, rev)]

(* ---- filtered(callback, columns) / count(callback, columns) ---- *)
Holds(t, p, row) ==
    LET c == row[Idx(t.header, p.col)] IN
    CASE p.op = "eq"    -> c = p.val
      [] p.op = "ne"    -> c # p.val
      [] p.op = "gt"    -> CellLess(p.val, c)
      [] p.op = "le"    -> ~CellLess(p.val, c)
      [] p.op = "coleq" -> c = row[Idx(t.header, Txt(p.val)[1])]    \* val names the other column
      [] p.op = "colgt" -> CellLess(row[Idx(t.header, Txt(p.val)[1])], c)   \* row[0] > row[1]: not symmetric

FilteredRows(t, p) == SelectSeq(t.rows, LAMBDA r : Holds(t, p, r))
FilteredTable(t, p) == [header |-> t.header, rows |-> FilteredRows(t, p)]

(* ---- count_unique(columns), distinct_values(columns) ---- *)
Keys(t, cols) == {KeyOf(t, cols, t.rows[i]) : i \in 1..Len(t.rows)}
Counts(t, cols) ==
    {<<k, Cardinality({i \in 1..Len(t.rows) : KeyOf(t, cols, t.rows[i]) = k})>> : k \in Keys(t, cols)}

(* ---- get_columns(columns) ---- *)
ColumnsTable(t, cols) == [header |-> cols, rows |-> Map(t.rows, LAMBDA r : KeyOf(t, cols, r))]
(* get_columns(cols) of a table with an index column also returns that column, first (documented); *)
(* to_list(cols) gives the values in the order asked for                                           *)
WithIndexFirst(t, cols) == IF t.index = "" THEN cols
                           ELSE <<t.index>> \o SelectSeq(cols, LAMBDA c : c # t.index)
GetColumnsResult(t, cols) ==
    LET g == ColumnsTable(t, WithIndexFirst(t, cols)) IN
    [header |-> g.header, rows |-> g.rows, listed |-> ColumnsTable(t, cols).rows]

(* ---- with_new_column(new, callback, columns) ---- *)
Derived(t, f, row) ==
    LET c == row[Idx(t.header, f.cols[1])] IN
    CASE f.fn = "succ"   -> I(DecText(DecVal(Txt(c)) + 1))                    \* x + 1
      [] f.fn = "iseq"   -> Bool(c = f.val)                                   \* x == val
      [] f.fn = "concat" -> S(Txt(c) \o Txt(row[Idx(t.header, f.cols[2])]))   \* x + y
      [] f.fn = "second" -> row[Idx(t.header, f.cols[2])]                     \* row[1]

NewColumnTable(t, new, f) ==
    [header |-> t.header \o <<new>>, rows |-> Map(t.rows, LAMBDA r : r \o <<Derived(t, f, r)>>)]

(* ---- transposed(new, select_as_header=sel) ---- *)
Unique(t, sel) == Cardinality(Range(Col(t, sel))) = Len(t.rows)
TransposedTable(t, new, sel) ==
    LET others == SelectSeq(t.header, LAMBDA c : c # sel) IN
    [header |-> <<new>> \o Map(Col(t, sel), StrOf),
     rows   |-> Map(others, LAMBDA c : <<S(<<c>>)>> \o Col(t, c))]   \* column names are one character

(* ---- appended(new_column, other) ---- *)
AppendedTable(t, o, nc) ==
    LET orows == Map(o.rows, LAMBDA r : KeyOf(o, t.header, r)) IN
    IF nc = "" THEN [header |-> t.header, rows |-> t.rows \o orows]
    ELSE [header |-> <<nc>> \o t.header,
          rows   |-> Map(t.rows, LAMBDA r : <<S(t.title)>> \o r) \o Map(orows, LAMBDA r : <<S(o.title)>> \o r)]

(* ---- inner_join(other, columns_self=ks, columns_other=ko, col_prefix=px), cross_join(other, col_prefix=px) ---- *)
(* Rows are records: every cell is fetched by column NAME (KeyOf), so the answers do not depend on   *)
(* the column order of either operand (an index column sits first in its own table's header).        *)
PrefixedBy(cols, px) == Map(cols, LAMBDA c : px \o c)
Prefixed(cols) == PrefixedBy(cols, "right_")

InnerJoinTableP(t, o, ks, ko, px) ==
    LET mask == SelectSeq(o.header, LAMBDA c : c \notin Range(ko))
        Matches(r) == Map(SelectSeq(o.rows, LAMBDA q : KeyOf(o, ko, q) = KeyOf(t, ks, r)),
                          LAMBDA q : r \o KeyOf(o, mask, q))
    IN [header |-> t.header \o PrefixedBy(mask, px),
        rows   |-> FoldLeft(LAMBDA acc, r : acc \o Matches(r), <<>>, t.rows)]
InnerJoinTable(t, o, ks, ko) == InnerJoinTableP(t, o, ks, ko, "right_")

CrossJoinTableP(t, o, px) ==
    [header |-> t.header \o PrefixedBy(o.header, px),
     rows   |-> FoldLeft(LAMBDA acc, r : acc \o Map(o.rows, LAMBDA q : r \o q), <<>>, t.rows)]
CrossJoinTable(t, o) == CrossJoinTableP(t, o, "right_")

(* natural join: joined(other) uses the columns the two headers share, paired by name *)
Shared(t, o) == SelectSeq(t.header, LAMBDA c : c \in Range(o.header))

-----------------------------------------------------------------------------
(* The universe of tables TLC enumerates (operators with a parameter, so that *)
(* TLC builds only the universe of the group being checked)                   *)

RECURSIVE Prod(_)
Prod(doms) == IF doms = <<>> THEN {<<>>}
              ELSE {<<x>> \o r : x \in Head(doms), r \in Prod(Tail(doms))}

sE == <<>>
sA == <<"a">>
sB == <<"b">>
sAB == <<"a", "b">>
sACB == <<"a", ",", "b">>
T1 == <<"T", "1">>
T2 == <<"T", "2">>

Ints   == {I(<<"0">>), I(<<"2">>), I(<<"1", "0">>)}              \* text order differs from numeric order
Ints2  == {I(<<"0">>), I(<<"2">>)}
Floats == {F(<<"0", ".", "5">>), F(<<"1", ".", "5">>)}
Floats3 == Floats \cup {F(<<"1", "0", ".", "5">>)}
Bools  == {cTrue, cFalse}
Strs   == {S(sA), S(sAB), S(sB)}                                  \* "a" is a prefix of "ab"
Strs2  == {S(sA), S(sB)}
StrsE  == {S(sE), S(sA), S(sB)}                                   \* with the empty string
StrsX  == {S(sE), S(sA), S(sACB)}

(* a schema is a sequence of <<name, domain>> *)
Names(sc) == Map(sc, LAMBDA e : e[1])
Doms(sc)  == Map(sc, LAMBDA e : e[2])

TablesOf(sc, lo, hi, title) ==
    {[header |-> Names(sc), rows |-> rs, title |-> title, index |-> "", ints |-> "python"] :
        rs \in UNION {[1..n -> Prod(Doms(sc))] : n \in lo..hi}}

(* a table whose index_name is c: the index column is the first column of the object, *)
(* every row is re-ordered with the header                                            *)
WithIndex(t, c) ==
    IF c = "" THEN t
    ELSE LET h2 == <<c>> \o SelectSeq(t.header, LAMBDA x : x # c) IN
         [t EXCEPT !.header = h2, !.rows = Map(t.rows, LAMBDA r : KeyOf(t, h2, r)), !.index = c]
IndexChoices(t) ==
    {""} \cup {c \in Range(t.header) : Len(t.rows) >= 1 /\ Unique(t, c) /\ None \notin Range(Col(t, c))}

(* <<schema, largest number of rows>> *)
UnarySchemas ==
    IF Profile = "quick"
    THEN {<<<<<<"k", {I(<<"2">>), I(<<"1", "0">>)}>>, <<"s", Strs2>>>>, 3>>,
          <<<<<<"s", {S(sE), S(sA)}>>, <<"f", Floats>>>>, 3>>,
          <<<<<<"b", Bools>>, <<"k", Ints2>>>>, 3>>,
          <<<<<<"s", Strs2>>, <<"t", Strs2>>>>, 3>>,
          <<<<<<"k", Ints2>>, <<"m", {None, S(sA)}>>>>, 3>>}
    ELSE {<<<<<<"k", Ints>>, <<"s", Strs>>>>, 3>>,
          <<<<<<"k", Ints2>>, <<"s", Strs2>>>>, 4>>,
          <<<<<<"s", StrsX>>, <<"f", Floats3>>>>, 3>>,
          <<<<<<"b", Bools>>, <<"k", Ints>>>>, 3>>,
          <<<<<<"s", Strs>>, <<"t", Strs>>>>, 3>>,
          <<<<<<"k", Ints2>>, <<"m", {None, S(sA), S(sB)}>>>>, 4>>,
          <<<<<<"k", Ints2>>, <<"s", Strs2>>, <<"f", Floats>>>>, 3>>,
          <<<<<<"m", {None, I(<<"0">>)}>>, <<"b", Bools>>, <<"s", Strs2>>>>, 3>>}

UnaryTables(profile) == UNION {TablesOf(e[1], 0, e[2], T1) : e \in UnarySchemas}

(* small tables are also taken with each column that can index them as index_name *)
UnaryIndexRows == IF Profile = "quick" THEN 2 ELSE 3
UnaryIndexChoices(t) == IF Len(t.rows) <= UnaryIndexRows THEN IndexChoices(t) ELSE {""}

(* How the whole numbers of a column are STORED is a representation dimension: python ints (numpy   *)
(* int64) or a numpy array of a narrower / unsigned integer type.  The list-of-rows answers are the  *)
(* same for every representation, so the field only tells the harness how to build the real table.  *)
IntReprs == IF Profile = "quick" THEN {"uint8"} ELSE {"uint8", "int8", "uint16", "int32"}
IntReprChoices(t) ==
    {"python"} \cup (IF /\ Len(t.rows) \in 1..2
                         /\ \E c \in Range(t.header) : {x \in Range(Col(t, c)) : Tag(x) # "i"} = {}
                      THEN IntReprs ELSE {})

(* pairs for joins / appended: duplicate keys on both sides, a missing key value *)
LeftSchema  == IF Profile = "quick"
               THEN <<<<"k", Ints2>>, <<"s", Strs2>>>>
               ELSE <<<<"k", Ints2 \cup {None}>>, <<"s", Strs2>>>>
RightSchema == IF Profile = "quick"
               THEN <<<<"t", Strs2>>, <<"k", Ints2>>>>
               ELSE <<<<"t", Strs2>>, <<"k", Ints2 \cup {None}>>>>
PairMaxRows == IF Profile = "quick" THEN 2 ELSE 3
PairRowBudget == IF Profile = "quick" THEN 4 ELSE 5

BinaryPairs(profile) == {p \in TablesOf(LeftSchema, 0, PairMaxRows, T1) \X TablesOf(RightSchema, 0, PairMaxRows, T2) :
                   Len(p[1].rows) + Len(p[2].rows) <= PairRowBudget}
(* each operand: no index, index on the first column, index on a later column (where values are unique) *)
IndexedRowBudget == IF Profile = "quick" THEN 3 ELSE 4
IndexPairs(p) == IF Len(p[1].rows) + Len(p[2].rows) <= IndexedRowBudget
                 THEN IndexChoices(p[1]) \X IndexChoices(p[2]) ELSE {<<"", "">>}

(* tables too large for the small-n insertion sort: ties are the point *)
BigSizes == IF Profile = "quick" THEN {16, 17, 40} ELSE {16, 17, 20, 33, 40, 64, 100}
BigTable(n, m) ==
    [header |-> <<"k", "s", "x">>,
     rows   |-> [i \in 1..n |-> <<I(DecText((7 * i * i + 3 * i + m) % 3)),
                                  S(IF (i * i + m) % 2 = 0 THEN sA ELSE sB),
                                  I(DecText(i))>>],
     title  |-> T1, index |-> "", ints |-> "python"]
BigTables(profile) == {BigTable(n, m) : n \in BigSizes, m \in 0..1}

(* LONG family: the list-of-rows model does not depend on the number of rows, an implementation may *)
(* (sampling windows, chunking).  A column of one type with ONE cell of another type; W stands for   *)
(* any internal window: the odd cell is placed before, at the end of, just beyond and well beyond   *)
(* row W and in the last row.  Column r numbers the model rows: the harness scales an instance by    *)
(* repeating model row i m_i times (long_C20.py) so that the odd cell lands on real rows 0, 999,     *)
(* 1000, 1200 and last of tables of 1001 / 1500 / 5000 rows; every operation here works row by row,  *)
(* so its answer on the scaled table is the answer on the model table scaled the same way.           *)
LongW == 3
LongN == LongW + 3
LongKinds == {<<I(<<"1">>), S(<<"N", "A">>)>>,          \* int column with one text cell
              <<S(sA), I(<<"7">>)>>,                    \* text column with one number
              <<F(<<"1", ".", "5">>), S(<<"N", "A">>)>>,
              <<cTrue, S(<<"N", "A">>)>>}
LongTable(kind, p) ==
    [header |-> <<"r", "v", "x">>,
     rows   |-> [i \in 1..LongN |-> <<I(DecText(i)), IF i = p THEN kind[2] ELSE kind[1], I(<<"0">>)>>],
     title  |-> T1, index |-> "", ints |-> "python"]
LongTables(profile) == {LongTable(kind, p) : kind \in LongKinds, p \in 1..LongN}
LongOther(t) ==
    LET vals == Range(Col(t, "v"))
        base == CHOOSE v \in vals : Cardinality({i \in 1..Len(t.rows) : t.rows[i][2] = v}) > 1
        odd  == CHOOSE v \in vals : v # base
    IN [header |-> <<"v", "w">>, rows |-> << <<base, S(sA)>>, <<odd, S(sB)>> >>, title |-> T2, index |-> "",
        ints |-> "python"]

-----------------------------------------------------------------------------
(* Arguments                                                                  *)

ColDom(t, c) == Range(Col(t, c))
Sortable(t) == {c \in Range(t.header) : None \notin ColDom(t, c)}
TypeOfCol(t, c) == IF ColDom(t, c) \ {None} = {} THEN "n" ELSE Tag(CHOOSE x \in ColDom(t, c) \ {None} : TRUE)

(* non-empty sequences of distinct elements of a set *)
DistinctSeqs(set) == {s \in UNION {[1..n -> set] : n \in 1..Cardinality(set)} :
                         \A i, j \in 1..Len(s) : i # j => s[i] # s[j]}

SortArgs(t) == {<<cols, rev>> : cols \in DistinctSeqs(Sortable(t)), rev \in SUBSET Sortable(t)}
SortArgsOK(t) == {a \in SortArgs(t) : a[2] \subseteq Range(a[1])}

(* values a predicate compares with: the column's own values plus one absent value *)
Probe(t, c) == ColDom(t, c) \cup (CASE TypeOfCol(t, c) = "i" -> {I(<<"2">>)}
                                    [] TypeOfCol(t, c) = "f" -> {F(<<"1", ".", "5">>)}
                                    [] TypeOfCol(t, c) = "s" -> {S(sB)}
                                    [] TypeOfCol(t, c) = "b" -> {cTrue}
                                    [] OTHER -> {})
Preds(t) ==
    UNION {{[col |-> c, op |-> o, val |-> v] : o \in {"eq", "ne"}, v \in Probe(t, c) \cup {None}} : c \in Range(t.header)}
    \cup UNION {{[col |-> c, op |-> o, val |-> v] : o \in {"gt", "le"}, v \in Probe(t, c) \ {None}} :
                   c \in {d \in Sortable(t) : TypeOfCol(t, d) \in {"i", "f", "s"}}}
    \cup UNION {{[col |-> c, op |-> "colgt", val |-> S(<<d>>)] :
                    d \in {e \in Sortable(t) : e # c /\ TypeOfCol(t, e) = TypeOfCol(t, c)}} :
                 c \in {e \in Sortable(t) : TypeOfCol(t, e) \in {"i", "f", "s"}}}
    \cup UNION {{[col |-> c, op |-> "coleq", val |-> S(<<d>>)] :
                    d \in {e \in Range(t.header) : e # c /\ TypeOfCol(t, e) = TypeOfCol(t, c)}} : c \in Range(t.header)}

StrCols(t) == {x \in Sortable(t) : TypeOfCol(t, x) = "s"}
Derivations(t) ==
    {[fn |-> "succ", cols |-> <<c>>, val |-> None] : c \in {d \in Sortable(t) : TypeOfCol(t, d) = "i"}}
    \cup UNION {{[fn |-> "iseq", cols |-> <<c>>, val |-> v] : v \in Probe(t, c)} : c \in Range(t.header)}
    \cup UNION {{[fn |-> "concat", cols |-> <<c, d>>, val |-> None] : d \in StrCols(t) \ {c}} : c \in StrCols(t)}
    \cup UNION {{[fn |-> "second", cols |-> <<c, d>>, val |-> None] : d \in Range(t.header) \ {c}} : c \in Range(t.header)}

(* join key pairs: same-typed columns, equal length *)
JoinKeys(t, o) ==
    {<<ks, ko>> \in DistinctSeqs(Range(t.header)) \X DistinctSeqs(Range(o.header)) :
        /\ Len(ks) = Len(ko)
        /\ \A i \in 1..Len(ks) : ks[i] = ko[i] \/ (ks[i] = "s" /\ ko[i] = "t")}

-----------------------------------------------------------------------------
(* Structural classes of a case (used by the harness only to key findings)    *)

HasPrefixPair(t, c) == \E x, y \in ColDom(t, c) : ProperPrefix(Txt(x), Txt(y))
TagIf(cond, name) == IF cond THEN {name} ELSE {}
SizeClass(t) == TagIf(Len(t.rows) = 0, "zero-rows")
SortClass(t, cols, rev) ==
    TagIf(\E d \in rev : TypeOfCol(t, d) = "b", "rev-bool")
    \cup TagIf(\E d \in rev : TypeOfCol(t, d) = "s" /\ HasPrefixPair(t, d), "rev-str-prefix-pair")
    \cup TagIf(Len(t.rows) > 16, "more-than-16-rows")
PairClass(t, o) == TagIf(Len(t.rows) = 0, "left-zero-rows") \cup TagIf(Len(o.rows) = 0, "right-zero-rows")
(* the result of appended / inner_join keeps the receiver's index_name: does the result still have unique index values? *)
IndexDupClass(t, result) ==
    TagIf(t.index # "" /\ Cardinality(Range(Col(result, t.index))) # Len(result.rows), "result-index-not-unique")
    \cup TagIf(t.index # "" /\ None \in Range(Col(result, t.index)), "result-index-has-missing")
SharedOrderClass(t, o) ==
    TagIf(SelectSeq(t.header, LAMBDA c : c \in Range(o.header)) # SelectSeq(o.header, LAMBDA c : c \in Range(t.header)),
          "shared-columns-order-differs")
PrefixClass(px) == TagIf(px # "right_", "custom-prefix")
(* several key columns, one of them the operand's index column but not the first key *)
KeyIndexClass(t, ks, o, ko) ==
    TagIf(\/ (Len(ks) > 1 /\ t.index \in Range(ks) /\ ks[1] # t.index)
          \/ (Len(ko) > 1 /\ o.index \in Range(ko) /\ ko[1] # o.index), "index-column-is-a-later-key")

-----------------------------------------------------------------------------
(* Actions: one per public call; T versions are pure, the others also emit    *)

From == [tab |-> tab, oth |-> oth]
Log(act, args, cls) == Emit([from |-> From, act |-> act, args |-> args, to |-> res', cls |-> cls])
Once(result) == ~done /\ done' = TRUE /\ res' = result /\ UNCHANGED <<tab, oth>>

SortedT(cols, rev) == Once(SortedTable(tab, cols, rev))
Sorted(cols, rev)  == SortedT(cols, rev) /\ Log("Sorted", <<cols, rev>>, SortClass(tab, cols, rev))

FilteredT(p) == Once([table |-> FilteredTable(tab, p), count |-> Len(FilteredRows(tab, p))])
Filtered(p)  == FilteredT(p) /\ Log("Filtered", <<p>>, SizeClass(tab))

UniqueT(cols) == Once([counts |-> Counts(tab, cols), distinct |-> Keys(tab, cols)])
UniqueV(cols) == UniqueT(cols) /\ Log("Unique", <<cols>>, SizeClass(tab))

GetColumnsT(cols) == Once(GetColumnsResult(tab, cols))
GetColumns(cols)  == GetColumnsT(cols) /\ Log("GetColumns", <<cols>>, SizeClass(tab))

WithNewColumnT(f) == Once(NewColumnTable(tab, "n", f))
WithNewColumn(f)  == WithNewColumnT(f) /\ Log("WithNewColumn", <<"n", f>>, SizeClass(tab))

(* transposed raises when the selected column has duplicates: the only allowed outcome then *)
TransposedT(sel) == Once(IF Unique(tab, sel) THEN TransposedTable(tab, "n", sel) ELSE [raised |-> TRUE])
Transposed(sel)  == TransposedT(sel) /\ Log("Transposed", <<"n", sel>>, SizeClass(tab))

InnerJoinT(ks, ko, px) == Once(InnerJoinTableP(tab, oth, ks, ko, px))
InnerJoin(ks, ko, px)  == InnerJoinT(ks, ko, px) /\
    Log("InnerJoin", <<ks, ko, px>>, IndexDupClass(tab, InnerJoinTableP(tab, oth, ks, ko, px))
                                     \cup KeyIndexClass(tab, ks, oth, ko))

NaturalJoinOf(t, o, px) == InnerJoinTableP(t, o, Shared(t, o), Shared(t, o), px)
NaturalJoinT(px) == Once(NaturalJoinOf(tab, oth, px))
NaturalJoin(px)  == NaturalJoinT(px) /\
    Log("NaturalJoin", <<px>>, IndexDupClass(tab, NaturalJoinOf(tab, oth, px)) \cup SharedOrderClass(tab, oth))

CrossJoinT(px) == Once(CrossJoinTableP(tab, oth, px))
CrossJoin(px)  == CrossJoinT(px) /\ Log("CrossJoin", <<px>>, PrefixClass(px))

(* appended needs the same column set: the right table with column t renamed s has the columns of the *)
(* left table in another order (and its index column, if any, first)                                 *)
Ren(c) == IF c = "t" THEN "s" ELSE c
Renamed(o) == [o EXCEPT !.header = Map(o.header, Ren), !.index = Ren(o.index)]
AppendedPermT(nc) == Once(AppendedTable(tab, Renamed(oth), nc))
AppendedPerm(nc)  == AppendedPermT(nc) /\
    Log("AppendedRenamed", <<nc>>, PairClass(tab, oth) \cup IndexDupClass(tab, AppendedTable(tab, Renamed(oth), nc)))

(* natural join of two tables that share BOTH columns, in different orders *)
NaturalJoinRenamedT(px) == Once(NaturalJoinOf(tab, Renamed(oth), px))
NaturalJoinRenamed(px)  == NaturalJoinRenamedT(px) /\
    Log("NaturalJoinRenamed", <<px>>, IndexDupClass(tab, NaturalJoinOf(tab, Renamed(oth), px))
                                      \cup SharedOrderClass(tab, Renamed(oth)))

Init == /\ res = [init |-> TRUE]
        /\ done = FALSE
        /\ CASE Group = "unary"  -> /\ \E t \in UnaryTables(Profile) : \E ix \in UnaryIndexChoices(t) :
                                        \E ir \in (IF ix = "" THEN IntReprChoices(t) ELSE {"python"}) :
                                             tab = [WithIndex(t, ix) EXCEPT !.ints = ir]
                                        /\ oth = "-"
             [] Group = "big"    -> tab \in BigTables(Profile) /\ oth = "-"
             [] Group = "long"   -> tab \in LongTables(Profile) /\ oth = LongOther(tab)
             [] Group = "binary" -> \E p \in BinaryPairs(Profile) : \E ix \in IndexPairs(p) :
                                        tab = WithIndex(p[1], ix[1]) /\ oth = WithIndex(p[2], ix[2])

(* a custom col_prefix is tried on the operand pairs without an index *)
ColPrefixes(t, o) == IF t.index = "" /\ o.index = "" THEN {"right_", "p_"} ELSE {"right_"}

Step == \/ /\ Group \in {"unary", "big"}
           /\ Len(tab.rows) >= 1                     \* "at least one row for sorting"
           /\ \E a \in SortArgsOK(tab) : Sorted(a[1], a[2])
        \/ /\ Group = "unary"
           /\ \/ \E p \in Preds(tab) : Filtered(p)
              \/ \E cols \in DistinctSeqs(Range(tab.header)) : UniqueV(cols) \/ GetColumns(cols)
              \/ \E f \in Derivations(tab) : WithNewColumn(f)
              \/ \E sel \in Range(tab.header) : Transposed(sel)
        \/ /\ Group = "long"
           /\ \/ Sorted(<<"x">>, {})                                  \* stable: nothing moves
              \/ \E o \in {"eq", "ne"} : \E v \in Range(Col(tab, "v")) : Filtered([col |-> "v", op |-> o, val |-> v])
              \/ UniqueV(<<"v">>)
              \/ GetColumns(<<"r", "v", "x">>)
              \/ \E v \in Range(Col(tab, "v")) : WithNewColumn([fn |-> "iseq", cols |-> <<"v">>, val |-> v])
              \/ WithNewColumn([fn |-> "second", cols |-> <<"r", "v">>, val |-> None])
              \/ InnerJoin(<<"v">>, <<"v">>, "right_")
        \/ /\ Group = "binary"
           /\ \E px \in ColPrefixes(tab, oth) :
                 \/ \E k \in JoinKeys(tab, oth) : InnerJoin(k[1], k[2], px)
                 \/ NaturalJoin(px) \/ NaturalJoinRenamed(px)
                 \/ CrossJoin(px)
                 \/ px = "right_" /\ \E nc \in {"", "z"} : AppendedPerm(nc)

CheckLaws == Once([laws |-> TRUE])

Next == ~done /\ (Step \/ CheckLaws)

Spec == Init /\ [][Next]_vars

-----------------------------------------------------------------------------
(* Design-level properties of the list model, checked by TLC on every table   *)

(* The laws are evaluated on one designated successor of every table state (action   *)
(* CheckLaws) so that TLC's workers evaluate them in parallel.                       *)
AtLaws == done /\ "laws" \in DOMAIN res

IsTable(t) == \A i \in 1..Len(t.rows) : Len(t.rows[i]) = Len(t.header)

(* the constructive sort is THE stable sort: a permutation of the positions that is *)
(* ordered by key and keeps equal-key rows in their original order                  *)
StableSortLaw ==
    (AtLaws /\ Len(tab.rows) <= 4) =>
    \A a \in SortArgsOK(tab) :
        LET n == Len(tab.rows)
            out == SortedRows(tab, a[1], a[2])
            Less(x, y) == KeyLess(tab, a[1], a[2], x, y)
            Good(p) == /\ \A i \in 1..n : out[i] = tab.rows[p[i]]
                       /\ \A i, j \in 1..n : i < j =>
                            /\ ~Less(tab.rows[p[j]], tab.rows[p[i]])
                            /\ (~Less(tab.rows[p[i]], tab.rows[p[j]]) => p[i] < p[j])
            perms == {p \in [1..n -> 1..n] : \A i, j \in 1..n : i # j => p[i] # p[j]}
        IN Cardinality({p \in perms : Good(p)}) = 1

(* a predicate and its negation partition the rows, in order *)
FilterLaw ==
    (AtLaws /\ Group = "unary") =>
    \A p \in {q \in Preds(tab) : q.op \in {"eq", "gt"}} :
        LET np == [p EXCEPT !.op = IF p.op = "eq" THEN "ne" ELSE "le"] IN
        /\ Len(FilteredRows(tab, p)) + Len(FilteredRows(tab, np)) = Len(tab.rows)
        /\ \A r \in Range(tab.rows) : Holds(tab, p, r) # Holds(tab, np, r)

(* counts add up to the number of rows and are keyed by the distinct values *)
RECURSIVE SumCounts(_)
SumCounts(s) == IF s = {} THEN 0 ELSE LET x == CHOOSE y \in s : TRUE IN x[2] + SumCounts(s \ {x})
UniqueLaw ==
    (AtLaws /\ Group = "unary") =>
    \A cols \in DistinctSeqs(Range(tab.header)) :
        /\ SumCounts(Counts(tab, cols)) = Len(tab.rows)
        /\ {x[1] : x \in Counts(tab, cols)} = Keys(tab, cols)

(* inner join = the rows of the cross join whose keys agree, minus the right key columns *)
JoinLaw ==
    (AtLaws /\ Group = "binary") =>
    \A k \in JoinKeys(tab, oth) :
        LET x == CrossJoinTable(tab, oth)
            ks == k[1]
            ko == Prefixed(k[2])
            keep == SelectSeq(x.header, LAMBDA c : c \notin Range(ko))
            sel == SelectSeq(x.rows, LAMBDA r : KeyOf(x, ks, r) = KeyOf(x, ko, r))
            ij == InnerJoinTable(tab, oth, k[1], k[2])
        IN /\ ij.header = keep
           /\ ij.rows = Map(sel, LAMBDA r : KeyOf(x, keep, r))
           /\ Len(x.rows) = Len(tab.rows) * Len(oth.rows)

(* transposing twice gives the table back (first column str and unique) *)
TransposeLaw ==
    (AtLaws /\ Group = "unary") =>
    \A sel \in {tab.header[1]} :
        (Unique(tab, sel) /\ TypeOfCol(tab, sel) = "s" /\ Len(tab.rows) > 0
            /\ \A x \in ColDom(tab, sel) : Len(Txt(x)) = 1) =>
            LET t1 == TransposedTable(tab, sel, sel)
                t2 == TransposedTable(t1, sel, sel)
            IN t2.header = tab.header /\ t2.rows = tab.rows

(* the type of a cell read back is the type it was given, at every row index *)
LongTypeLaw ==
    (AtLaws /\ Group = "long") =>
    \E p \in 1..LongN : \E kind \in LongKinds :
        /\ tab = LongTable(kind, p)
        /\ \A i \in 1..LongN :
             /\ Tag(ColumnsTable(tab, <<"v">>).rows[i][1]) = Tag(IF i = p THEN kind[2] ELSE kind[1])
             /\ Tag(FilteredRows(tab, [col |-> "r", op |-> "eq", val |-> I(DecText(i))])[1][2])
                    = Tag(IF i = p THEN kind[2] ELSE kind[1])

ResultShape == (done /\ "rows" \in DOMAIN res) => IsTable(res)
=============================================================================
