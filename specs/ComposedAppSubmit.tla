-------------------------- MODULE ComposedAppSubmit --------------------------
(* Refinement level below ComposedApp.tla: how the scheduler of a parallel run  *)
(* (cogent3.util.parallel._as_completed_mproc) takes the inputs from their       *)
(* iterator and submits them.  ComposedApp.tla's accounting law does not depend  *)
(* on the number of inputs; this module states what a scheduler with a bounded   *)
(* window of in-flight tasks owes it: EVERY INPUT IS SUBMITTED EXACTLY ONCE.     *)
(*                                                                               *)
(* An input is Pending (still in the iterator), Submitted (in flight) or Done.   *)
(* win = 0: everything is submitted at once (what cogent3 does); win = k > 0: at *)
(* most k tasks in flight, each finished task is replaced by the next input.     *)
(* Extra = what a refill takes from the iterator beyond what it submits: 0 is    *)
(* the only correct value; MC_ComposedApp_submit_cx.cfg (Extra = 1, the          *)
(* `for e, _ in zip(inputs, done)` slip) is refuted by TLC (NoneLost).           *)
EXTENDS Naturals, FiniteSets, Sequences, TLC, Emit

CONSTANTS Ns,        \* numbers of inputs explored
          Windows,   \* windows explored
          Extra,     \* see above
          Fifo,      \* TRUE: tasks finish oldest first (keeps large n tractable); FALSE: any order
          FailMod, FailRem   \* input i fails iff i % FailMod = FailRem (which inputs fail is immaterial)

VARIABLES n, win, next, inflight, ndone, swallowed, started
vars == <<n, win, next, inflight, ndone, swallowed, started>>

Inputs == 1..n
Fails(i) == i % FailMod = FailRem
Kind(i) == IF Fails(i) THEN "not_completed" ELSE "completed"

Init == /\ n \in Ns /\ win \in Windows
        /\ next = 1 /\ inflight = {} /\ swallowed = {} /\ started = FALSE
        /\ ndone = [i \in 1..n |-> 0]

Min(a, b) == IF a < b THEN a ELSE b
(* take k inputs for submission, then lose e more, from position p *)
Taken(p, k) == {i \in Inputs : p <= i /\ i < p + k}

Finished(nx, fl) == nx > n /\ fl = {}
LogFinal == IF Finished(next', inflight') /\ Fifo
            THEN Emit([act |-> "Bulk", n |-> n, win |-> win,
                       kinds |-> [i \in Inputs |-> Kind(i)],
                       ndone |-> ndone', swallowed |-> Cardinality(swallowed')])
            ELSE TRUE

(* the initial fill *)
StartT ==
    /\ ~started /\ started' = TRUE
    /\ LET k == IF win = 0 THEN n ELSE Min(win, n) IN
         /\ inflight' = Taken(1, k)
         /\ next' = 1 + k
    /\ UNCHANGED <<n, win, ndone, swallowed>>

(* task t finishes, its result is handed on; the window is refilled *)
CompleteT(t) ==
    /\ started /\ t \in inflight
    /\ Fifo => \A u \in inflight : t <= u
    /\ ndone' = [ndone EXCEPT ![t] = @ + 1]
    /\ LET k == IF next <= n THEN 1 ELSE 0          \* one finished, one submitted
           e == IF next + k <= n THEN Extra ELSE 0   \* and Extra more taken, never submitted
       IN /\ inflight' = (inflight \ {t}) \cup Taken(next, k)
          /\ swallowed' = swallowed \cup Taken(next + k, e)
          /\ next' = next + k + e
    /\ UNCHANGED <<n, win, started>>

Start == StartT /\ LogFinal
Complete(t) == CompleteT(t) /\ LogFinal
Next == Start \/ \E t \in 1..n : Complete(t)
Spec == Init /\ [][Next]_vars
FairSpec == Spec /\ WF_vars(Next)

-----------------------------------------------------------------------------
TypeOK == /\ inflight \subseteq Inputs /\ swallowed \subseteq Inputs
          /\ next \in 1..(n + 1 + Extra)
Bounded == win > 0 => Cardinality(inflight) <= win
(* no input is taken from the iterator without being submitted *)
NoneLost == swallowed = {}
(* an input is in exactly one place, and is never done twice *)
ExactlyOnce == started => \A i \in Inputs :
    /\ ndone[i] <= 1
    /\ (IF i >= next THEN 1 ELSE 0) + (IF i \in inflight THEN 1 ELSE 0) + (IF i \in swallowed THEN 1 ELSE 0) + ndone[i] = 1
(* when the run is over every input has been done: nothing is left without a result *)
AllDone == (started /\ Finished(next, inflight)) => \A i \in Inputs : ndone[i] = 1
Terminates == <>(started /\ Finished(next, inflight))
=============================================================================
