SPECIFICATION Spec
CONSTANT Pids = {"p1", "p2"}
CONSTANT Ids = {"x"}
CONSTANT Vers = {1, 2}
CONSTANT MaxSteps = 5
INVARIANT TypeOK
PROPERTY RefusedNeverWrites
PROPERTY RefusedStaysRefusedWhileLocked
PROPERTY CloseKeepsLock
