SPECIFICATION Spec
CONSTANTS
  Ids = {"gene", "gene.1", "v1.2"}
  Data = {"x", "y"}
  LogIds = {"l1"}
  Aliases = {FALSE, TRUE}
INVARIANT TypeOK
PROPERTY Isolation
PROPERTY AppendNeverOverwrites
PROPERTY ReadOnlyNeverMutates
PROPERTY RefusedChangesNothing
PROPERTY WriteRetiresExactlyMatching
