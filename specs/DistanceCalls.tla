---------------------------- MODULE DistanceCalls ----------------------------
(* The tree builders and matrix views are PURE FUNCTIONS OF THEIR INPUT:      *)
(* property C15 for histories of calls on ONE distance-matrix object.         *)
(*                                                                            *)
(* State: the caller's matrix `held` (what the object shows: the distance of  *)
(* every pair of names, zero diagonal), the kind of object it is (`form`: a   *)
(* plain {(a, b): d} dict, a DictArray, a DistanceMatrix), the calls made on  *)
(* it so far (`hist`) and the result of the last call (`ret`).                *)
(*                                                                            *)
(* One action per public call that takes the matrix as its input:             *)
(*   upgma            cogent3.cluster.UPGMA.upgma(m)                          *)
(*   nj, gnj          cogent3.phylo.nj.nj(m), gnj(m, keep=1)                  *)
(*   quick_tree       m.quick_tree()                                          *)
(*   app_quick_tree   get_app("quick_tree")(m)                                *)
(*   take_dists       m.take_dists(all names)                                 *)
(*   drop_invalid     m.drop_invalid()       (no entry is invalid here)       *)
(*   to_dict          m.to_dict()                                             *)
(* Every call leaves `held` unchanged and returns the value that is a         *)
(* function of `held` alone: the rooted generator for upgma, the unrooted one *)
(* for the neighbour-joining family, the matrix itself for the views - at the *)
(* first call and at every later call, in any order.                          *)
(*                                                                            *)
(* The matrices are the ultrametric generators of UPGMATrees (an ultrametric  *)
(* matrix is additive, so both families of builders must recover its tree:    *)
(* UPGMA.tla Recovered, NJ.tla Recovered).  Design-level properties (TLC):    *)
(* Pure (action property), UnrootedIsTheAdditiveTree (the unrooted generator  *)
(* induces exactly `held`, i.e. it is the tree NJ must return), ZeroDiagonal. *)
EXTENDS UPGMATrees, Emit

CONSTANTS Forms,      \* subset of {"dict", "DictArray", "DistanceMatrix"}
          Builders,   \* subset of the call names above
          MaxCalls    \* length of the histories

VARIABLES gen, held, form, hist, ret
vars == <<gen, held, form, hist, ret>>

NJFamily == {"nj", "gnj", "quick_tree", "app_quick_tree"}
Views == {"take_dists", "drop_invalid", "to_dict"}

(* which call accepts which kind of object *)
Applicable(b, f) ==
    CASE b = "upgma" -> TRUE
      [] b \in {"nj", "gnj"} -> f \in {"dict", "DistanceMatrix"}
      [] OTHER -> f = "DistanceMatrix"

Result(b, g, m) ==
    IF b = "upgma" THEN [kind |-> "rooted", edges |-> GenEdges(g)]
    ELSE IF b \in NJFamily THEN [kind |-> "unrooted", edges |-> UnrootedEdges(g)]
    ELSE [kind |-> "matrix", D |-> m]
NoResult == [kind |-> "none"]

ZeroM == [a \in Tips |-> [b \in Tips |-> 0]]
Picked == gen.h # [C \in Internal(gen.tree) |-> 0]

Init == /\ \E T \in Families(1, N) : gen = [tree |-> T, h |-> [C \in Internal(T) |-> 0]]
        /\ held = ZeroM
        /\ form \in Forms
        /\ hist = <<>>
        /\ ret = NoResult
(* the caller builds the matrix object (not a call under test) *)
Pick == /\ ~Picked
        /\ \E h \in HeightMaps(gen.tree) :
              /\ gen' = [tree |-> gen.tree, h |-> h]
              /\ held' = GenMatrix(gen')
        /\ UNCHANGED <<form, hist, ret>>

CallT(b) == /\ Picked /\ Len(hist) < MaxCalls /\ Applicable(b, form)
            /\ held' = held                         \* the input is left alone
            /\ ret' = Result(b, gen, held)          \* and alone determines the result
            /\ hist' = Append(hist, b)
            /\ UNCHANGED <<gen, form>>
Call(b) == /\ CallT(b)
           /\ Emit([from |-> [n |-> N, held |-> held, form |-> form, hist |-> hist],
                    act |-> b, args |-> <<>>,
                    to |-> [held |-> held', ret |-> ret']])

Next == Pick \/ \E b \in Builders : Call(b)
Spec == Init /\ [][Next]_vars

(* ---- design-level properties ------------------------------------------------------------ *)
Pure == [][Picked => held' = held]_vars
SameAnswerEveryTime ==          \* the result does not depend on the history
    (Picked /\ hist # <<>>) => ret = Result(hist[Len(hist)], gen, held)
UnrootedIsTheAdditiveTree ==
    Picked => \A a, b \in Tips : UnrootedDist(gen, a, b) = held[a][b]
ZeroDiagonal == \A a \in Tips : held[a][a] = 0
TypeOK == /\ form \in Forms /\ Len(hist) <= MaxCalls
          /\ \A k \in 1..Len(hist) : hist[k] \in Builders
=============================================================================
