SPECIFICATION Spec
CONSTANTS
  N = 5
  TipLens = {1, 3}
  IntLens = {1}
INVARIANT TypeOK
INVARIANT Recovered
INVARIANT ResultShape
INVARIANT CherryLemma
INVARIANT NoClamp
