----------------------------- MODULE SeqViewColl -----------------------------
(* Growth of C01: collections whose members are views of one parent.           *)
(*                                                                            *)
(* A SequenceCollection is made from three views of a parent string P that    *)
(* sits at annotation offset `off`:  a = P[1:6],  b = P[2:8].rc(),  c = P[::2]. *)
(* The abstract state is the ordered list of members, each a view (idx, comp)  *)
(* of P in SeqView's sense plus its current name, whether the collection was   *)
(* reverse complemented an odd number of times since it was made (flip),       *)
(* whether it was degapped and whether it was renamed.  One action per public  *)
(* collection call: take_seqs(names, negate), take_seqs_if(longer than k),     *)
(* rename_seqs, rc, degap.  Observe states what the collection must read back: *)
(* names in order, every member's string (through get_seq and to_dict), its    *)
(* length, and - for members that were neither degapped nor renamed - where     *)
(* get_seq(name).parent_coordinates() may place it: either still on the parent *)
(* (old-style collections keep the views) or on its own frame (name, 0, len)   *)
(* made when the collection copied the data (new-style), reversed iff flip.    *)
EXTENDS Integers, Sequences, FiniteSets, TLC, Emit, PySlice, SeqViewSymbols

CONSTANTS Parent,   \* the concrete parent string (tuple of one-character strings)
          Offsets

VARIABLES off, ms, mol
vars == <<off, ms, mol>>

ParentA == <<"A", "C", "-", "G", "T", "T", "A", "?", "C">>
L == Len(Parent)
Ident(n) == [i \in 1..n |-> i - 1]
Reverse(s) == [i \in 1..Len(s) |-> s[Len(s) + 1 - i]]
Compl(c) == IF c \in DOMAIN ComplDna THEN ComplDna[c] ELSE c
Range(s) == {s[i] : i \in DOMAIN s}

Names == <<"a", "b", "c">>
NewName == [a |-> "A1", b |-> "B1", c |-> "C1", d |-> "D1"]
Member(n, ix, cm) == [name |-> n, orig |-> n, idx |-> ix, comp |-> cm, flip |-> FALSE, dg |-> FALSE, renamed |-> FALSE, placed |-> TRUE]
(* add_seqs({"d": str(P[3:5])}): a member given as a plain string - it reads as that view of P but has no place on it *)
Added == [Member("d", Apply(Ident(L), 3, 5, None), FALSE) EXCEPT !.placed = FALSE]
Made == <<Member("a", Apply(Ident(L), 1, 6, None), FALSE),
          Member("b", Reverse(Apply(Ident(L), 2, 8, None)), TRUE),
          Member("c", Apply(Ident(L), None, None, 2), FALSE)>>

Raw(m) == [k \in 1..Len(m.idx) |-> IF m.comp THEN Compl(Parent[m.idx[k] + 1]) ELSE Parent[m.idx[k] + 1]]
Gapless(m) == IF m.dg THEN SelectSeq(Raw(m), LAMBDA c : c \notin GapSyms) ELSE Raw(m)
(* to_rna() only exchanges T for U *)
Display(m) == [k \in DOMAIN Gapless(m) |-> IF mol = "rna" /\ Gapless(m)[k] = "T" THEN "U" ELSE Gapless(m)[k]]

(* where a member may be reported: <<seqid, strand, psLo, psHi, peLo, peHi>> alternatives *)
Stride(ix) == IF Len(ix) >= 2 THEN Abs(ix[2] - ix[1]) ELSE 0
OnParent(m) ==
    LET ix == m.idx
        n == Len(ix)
        first == ix[1]
        last == ix[n]
        st == Stride(ix)
    IN IF ~m.comp
       THEN <<"p", 1, off + first, off + first, off + last + 1, off + (IF st = 0 THEN L ELSE Min(L, last + st))>>
       ELSE <<"p", -1, off + (IF st = 0 THEN 0 ELSE Max(0, last - st + 1)), off + last, off + first + 1, off + first + 1>>
OnOwnFrame(m) == <<m.orig, IF m.flip THEN -1 ELSE 1, 0, 0, Len(m.idx), Len(m.idx)>>
Where(m) == IF m.dg \/ m.renamed \/ ~m.placed \/ mol = "rna" \/ Len(m.idx) = 0 THEN {} ELSE {OnParent(m), OnOwnFrame(m)}

St == <<off, mol, [i \in DOMAIN ms |-> <<ms[i].name, ms[i].idx, ms[i].comp, ms[i].flip, ms[i].dg, ms[i].renamed>>]>>
StP == <<off', mol', [i \in DOMAIN ms' |-> <<ms'[i].name, ms'[i].idx, ms'[i].comp, ms'[i].flip, ms'[i].dg, ms'[i].renamed>>]>>
Log(act, args) == Emit([from |-> St, act |-> act, args |-> args, to |-> StP])

Init == off \in Offsets /\ ms = Made /\ mol = "dna"

CurNames == [i \in DOMAIN ms |-> ms[i].name]
Pick(n) == ms[CHOOSE i \in DOMAIN ms : ms[i].name = n]

(* ordered selections of one or two of the present names (larger ones arise as negations) *)
Selections == {s \in UNION {[1..k -> Range(CurNames)] : k \in 1..Min(2, Len(ms))} :
                 \A i, j \in DOMAIN s : i # j => s[i] # s[j]}

(* take_seqs(names): the named members in the order asked for;                 *)
(* take_seqs(names, negate=True): the others, in the collection's order         *)
TakeT(sel, negate) ==
    /\ ms' = IF negate THEN SelectSeq(ms, LAMBDA m : m.name \notin Range(sel))
             ELSE [i \in DOMAIN sel |-> Pick(sel[i])]
    /\ Len(ms') > 0
    /\ UNCHANGED <<off, mol>>
Take(sel, negate) == TakeT(sel, negate) /\ Log("Take", <<sel, negate>>)

(* take_seqs_if(lambda s: len(s) > k) *)
TakeIfT(k) == /\ ms' = SelectSeq(ms, LAMBDA m : Len(Display(m)) > k)
              /\ Len(ms') > 0
              /\ UNCHANGED <<off, mol>>
TakeIf(k) == TakeIfT(k) /\ Log("TakeIf", <<k>>)

(* rename_seqs(renamer): names change, nothing else that can be read does *)
RenameT == /\ \E i \in DOMAIN ms : ~ms[i].renamed
           /\ ms' = [i \in DOMAIN ms |-> IF ms[i].renamed THEN ms[i]
                                         ELSE [ms[i] EXCEPT !.name = NewName[ms[i].name], !.renamed = TRUE]]
           /\ UNCHANGED <<off, mol>>
Rename == RenameT /\ Log("Rename", <<>>)

(* rc(): every member reverse complemented, order and names kept *)
RcT == /\ ms' = [i \in DOMAIN ms |-> [ms[i] EXCEPT !.idx = Reverse(ms[i].idx), !.comp = ~ms[i].comp, !.flip = ~ms[i].flip]]
       /\ UNCHANGED <<off, mol>>
Rc == RcT /\ Log("Rc", <<>>)

(* degap(): gap symbols removed from every member *)
DegapT == /\ \E i \in DOMAIN ms : ~ms[i].dg
          /\ ms' = [i \in DOMAIN ms |-> [ms[i] EXCEPT !.dg = TRUE]]
          /\ UNCHANGED <<off, mol>>
Degap == DegapT /\ Log("Degap", <<>>)

(* to_rna(): every member converted, nothing else changes *)
ToRnaT == /\ mol = "dna" /\ mol' = "rna" /\ UNCHANGED <<off, ms>>
ToRna == ToRnaT /\ Log("ToRna", <<>>)

(* add_seqs({"d": ...}): appended after the present members, which read as before *)
AddT == /\ \A i \in DOMAIN ms : ms[i].orig # "d"
        /\ Len(ms) = 3 /\ \A i \in DOMAIN ms : ~ms[i].dg /\ ~ms[i].renamed      \* (bounds the state space)
        /\ ms' = Append(ms, [Added EXCEPT !.dg = \E i \in DOMAIN ms : ms[i].dg])
        /\ UNCHANGED <<off, mol>>
Add == AddT /\ Log("Add", <<>>)

Observe == /\ UNCHANGED vars
           /\ Emit([from |-> St, act |-> "Observe",
                    obs |-> [names |-> CurNames,
                             seqs |-> [i \in DOMAIN ms |-> Display(ms[i])],
                             where |-> [i \in DOMAIN ms |-> Where(ms[i])]],
                    parent |-> Parent, made |-> <<<<"a", 1, 6, None, FALSE>>, <<"b", 2, 8, None, TRUE>>, <<"c", None, None, 2, FALSE>>>>,
                    none |-> None, newname |-> NewName, added |-> <<"d", 3, 5>>])

Next == \/ \E sel \in Selections, neg \in BOOLEAN : Take(sel, neg)
        \/ \E k \in {4, 5} : TakeIf(k)
        \/ Rename
        \/ Rc
        \/ Degap
        \/ ToRna
        \/ Add
        \/ Observe

Spec == Init /\ [][Next]_vars

------------------------------------------------------------------------------
(* Laws checked by TLC.                                                         *)
TypeOK == /\ Len(ms) \in 1..4 /\ mol \in {"dna", "rna"}
          /\ \A i, j \in DOMAIN ms : i # j => ms[i].name # ms[j].name      \* names stay unique

(* rc twice reads as before; degapping and reverse complementing commute *)
RcRc(m) == [m EXCEPT !.idx = Reverse(Reverse(m.idx)), !.comp = ~~m.comp]
RcLaw == \A i \in DOMAIN ms :
    LET m == ms[i]
        r == [m EXCEPT !.idx = Reverse(m.idx), !.comp = ~m.comp]
    IN /\ Display(RcRc(m)) = Display(m)
       /\ Display([r EXCEPT !.dg = TRUE]) =
            LET d == Display([m EXCEPT !.dg = TRUE])
                cm(c) == IF mol = "rna" THEN (IF c \in DOMAIN ComplRna THEN ComplRna[c] ELSE c) ELSE Compl(c)
            IN [k \in DOMAIN d |-> cm(d[Len(d) + 1 - k])]
(* a member never displays anything but residues of the parent (or their complements) *)
NothingInvented == \A i \in DOMAIN ms : \A k \in DOMAIN ms[i].idx : ms[i].idx[k] \in 0..(L - 1)
(* selecting never changes a member; a selection and its negation partition the collection *)
TakePartition ==
    [][\A sel \in Selections :
         TakeT(sel, FALSE) =>
            LET rest == SelectSeq(ms, LAMBDA m : m.name \notin Range(sel))
            IN /\ Len(ms') + Len(rest) = Len(ms)
               /\ \A i \in DOMAIN ms' : ms'[i] \in Range(ms)]_vars
(* both frames name the segment that is displayed *)
FramesAgree == \A i \in DOMAIN ms : \A w \in Where(ms[i]) :
    LET n == Len(ms[i].idx) IN
    IF w[1] = "p" THEN w[5] - w[4] >= (n - 1) * Max(1, Stride(ms[i].idx)) + 1 /\ w[3] >= off /\ w[6] <= off + L
    ELSE w[5] - w[3] = n
=============================================================================
