\* the intended protocol (replace + cleanup on every failure): Atomic must hold
SPECIFICATION FairSpec
CONSTANTS
  Configs <- IntendedConfigs
  PreStates = {"absent", "Old"}
INVARIANT TypeOK
INVARIANT Atomic
PROPERTY HappyPathSucceeds
PROPERTY Terminates
