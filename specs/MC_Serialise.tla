---------------------------- MODULE MC_Serialise ----------------------------
(* GENERATED from harness/kinds_C10.py (python harness/kinds_C10.py); the check refuses to run if they differ. *)
EXTENDS Serialise

Kinds == {"seq_old", "seq_new", "aln", "array_aln", "coll", "new_coll", "tree", "tree_names", "table", "dists", "dict_array", "indel_map", "feature_map", "aligned", "annotation_db", "lf", "lf_multilocus", "lf_rate_free", "lf_rate_gamma", "lf_site_hmm", "annotation_db_gff", "annotation_db_gb", "seqview", "lf_gn", "ns_submodel", "new_alphabet_char", "new_alphabet_kmer", "new_alphabet_codon", "hypothesis_result", "tabular_result", "submodel", "codon_model", "moltype", "alphabet", "alphabet_char", "submodel_user", "not_completed", "model_result", "generic_result"}
KindOpsDef == [k \in Kinds |-> CASE k = "seq_old" -> {"add_feature", "rc", "slice_mid", "slice_neg", "stride2", "to_rna"}
                                  [] k = "seq_new" -> {"add_feature", "rc", "slice_mid", "slice_neg", "stride2", "to_rna"}
                                  [] k = "aln" -> {"modified_termini", "omit_gap_pos", "rc", "slice_cols", "take_positions", "take_seqs", "to_rna"}
                                  [] k = "array_aln" -> {"modified_termini", "omit_gap_pos", "rc", "slice_cols", "take_positions", "take_seqs", "to_rna"}
                                  [] k = "coll" -> {"rc", "rename", "take_seqs", "to_rna"}
                                  [] k = "new_coll" -> {"rc", "rename", "take_seqs", "to_rna"}
                                  [] k = "tree" -> {"bifurcating", "rooted_at", "sorted", "sub_tree"}
                                  [] k = "tree_names" -> {"clade_blank", "clade_blank2", "clade_quotes", "sorted", "tip_digits", "tip_odd"}
                                  [] k = "table" -> {"filtered", "get_columns", "sorted", "transposed", "with_new_column"}
                                  [] k = "dists" -> {"drop", "set_cells", "take_dists"}
                                  [] k = "dict_array" -> {"to_normalized"}
                                  [] k = "indel_map" -> {"reversed", "slice", "termini_unknown"}
                                  [] k = "feature_map" -> {"covered", "reversed", "slice"}
                                  [] k = "aligned" -> {"rc", "slice", "termini_unknown"}
                                  [] k = "annotation_db" -> {"add", "subset", "union"}
                                  [] k = "lf" -> {"const", "mprobs", "optimise", "scope"}
                                  [] k = "lf_multilocus" -> {"const", "locus_kappa"}
                                  [] k = "lf_rate_free" -> {"bprobs", "const", "optimise"}
                                  [] k = "lf_rate_gamma" -> {"bprobs", "optimise", "shape"}
                                  [] k = "lf_site_hmm" -> {"bprobs", "shape", "switch"}
                                  [] k = "annotation_db_gff" -> {"add", "subset"}
                                  [] k = "annotation_db_gb" -> {"add", "subset"}
                                  [] k = "seqview" -> {"reverse", "slice_mid", "slice_neg", "stride2"}
                                  [] k = "lf_gn" -> {"mprobs", "optimise", "term"}
                                  [] k = "ns_submodel" -> {}
                                  [] k = "new_alphabet_char" -> {}
                                  [] k = "new_alphabet_kmer" -> {}
                                  [] k = "new_alphabet_codon" -> {}
                                  [] k = "hypothesis_result" -> {}
                                  [] k = "tabular_result" -> {}
                                  [] k = "submodel" -> {}
                                  [] k = "codon_model" -> {}
                                  [] k = "moltype" -> {}
                                  [] k = "alphabet" -> {}
                                  [] k = "alphabet_char" -> {"reordered", "with_gap", "words2"}
                                  [] k = "submodel_user" -> {}
                                  [] k = "not_completed" -> {}
                                  [] k = "model_result" -> {}
                                  [] k = "generic_result" -> {"add_tree"}]
=============================================================================
