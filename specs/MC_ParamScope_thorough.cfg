SPECIFICATION Spec
CONSTANTS
  Edges = {"a", "b", "c"}
  Vals = {1, 2, 3}
  Mprobs = {1, 2}
  Alns = {1, 2}
INVARIANT TypeOK
INVARIANT Partitioned
PROPERTY OutsideUntouched
