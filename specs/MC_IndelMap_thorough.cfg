SPECIFICATION Spec
CONSTANTS
  MaxLen = 8
  MaxBin = 7
  Scales = {1, 2, 3, 4}
  SegsLen = 7
  MaxSegs = 3
  EmptySegsUpTo = 5
INVARIANT TypeOK
INVARIANT CanonRoundTrip
INVARIANT InParent
INVARIANT SliceConcatLaw
INVARIANT ReverseLaw
INVARIANT IndexLaw
INVARIANT MergeLaw
INVARIANT MinusLaw
INVARIANT JoinLaw
PROPERTY ReadOnlyOpsPreserveReceiver
PROPERTY DropPreservesReceiver
