------------------------------ MODULE Alignment ------------------------------
(* Property C03: operations on cogent3 alignments / sequence collections      *)
(* equal the same operations done on the named, gapped strings.               *)
(*                                                                            *)
(* Abstract state: an ordered list of named rows, every row a sequence of     *)
(* cells.  A cell carries the character it shows (ch) and the identity of the *)
(* cell of the initial matrix it descends from (s = <<row, col>>).  Every     *)
(* public operation is defined on that matrix ("do it to the strings"); the   *)
(* harness builds real Alignment and ArrayAlignment objects from the initial  *)
(* strings, applies the real call for every transition and requires           *)
(* names / to_dict() / len() / get_gapped_seq() to equal the successor.       *)
(* The class of the real object (annotatable / array backed) is NOT state:    *)
(* both are driven in lock-step and must project onto the same rows.          *)
(*                                                                            *)
(* Every action XT carries only the guards that make the call VALID (indices  *)
(* in range, names present); the small argument families TLC enumerates live  *)
(* in Next, so that Trace_Alignment can validate recorded calls with any      *)
(* valid argument against the same XT.                                        *)
(*                                                                            *)
(* kind: "start" (nothing built yet), "aln" (rectangular), "coll" (degapped   *)
(* sequence collection, ragged), "void" (the call produced no object:         *)
(* cogent3 returns None / {} when no column / no sequence is left).           *)
EXTENDS Integers, Sequences, FiniteSets, TLC, Emit

CONSTANTS ShapeIds,   \* subset of DOMAIN ShapeTab \cup DOMAIN MissingTab: ALL class layouts of these shapes are initial alignments
          PickedIds,  \* subset of DOMAIN Picked: hand-picked larger layouts
          Mols,       \* molecular types of the initial alignment: subset of {"dna","rna","protein"}
          MaxDepth,   \* histories of at most this many operations
          MaxLen,     \* concatenation / sampling never grows an alignment beyond this many columns
          Forms,      \* spellings of slice arguments: subset of {"plain","open","neg","over"}
          PairFamily, \* "cuts" or "all": which pairs of slices of ONE object are concatenated (ConcatSlices)
          ColFamily   \* "small" or "tuples": whether take_positions also gets every ordered / repeating index tuple

VARIABLES kind, mol, rows, base, depth
vars == <<kind, mol, rows, base, depth>>

-----------------------------------------------------------------------------
(* Symbols                                                                    *)
Gap == "-"
(* the missing-data symbol: a member of moltype.gaps (with "-") and an ambiguity code, but *)
(* NOT the gap character.  Following the docstrings (and both classes on the unchanged    *)
(* tree): omit_gap_pos counts it as a gap, degap removes it, no_degenerates always drops  *)
(* it (allow_gap admits "-" only), get_degapped_relative_to keeps it, rc leaves it alone. *)
Missing == "?"
GapLike(ch) == ch \in {Gap, Missing}
(* (false alarm corrected during the build: a first version listed only 10 of *)
(*  the 20 amino acids as canonical, so no_degenerates on random protein rows  *)
(*  was wrongly predicted to drop columns)                                     *)
CanonSeq(m) == CASE m = "dna" -> <<"A", "C", "G", "T">>
                 [] m = "rna" -> <<"A", "C", "G", "U">>
                 [] m = "protein" -> <<"A", "C", "D", "E", "F", "G", "H", "I", "K", "L", "M", "N", "P", "Q", "R", "S", "T", "V", "W", "Y">>
DegenSeq(m) == IF m = "protein" THEN <<"B", "Z", "X">>
               ELSE <<"R", "Y", "K", "M", "B", "D", "H", "V", "N", "W", "S">>
SeqRange(s) == {s[i] : i \in 1..Len(s)}
Canon(m) == SeqRange(CanonSeq(m))

(* IUPAC complement; A pairs with T in DNA and with U in RNA *)
Compl(m, ch) ==
    CASE ch = "A" -> (IF m = "rna" THEN "U" ELSE "T")
      [] ch = "T" -> "A" [] ch = "U" -> "A"
      [] ch = "C" -> "G" [] ch = "G" -> "C"
      [] ch = "R" -> "Y" [] ch = "Y" -> "R"
      [] ch = "K" -> "M" [] ch = "M" -> "K"
      [] ch = "B" -> "V" [] ch = "V" -> "B"
      [] ch = "D" -> "H" [] ch = "H" -> "D"
      [] OTHER -> ch                      \* N W S - are their own complement
ToMol(m, ch) == IF m = "rna" /\ ch = "T" THEN "U"
                ELSE IF m = "dna" /\ ch = "U" THEN "T" ELSE ch

(* the concrete symbol that instantiates class cls at matrix position (r,c) *)
Sym(m, cls, r, c) ==
    CASE cls = "g" -> Gap
      [] cls = "m" -> Missing
      [] cls = "c" -> CanonSeq(m)[((r + c) % Len(CanonSeq(m))) + 1]
      [] cls = "d" -> DegenSeq(m)[((3 * r + c) % Len(DegenSeq(m))) + 1]

Names == <<"nb", "na", "nc">>      \* deliberately not in sorted order

-----------------------------------------------------------------------------
(* Initial layouts (matrices over the classes canonical / degenerate / gap)   *)
Classes == {"c", "d", "g"}
AllLayouts(nr, nc) == [1..nr -> [1..nc -> Classes]]
(* layouts over canonical / gap / missing with at least one missing cell *)
MissingLayouts(nr, nc) == {L \in [1..nr -> [1..nc -> {"c", "g", "m"}]] : \E r \in 1..nr, c \in 1..nc : L[r][c] = "m"}
Picked ==
  [ p1 |-> << <<"c","g","g","c">>, <<"g","d","m","g">>, <<"m","c","g","d">> >>,   \* internal run; leading+trailing; gap column pair; '?' next to gaps
    p2 |-> << <<"g","g","c","d">>, <<"c","g","g","g">>, <<"d","g","m","c">> >>,   \* leading run; trailing run; all-gap column
    p3 |-> << <<"g","g","g","g">>, <<"c","d","c","c">>, <<"c","c","g","c">> >>,   \* all-gap row
    p4 |-> << <<"c","g","m","g","c">>, <<"g","c","d","m","g">> >>,                \* alternating gaps, 2 x 5
    p5 |-> << <<"c","d","c">>, <<"c","c","c">>, <<"d","c","c">> >>,               \* no gap at all
    p6 |-> << <<"d","g","g","c","c">> >>,                                          \* single row
    p7 |-> << <<"c","m","g","g","c","c">>, <<"g","c","c","d","g","g">> >>         \* 2 x 6, runs of two
  ]
ShapeTab == [s1x2 |-> <<1, 2>>, s1x3 |-> <<1, 3>>, s1x4 |-> <<1, 4>>, s2x1 |-> <<2, 1>>, s2x2 |-> <<2, 2>>, s2x3 |-> <<2, 3>>,
             s3x1 |-> <<3, 1>>, s3x2 |-> <<3, 2>>, s2x4 |-> <<2, 4>>, s3x3 |-> <<3, 3>>]
MissingTab == [q1x2 |-> <<1, 2>>, q1x3 |-> <<1, 3>>, q2x2 |-> <<2, 2>>, q2x3 |-> <<2, 3>>]
Layouts == UNION {AllLayouts(ShapeTab[sh][1], ShapeTab[sh][2]) : sh \in ShapeIds \cap DOMAIN ShapeTab}
           \cup UNION {MissingLayouts(MissingTab[sh][1], MissingTab[sh][2]) : sh \in ShapeIds \cap DOMAIN MissingTab} \cup {Picked[p] : p \in PickedIds}

MakeRows(L, m) ==
    [r \in 1..Len(L) |->
        [name |-> Names[r],
         cells |-> [c \in 1..Len(L[r]) |-> [s |-> <<r, c>>, ch |-> Sym(m, L[r][c], r, c)]]]]

-----------------------------------------------------------------------------
(* Pure operations on a list of rows                                          *)
NRows(rs) == Len(rs)
NCols(rs) == IF Len(rs) = 0 THEN 0 ELSE Len(rs[1].cells)
RowNames(rs) == [i \in 1..Len(rs) |-> rs[i].name]
Range0(a, b) == [k \in 1..(IF b > a THEN b - a ELSE 0) |-> a + k - 1]     \* <<a, ..., b-1>>
Rev(s) == [k \in 1..Len(s) |-> s[Len(s) + 1 - k]]

MapCells(rs, F(_)) == [i \in 1..Len(rs) |-> [name |-> rs[i].name, cells |-> F(rs[i].cells)]]

(* columns idx (0-based, any order, repeats allowed) *)
TakeCols(rs, idx) == MapCells(rs, LAMBDA cs : [k \in 1..Len(idx) |-> cs[idx[k] + 1]])
(* all columns except those in the set cols *)
DropCols(rs, cols) == TakeCols(rs, SelectSeq(Range0(0, NCols(rs)), LAMBDA i : i \notin cols))
SliceRows(rs, a, b) == TakeCols(rs, Range0(a, b))
StrideIdx(a, b, k) == [j \in 1..(IF b > a THEN (b - a + k - 1) \div k ELSE 0) |-> a + (j - 1) * k]

RcRows(rs, m) == MapCells(rs, LAMBDA cs : [k \in 1..Len(cs) |->
                     [s |-> cs[Len(cs) + 1 - k].s, ch |-> Compl(m, cs[Len(cs) + 1 - k].ch)]])
ToMolRows(rs, m) == MapCells(rs, LAMBDA cs : [k \in 1..Len(cs) |-> [s |-> cs[k].s, ch |-> ToMol(m, cs[k].ch)]])
DegapRows(rs) == MapCells(rs, LAMBDA cs : SelectSeq(cs, LAMBDA x : ~GapLike(x.ch)))

(* rows named by the index list ix (1-based positions in rs), in that order *)
TakeRows(rs, ix) == [k \in 1..Len(ix) |-> rs[ix[k]]]
DropRows(rs, ixs) == TakeRows(rs, SelectSeq([k \in 1..Len(rs) |-> k], LAMBDA i : i \notin ixs))

ConcatRows(rs, os) == [i \in 1..Len(rs) |->
    [name |-> rs[i].name,
     cells |-> rs[i].cells \o (LET j == CHOOSE j \in 1..Len(os) : os[j].name = rs[i].name IN os[j].cells)]]

(* motifs: consecutive blocks of ml columns; a trailing remainder is dropped *)
NMotifs(rs, ml) == NCols(rs) \div ml
MotifCols(locs, ml) == [k \in 1..(Len(locs) * ml) |-> locs[((k - 1) \div ml) + 1] * ml + ((k - 1) % ml)]
Block(rs, i, ml) == [r \in 1..Len(rs) |-> [k \in 1..ml |-> rs[r].cells[i * ml + k].ch]]
BlockCells(blk) == {<<r, k>> : r \in DOMAIN blk, k \in DOMAIN blk[1]}
KeepMotifs(rs, ml, P(_)) ==
    TakeCols(rs, MotifCols(SelectSeq(Range0(0, NMotifs(rs, ml)), LAMBDA i : P(Block(rs, i, ml))), ml))

GapCount(blk) == Cardinality({x \in BlockCells(blk) : GapLike(blk[x[1]][x[2]])})     \* moltype.gaps
DashCount(blk) == Cardinality({x \in BlockCells(blk) : blk[x[1]][x[2]] = Gap})
(* fraction of gap characters in the block <= the allowed fraction, exactly.  The allowed      *)
(* fraction is num/den ("exact"), or a value a hair (1e-12) below / above it: the documented     *)
(* idiom for a strict threshold.  Attainable fractions k/cells differ by far more than that, so  *)
(* "below" means  fraction < num/den  and "above" means  fraction <= num/den -- no tolerance.    *)
GapsOk(blk, num, den, hair) ==
    IF hair = "below" THEN GapCount(blk) * den < num * Cardinality(BlockCells(blk))
    ELSE GapCount(blk) * den <= num * Cardinality(BlockCells(blk))
NoDegen(blk, m, allowgap) ==
    \A x \in BlockCells(blk) : blk[x[1]][x[2]] \in Canon(m) \/ (allowgap /\ blk[x[1]][x[2]] = Gap)
Pred(name, blk) ==
    CASE name = "nogap"     -> DashCount(blk) = 0          \* the harness predicates look for "-" only
      [] name = "row1nogap" -> \A k \in DOMAIN blk[1] : blk[1][k] # Gap
      [] name = "true"      -> TRUE

-----------------------------------------------------------------------------
(* Argument families (kept small: the history, not the argument, is varied)   *)
Thresholds == {<<0, 1, "exact">>, <<1, 3, "exact">>, <<1, 2, "exact">>, <<2, 3, "exact">>, <<1, 1, "exact">>,
               <<999999, 1000000, "exact">>,                        \* = the documented default 1 - eps: the argument is LEFT OUT
               <<1, 3, "below">>, <<1, 2, "below">>, <<2, 3, "below">>, <<1, 1, "below">>, <<1, 2, "above">>}
Thresholds2 == {<<0, 1, "exact">>, <<1, 2, "exact">>, <<999999, 1000000, "exact">>, <<1, 2, "below">>, <<1, 1, "below">>}   \* with motif_length 2
Preds == {"nogap", "row1nogap", "true"}

SlicePairs(n) == {<<a, b>> \in (0..n) \X (0..n) : a <= b} \cup (IF n >= 1 THEN {<<n, 0>>, <<n, n - 1>>} ELSE {})
FormOK(a, b, f, n) ==
    CASE f = "plain" -> TRUE
      [] f = "open"  -> a <= b /\ (a = 0 \/ b = n)          \* None in place of 0 / len
      [] f = "neg"   -> a <= b /\ a < n /\ b < n             \* a - len, b - len
      [] f = "over"  -> a <= b /\ b = n                      \* stop beyond the end: len + 2
      [] OTHER -> FALSE

ColLists(n) ==
    {<<i>> : i \in 0..(n - 1)} \cup {<<>>, Rev(Range0(0, n)), StrideIdx(0, n, 2), StrideIdx(1, n, 2)}
    \cup (IF n >= 2 THEN {<<n - 1, 0>>, <<0, 0>>} ELSE {})

(* ORDERED index sequences for take_positions: every tuple of length 3 (with repeats) over a   *)
(* window of columns and every permutation of (up to) 4 columns -- the requested order and      *)
(* multiplicity of columns must be honoured: result row = <<row[c] : c in cols>> in that order. *)
Injective(f) == \A i, j \in DOMAIN f : f[i] = f[j] => i = j
ColTuplesTab ==
    [n \in 0..MaxLen |->
        IF ColFamily = "small" \/ n = 0 THEN {}
        ELSE LET W == IF n <= 4 THEN {0..(n - 1)} ELSE {0..2, (n - 3)..(n - 1)}
                 PS == IF n <= 4 THEN 0..(n - 1) ELSE 1..4
             IN UNION {[1..3 -> w] : w \in W} \cup {f \in [1..Cardinality(PS) -> PS] : Injective(f)}]
ColTuples(n) == IF n \in 0..MaxLen THEN ColTuplesTab[n] ELSE {}
(* the container the index sequence is handed over in (same meaning): list, tuple, numpy array *)
ColForms == <<"list", "tuple", "array">>
ColForm(cols) == ColForms[((Len(cols) + (IF Len(cols) > 0 THEN cols[1] + 2 * cols[Len(cols)] ELSE 0)) % 3) + 1]

RowLists(r) ==   \* positions of the current rows, in the order requested
    {<<i>> : i \in 1..r} \cup {<<x[1], x[2]>> : x \in {y \in (1..r) \X (1..r) : y[1] # y[2]}} \cup {f \in [1..r -> 1..r] : Injective(f)}     \* every order of all rows
RowSets(r) == {{}} \cup {{i} : i \in 1..r} \cup {1..r}

(* pairs <<a,b,c,d>> of slices [a:b], [c:d] of the same object, for x[a:b] + x[c:d].        *)
(* "all": every pair (empty, overlapping, swapped, nested ...).  "cuts": the non-empty pairs  *)
(* that meet at a cut -- in display order (b = c), swapped (d = a), swapped with one column   *)
(* shared (d = a + 1) or one column skipped (d = a - 1); these are the pairs whose residues    *)
(* can be neighbours in the underlying sequence when a row is all gap in between.              *)
SliceQuads(n) ==
    LET S == {p \in (0..n) \X (0..n) : p[1] <= p[2]}
        All == {<<p[1], p[2], q[1], q[2]>> : p \in S, q \in S}
    IN IF PairFamily = "all" THEN All
       ELSE {x \in All : x[1] < x[2] /\ x[3] < x[4]
                          /\ (x[2] = x[3] \/ x[4] = x[1] \/ x[4] = x[1] + 1 \/ x[4] + 1 = x[1])}

ReplLocs(p) == IF p = 0 THEN {} ELSE {<<p - 1, 0, 0>>, <<0>>} \cup (IF p >= 2 THEN {<<1, 1>>} ELSE {})
                                       \cup (IF p >= 3 THEN {<<0, 2, 1>>, <<0, 1, 1, 2>>} ELSE {})   \* interior permuted / repeated
Perms(p) == IF p = 0 THEN {} ELSE {Rev(Range0(0, p)), [k \in 1..p |-> k % p]}
                                  \cup (IF p >= 3 THEN {[k \in 1..p |-> IF k = 2 THEN 2 ELSE IF k = 3 THEN 1 ELSE k - 1]} ELSE {})  \* 0,2,1,3,..

Nucleic == mol \in {"dna", "rna"}
N == NCols(rows)
R == NRows(rows)

-----------------------------------------------------------------------------
St  == [kind |-> kind, mol |-> mol,
        rows |-> [i \in 1..Len(rows) |-> <<rows[i].name, [j \in 1..Len(rows[i].cells) |-> rows[i].cells[j].ch]>>]]
StP == [kind |-> kind', mol |-> mol',
        rows |-> [i \in 1..Len(rows') |-> <<rows'[i].name, [j \in 1..Len(rows'[i].cells) |-> rows'[i].cells[j].ch]>>]]
Log(act, args) == Emit([from |-> St, act |-> act, args |-> args, to |-> StP])

Set(k, m, rs) == kind' = k /\ mol' = m /\ rows' = rs /\ depth' = depth + 1 /\ UNCHANGED base
Void == Set("void", mol, <<>>)
(* an alignment-valued result; when no column is left cogent3 answers None, an *)
(* alignment with rows of length 0 is the other reading of "the same on strings" *)
Filtered(rs) == IF NCols(rs) = 0 THEN Void \/ Set("aln", mol, rs) ELSE Set("aln", mol, rs)

Init == kind = "start" /\ mol = "dna" /\ rows = <<>> /\ base = <<>> /\ depth = 0

MakeT(L, m) == /\ kind = "start"
               /\ kind' = "aln" /\ mol' = m /\ rows' = MakeRows(L, m) /\ base' = MakeRows(L, m) /\ depth' = 0
Make(L, m) == MakeT(L, m) /\ Log("Make", <<L, m>>)

Aln == kind = "aln" /\ depth < MaxDepth
Coll == kind = "coll" /\ depth < MaxDepth

(* aln[a:b]; f is the spelling of the same slice *)
SliceT(a, b, f) == Aln /\ a \in 0..N /\ b \in 0..N /\ FormOK(a, b, f, N) /\ Set("aln", mol, SliceRows(rows, a, b))
Slice(a, b, f) == SliceT(a, b, f) /\ Log("Slice", <<a, b, f>>)

(* aln[i] (f = "neg": aln[i - len]) *)
IndexT(i, f) == Aln /\ i \in 0..(N - 1) /\ f \in {"plain", "neg"} /\ Set("aln", mol, SliceRows(rows, i, i + 1))
Index(i, f) == IndexT(i, f) /\ Log("Index", <<i, f>>)

(* aln[a::k] ; k = 0 stands for aln[::-1] *)
StrideT(a, k) == /\ Aln /\ a \in 0..N /\ (k = 0 => a = 0)
                 /\ Set("aln", mol, TakeCols(rows, IF k = 0 THEN Rev(Range0(0, N)) ELSE StrideIdx(a, N, k)))
Stride(a, k) == StrideT(a, k) /\ Log("Stride", <<a, k>>)

RcT == (Aln \/ Coll) /\ Nucleic /\ Set(kind, mol, RcRows(rows, mol))
Rc == RcT /\ Log("Rc", <<>>)

TakePositionsT(cols, neg, form) ==
    /\ Aln /\ SeqRange(cols) \subseteq 0..(N - 1) /\ form \in SeqRange(ColForms)
    /\ Set("aln", mol, IF neg THEN DropCols(rows, SeqRange(cols)) ELSE TakeCols(rows, cols))
TakePositions(cols, neg, form) == TakePositionsT(cols, neg, form) /\ Log("TakePositions", <<cols, neg, form>>)

(* take_seqs(names): rows in the order given; nothing left -> {} *)
TakeSeqsT(ix) == /\ (Aln \/ Coll) /\ Len(ix) >= 1 /\ SeqRange(ix) \subseteq 1..R /\ Cardinality(SeqRange(ix)) = Len(ix)
                 /\ Set(kind, mol, TakeRows(rows, ix))
TakeSeqs(ix) == TakeSeqsT(ix) /\ Log("TakeSeqs", <<RowNames(TakeRows(rows, ix)), FALSE>>)
TakeSeqsNegT(ixs) == /\ (Aln \/ Coll) /\ ixs \subseteq 1..R
                     /\ IF ixs = 1..R THEN Void ELSE Set(kind, mol, DropRows(rows, ixs))
TakeSeqsNeg(ixs) == TakeSeqsNegT(ixs)
                    /\ Log("TakeSeqs", <<RowNames(TakeRows(rows, SelectSeq([k \in 1..R |-> k], LAMBDA i : i \in ixs))), TRUE>>)

OmitGapPosT(thr, ml) ==
    /\ Aln /\ ml >= 1 /\ thr[2] >= 1 /\ thr[3] \in {"exact", "below", "above"}
    /\ Filtered(KeepMotifs(rows, ml, LAMBDA blk : GapsOk(blk, thr[1], thr[2], thr[3])))
OmitGapPos(thr, ml) == OmitGapPosT(thr, ml) /\ Log("OmitGapPos", <<thr[1], thr[2], thr[3], ml>>)

NoDegeneratesT(ml, ag) ==
    /\ Aln /\ ml >= 1
    /\ Filtered(KeepMotifs(rows, ml, LAMBDA blk : NoDegen(blk, mol, ag)))
NoDegenerates(ml, ag) == NoDegeneratesT(ml, ag) /\ Log("NoDegenerates", <<ml, ag>>)

FilteredPT(p, ml) ==
    /\ Aln /\ p \in Preds /\ ml >= 1
    /\ Filtered(KeepMotifs(rows, ml, LAMBDA blk : Pred(p, blk)))
FilteredP(p, ml) == FilteredPT(p, ml) /\ Log("Filtered", <<p, ml>>)

(* get_degapped_relative_to(name): columns where that row shows no gap *)
DegapRelT(i) ==
    /\ Aln /\ i \in 1..R
    /\ Set("aln", mol, TakeCols(rows, SelectSeq(Range0(0, N), LAMBDA c : rows[i].cells[c + 1].ch # Gap)))
DegapRel(i) == DegapRelT(i) /\ Log("DegapRel", <<rows[i].name>>)

(* sample(n=len(locs), with_replacement=True, motif_length=ml, randint=locs) *)
SampleReplT(locs, ml) ==
    /\ Aln /\ ml >= 1 /\ Len(locs) >= 1 /\ SeqRange(locs) \subseteq 0..(NMotifs(rows, ml) - 1) /\ Len(locs) * ml <= MaxLen
    /\ Set("aln", mol, TakeCols(rows, MotifCols(locs, ml)))
SampleRepl(locs, ml) == SampleReplT(locs, ml) /\ Log("SampleRepl", <<locs, ml>>)
(* sample(n=k, motif_length=ml, permutation=perm): the first k motifs of the permutation *)
SamplePermT(perm, k, ml) ==
    /\ Aln /\ ml >= 1 /\ Len(perm) = NMotifs(rows, ml) /\ SeqRange(perm) = 0..(Len(perm) - 1) /\ k \in 1..Len(perm)
    /\ Set("aln", mol, TakeCols(rows, MotifCols(SubSeq(perm, 1, k), ml)))
SamplePerm(perm, k, ml) == SamplePermT(perm, k, ml) /\ Log("SamplePerm", <<perm, k, ml>>)

(* self + other, other derived from self: itself, a fresh object with the same rows, its reverse *)
(* complement, the same rows asked for in reverse name order, its first / last column            *)
Other(w) == CASE w = "self" -> rows [] w = "fresh" -> rows [] w = "reorder" -> Rev(rows)
              [] w = "rc" -> RcRows(rows, mol)
              [] w = "first" -> SliceRows(rows, 0, 1)
              [] w = "last" -> SliceRows(rows, N - 1, N)
ConcatT(w) ==
    /\ Aln /\ w \in {"self", "fresh", "reorder", "rc", "first", "last"}
    /\ (w = "rc" => Nucleic) /\ (w \in {"first", "last"} => N >= 1)
    /\ N + NCols(Other(w)) <= MaxLen
    /\ Set("aln", mol, ConcatRows(rows, Other(w)))
Concat(w) == ConcatT(w) /\ Log("Concat", <<w>>)

(* x[a:b] + x[c:d]: BOTH operands are views of the same object (same underlying sequences, *)
(* same strand), in any order; the result is the column-wise concatenation of the strings  *)
ConcatSlicesT(a, b, c, d) ==
    /\ Aln /\ a \in 0..N /\ b \in a..N /\ c \in 0..N /\ d \in c..N
    /\ (b - a) + (d - c) <= MaxLen
    /\ Set("aln", mol, ConcatRows(SliceRows(rows, a, b), SliceRows(rows, c, d)))
ConcatSlices(a, b, c, d) == ConcatSlicesT(a, b, c, d) /\ Log("ConcatSlices", <<a, b, c, d>>)

ToTypeT(arr) == Aln /\ arr \in BOOLEAN /\ Set("aln", mol, rows)
ToType(arr) == ToTypeT(arr) /\ Log("ToType", <<arr>>)

ToMolT(m) == (Aln \/ Coll) /\ Nucleic /\ m \in {"dna", "rna"} /\ Set(kind, m, ToMolRows(rows, m))
ToMolA(m) == ToMolT(m) /\ Log(IF m = "rna" THEN "ToRna" ELSE "ToDna", <<>>)

DegapT == (Aln \/ Coll) /\ Set("coll", mol, DegapRows(rows))
Degap == DegapT /\ Log("Degap", <<>>)

DeepCopyT(sl) == (Aln \/ Coll) /\ sl \in BOOLEAN /\ Set(kind, mol, rows)
DeepCopy(sl) == DeepCopyT(sl) /\ Log("DeepCopy", <<sl>>)

(* Aliasing: the caller goes on using what it handed over to the call that made this object *)
(* (it sorts / reverses / extends the list of names or columns, overwrites the index array), *)
(* or modifies what an observer gave back (the dict of to_dict(), the list of seqs, the gap   *)
(* array).  Neither is an operation on the alignment: every object made so far must read as  *)
(* before -- a stuttering step for the rows.                                                  *)
CallerReusesT(w) == (Aln \/ Coll) /\ w \in {"args", "returned"} /\ Set(kind, mol, rows)
CallerReuses(w) == CallerReusesT(w) /\ Log("CallerReuses", <<w>>)

Next ==
    \/ \E L \in Layouts, m \in Mols : Make(L, m)
    \/ \E w \in {"args", "returned"} : CallerReuses(w)
    \/ \E p \in SlicePairs(N), f \in Forms : Slice(p[1], p[2], f)
    \/ \E i \in 0..MaxLen, f \in Forms : Index(i, f)
    \/ \E a \in {0, 1} \cap (0..N), k \in {0, 2} : Stride(a, k)
    \/ Rc
    \/ \E cols \in ColLists(N), neg \in BOOLEAN : TakePositions(cols, neg, ColForm(cols))
    \/ \E cols \in ColTuples(N) : TakePositions(cols, FALSE, ColForm(cols))
    \/ \E ix \in RowLists(R) : TakeSeqs(ix)
    \/ \E ixs \in RowSets(R) : TakeSeqsNeg(ixs)
    \/ \E thr \in Thresholds, ml \in {1, 2} : (ml = 2 => thr \in Thresholds2) /\ OmitGapPos(thr, ml)
    \/ \E ml \in {1, 2}, ag \in BOOLEAN : NoDegenerates(ml, ag)
    \/ \E p \in Preds, ml \in {1, 2} : (p = "true" => ml = 2) /\ FilteredP(p, ml)
    \/ \E i \in 1..R : DegapRel(i)
    \/ \E ml \in {1, 2} : \E locs \in ReplLocs(NMotifs(rows, ml)) : SampleRepl(locs, ml)
    \/ \E ml \in {1, 2} : \E perm \in Perms(NMotifs(rows, ml)) : \E k \in {1, Len(perm)} : SamplePerm(perm, k, ml)
    \/ \E w \in {"self", "fresh", "reorder", "rc", "first", "last"} : Concat(w)
    \/ \E q \in SliceQuads(N) : ConcatSlices(q[1], q[2], q[3], q[4])
    \/ \E arr \in BOOLEAN : ToType(arr)
    \/ \E m \in {"dna", "rna"} : ToMolA(m)
    \/ Degap
    \/ \E sl \in BOOLEAN : DeepCopy(sl)

Spec == Init /\ [][Next]_vars

-----------------------------------------------------------------------------
(* Design-level properties of the model itself                                *)
TypeOK == /\ kind \in {"start", "aln", "coll", "void"}
          /\ mol \in {"dna", "rna", "protein"}
          /\ depth \in 0..MaxDepth
          /\ \A i \in 1..Len(rows) : rows[i].name \in SeqRange(Names)

(* rows of an alignment always have equal length *)
Rectangular == kind = "aln" => \A i \in 1..Len(rows) : Len(rows[i].cells) = NCols(rows)

UniqueNames == \A i, j \in 1..Len(rows) : rows[i].name = rows[j].name => i = j

(* no character is invented or moved to another row, and none is altered      *)
(* other than by complementing or the T/U exchange                            *)
Variants(ch) == {ch, Compl("dna", ch), Compl("rna", ch), ToMol("rna", ch), ToMol("dna", ch),
                 ToMol("rna", Compl("dna", ch)), ToMol("dna", Compl("rna", ch))}
NoCellInvented ==
    \A i \in 1..Len(rows) : \A j \in 1..Len(rows[i].cells) :
        LET x == rows[i].cells[j] IN
        /\ x.s[1] \in 1..Len(base) /\ x.s[2] \in 1..Len(base[x.s[1]].cells)
        /\ base[x.s[1]].name = rows[i].name
        /\ x.ch \in Variants(base[x.s[1]].cells[x.s[2]].ch)
        /\ (x.ch = Gap) = (base[x.s[1]].cells[x.s[2]].ch = Gap)
        /\ (x.ch = Missing) = (base[x.s[1]].cells[x.s[2]].ch = Missing)

(* algebra of the operations, as sanity of the definitions *)
RcInvolution == (kind \in {"aln", "coll"} /\ Nucleic) => RcRows(RcRows(rows, mol), mol) = rows
SliceCommutesWithTakeSeqs ==
    kind = "aln" => \A p \in SlicePairs(N) : \A ix \in RowLists(R) :
        SliceRows(TakeRows(rows, ix), p[1], p[2]) = TakeRows(SliceRows(rows, p[1], p[2]), ix)
RcOfSliceIsSliceOfRc ==
    (kind = "aln" /\ Nucleic) => \A p \in SlicePairs(N) : p[1] <= p[2] =>
        RcRows(SliceRows(rows, p[1], p[2]), mol) = SliceRows(RcRows(rows, mol), N - p[2], N - p[1])
ConcatOfCutIsIdentity ==
    kind = "aln" => \A k \in 0..N : ConcatRows(SliceRows(rows, 0, k), SliceRows(rows, k, N)) = rows
NegateKeepsTheOthers ==
    kind = "aln" => \A cols \in ColLists(N) :
        NCols(DropCols(rows, SeqRange(cols))) + Cardinality(SeqRange(cols)) = N
=============================================================================
