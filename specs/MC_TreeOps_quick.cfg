SPECIFICATION Spec
CONSTANTS
  MinTips = 2
  MaxTips = 4
  ExhaustNodes = 4
  Patterns = {2}
  Ops = {"NewickRT", "NewickNamesRT", "NewickDefaultRT", "JsonRT", "RichDictRT", "Copy", "DeepCopy", "CopyModule", "DndRT", "Sorted", "SortedRev", "RootedAt", "RootedWithTip", "Unrooted", "SubTree", "RootAtMidpoint", "Prune", "Bifurcating", "Query"}
  TipsOnlyVals = {FALSE, TRUE}
  ShapeMod = 1
  ShapeRem = 0
  MaxLevel = 99
INVARIANT TreeOK
INVARIANT NamesUnique
PROPERTY CreatedNameIsFresh
PROPERTY StepPreserves
PROPERTY TipsIntended
PROPERTY MidpointCentred
PROPERTY RerootLandsThere
PROPERTY UnrootedDegree
INVARIANT ConnectingEdgesSpanThePath
INVARIANT ConnectingEdgesReverse
INVARIANT LCAIsLowest
INVARIANT CladeIsTheFarSideOfItsStem
PROPERTY CladeWithOutgroupIsRootFree
