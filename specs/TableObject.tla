---------------------------- MODULE TableObject ----------------------------
(* Property C20, histories on ONE Table object.                               *)
(*                                                                            *)
(* Table.tla checks every operation that returns a NEW table.  A Table object *)
(* itself is not immutable: nominating an index column moves that column to   *)
(* the front of the header, a column can be assigned or deleted through       *)
(* table.columns, and reading the table (array, to_dict, sum_rows, a write to *)
(* a file) may populate caches inside the object.  In the list-of-rows model  *)
(* the table is  header + rows (+ the name of the index column) ; an          *)
(* observation never changes it and a header re-ordering permutes every row   *)
(* with it.                                                                   *)
(*                                                                            *)
(* The state carries the history (the labels applied so far) so that TLC      *)
(* enumerates every sequence of calls up to MaxLen; the harness replays each  *)
(* history on a fresh real Table and compares header, to_list(), array,       *)
(* to_dict() and index_name with the model after the last call (and, in a     *)
(* second variant, after every call).                                         *)
EXTENDS Naturals, FiniteSets, Sequences, SequencesExt, TLC, Emit

CONSTANTS MaxLen,        \* longest history
          Formats        \* file formats used by the WriteLoad observation

VARIABLES init,          \* the table the object was built from (never changes)
          header, rows,  \* the list-of-rows model of the object now
          index,         \* "" or the name of the index column
          hist,          \* labels applied so far: <<act, args>>
          ret            \* outcome / observation of the last call

vars == <<init, header, rows, index, hist, ret>>

I(s) == <<"i", s>>
S(s) == <<"s", s>>
None == <<"n", <<>>>>
Tag(c) == c[1]
Txt(c) == c[2]
Digits == <<"0","1","2","3","4","5","6","7","8","9">>
DigitVal == ("0" :> 0) @@ ("1" :> 1) @@ ("2" :> 2) @@ ("3" :> 3) @@ ("4" :> 4) @@
            ("5" :> 5) @@ ("6" :> 6) @@ ("7" :> 7) @@ ("8" :> 8) @@ ("9" :> 9)
RECURSIVE DecVal(_)
DecVal(s) == IF s = <<>> THEN 0 ELSE 10 * DecVal(SubSeq(s, 1, Len(s) - 1)) + DigitVal[s[Len(s)]]
RECURSIVE DecText(_)
DecText(n) == IF n < 10 THEN <<Digits[n + 1]>> ELSE DecText(n \div 10) \o <<Digits[(n % 10) + 1]>>

Map(s, Op(_)) == [i \in 1..Len(s) |-> Op(s[i])]
Idx(h, name) == CHOOSE i \in 1..Len(h) : h[i] = name
ColOf(h, rs, name) == [i \in 1..Len(rs) |-> rs[i][Idx(h, name)]]
Project(h, rs, cols) == Map(rs, LAMBDA r : [k \in 1..Len(cols) |-> r[Idx(h, cols[k])]])

Tables ==
    {[header |-> <<"s", "k", "u">>,
      rows   |-> << <<S(<<"x", ",", "y">>), I(<<"3">>), S(<<"k", "1">>)>>,
                    <<S(<<"a">>),           I(<<"1">>), S(<<"k", "2">>)>>,
                    <<S(<<"x", ",", "y">>), I(<<"2">>), S(<<"k", "3">>)>> >>],
     [header |-> <<"k", "s">>,
      rows   |-> << <<I(<<"1">>), S(<<"a">>)>>, <<I(<<"2">>), S(<<"a">>)>> >>],
     \* a missing value in a column that can be nominated as the index
     [header |-> <<"s", "m">>,
      rows   |-> << <<S(<<"a">>), I(<<"1">>)>>, <<S(<<"b">>), None>> >>]}

(* the values assigned by AssignColumn: distinct ints 7, 8, ... *)
NewValues(n) == [i \in 1..n |-> I(DecText(6 + i))]

St  == [header |-> header,  rows |-> rows,  index |-> index]
StP == [header |-> header', rows |-> rows', index |-> index']
Log(act, args) ==
    /\ hist' = Append(hist, <<act, args>>)
    /\ UNCHANGED init
    /\ Emit([init |-> init, hist |-> hist, from |-> St, act |-> act, args |-> args, to |-> StP, ret |-> ret'])

(* table.index_name = c : needs unique values; the column moves to the front *)
UniqueCol(c) == Cardinality(Range(ColOf(header, rows, c))) = Len(rows)
SetIndexT(c) ==
    IF UniqueCol(c)
    THEN LET h2 == <<c>> \o SelectSeq(header, LAMBDA x : x # c) IN
         /\ header' = h2
         /\ rows' = Project(header, rows, h2)
         /\ index' = c
         /\ ret' = "ok"
    ELSE /\ ret' = "raised" /\ UNCHANGED <<header, rows, index>>
SetIndex(c) == SetIndexT(c) /\ Log("SetIndex", <<c>>)

(* table.index_name = <a name that is not a column> : refused, like a column with repeated values. *)
(* A refused call is a stuttering step of the model: every later observation - of the object, of   *)
(* tables derived from it and of its serialised forms - equals that of an object that never saw it *)
SetIndexUnknownT == ret' = "raised" /\ UNCHANGED <<header, rows, index>>
SetIndexUnknown  == SetIndexUnknownT /\ Log("SetIndexUnknown", <<"q">>)

(* table.index_name = None : nothing moves *)
ClearIndexT == index' = "" /\ ret' = "ok" /\ UNCHANGED <<header, rows>>
ClearIndex  == ClearIndexT /\ Log("ClearIndex", <<>>)

(* table.columns[c] = values : replaces the column in place, or appends a new one *)
AssignColumnT(c) ==
    LET v == NewValues(Len(rows)) IN
    /\ ret' = "ok" /\ UNCHANGED index
    /\ IF c \in Range(header)
       THEN /\ header' = header
            /\ rows' = [i \in 1..Len(rows) |-> [rows[i] EXCEPT ![Idx(header, c)] = v[i]]]
       ELSE /\ header' = Append(header, c)
            /\ rows' = [i \in 1..Len(rows) |-> Append(rows[i], v[i])]
AssignColumn(c) == AssignColumnT(c) /\ Log("AssignColumn", <<c>>)

(* del table.columns[c] *)
DelColumnT(c) ==
    LET h2 == SelectSeq(header, LAMBDA x : x # c) IN
    /\ header' = h2 /\ rows' = Project(header, rows, h2)
    /\ ret' = "ok" /\ UNCHANGED index
DelColumn(c) == DelColumnT(c) /\ Log("DelColumn", <<c>>)

(* observations: the object is read, the model does not change *)
RowSum(r) == FoldLeft(LAMBDA acc, c : IF Tag(c) = "i" THEN acc + DecVal(Txt(c)) ELSE acc, 0, r)
(* (written with a set, not \E, so that TLC does not branch on the witness) *)
HasNumber == \A i \in 1..Len(rows) : {j \in 1..Len(rows[i]) : Tag(rows[i][j]) = "i"} # {}
ObserveT(what) ==
    /\ UNCHANGED <<header, rows, index>>
    /\ ret' = IF what = "SumRows" THEN Map(rows, RowSum) ELSE "ok"
Observe(what, args) == ObserveT(what) /\ Log(what, args)

(* observations through a DERIVED table (a new Table built from the object's persistent attributes): *)
(* filtered with a predicate that keeps every row, with_new_column adding a constant, sorted on a    *)
(* column that is already ascending.  The derived table has the object's header (plus the new        *)
(* column), rows and index_name.  These, and the JSON / pickle round trips, end a history.           *)
Ascending(c) == LET v == ColOf(header, rows, c) IN
                /\ {i \in 1..Len(v) : Tag(v[i]) # "i"} = {}
                /\ {i \in 1..(Len(v) - 1) : DecVal(Txt(v[i])) >= DecVal(Txt(v[i + 1]))} = {}
DerivedKinds == {"filtered", "with_new_column"} \cup (IF Ascending(header[1]) THEN {"sorted"} ELSE {})
Terminal == hist # <<>> /\ (\/ hist[Len(hist)][1] = "Derived"
                            \/ (hist[Len(hist)][1] = "WriteLoad" /\ hist[Len(hist)][2][1] \in {"json", "pickle"}))

Init == /\ init \in Tables
        /\ header = init.header /\ rows = init.rows /\ index = ""
        /\ hist = <<>> /\ ret = "init"

Next == /\ Len(hist) < MaxLen
        /\ ~Terminal
        /\ \/ \E c \in Range(header) : SetIndex(c)
           \/ SetIndexUnknown
           \/ \E k \in DerivedKinds : Observe("Derived", <<k, header[1]>>)
           \/ \E f \in {"json", "pickle"} : Observe("WriteLoad", <<f>>)
           \/ ClearIndex
           \/ \E c \in Range(header) \cup {"z"} : AssignColumn(c)
           \/ \E c \in Range(header) \ {index} : Len(header) > 1 /\ DelColumn(c)
           \/ Observe("Array", <<>>) \/ Observe("ToDict", <<>>)
           \/ HasNumber /\ Observe("SumRows", <<>>)     \* a row without numbers sums to nan by design
           \/ \E f \in Formats : Observe("WriteLoad", <<f>>)

Spec == Init /\ [][Next]_vars

-----------------------------------------------------------------------------
(* design-level properties of the model *)
WellFormed == /\ \A i \in 1..Len(rows) : Len(rows[i]) = Len(header)
              /\ \A i, j \in 1..Len(header) : i # j => header[i] # header[j]
              /\ index # "" => (index = header[1] /\ UniqueCol(index))

(* an observation changes nothing; a re-ordering keeps every column's values *)
ObservationsArePure ==
    [][(hist' # hist /\ hist'[Len(hist')][1] \in {"Array", "ToDict", "SumRows", "WriteLoad", "Derived"})
         => StP = St]_vars
(* a refused call changes nothing *)
RefusedIsStuttering ==
    [][(hist' # hist /\ LET l == hist'[Len(hist')] IN
                          \/ l[1] = "SetIndexUnknown"
                          \/ (l[1] = "SetIndex" /\ ~UniqueCol(l[2][1])))
         => StP = St]_vars
ReorderKeepsColumns ==
    [][(hist' # hist /\ hist'[Len(hist')][1] \in {"SetIndex", "ClearIndex"})
         => /\ Range(header') = Range(header)
            /\ \A c \in Range(header) : ColOf(header', rows', c) = ColOf(header, rows, c)]_vars
=============================================================================
