SPECIFICATION Spec
CONSTANTS
  ShapeIds = {"s2x2", "s1x3", "s2x1", "s3x1", "q2x2", "q1x3"}
  PickedIds = {"p1", "p2", "p3", "p4", "p5", "p6", "p7"}
  Mols = {"dna", "protein"}
  MaxDepth = 2
  MaxLen = 6
  Forms = {"plain", "open", "neg", "over"}
  ColFamily = "tuples"
  PairFamily = "cuts"
INVARIANT TypeOK
INVARIANT Rectangular
INVARIANT UniqueNames
INVARIANT NoCellInvented
INVARIANT RcInvolution
INVARIANT SliceCommutesWithTakeSeqs
INVARIANT RcOfSliceIsSliceOfRc
INVARIANT NegateKeepsTheOthers
INVARIANT ConcatOfCutIsIdentity
