SPECIFICATION Spec
CONSTANTS
  N = 4
  NCSets <- NCThorough
  Configs <- CurrentConfigs
INVARIANT TypeOK
INVARIANT UninterruptedCompletes
