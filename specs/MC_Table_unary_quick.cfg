SPECIFICATION Spec
CONSTANTS
  Profile = "quick"
  Group = "unary"
INVARIANT ResultShape
INVARIANT StableSortLaw
INVARIANT FilterLaw
INVARIANT UniqueLaw
INVARIANT TransposeLaw
