SPECIFICATION Spec
CONSTANTS
  NSeq = 3
  NCol = 3
  Syms = {"A", "T", "-"}
  Mode = "all"
  DiagSet = {}
  OffSize = 0
  OffMults = {}
  NCBlocks = {}
INVARIANT TypeOK
INVARIANT Symmetric
INVARIANT ZeroDiagonal
INVARIANT ClassesSymmetric
INVARIANT ScaleInvariant
INVARIANT ColumnOrderFree
INVARIANT ShortcutSound
INVARIANT ShortcutKeepsComputed
