\* self-test of the property on configurations that are part of the spec and must be REJECTED: the protocols
\* cogent3 used before the C19 repairs, the partial repairs, and an __exit__ that swallows the error of closing
\* the staged file.  Explored completely with the verdict of OutcomeOK emitted on every transition; the harness
\* requires a rejected terminal state for every one of these configurations.  Independent of the code.
SPECIFICATION Spec
CONSTANTS
  Configs <- RejectedConfigs
  PreStates = {"absent", "Old"}
INVARIANT TypeOK
