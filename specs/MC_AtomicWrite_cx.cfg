\* the transcribed current protocol against the property: TLC is EXPECTED to report a counterexample
SPECIFICATION Spec
CONSTANTS
  Configs <- CurrentConfigs
  PreStates = {"absent", "Old"}
INVARIANT Atomic
