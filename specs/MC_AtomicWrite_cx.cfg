\* self-test of the property: the protocols cogent3 used BEFORE the repairs (HistoricConfigs, part of the
\* spec) must be rejected by Atomic; TLC is expected to report a counterexample.  Independent of the code.
SPECIFICATION Spec
CONSTANTS
  Configs <- HistoricConfigs
  PreStates = {"absent", "Old"}
INVARIANT Atomic
