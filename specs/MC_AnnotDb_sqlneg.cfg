SPECIFICATION Spec
CONSTANTS
  Seqids = {"s1"}
  Biotypes = {"gene"}
  Names = {"n1"}
  Strands = {"+"}
  Attrs = {}
  MaxCoord = 6
  NSpans = {1}
  Vias = {"user"}
  MaxRecs = 0
  MaxLen = 0
  CanonFirst = FALSE
  CanonSeqid = "s1"
  CanonBiotype = "gene"
  CanonName = "n1"
  QCats = {}
  WinKinds = {"none"}
  Windows <- AllWindows
  Points <- AllPoints
  SpanChoice <- NoSpanChoice
  SubsetCats = {}
  Ops = {}
  Others <- OthersNone
  UpdateSeqids = {}
INVARIANT TypeOK
INVARIANT ConversionKeepsLength
INVARIANT OverlapIsSharing
INVARIANT ZeroLengthPartialIsInside
INVARIANT WithinImpliesPartial
INVARIANT SqlAgreesEvenOnEmptyWindows
