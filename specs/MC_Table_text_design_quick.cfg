SPECIFICATION Spec
CONSTANTS
  Profile = "quick"
  Group = "design"
INVARIANT LawCsvWriterLossless
INVARIANT LawSepFormatLossless
