SPECIFICATION CSpec
CONSTANTS
  Tips = {"a", "b", "c", "d"}
  SMod = 7
  SRem = 3
  FMod = 1
INVARIANT MajorityIsCompatible
INVARIANT GreedyExtendsStrict
INVARIANT ConsensusIsATree
INVARIANT ConsensusOfCopies
INVARIANT UnrootedIgnoresRoot
