#!/bin/sh
# Offline setup: nothing is compiled; verify the tool chain the checks rely on.
set -e
cd "$(dirname "$0")"
java -version >/dev/null 2>&1
test -f /opt/veriftools/tla/tla2tools.jar
PYTHONPATH=/repo/src /venv/bin/python -c "import cogent3, hypothesis, jsonschema" >/dev/null 2>&1
mkdir -p evidence replays
echo "setup ok"
