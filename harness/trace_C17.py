"""C17 code -> spec: seeded random call sequences on real annotation databases,
validated by TLC against AnnotDb.tla (specs/Trace_AnnotDb.tla).

The driver only *generates inputs* and logs what the real objects did; whether a
logged event is a behaviour of the specification is decided in TLA+.
"""
from __future__ import annotations

import json
import random
import re

import adb_C17 as A
from tlc import MachineryError, run_tlc

SEQIDS = ("s1", "s2")
BIOTYPES = ("gene", "CDS")
NAMES = ("n1", "n2")
STRANDS = ("+", "-")
ATTRS = (A.NOATTR, "qxa")
MAXC = 6
ROUND = ("Copy", "Pickle", "Json", "WriteLoad")


def _label(rng, via):
    """a random Add call (arguments shaped as in AnnotDb.tla)"""
    cat = {"seqid": rng.choice(SEQIDS), "biotype": rng.choice(BIOTYPES), "name": rng.choice(NAMES), "strand": rng.choice(STRANDS), "attr": rng.choice(ATTRS)}
    n = rng.choice((1, 1, 2))
    if via == "user":
        # spans are drawn independently: they may be disjoint, abut, overlap, nest or coincide
        spans = [sorted((rng.randint(0, MAXC), rng.randint(0, MAXC))) for _ in range(n)]
        if rng.random() < 0.5:
            spans.sort()
        if rng.random() < 0.3:  # the caller may pass spans in any orientation
            spans = [[b, a] for a, b in spans]
        return "AddFeature", dict(cat, via="user", spans=spans)
    # a file feature: 1-based closed first..last positions, one pair per line / join() segment, any order
    coords = [sorted((rng.randint(1, MAXC), rng.randint(1, MAXC))) for _ in range(n)]
    return "AddRow", dict(cat, coords=coords)


def _query(rng):
    q = {f: A.ANY for f in A.CATS}
    for f, dom in (("seqid", SEQIDS), ("biotype", BIOTYPES), ("name", NAMES), ("strand", STRANDS), ("attr", ("qxa",))):
        if rng.random() < 0.3:
            q[f] = rng.choice(dom)
    q.update(win="none", start=0, stop=0, partial=False)
    r = rng.random()
    if r < 0.5:
        a, b = sorted((rng.randint(0, MAXC), rng.randint(0, MAXC)))
        partial = rng.random() < 0.5
        if partial and a == b:
            partial = False
        q.update(win="both", start=a, stop=b, partial=partial)
    elif r < 0.6:
        q.update(win="start", start=rng.randint(0, MAXC))
    elif r < 0.7:
        q.update(win="stop", stop=rng.randint(0, MAXC))
    return q


def logged(db):
    out = []
    for r in db.get_records_matching():
        t = A.rec8(r)
        out.append({"seqid": t[0], "biotype": t[1], "name": t[2], "strand": t[3], "attr": t[4], "spans": [list(s) for s in t[5]], "start": t[6], "stop": t[7]})
    return out


def record(run, ntraces, length, workdir, report):
    """returns (traces, meta); meta[i][j] = (kind, act, args, src, txn) of event j of trace i.
    `report(key, detail, what)` is called for calls that raised (those end their trace)."""
    traces, meta = [], []
    for t in range(ntraces):
        rng = random.Random(f"{run.seed}:trace:{t}")
        kind = ("basic", "gff", "gb")[t % 3]
        db = A.classes()[kind]()
        evs, ms, paths = [], [], []
        for _step in range(length):
            r = rng.random()
            ext_ok = kind != "basic"
            if r < 0.30 or not evs:
                act, arg = _label(rng, "ext" if ext_ok and rng.random() < 0.5 else "user")
                args = [arg]
            elif r < 0.60:
                act, args = "Query", [_query(rng)]
            elif r < 0.68:
                act, args = "Subset", [_query(rng)]
            elif r < 0.84:
                act = "Union" if rng.random() < 0.5 else "Update"
                recipe = [list(_label(rng, "ext" if ext_ok and rng.random() < 0.3 else "user")) + ["fwd"] for _ in range(rng.randint(0, 2))]
                ids = [] if act == "Union" or rng.random() < 0.4 else sorted(rng.sample(SEQIDS, rng.randint(1, 2)))
                args = [[{"via": "user" if a == "AddFeature" else "ext"} for a, _g, _o in recipe], recipe] + ([ids] if act == "Update" else [])
            else:
                act, args = rng.choice(ROUND), []
            src = "file" if getattr(db, "source", ":memory:") != ":memory:" else "memory"
            txn = bool(db.db.in_transaction)
            try:
                ev = {"op": act, "args": [], "ret": [], "post": []}
                if act in ("AddFeature", "AddRow"):
                    A.add(db, kind, act, args[0])
                    ev["args"] = [args[0]]
                elif act == "Query":
                    kw, _ = A.query_kwargs(args[0])
                    got = []
                    for row in db.get_records_matching(**kw):
                        t8 = A.rec8(row)
                        got.append({"seqid": t8[0], "biotype": t8[1], "name": t8[2], "strand": t8[3], "attr": t8[4], "spans": [list(s) for s in t8[5]], "start": t8[6], "stop": t8[7]})
                    ev["args"], ev["ret"] = [args[0]], got
                else:
                    if act in ("Union", "Update"):
                        ext = any(a == "AddRow" for a, _g, _o in args[1])
                        ok = kind if ext else ("basic" if rng.random() < 0.5 else kind)
                        other_db = A.build(ok, [(a, g) for a, g, _o in args[1]])
                        # what the other database holds, as the real object reports it (the door a record
                        # entered by plays no part in the comparison)
                        held = [dict(h, via="user") for h in logged(other_db)]
                        if act == "Union":
                            db = db.union(other_db)
                        else:
                            ids = args[2]
                            db.update(other_db, seqids=None if not ids else (ids[0] if len(ids) == 1 else ids))
                        ev["args"] = [held] + ([args[2]] if act == "Update" else [])
                    else:
                        db, _o = A.apply_op(db, kind, act, args, workdir)
                        p = getattr(db, "_verif_path", None)
                        if p:
                            paths.append((db, p))
                        ev["args"] = [args[0]] if act == "Subset" else []
                ev["post"] = logged(db)
            except Exception as ex:
                rp = _KeyHelper(kind, txn)
                report(rp.key(act, args, src, f"exception:{type(ex).__name__}"), {"class": kind, "history": [e["op"] for e in evs], "act": act, "args": args, "exception": repr(ex)}, f"{act} raised {type(ex).__name__} in a recorded run")
                break
            evs.append(ev)
            ms.append((kind, act, args, src, txn))
        for d, p in paths:
            try:
                d.db.close()
            except Exception:
                pass
            try:
                import os

                os.unlink(p)
            except OSError:
                pass
        traces.append(evs)
        meta.append(ms)
    return traces, meta


class _KeyHelper:
    """same key scheme as check_C17.Replayer.key (kept in step by check_C17 importing this helper's user)"""

    def __init__(self, kind, txn):
        self.kind, self.txn = kind, txn

    def key(self, act, args, src, what):
        from check_C17 import arg_class, cats_of

        if what.startswith("exception:"):
            if act in ("Query", "Subset"):
                q = args[0]
                shape = f"cats={'none' if cats_of(q) == 'none' else 'some'}:win={'none' if q['win'] == 'none' else 'window'}"
            else:
                shape = arg_class(act, _label_args(act, args))
            return f"{self.kind}:{act}:{shape}:{'txn=open:' if self.txn else ''}{what}"
        s = src + (":txn=open" if self.txn else "")
        return f"{self.kind}:{act}:{arg_class(act, _label_args(act, args))}:src={s}:{what}"


def _label_args(act, args):
    if act in ("AddFeature", "AddRow"):
        return [args[0], "fwd"]
    return args


def validate(run, scratch, ntraces, length):
    fails = []

    def report(key, detail, what):
        fails.append((key, detail, what))

    traces, meta = record(run, ntraces, length, str(scratch), report)
    for key, detail, what in fails:
        run.fail(key, detail, what=what)
    # binding self-test: a corrupted copy of the longest fully recorded trace must be rejected
    good = max(range(len(traces)), key=lambda i: len(traces[i])) if traces else None
    corrupted = None
    if good is not None and traces[good]:
        bad_trace = json.loads(json.dumps(traces[good]))
        for j, ev in enumerate(bad_trace):
            if ev["post"]:
                ev["post"][0]["stop"] += 1
                corrupted = len(traces) + 1
                break
        if corrupted:
            traces = traces + [bad_trace]
    path = scratch / "traces.json"
    path.write_text(json.dumps(traces))
    res = run_tlc("Trace_AnnotDb", "MC_AnnotDb_trace.cfg", scratch, workers=1, env={"TRACE_FILE": path}, must_pass=False, heap="4g")
    run.add_tlc(res)
    m = re.search(r"TRACE-VERDICT\"?,\s*(\d+),\s*(\{.*?\})\s*>>", res.out, re.S)
    if not m:
        raise MachineryError(f"no trace verdict from TLC:\n{res.out[-3000:]}")
    bad = [(int(a), int(b)) for a, b in re.findall(r"<<\s*(\d+),\s*(\d+)\s*>>", m.group(2))]
    if corrupted and not any(t == corrupted for t, _l in bad):
        raise MachineryError("trace validation is vacuous: a corrupted trace was accepted")
    nev = 0
    for i, evs in enumerate(traces[: len(meta)]):
        rej = [l for t, l in bad if t == i + 1]
        upto = (rej[0] - 1) if rej else len(evs)
        nev += upto
        if rej:
            kind, act, args, src, txn = meta[i][rej[0] - 1]
            key = _KeyHelper(kind, txn).key(act, args, src, "trace-rejected")
            run.fail(key, {"class": kind, "trace": evs[: rej[0]], "rejected_event_index": rej[0]}, what=f"recorded {act} is not a behaviour of AnnotDb.tla")
    run.note("traces_recorded", len(meta))
    run.note("trace_events_accepted_by_tlc", nev)
    run.note("trace_self_test", "corrupted trace rejected" if corrupted else "skipped")
    return nev
