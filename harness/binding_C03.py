"""C03 binding: spec labels of Alignment.tla -> real cogent3 calls, real objects -> spec state.

Nothing here knows what an operation should return: `apply` only spells the call,
`project` only reads the object through its public observers (names, to_dict, len,
get_gapped_seq) and `build` only turns the rows of a spec state into a real object.
"""
from __future__ import annotations

import numpy

NAMES = ["nb", "na", "nc"]


class Unsupported(Exception):
    """the class does not offer the operation by documented design"""


def _cogent3():
    import cogent3

    return cogent3


def build(state, array_align: bool):
    """A new real object holding exactly the rows of the spec state."""
    c3 = _cogent3()
    data = {name: "".join(chars) for name, chars in state["rows"]}
    if state["kind"] == "aln":
        return c3.make_aligned_seqs(data, moltype=state["mol"], array_align=array_align)
    if state["kind"] == "coll":
        return c3.make_unaligned_seqs(data, moltype=state["mol"])
    raise ValueError(state["kind"])


# ---------------------------------------------------------------- predicates
def _as_strings(col, obj):
    """motif column as handed to a filtered() predicate -> list of strings (one per row).

    Alignment hands over a tuple of str motifs, ArrayAlignment a (rows, motif_length)
    integer array indexing its alphabet."""
    if isinstance(col, numpy.ndarray):
        alpha = obj.alphabet
        return ["".join(alpha[int(i)] for i in numpy.atleast_1d(row)) for row in col]
    return [str(m) for m in col]


def make_predicate(name, obj):
    if name == "nogap":
        return lambda col: all("-" not in m for m in _as_strings(col, obj))
    if name == "row1nogap":
        return lambda col: "-" not in _as_strings(col, obj)[0]
    if name == "true":
        return lambda col: True
    raise ValueError(name)


# --------------------------------------------------------------------- apply
def spell_slice(a, b, form, n):
    if form == "plain":
        return slice(a, b)
    if form == "open":
        return slice(None if a == 0 else a, None if b == n else b)
    if form == "neg":
        return slice(a - n, b - n)
    if form == "over":
        return slice(a, n + 2)
    raise ValueError(form)


def _scribble(x):
    """what a caller may do to a container it still owns"""
    if isinstance(x, list):
        x.reverse()
        x.append(x[0] if x else 0)
    elif isinstance(x, numpy.ndarray) and x.size and x.flags.writeable:
        x[...] = x.flat[0] * 0
    elif isinstance(x, dict):
        x.clear()


def caller_reuses(obj, what):
    """The caller modifies, in place, the mutable arguments it handed to the call that made obj
    ("args"), or what obj's observers returned to it ("returned").  obj itself is not touched."""
    if what == "args":
        for h in getattr(obj, "_c03_handed", []):
            _scribble(h)
    else:
        _scribble(obj.to_dict())
        _scribble(obj.seqs)
        if hasattr(obj, "get_gap_array"):
            try:
                _scribble(obj.get_gap_array())
                _scribble(obj.positions if isinstance(obj.positions, list) else [])
            except Exception:
                pass
    return obj


def apply(obj, act, args, n, fresh_other=None):
    """Make the real call for spec label (act, args) on obj; returns the real result.
    n is the number of columns of the receiver according to the spec state.
    The mutable containers handed to the call stay attached to the result (harness-side
    attribute) so that a later CallerReuses step can modify them."""
    if act == "CallerReuses":
        return caller_reuses(obj, args[0])
    handed = []
    res = _apply(obj, act, args, n, fresh_other, handed)
    if res is not None and not isinstance(res, dict) and res is not obj:
        try:
            res._c03_handed = handed
        except Exception:
            pass
    return res


def _apply(obj, act, args, n, fresh_other, handed):
    if act == "Slice":
        a, b, form = args
        return obj[spell_slice(a, b, form, n)]
    if act == "Index":
        i, form = args
        return obj[i if form == "plain" else i - n]
    if act == "Stride":
        a, k = args
        try:
            return obj[::-1] if k == 0 else obj[a::k]
        except NotImplementedError as ex:  # 'IndelMap' does not yet support strides
            raise Unsupported(str(ex)) from ex
    if act == "Rc":
        return obj.rc()
    if act == "TakePositions":
        cols, neg, form = args
        cols = list(cols) if form == "list" else tuple(cols) if form == "tuple" else numpy.array(cols, dtype=int)
        handed.append(cols)
        return obj.take_positions(cols, negate=True) if neg else obj.take_positions(cols)
    if act == "TakeSeqs":
        names, neg = args
        names = list(names)
        handed.append(names)
        return obj.take_seqs(names, negate=True) if neg else obj.take_seqs(names)
    if act == "OmitGapPos":
        num, den, hair, ml = args
        kw = {} if ml == 1 else {"motif_length": ml}
        if (num, den, hair) == (999999, 1000000, "exact"):  # the documented default 1 - eps: argument left out
            return obj.omit_gap_pos(**kw)
        # a hair below / above num/den: 1e-12 is far above float round-off and far below 1/cells
        allowed = num / den + {"exact": 0.0, "below": -1e-12, "above": 1e-12}[hair]
        return obj.omit_gap_pos(allowed_gap_frac=allowed, **kw)
    if act == "NoDegenerates":
        ml, ag = args
        return obj.no_degenerates(motif_length=ml, allow_gap=ag)
    if act == "Filtered":
        p, ml = args
        return obj.filtered(make_predicate(p, obj), motif_length=ml)
    if act == "DegapRel":
        return obj.get_degapped_relative_to(args[0])
    if act == "SampleRepl":
        locs, ml = args
        arr = numpy.array(locs, dtype=int)
        handed.append(arr)
        return obj.sample(n=len(locs), with_replacement=True, motif_length=ml, randint=lambda lo, hi, size: arr)
    if act == "SamplePerm":
        perm, k, ml = args
        arr = numpy.array(perm, dtype=int)
        handed.append(arr)
        return obj.sample(n=k, motif_length=ml, permutation=lambda size: arr)
    if act == "Concat":
        w = args[0]
        if w == "self":
            other = obj
        elif w == "fresh":
            other = fresh_other
        elif w == "reorder":
            other = obj.take_seqs(list(reversed(obj.names)))
        elif w == "rc":
            other = obj.rc()
        elif w == "first":
            other = obj[0:1]
        elif w == "last":
            other = obj[n - 1 : n]
        else:
            raise ValueError(w)
        return obj + other
    if act == "ConcatSlices":  # two views of the SAME object, in the order given
        a, b, c, d = args
        return obj[a:b] + obj[c:d]
    if act == "ToType":
        return obj.to_type(array_align=args[0])
    if act == "ToRna":
        return obj.to_rna()
    if act == "ToDna":
        return obj.to_dna()
    if act == "Degap":
        return obj.degap()
    if act == "DeepCopy":
        return obj.deepcopy(sliced=args[0])
    raise ValueError(act)


# ------------------------------------------------------------------- project
def project(obj):
    """real object -> (spec state, anomalies).  Anomalies are disagreements between
    the object's own observers (to_dict / names / len / get_gapped_seq / num_seqs)."""
    from cogent3.core.alignment import Alignment, ArrayAlignment, SequenceCollection

    if obj is None or (isinstance(obj, dict) and not obj):
        return {"kind": "void", "mol": None, "rows": []}, []
    anomalies = []
    if isinstance(obj, (Alignment, ArrayAlignment)):
        kind = "aln"
    elif isinstance(obj, SequenceCollection):
        kind = "coll"
    else:
        return {"kind": "?" + type(obj).__name__, "mol": None, "rows": []}, []
    d = obj.to_dict()
    names = list(obj.names)
    if list(d) != names:
        anomalies.append("to_dict-keys-vs-names")
    rows = [[n, list(d.get(n, ""))] for n in names]
    if obj.num_seqs != len(names):
        anomalies.append("num_seqs")
    if kind == "aln":
        lens = {len(s) for s in d.values()}
        if len(lens) > 1:
            anomalies.append("ragged")
        if lens and lens != {len(obj)}:
            anomalies.append("len")
        for n in names:
            if str(obj.get_gapped_seq(n)) != d[n]:
                anomalies.append("get_gapped_seq")
                break
    else:
        for n in names:
            if str(obj.get_seq(n)) != d[n]:
                anomalies.append("get_seq")
                break
    mol = getattr(obj.moltype, "label", None)
    return {"kind": kind, "mol": mol, "rows": rows}, sorted(set(anomalies))


# ------------------------------------------------------- read-only observers
def _tolist(x):
    if x is None:
        return None
    if hasattr(x, "to_dict"):
        try:
            return _norm(x.to_dict())
        except Exception:
            pass
    if hasattr(x, "tolist"):
        return x.tolist()
    return x


def _norm(x):
    if isinstance(x, dict):
        return {str(k): _norm(v) for k, v in x.items()}
    if isinstance(x, (list, tuple)):
        return [_norm(v) for v in x]
    if isinstance(x, numpy.ndarray):
        return x.tolist()
    if isinstance(x, (numpy.integer,)):
        return int(x)
    if isinstance(x, (numpy.floating,)):
        return float(x)
    if isinstance(x, float) and x != x:
        return "nan"
    return x


READONLY_ALN = {
    "to_fasta": lambda o: o.to_fasta(),
    "to_phylip": lambda o: o.to_phylip(),
    "str": lambda o: str(o),
    "counts_per_pos": lambda o: _tolist(o.counts_per_pos()),
    "counts_per_seq": lambda o: _tolist(o.counts_per_seq()),
    "counts_per_seq_gap": lambda o: _tolist(o.counts_per_seq(include_ambiguity=True, allow_gap=True)),
    "counts": lambda o: _tolist(o.counts()),
    "get_gap_array": lambda o: _tolist(o.get_gap_array()),
    "count_gaps_per_pos": lambda o: _tolist(o.count_gaps_per_pos()),
    "count_gaps_per_seq": lambda o: _tolist(o.count_gaps_per_seq()),
    "variable_positions": lambda o: list(o.variable_positions()),
    "iupac_consensus": lambda o: o.iupac_consensus(),
    "majority_consensus": lambda o: str(o.majority_consensus()),
    "get_lengths": lambda o: _tolist(o.get_lengths()),
    "degap": lambda o: o.degap().to_dict(),
    "is_ragged": lambda o: o.is_ragged(),
    "positions": lambda o: [list(map(str, p)) for p in o.positions],
    "iter_seqs": lambda o: [str(s) for s in o.iter_seqs()],
    "get_ambiguous_positions": lambda o: _norm(o.get_ambiguous_positions()),
    "get_identical_sets": lambda o: sorted(sorted(s) for s in o.get_identical_sets()),
}
READONLY_COLL = {
    "to_fasta": lambda o: o.to_fasta(),
    "counts_per_seq": lambda o: _tolist(o.counts_per_seq()),
    "counts": lambda o: _tolist(o.counts()),
    "get_lengths": lambda o: _tolist(o.get_lengths()),
    "is_ragged": lambda o: o.is_ragged(),
    "iter_seqs": lambda o: [str(s) for s in o.iter_seqs()],
    "get_ambiguous_positions": lambda o: _norm(o.get_ambiguous_positions()),
    "degap": lambda o: o.degap().to_dict(),
}


def observe(obj, name, table):
    try:
        return ("ok", _norm(table[name](obj)))
    except Exception as ex:  # the fresh object decides whether raising is the answer
        return ("raised", type(ex).__name__)


def compare_readonly(obj, fresh, kind, methods=None):
    """-> list of (method, got, expected) where obj answers differently from fresh."""
    table = READONLY_ALN if kind == "aln" else READONLY_COLL
    out = []
    for name in methods or table:
        if table.get(name) is None:
            continue
        exp = observe(fresh, name, table)
        got = observe(obj, name, table)
        if got != exp:
            out.append((name, got, exp))
    return out
