"""C20 spec -> code replay: drive the real cogent3 Table with the cases TLC emitted.

Nothing here knows what an operation should return: a case carries the input
table(s), the arguments and the spec's answer; this module builds the real
objects, makes the real call, projects the real result to JSON and compares it
with the (identically projected) answer of the specification.
"""
from __future__ import annotations

import csv
import gzip
import json
import os
import pickle
import traceback

import numpy

# --------------------------------------------------------------------------
# cells: spec <<tag, chars>>  <->  python values  ->  comparable projection


def text(chars):
    return "".join(chars)


def pyval(cell):
    tag, chars = cell
    t = text(chars)
    if tag == "i":
        return int(t)
    if tag == "f":
        return float(t)
    if tag == "b":
        return t == "True"
    if tag == "s":
        return t
    if tag == "n":
        return None
    raise ValueError(tag)


def norm(v):
    """projection of a python cell value: kind + canonical text.
    ints and floats are compared by value (1 == 1.0, as in a list of tuples)."""
    if isinstance(v, numpy.generic):
        v = v.item()
    if v is None:
        return ["n", ""]
    if isinstance(v, bool):
        return ["b", str(v)]
    if isinstance(v, (int, float)):
        return ["num", repr(float(v))]
    if isinstance(v, str):
        return ["s", v]
    return ["?", repr(v)]


def norm_cell(cell):
    return norm(pyval(cell))


def norm_rows(rows):
    return [[norm(v) for v in r] for r in rows]


def spec_rows(rows):
    return [[norm_cell(c) for c in r] for r in rows]


def make(tab, header=None):
    from cogent3 import make_table

    header = list(header or tab["header"])
    data = [[pyval(c) for c in r] for r in tab["rows"]]
    ints = tab.get("ints", "python")
    if ints != "python" and data:
        # representation dimension: columns of whole numbers handed over as numpy arrays of that integer type
        cols = {}
        for j, c in enumerate(header):
            vals = [r[j] for r in data]
            whole = all(cell[j][0] == "i" for cell in tab["rows"])
            cols[c] = numpy.array(vals, dtype=getattr(numpy, ints)) if whole else vals
        return make_table(header=header, data=cols, title=text(tab.get("title", [])), index_name=tab.get("index") or None)
    return make_table(header=header, data=data, title=text(tab.get("title", [])), index_name=tab.get("index") or None)


def rows_of(table):
    """to_list() flattens single-column tables; go through the row API instead"""
    if table.shape[1] == 1:
        return [[v] for v in table.to_list()]
    return table.to_list()


def observe(table):
    return {"header": list(table.header), "rows": norm_rows(rows_of(table)), "shape": list(table.shape)}


def expected_table(to):
    return {"header": list(to["header"]), "rows": spec_rows(to["rows"])}


class Diff(Exception):
    def __init__(self, what, detail):
        self.what = what
        self.detail = detail


def same_table(real, to, tag="", check_header=True):
    exp = expected_table(to)
    obs = observe(real)
    if obs["rows"] != exp["rows"]:
        raise Diff(f"{tag}rows", {"expected": exp, "observed": obs})
    if check_header and obs["header"] != exp["header"]:
        raise Diff(f"{tag}header", {"expected": exp, "observed": obs})
    if obs["shape"][0] != len(exp["rows"]):
        raise Diff(f"{tag}shape", {"expected": exp, "observed": obs})


def same_records(real, to, tag=""):
    """rows as records (column name -> value), in row order: independent of the column order of the
    result and of either operand.  Reading index_name first settles the lazy index re-ordering of the
    header (and raises when the table cannot honour its index)."""
    _ = real.index_name
    hdr = list(real.header)
    obs = [dict(zip(hdr, r)) for r in norm_rows(rows_of(real))]
    exp = [dict(zip(to["header"], r)) for r in spec_rows(to["rows"])]
    detail = {"expected": {"header": list(to["header"]), "records": exp}, "observed": {"header": hdr, "records": obs}}
    if sorted(hdr) != sorted(to["header"]):
        raise Diff(f"{tag}header", detail)
    if obs != exp:
        raise Diff(f"{tag}rows", detail)


# --------------------------------------------------------------------------
# argument instantiation (callables / expressions of the predicate families)

_OPS = {"eq": "==", "ne": "!=", "gt": ">", "le": "<="}


def predicate_forms(p):
    """[(callback, columns)] : a python callable and the equivalent expression string"""
    col = p["col"]
    if p["op"] == "coleq":
        other = text(p["val"][1])
        return [(lambda r: r[0] == r[1], [col, other]), (f"{col} == {other}", [col, other])]
    if p["op"] == "colgt":
        other = text(p["val"][1])
        return [(lambda r: r[0] > r[1], [col, other]), (f"{col} > {other}", [col, other])]
    v = pyval(p["val"])
    op = p["op"]
    fn = {
        "eq": lambda x: x == v,
        "ne": lambda x: x != v,
        "gt": lambda x: x > v,
        "le": lambda x: x <= v,
    }[op]
    return [(fn, col), (f"{col} {_OPS[op]} {v!r}", col)]


def derivation_forms(f):
    cols = f["cols"]
    fn = f["fn"]
    if fn == "succ":
        return [(lambda x: x + 1, cols[0]), (f"{cols[0]} + 1", cols[0])]
    if fn == "iseq":
        v = pyval(f["val"])
        return [(lambda x: x == v, cols[0]), (f"{cols[0]} == {v!r}", cols[0])]
    if fn == "concat":
        return [(lambda r: r[0] + r[1], cols), (f"{cols[0]} + {cols[1]}", cols)]
    if fn == "second":
        return [(lambda r: r[1], cols), (f"{cols[1]}", cols)]
    raise ValueError(fn)


def key_list(k, n):
    """CategoryCounter / distinct_values keys: scalar for one column, tuple otherwise"""
    if n == 1:
        return [norm(k)]
    return [norm(x) for x in k]


def canon(items):
    return sorted(json.dumps(x, sort_keys=True) for x in items)


# --------------------------------------------------------------------------
# one case of Table.tla


def relational_case(rec):
    """returns None when the real code agrees with the spec, else (what, detail)"""
    act, args, to = rec["act"], rec["args"], rec["to"]
    frm = rec["from"]
    t = make(frm["tab"])
    empty_in = len(frm["tab"]["rows"]) == 0
    # a table built without rows keeps no column arrays; the statement speaks of rows, so the
    # header of a zero-row input is not compared (recorded as an assumption)
    hdr = not empty_in
    try:
        if act == "Sorted":
            cols, rev = args
            kw = {"columns": cols[0] if len(cols) == 1 else list(cols)}
            if rev:
                kw["reverse"] = list(rev)
            got = t.sorted(**kw)
            try:
                same_table(got, to, check_header=hdr)
            except Diff as d:
                if d.what == "rows":
                    # which observation differs: the order of the sort keys, or only the order of
                    # rows whose keys are equal (projection on the sort columns, no expectation computed here)
                    idx = [frm["tab"]["header"].index(c) for c in cols]
                    proj = lambda rows: [[r[i] for i in idx] for r in rows]
                    if proj(d.detail["observed"]["rows"]) == proj(d.detail["expected"]["rows"]) and canon(
                        d.detail["observed"]["rows"]
                    ) == canon(d.detail["expected"]["rows"]):
                        raise Diff("tie-order", d.detail)
                raise
            if rev and list(cols) == sorted(rev, key=list(cols).index) and len(rev) == len(cols):
                # "if only reverse is provided, that order is used"
                same_table(t.sorted(reverse=list(cols)), to, tag="reverse-only:", check_header=hdr)
            if not rev and list(cols) == list(frm["tab"]["header"]):
                same_table(t.sorted(), to, tag="default-columns:", check_header=hdr)
        elif act == "Filtered":
            (p,) = args
            for form, (cb, columns) in zip(("callable", "expr"), predicate_forms(p)):
                same_table(t.filtered(cb, columns=columns), to["table"], tag=f"{form}:", check_header=hdr)
                n = t.count(cb, columns=columns)
                if int(n) != to["count"]:
                    raise Diff(f"{form}:count", {"expected": to["count"], "observed": int(n)})
        elif act == "Unique":
            (cols,) = args
            arg = cols[0] if len(cols) == 1 else list(cols)
            counts = t.count_unique(arg)
            got = canon([key_list(k, len(cols)), int(n)] for k, n in counts.items())
            exp = canon([[norm_cell(c) for c in k], n] for k, n in to["counts"])
            if got != exp:
                raise Diff("counts", {"expected": exp, "observed": got})
            dv = t.distinct_values(arg)
            got = canon(key_list(k, len(cols)) for k in dv)
            exp = canon([norm_cell(c) for c in k] for k in to["distinct"])
            if got != exp:
                raise Diff("distinct", {"expected": exp, "observed": got})
        elif act == "GetColumns":
            (cols,) = args
            same_table(t.get_columns(list(cols)), to, check_header=hdr)
            asked = {"header": list(cols), "rows": to["listed"]}
            if frm["tab"].get("index"):
                same_records(t[:, list(cols)], asked, tag="getitem:")
            else:
                same_table(t[:, list(cols)], asked, tag="getitem:", check_header=hdr)
            got = t.to_list(list(cols))
            got = norm_rows([[v] for v in got] if len(cols) == 1 else got)
            if got != spec_rows(to["listed"]):
                raise Diff("to_list(columns)", {"expected": spec_rows(to["listed"]), "observed": got})
        elif act == "WithNewColumn":
            new, f = args
            for form, (cb, columns) in zip(("callable", "expr"), derivation_forms(f)):
                same_table(t.with_new_column(new, cb, columns=columns), to, tag=f"{form}:", check_header=hdr)
        elif act == "Transposed":
            new, sel = args
            if "raised" in to:
                try:
                    r = t.transposed(new, select_as_header=sel)
                except (ValueError, AssertionError):
                    return None
                raise Diff("no-exception", {"expected": "raises (duplicate header values)", "observed": observe(r)})
            same_table(t.transposed(new, select_as_header=sel), to)
        elif act in ("InnerJoin", "NaturalJoin", "NaturalJoinRenamed", "CrossJoin", "AppendedRenamed"):
            ot = frm["oth"]
            if act in ("NaturalJoinRenamed", "AppendedRenamed"):
                ren = lambda c: "s" if c == "t" else c
                ot = dict(ot, header=[ren(c) for c in ot["header"]], index=ren(ot.get("index", "")))
            o = make(ot)
            indexed = bool(frm["tab"].get("index") or ot.get("index"))

            def same(real, tag=""):
                same_records(real, to, tag)
                if not indexed:  # without an index the column order of the result is determined as well
                    same_table(real, to, tag=tag, check_header=bool(frm["tab"]["rows"] or ot["rows"]) or act != "AppendedRenamed")

            if act == "InnerJoin":
                ks, ko, px = args
                a = dict(columns_self=ks[0] if len(ks) == 1 else list(ks), columns_other=ko[0] if len(ko) == 1 else list(ko))
                if px != "right_":
                    a["col_prefix"] = px
                same(t.inner_join(o, **a))
                same(t.joined(o, **a), tag="joined:")
            elif act in ("NaturalJoin", "NaturalJoinRenamed"):
                (px,) = args
                a = {} if px == "right_" else {"col_prefix": px}
                same(t.joined(o, **a), tag="joined:")
                same(t.inner_join(o, use_index=False, **a))
            elif act == "CrossJoin":
                (px,) = args
                a = {} if px == "right_" else {"col_prefix": px}
                same(t.cross_join(o, **a))
                same(t.joined(o, inner_join=False, **a), tag="joined:")
            else:
                (nc,) = args
                same(t.appended(nc or None, o))
                same(t.appended(nc or None, [o]), tag="list:")
        else:
            raise ValueError(f"unknown action {act}")
    except Diff as d:
        return d.what, d.detail
    except Exception as ex:
        return f"exception:{type(ex).__name__}", {"exception": repr(ex), "traceback": traceback.format_exc()[-1200:]}
    return None


def relational_key(rec, what):
    cls = "+".join(sorted(rec.get("cls", []))) or "-"
    return f"{rec['act']}:{cls}:{what}"


def run_relational(rec):
    out = relational_case(rec)
    if out is None:
        return None
    what, detail = out
    return relational_key(rec, what), what, detail
