"""C09 binding: instantiate spec trees as real PhyloNodes, drive the real API, project.

No expected behaviour is computed here: the functions below only
  * build the real tree a `Make` transition names (make_tree(newick) + renaming to a name class),
  * make the real call for a spec action label,
  * read a real tree back as the spec's abstract values
      struct : {"par": {edge: parent}, "ln": {edge: 2*length}}     (Trees.tla representation)
      obs    : tips / splits / dist / rootparts through get_tip_names(), get_distances(), tips()
  * snapshot a receiver so "left unmodified" can be compared before/after.
All expected values come from the TLC-emitted records.
"""
from __future__ import annotations

import copy
import json

ROOT = "root"
NEW = "NEW"

TIPS = ["a", "b", "c", "d", "e", "f", "g"]
INTS = ["n1", "n2", "n3", "n4", "n5", "n6"]

# name classes: concrete strings keep the alphabetical order of the spec names
# (first character), so sorted() is comparable across classes.
NAME_CLASSES = {
    "plain": {},
    # blanks, underscore, quotes, dots, digits, non-ascii
    "soft": {
        "a": "a b", "b": "b_x", "c": "c'd", "d": 'd"q"', "e": "e.1-2", "f": "f  g", "g": "g é",
        "n1": "n1 x", "n2": "n2_y", "n3": "n3'z", "n4": "n4.0", "n5": "n5 5_", "n6": "n6-",
    },
    # newick metacharacters
    "meta": {
        "a": "a(b", "b": "b)c", "c": "c:d", "d": "d,e", "e": "e;f", "f": "f[g]", "g": "g][",
        "n1": "n1(", "n2": "n2,", "n3": "n3:", "n4": "n4;", "n5": "n5)", "n6": "n6[x]",
    },
    # leading / trailing blanks (get_newick writes them as '_' of an unquoted label: '_a', 'd_');
    # only the first tip leads with a blank so that alphabetical order still follows the spec names
    "blank": {
        "a": " a", "b": "b c", "c": "c", "d": "d ", "e": "e  ", "f": "f ", "g": "g",
        "n1": " n1", "n2": "n2 ", "n3": " n3 ", "n4": "n4", "n5": "n5 ", "n6": " n6",
    },
    # user-given internal names that look like the names TreeBuilder generates for unnamed nodes
    "edgelike": {"n1": "edge.0", "n2": "edge.0.1", "n3": "edge.1", "n4": "edge.2", "n5": "edge.0.2", "n6": "edge.1.1"},
    # unusual but legal names: adjacent double / single quotes, only digits, leading digit, '#', '|', glob
    # characters, braces, a very long dotted name, non-ascii, backslash, percent, angle brackets
    "odd": {
        "a": 'a""x', "b": "b''y", "c": "123", "d": "d#1|2", "e": "e.1.2.3.4.5.6.7.8.9.10.11.12.13.14.15.16.17.18.19.20",
        "f": "x*?{f}", "g": "ñandú·ß",
        "n1": 'K12 ""wild""', "n2": "7", "n3": "3n\\m", "n4": '""', "n5": "a%20&=b", "n6": "<n6>/@!~`^$",
    },
    # a name that begins with a single quote (and does not end with one)
    "leadquote": {"a": "'a", "n1": "'n1x"},
    # LENGTH classes (plain names): the model's half unit of length is instantiated very small / large
    # and not representable in few decimals (see LENGTH_UNIT)
    "tiny": {},
    "huge": {},
    # the bare word TreeBuilder counts unnamed nodes under, as a tip name
    "reserved": {"b": "edge"},
    # internal names left to the newick parser (the tree is parsed from the text without internal labels)
    "auto": {},
}
# real length of one model half unit (default 1/2, exact).  For the other classes lengths are not dyadic:
# sums are compared with a RELATIVE tolerance (float summation noise is ~1e-16 relative).
LENGTH_UNIT = {"tiny": 1.23456789e-9 / 2, "huge": 50.000000000123 / 2}
REL_TOL = 1e-9
# classes in which an operation may rename internal nodes (names that clash with generated ones):
# spec names are then resolved by POSITION in a plain-named twin tree that went through the same calls
TWIN_CLASSES = {"edgelike", "auto"}
HAS_BLANK = {"soft", "blank"}  # classes for which reading with underscore_unmunge=False is documented to differ
# name classes exercised on the name-writing/reading calls only (the other calls never look at the text of a name)
RT_ONLY_CLASSES = {"blank", "odd", "leadquote", "tiny", "huge"}
RT_ACTS = {"Make", "NewickRT", "NewickNamesRT", "NewickDefaultRT", "DndRT", "JsonRT", "RichDictRT"}
# the reserved tip name: judged on trees fresh from make_tree only (one call after Make), on the round
# trips and on every call that rebuilds the tree through TreeBuilder
# (the length classes too: with non-dyadic lengths the code's exact float comparisons in root_at_midpoint
# need not follow the model's history)
FRESH_ONLY_CLASSES = {"reserved", "tiny", "huge"}
FRESH_ACTS = RT_ACTS | {"RootedAt", "RootedWithTip", "Unrooted", "SubTree", "RootAtMidpoint", "Copy"}
# the twin classes run on the name-writing calls and on the calls that create or look up internal nodes by name
TWIN_ACTS = RT_ACTS | {"RootAtMidpoint", "RootedAt", "RootedWithTip"}
# round trips that carry internal node names: every name must come back on the same node
NAME_KEEPING = {"NewickNamesRT", "JsonRT", "RichDictRT", "Copy", "DeepCopy", "CopyModule"}


class Ctx:
    def __init__(self, variant):
        self.variant = variant
        m = NAME_CLASSES[variant]
        self.fwd = {n: m.get(n, n) for n in TIPS + INTS}
        self.inv = {v: k for k, v in self.fwd.items()}
        self.tree = None
        self.twin = None
        self.unit = LENGTH_UNIT.get(variant)

    def advance(self, act, res):
        if act not in OBSERVE_ONLY:
            self.tree = res

    def name(self, n):
        if n == NEW:
            # the edge an operation created: whatever name the code gave it
            for node in self.tree.traverse(include_self=False):
                if node.children and node.name not in self.inv:
                    return node.name
        return self.fwd.get(n, n)


class TwinCtx(Ctx):
    """Name class whose internal names may be changed by an operation: a plain-named twin tree takes
    the same calls, and a spec name is resolved to the node at the same position (both trees are
    built by the same code, so shape and child order agree)."""

    def __init__(self, variant):
        super().__init__(variant)
        self.twin = Ctx("plain")

    def name(self, n):
        if n in TIPS:
            return self.fwd.get(n, n)
        tname = "root" if n == ROOT else self.twin.name(n)
        for a, b in zip(self.twin.tree.traverse(), self.tree.traverse()):
            if (a is self.twin.tree and n == ROOT) or (a is not self.twin.tree and a.name == tname):
                return b.name
        raise KeyError(n)

    def advance(self, act, res):
        """make `res` (the result of `act` on self.tree) the current tree; same for the twin."""
        if act not in OBSERVE_ONLY:
            self.tree = res
            self.twin.tree = self._twin_res


def new_ctx(variant):
    return TwinCtx(variant) if variant in TWIN_CLASSES else Ctx(variant)


class Unsupported(Exception):
    """The combination is outside what the property / documentation promises."""


# ----------------------------------------------------------------- projection
def to_units(ctx, x):
    """real length / path length -> model half units (exact for the default unit 1/2)."""
    if ctx.unit is None:
        v = 2 * float(x)
        return int(v) if v == int(v) else v
    v = float(x) / ctx.unit
    r = round(v)
    return int(r) if abs(v - r) <= REL_TOL * max(1.0, abs(r)) else v


def _len2(node):
    v = getattr(node, "length", None)
    if v is None:
        return "None"
    v2 = 2 * float(v)
    return int(v2) if v2 == int(v2) else v2


def struct(ctx, tree, raw_unknown=False):
    """Trees.tla record of a real tree (root is ROOT whatever its name)."""
    par, ln = {}, {}
    names = {}
    nnew = 0
    for node in tree.traverse(self_before=True, self_after=False):
        if node is tree:
            names[id(node)] = ROOT
            continue
        nm = node.name
        key = ctx.inv.get(nm)
        if key is None:
            if node.children and not raw_unknown:
                nnew += 1
                key = NEW if nnew == 1 else f"{NEW}{nnew}"
            else:
                key = f"?{nm!r}"
        if key in par:  # duplicate names cannot be a Trees.tla record
            key = f"{key}#dup{len(par)}"
        names[id(node)] = key
    for node in tree.traverse(self_before=True, self_after=False):
        if node is tree:
            continue
        k = names[id(node)]
        par[k] = names[id(node.parent)]
        ln[k] = _len2(node) if ctx.unit is None or node.length is None else to_units(ctx, node.length)
    return {"par": par, "ln": ln}


def state_key(st) -> str:
    par = st["par"]
    if not par:
        return "EMPTY"
    ln = st["ln"]
    return json.dumps(sorted([e, par[e], ln[e]] for e in par), separators=(",", ":"))


def _below(node):
    tips = [t.name for t in node.tips()]
    return tips if tips else [node.name]


def obs(ctx, tree):
    """What the property observes, through the public API."""
    inv = lambda n: ctx.inv.get(n, f"?{n!r}")
    tips = sorted(inv(n) for n in tree.get_tip_names())
    alltips = frozenset(tips)
    splits = set()
    for node in tree.traverse(include_self=False):
        side = frozenset(inv(n) for n in _below(node))
        other = alltips - side
        if len(side) >= 2 and len(other) >= 2:
            splits.add(tuple(sorted([tuple(sorted(side)), tuple(sorted(other))])))
    dist = {}
    for (a, b), d in tree.get_distances().items():
        dist[f"{inv(a)}|{inv(b)}"] = to_units(ctx, d)
    rootparts = sorted(tuple(sorted(inv(n) for n in _below(c))) for c in tree.children)
    return {
        "tips": tips,
        "splits": sorted(splits),
        "dist": dist,
        "rootparts": rootparts,
        "nnodes": sum(1 for _ in tree.traverse(include_self=False)),
    }


def canon_obs(o):
    """Canonical form of an emitted `obs` record (sets arrive as arrays in TLC's order)."""
    return {
        "tips": sorted(o["tips"]),
        "splits": sorted(tuple(sorted(tuple(sorted(side)) for side in sp)) for sp in o["splits"]),
        "dist": {f"{a}|{b}": d for a, b, d in o["dist"]},
        "rootparts": sorted(tuple(sorted(p)) for p in o["rootparts"]),
        "nnodes": o["nnodes"],
    }


def obs_diff(real, exp):
    return sorted(k for k in ("tips", "splits", "dist", "rootparts", "nnodes") if _j(real[k]) != _j(exp[k]))


def _j(v):
    return json.dumps(v, sort_keys=True)


def snapshot(ctx, tree):
    """Everything a caller can see of a receiver: names, child order, lengths (one newick text
    with internal names and lengths, plus the raw names, which tell None from '')."""
    return {
        "newick": tree.get_newick(with_distances=True, with_node_names=True, escape_name=False),
        "names": [n.name for n in tree.traverse()],
    }


# ----------------------------------------------------------------- driving
def make(ctx, newick, unlabelled=None):
    from cogent3 import make_tree

    if ctx.twin is not None:
        ctx.twin.tree = make_tree(newick)
    t = make_tree(unlabelled if ctx.variant == "auto" else newick)
    if ctx.variant not in ("plain", "auto"):
        t.reassign_names(dict(ctx.fwd))
    if ctx.unit is not None:
        for node in t.traverse(include_self=False):
            node.length = node.length * 2 * ctx.unit      # newick text is in units of 2 half units
    return t


def namemap(tree):
    """real name of every non-root node -> (tips below it, its length)"""
    return {repr(n.name): [sorted(_below(n)), _len2(n)] for n in tree.traverse(include_self=False)}


IN_PLACE = {"Prune"}
OBSERVE_ONLY = {"Bifurcating", "Query"}
PLAIN_ONLY_ACTS = {"Query"}
# calls that never look at the text of a name: in the quick tier they run for the plain class only
NAME_BLIND_ACTS = {"Copy", "DeepCopy", "CopyModule", "Unrooted", "Prune", "Bifurcating"}


def call(ctx, act, args):
    """Make the real call for a spec label on ctx.tree; returns the real result tree."""
    from cogent3 import make_tree
    from cogent3.util.deserialise import deserialise_object

    if ctx.twin is not None and not getattr(ctx, "_in_twin", False):
        ctx._in_twin = True
        try:
            res = call(ctx, act, args)           # names are resolved against the twin as it is now
        finally:
            ctx._in_twin = False
        ctx._twin_res = call(ctx.twin, act, args)
        return res
    t = ctx.tree
    if act == "NewickRT":
        return make_tree(t.get_newick(with_distances=True), underscore_unmunge=True)
    if act == "NewickNamesRT":
        return make_tree(t.get_newick(with_distances=True, with_node_names=True), underscore_unmunge=True)
    if act == "NewickDefaultRT":
        if ctx.variant in HAS_BLANK:
            # make_tree documents that underscores are NOT turned back into blanks by default
            raise Unsupported("default make_tree does not unmunge underscores")
        return make_tree(t.get_newick(with_distances=True))
    if act == "DndRT":
        from cogent3.core.tree import PhyloNode
        from cogent3.parse.tree import DndParser

        return DndParser(t.get_newick(with_distances=True), constructor=PhyloNode, unescape_name=True)
    if act == "JsonRT":
        return deserialise_object(t.to_json())
    if act == "RichDictRT":
        return deserialise_object(json.loads(json.dumps(t.to_rich_dict())))
    if act == "Copy":
        return t.copy()
    if act == "DeepCopy":
        return t.deepcopy()
    if act == "CopyModule":
        return copy.deepcopy(t)
    if act == "Sorted":
        return t.sorted()
    if act == "SortedRev":
        order = sorted(t.get_tip_names(), reverse=True)
        return t.sorted(sort_order=order)
    if act == "RootedAt":
        return t.rooted_at(ctx.name(args[0]))
    if act == "RootedWithTip":
        return t.rooted_with_tip(ctx.name(args[0]))
    if act == "Unrooted":
        return t.unrooted()
    if act == "SubTree":
        names = [ctx.name(n) for n in sorted(args[0])]
        return t.get_sub_tree(names, tipsonly=bool(args[1]))
    if act == "RootAtMidpoint":
        return t.root_at_midpoint()
    if act == "Prune":
        t.prune()
        return t
    if act == "Bifurcating":
        return t.bifurcating()
    if act == "Query":
        return t  # read-only calls on the tree itself (made by query())
    raise ValueError(act)


# ----------------------------------------------------------------- read-only queries (TreeOps.Query)
def _h(x):
    """real length -> half units (exact for the dyadic lengths used)."""
    x2 = 2 * float(x)
    return int(x2) if x2 == int(x2) else x2


def canon_query(exp):
    """Canonical form of one emitted QueryExp part."""
    conv = {
        "nodedist": lambda x: {f"{u}|{v}": d for u, v, d in x},
        "lcaset": lambda x: {",".join(sorted(S)): w for S, w in x},
        "lca2": lambda x: {f"{u}|{v}": w for u, v, w in x},
        "conn": lambda x: {f"{u}|{v}": list(p) for u, v, p in x},
        "edgenames": lambda x: {f"{a}|{b}|{o}": {"clade": sorted(en["clade"]), "stem": en["stem"]} for a, b, o, en in x},
        "enddist": lambda x: {",".join(sorted(S)): {f"{a}|{b}": d for a, b, d in ds} for S, ds in x},
        "maxdist": lambda x: x,
        "farpairs": lambda x: sorted(sorted(p) for p in x),
        "sametopo": lambda x: {f"{a}|{b}": v for a, b, v in x},
    }
    out = {k: conv[k](v) for k, v in exp.items()}
    if "maxdist" in out:  # two real calls answer this: max_tip_tip_distance and get_max_tip_tip_distance
        out["gmaxdist"] = out["maxdist"]
        out["gfarpairs"] = out["farpairs"]
    return out


def query(ctx, tree, want):
    """Ask the real tree everything the spec's Query record answers (same keys as `want`)."""
    from cogent3.core.tree import TreeError

    names = {}
    for node in tree.traverse():
        names[id(node)] = ROOT if node is tree else ctx.inv.get(node.name, NEW if node.children else f"?{node.name!r}")
    byname = {v: n for n, v in ((n, names[id(n)]) for n in tree.traverse())}
    nm = lambda node: names.get(id(node), f"?{getattr(node, 'name', node)!r}")
    real = lambda spec: tree.name if spec == ROOT else ctx.name(spec)
    out = {}
    W = lambda k: want.get(k, {})
    out["nodedist"] = {}
    for key in W("nodedist"):
        u, v = key.split("|")
        out["nodedist"][key] = _h(byname[u].distance(byname[v]))
    out["lcaset"] = {}
    for key in W("lcaset"):
        out["lcaset"][key] = nm(tree.lowest_common_ancestor([ctx.name(t) for t in key.split(",")]))
    out["lca2"] = {}
    for key in W("lca2"):
        u, v = key.split("|")
        out["lca2"][key] = nm(tree.get_connecting_node(real(u), real(v)))
    out["conn"] = {}
    for key in W("conn"):
        u, v = key.split("|")
        try:
            out["conn"][key] = [nm(n) for n in tree.get_connecting_edges(real(u), real(v))]
        except Exception as ex:
            out["conn"][key] = f"raises:{type(ex).__name__}"
    out["edgenames"] = {}
    for key in W("edgenames"):
        a, b, o = key.split("|")
        og = None if o == "none" else ctx.name(o)
        # names of the (possibly re-rooted) temporary tree are the same strings
        inv = lambda n: ROOT if n == "root" and "root" not in ctx.inv else ctx.inv.get(n, NEW)
        clade = sorted(inv(n) for n in tree.get_edge_names(ctx.name(a), ctx.name(b), clade=True, stem=False, outgroup_name=og))
        try:
            stem = [inv(n) for n in tree.get_edge_names(ctx.name(a), ctx.name(b), clade=False, stem=True, outgroup_name=og)]
            stem = stem[0] if len(stem) == 1 else stem
        except TreeError:
            stem = "!root"  # documented: the common ancestor is the root and has no stem
        out["edgenames"][key] = {"clade": clade, "stem": stem}
    out["enddist"] = {}
    for key in W("enddist"):
        S = [ctx.name(t) for t in key.split(",")]
        d = {f"{ctx.inv.get(a, a)}|{ctx.inv.get(b, b)}": _h(x) for (a, b), x in tree.get_distances(endpoints=S).items()}
        mat, order = tree.tip_to_tip_distances(endpoints=S)
        onames = [ctx.inv.get(n.name, n.name) for n in order]
        d2 = {f"{a}|{b}": _h(mat[i, j]) for i, a in enumerate(onames) for j, b in enumerate(onames) if i != j}
        out["enddist"][key] = d if d == d2 else {"get_distances": d, "tip_to_tip_distances": d2}
    if "maxdist" in want:
        dist, pair = tree.max_tip_tip_distance()
        dist2, pair2, node = tree.get_max_tip_tip_distance()
        p1 = sorted(ctx.inv.get(n, n) for n in pair)
        p2 = sorted(ctx.inv.get(n, n) for n in pair2)
        out["maxdist"] = _h(dist)
        out["gmaxdist"] = _h(dist2)
        # each call names ONE farthest pair: it must be one of the spec's
        out["farpairs"] = want["farpairs"] if p1 in want["farpairs"] else p1
        out["gfarpairs"] = want["farpairs"] if p2 in want["farpairs"] else p2
    out["sametopo"] = {}
    for key in W("sametopo"):
        a, b = key.split("|")
        other = tree.copy()
        other.reassign_names({ctx.name(a): ctx.name(b), ctx.name(b): ctx.name(a)})
        out["sametopo"][key] = bool(tree.same_topology(other))
    return {k: v for k, v in out.items() if k in want}
