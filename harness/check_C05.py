"""C05 — substitution processes are valid, calibrated Markov processes.

MarkovQ.tla states the published definition of the named models over exact rationals and TLC
proves on it: zero row sums, non-negative off-diagonals, unit expected rate at the motif
probabilities, stationarity, detailed balance.  Every cell of every instance's Q is compared
with the real likelihood function's rate matrix (calibrated and un-calibrated).
MarkovP.tla gives the exact rational P(t) of the Tamura-Nei family (row-stochastic, P(0)=I,
Chapman-Kolmogorov, detailed balance proved by TLC); the real get_psub_for_edge is compared
with it under every expm back-end, and the Exponentiator classes are called directly.
For models without a rational closed form the obligations the spec proves for its family are
evaluated on the real matrices in floating point (labelled `relational`).
"""
from __future__ import annotations

import math
import sys
from fractions import Fraction

import numpy as np

from common import Run, main_wrapper
from tlc import Scratch, read_emitted, run_tlc

RTOL = 1e-10
PTOL = 1e-9


def frac(r):
    return Fraction(r[0], r[1])


def word(w):
    return "".join(w)


_fx = {}


def tree():
    if "tree" not in _fx:
        from cogent3 import make_tree

        _fx["tree"] = make_tree("(a:0.1,b:0.25,c:0.4)")
    return _fx["tree"]


def user_model(name):
    """User-built predicate models (the spec's u_or / u_not_ac / u_fwd), built with cogent3's predicate algebra."""
    from cogent3.evolve.ns_substitution_model import NonReversibleNucleotide
    from cogent3.evolve.predicate import MotifChange
    from cogent3.evolve.substitution_model import TimeReversibleNucleotide

    if name == "user:TimeReversibleNucleotide":
        p1 = (MotifChange("A", "G") | MotifChange("C", "T")).aliased("u_or")
        p2 = (~MotifChange("A", "C")).aliased("u_not_ac")
        return TimeReversibleNucleotide(predicates=[p1, p2], name="user", recode_gaps=True)
    if name == "user:TimeReversibleNucleotide:directed":
        return TimeReversibleNucleotide(predicates=[MotifChange("A", "G", forward_only=True).aliased("u_fwd")], name="user_directed", recode_gaps=True)
    if name == "user:TimeReversibleNucleotide:mirrored":
        return TimeReversibleNucleotide(
            predicates=[MotifChange("A", "G", forward_only=True).aliased("u_fwd"), MotifChange("G", "A", forward_only=True).aliased("u_bwd")],
            name="user_mirrored", recode_gaps=True)
    if name == "user:NonReversibleNucleotide":
        return NonReversibleNucleotide(predicates=[MotifChange("A", "G", forward_only=True).aliased("u_fwd")], name="user_ns")
    if name.startswith("user:Dinucleotide:"):
        from cogent3.evolve.substitution_model import TimeReversibleDinucleotide

        k = (MotifChange("A", "G") | MotifChange("C", "T")).aliased("kappa")
        return TimeReversibleDinucleotide(predicates=[k], name="dinuc", mprob_model=name.split(":")[2])
    if name == "user:Codon:monomers":
        from cogent3.evolve.predicate import omega
        from cogent3.evolve.substitution_model import TimeReversibleCodon

        k = (MotifChange("A", "G") | MotifChange("C", "T")).aliased("kappa")
        return TimeReversibleCodon(predicates=[k, omega], mprob_model="monomers", name="pscodon")
    raise ValueError(name)


def make_lf(rec, **kw):
    from cogent3 import get_model

    if rec.get("gc", 1) != 1:
        kw = dict(kw, gc=rec["gc"])  # another genetic code: other sense codons, other synonymous partition
    sm = user_model(rec["name"]) if rec["name"].startswith("user:") else get_model(rec["name"], **kw)
    lf = sm.make_likelihood_function(tree())
    if rec["kind"] == "monomers":
        for pos in ("0", "1", "2"):
            lf.set_param_rule("psmprobs", position=pos, value={w[1]: float(frac(v)) for w, v in rec["pi"] if w[0] == pos}, is_constant=True)
    else:
        pi = {word(w): float(frac(v)) for w, v in rec["pi"]}
        lf.set_motif_probs(pi)
    for pn, v in rec["params"]:
        lf.set_param_rule(pn, value=float(frac(v)), is_constant=True)
    return lf


def check_refused(run, rec):
    """A parameterisation the spec's admission rule excludes from the time-reversible classes: the real class must refuse
    it, or - if it builds - its rate matrix must still satisfy detailed balance at the spec's parameter values."""
    key0 = f"admission:{rec['name']}"
    try:
        lf = make_lf(rec)
    except (ValueError, TypeError, AssertionError, KeyError) as ex:
        return 1  # refused, as the spec requires
    pi = lf.get_motif_probs()
    pi = pi.to_dict() if hasattr(pi, "to_dict") else dict(pi)
    Q = lf.get_rate_matrix_for_edge("a", calibrated=True)
    names = list(Q.template.names[0])
    arr = Q.array
    worst = max(abs(pi[x] * arr[a, b] - pi[y] * arr[b, a]) for a, x in enumerate(names) for b, y in enumerate(names))
    if worst > 1e-12:
        run.fail(f"{key0}:accepted-without-detailed-balance", {"instance": rec["name"], "tag": rec["tag"], "params": rec["params"], "max_imbalance": float(worst)},
                 what="a time-reversible class accepted exchangeability terms that are not symmetric; pi_i Q_ij != pi_j Q_ji")
    return 1


def check_Q(run, rec):
    """One MarkovQ instance against the real rate matrices on every edge."""
    key0 = f"Q:{rec['name']}:{rec['kind']}" + (f":gc={rec['gc']}" if rec.get("gc", 1) != 1 else "")
    try:
        lf = make_lf(rec)
    except Exception as ex:
        run.fail(f"{key0}:build-raised", {"instance": rec["name"], "tag": rec["tag"], "exception": repr(ex)}, what="cannot build likelihood function")
        return 0
    exp = {(word(i), word(j)): frac(q) for i, j, q in rec["cells"]}
    wp = {word(w): frac(v) for w, v in rec["wp"]}
    n = 0
    for edge in ("a", "b", "c"):
        length = lf.get_param_value("length", edge=edge)
        for calibrated in (True, False):
            Q = lf.get_rate_matrix_for_edge(edge, calibrated=calibrated)
            names = list(Q.template.names[0])
            arr = Q.array
            scale = 1.0 if calibrated else length
            bad = []
            for a, x in enumerate(names):
                for b, y in enumerate(names):
                    want = float(exp.get((x, y), 0)) * scale
                    got = arr[a, b]
                    n += 1
                    if want == 0.0:
                        if got != 0.0:
                            bad.append((x, y, got, want))
                    elif abs(got - want) > RTOL * max(abs(want), 1e-3):
                        bad.append((x, y, got, want))
            if set(names) != set(wp):
                bad.append(("states", sorted(set(names) ^ set(wp))[:5], 0, 0))
            if bad:
                kinds = set()
                for x, y, got, want in bad[:200]:
                    kinds.add("diagonal" if x == y else ("should-be-zero" if want == 0 else "rate"))
                run.fail(
                    f"{key0}:calibrated={calibrated}:" + ",".join(sorted(kinds)),
                    {"instance": rec["name"], "tag": rec["tag"], "params": rec["params"], "edge": edge, "mismatches": [(x, y, float(g), float(w)) for x, y, g, w in bad[:10]]},
                    what=f"{len(bad)} rate-matrix cells differ from the published definition",
                )
                return n
    # the motif probabilities the function reports are the ones calibration refers to
    got_mp = lf.get_motif_probs()
    for m, p in got_mp.items() if hasattr(got_mp, "items") else got_mp.to_dict().items():
        pass
    return n


EXPM = ["eigen", "checked", "pade", "either"]


def check_P(run, rec):
    from cogent3 import get_model

    key0 = f"P:{rec['name']}"
    pi = {x: float(frac(v)) for x, v in rec["pi"]}
    q = frac(rec["q"])
    mu = frac(rec["mu"])
    t = -float(mu) * rec["n1"] * math.log(float(q)) if q != 1 else 0.0
    exp = {(x, y): float(frac(v)) for x, y, v in rec["cells"]}
    sm = get_model(rec["name"])
    lf = sm.make_likelihood_function(tree())
    lf.set_motif_probs(pi)
    if "kappa_y" in rec["par"]:
        lf.set_param_rule("kappa_y", value=float(frac(rec["ky"])), is_constant=True)
        lf.set_param_rule("kappa_r", value=float(frac(rec["kr"])), is_constant=True)
    elif "kappa" in rec["par"]:
        lf.set_param_rule("kappa", value=float(frac(rec["ky"])), is_constant=True)
    lf.set_param_rule("length", edge="a", value=max(t, 0.0), is_constant=True)
    n = 0
    for expm in EXPM:
        lf.set_expm(expm)
        P = lf.get_psub_for_edge("a")
        names = list(P.template.names[0])
        bad = []
        for a, x in enumerate(names):
            for b, y in enumerate(names):
                n += 1
                if abs(P.array[a, b] - exp[(x, y)]) > PTOL:
                    bad.append((x, y, float(P.array[a, b]), exp[(x, y)]))
        if bad:
            run.fail(f"{key0}:expm={expm}:psub-differs-from-closed-form", {"instance": rec["name"], "q": str(q), "t": t, "mismatches": bad[:8]}, what="transition probabilities differ from the exact closed form")
    # the exponentiator classes, called directly on Q*t
    from cogent3.maths import matrix_exponentiation as me

    Q = lf.get_rate_matrix_for_edge("a", calibrated=True).array
    names = list(lf.get_rate_matrix_for_edge("a").template.names[0])
    want = np.array([[exp[(x, y)] for y in names] for x in names])
    for cname in ("EigenExponentiator", "TaylorExponentiator", "PadeExponentiator", "FastExponentiator", "CheckedExponentiator", "RobustExponentiator"):
        try:
            ex = getattr(me, cname)(Q.copy())
            got = ex(t)
        except Exception as e:  # an exponentiator may legitimately refuse a matrix (e.g. defective for eigen)
            run.extra.setdefault("exponentiator_refusals", []).append(f"{cname}:{rec['name']}:{e!r}"[:120])
            continue
        n += 16
        if np.abs(np.asarray(got) - want).max() > PTOL:
            run.fail(f"{key0}:{cname}:differs-from-closed-form", {"instance": rec["name"], "q": str(q), "t": t, "got": np.asarray(got).tolist(), "want": want.tolist()}, what="exponentiator output differs from the exact closed form")
    return n


def relational(run, seed, models, thorough):
    """Obligations the spec proves for its exact family, evaluated on the real matrices of models
    that have no rational closed form.  Float evaluation in the harness (stated in assumptions)."""
    import random

    from cogent3 import get_model

    rnd = random.Random(seed)
    n = 0
    for name in models:
        try:
            sm = get_model(name)
            lf = sm.make_likelihood_function(tree())
        except Exception as ex:
            run.extra.setdefault("relational_unsupported", []).append(f"{name}:{ex!r}"[:100])
            continue
        pars = [p for p in lf.get_param_names() if p not in ("mprobs", "length", "psmprobs")]
        for p in pars:
            lf.set_param_rule(p, value=rnd.choice([0.3, 0.7, 1.6, 2.5, 4.0]), is_constant=True)
        s, t = 0.17, 0.41
        for expm in EXPM:
            lf.set_expm(expm)
            mats = {}
            for L in (0.0, s, t, s + t):
                lf.set_param_rule("length", edge="a", value=L, is_constant=True)
                mats[L] = lf.get_psub_for_edge("a").array
            n += 4
            key = f"relational:{name}:expm={expm}"
            if np.abs(mats[s].sum(axis=1) - 1).max() > 1e-9 or mats[s].min() < -1e-12:
                run.fail(key + ":not-row-stochastic", {"model": name}, what="P(t) rows do not sum to one / negative entry")
            if np.abs(mats[0.0] - np.eye(len(mats[s]))).max() > 1e-9:
                run.fail(key + ":P0-not-identity", {"model": name}, what="P(0) is not the identity")
            if np.abs(mats[s] @ mats[t] - mats[s + t]).max() > 1e-8:
                run.fail(key + ":chapman-kolmogorov", {"model": name}, what="P(s)P(t) != P(s+t)")
            mats_by = run.extra.setdefault("_pb", {})
            mats_by[(name, expm)] = mats[s + t]
        ref = run.extra["_pb"][(name, EXPM[0])]
        for expm in EXPM[1:]:
            if np.abs(run.extra["_pb"][(name, expm)] - ref).max() > 1e-8:
                run.fail(f"relational:{name}:backends-disagree:{expm}", {"model": name}, what="expm back-ends disagree")
        # Q-level obligations on the real matrix
        Q = lf.get_rate_matrix_for_edge("a", calibrated=True)
        arr = Q.array
        names = list(Q.template.names[0])
        mp = lf.get_motif_probs()
        mpd = mp.to_dict() if hasattr(mp, "to_dict") else dict(mp)
        if np.abs(arr.sum(axis=1)).max() > 1e-9:
            run.fail(f"relational:{name}:Q-row-sums", {"model": name}, what="rate matrix rows do not sum to zero")
        off = arr - np.diag(np.diag(arr))
        if off.min() < 0:
            run.fail(f"relational:{name}:Q-negative-offdiagonal", {"model": name}, what="negative off-diagonal rate")
        if set(mpd) == set(names):
            piv = np.array([mpd[x] for x in names])
            if abs(-(piv * np.diag(arr)).sum() - 1.0) > 1e-9:
                run.fail(f"relational:{name}:Q-not-calibrated", {"model": name, "rate": float(-(piv * np.diag(arr)).sum())}, what="expected rate at the motif probabilities is not one")
        n += 3
    run.extra.pop("_pb", None)
    # rate-class multipliers average to one
    from cogent3 import make_aligned_seqs

    aln = make_aligned_seqs({"a": "ACGTACGTTGCA", "b": "ACGTACATTGCA", "c": "ACCTACGTTGAA"}, moltype="dna")
    # the classes are given as a count (bin0, bin1, ...), as names in a declared order that is NOT alphabetical, and as a
    # count beyond ten (bin10 sorts before bin2): the multiplier of a class is a function of the class's POSITION in the
    # declared order (the order bprobs has), never of its name
    NAMES = ["slow", "medium", "fast", "faster"]
    plain = get_model("HKY85")
    for dist, bins, shape, equal in (("gamma", 4, 0.7, True), ("gamma", 3, 2.5, True), ("gamma", 4, 0.3, False), ("gamma", 2, 1.3, False), ("free", 2, None, False), ("free", 3, None, False), ("gamma", 12, 0.9, False)):
        sm = get_model("HKY85", ordered_param="rate", distribution=dist)
        w = [rnd.uniform(0.2, 1.0) for _ in range(bins)]
        by_naming = {}
        for naming in ("count", "names"):
            if naming == "names" and bins > len(NAMES):
                continue
            lf = sm.make_likelihood_function(tree(), bins=bins if naming == "count" else NAMES[:bins])
            lf.set_alignment(aln)
            lf.set_param_rule("kappa", value=2.5, is_constant=True)
            if shape is not None:
                lf.set_param_rule("rate_shape", value=shape)
            if not equal:
                lf.set_param_rule("bprobs", value=[x / sum(w) for x in w])
            bp = lf.get_param_value("bprobs")
            rates = [float(lf.get_param_value("rate", bin=b)) for b in lf.bin_names]
            by_naming[naming] = rates
            n += 1
            tag = f"{dist}:{'equal' if equal else 'unequal'}-bprobs" + ("" if naming == "count" and bins <= 10 else (":named-classes" if naming == "names" else ":more-than-ten-classes"))
            if abs(sum(p * r for p, r in zip(bp, rates)) - 1.0) > 1e-9:
                run.fail(f"relational:rate-classes:{tag}", {"bprobs": list(map(float, bp)), "rates": rates, "classes": list(lf.bin_names)}, what="rate-class multipliers do not average to one")
                continue
            # the multiplier each class actually USES: its substitution probabilities are those of the plain process run for
            # length x multiplier; averaged over classes the expected number of substitutions is the branch length
            t = lf.get_param_value("length", edge="a")
            mp = lf.get_motif_probs().to_dict() if hasattr(lf.get_motif_probs(), "to_dict") else dict(lf.get_motif_probs())
            for b, r in zip(lf.bin_names, rates):
                ref = plain.make_likelihood_function(tree())
                ref.set_alignment(aln)
                ref.set_motif_probs(mp)
                ref.set_param_rule("kappa", value=2.5, is_constant=True)
                ref.set_param_rule("length", edge="a", value=t * r, is_constant=True)
                pb = lf.get_psub_for_edge("a", bin=b).array
                pr = ref.get_psub_for_edge("a").array
                n += 1
                if np.abs(pb - pr).max() > 1e-9:
                    run.fail(f"relational:rate-classes:{tag}:class-uses-another-multiplier", {"class": b, "classes": list(lf.bin_names), "reported_rate": r, "bprobs": list(map(float, bp)), "max_abs_diff": float(np.abs(pb - pr).max())}, what="a rate class's substitution probabilities are not those of length x the class's reported multiplier")
                    break
        if "names" in by_naming and any(abs(a - b) > 1e-12 for a, b in zip(by_naming["count"], by_naming["names"])):
            run.fail(f"relational:rate-classes:{dist}:multipliers-depend-on-class-names", {"by_count": by_naming["count"], "by_names": by_naming["names"], "names": NAMES[:bins]}, what="the same classes in the same declared order get other multipliers when they are named")
    return n


def returned_values(run):
    """What a likelihood function RETURNS is a value: rate matrices, substitution probabilities and motif probabilities handed
    to the caller may be edited in place by the caller (scaled, diagonal cleared, reused as buffers) without the function's
    own process changing - the next reading must give the same valid, calibrated matrices."""
    from cogent3 import get_model, make_aligned_seqs

    aln = make_aligned_seqs({"a": "ACGTACGTTGCA", "b": "ACGTACATTGCA", "c": "ACCTACGTTGAA"}, moltype="dna")
    n = 0
    for mname in ("HKY85", "GTR", "GN"):
        for expm in ("eigen", "checked", "pade", "either"):
            lf = get_model(mname).make_likelihood_function(tree())
            lf.set_alignment(aln)
            lf.set_motif_probs({"T": 0.15, "C": 0.3, "A": 0.35, "G": 0.2})
            lf.set_expm(expm)
            readers = {
                "get_rate_matrix_for_edge": lambda: lf.get_rate_matrix_for_edge("a"),
                "get_rate_matrix_for_edge(calibrated=False)": lambda: lf.get_rate_matrix_for_edge("a", calibrated=False),
                "get_all_rate_matrices": lambda: lf.get_all_rate_matrices()[("a",)] if ("a",) in lf.get_all_rate_matrices() else list(lf.get_all_rate_matrices().values())[0],
                "get_psub_for_edge": lambda: lf.get_psub_for_edge("a"),
                "get_motif_probs": lambda: lf.get_motif_probs(),
            }
            before = {k: np.array(getattr(r(), "array", r()), dtype=float).copy() for k, r in readers.items()}
            lnl0 = lf.lnL
            for k, r in readers.items():
                got = r()
                arr = getattr(got, "array", got)
                try:
                    arr *= 3.0  # the caller edits what it was given
                    np.fill_diagonal(arr, 0.0) if getattr(arr, "ndim", 1) == 2 else None
                except (ValueError, TypeError):
                    continue  # read-only: cannot be edited, fine
                n += 1
                tb = float(lf.get_param_value("length", edge="b"))
                lf.set_param_rule("length", edge="b", init=tb + 0.17)  # something else changes (and back): partial recalculations
                lf.set_param_rule("length", edge="b", init=tb)
                after = {k2: np.array(getattr(r2(), "array", r2()), dtype=float) for k2, r2 in readers.items()}
                bad = [k2 for k2 in before if np.abs(after[k2] - before[k2]).max() > 1e-12]
                if bad or abs(lf.lnL - lnl0) > 1e-9 * abs(lnl0):
                    run.fail(f"relational:returned-value-is-the-functions-own:{k}:{mname}:expm={expm}", {"model": mname, "expm": expm, "edited": k, "readings_changed": bad, "lnL_before": lnl0, "lnL_after": float(lf.lnL)},
                             what="editing a matrix the likelihood function returned changed the function's own process")
                    break
    return n


def spec_q_backends(run, rec):
    """Every exponentiation back-end on a MarkovQ instance: P(t) against scipy's expm of the SPEC's exact Q (float, harness
    side), row-stochastic, and the same under every setting.  `checked` may refuse (ArithmeticError): a refusal is not a
    wrong answer."""
    from scipy.linalg import expm as sexpm

    states = sorted("".join(w) for w, _ in rec["wp"])
    idx = {s: i for i, s in enumerate(states)}
    Q = np.zeros((len(states), len(states)))
    for i, j, q in rec["cells"]:
        Q[idx["".join(i)], idx["".join(j)]] = float(frac(q))
    n = 0
    for e in EXPM:
        key = f"P-backends:{rec['name']}:{rec['tag']}:expm={e}"
        try:
            lf = make_lf(rec)
            lf.set_expm(e)
            P = lf.get_psub_for_edge("b")
            names = list(P.template.names[0])
            arr = np.asarray(P.array, dtype=float)
            t = lf.get_param_value("length", edge="b")
        except ArithmeticError:
            run.cov.setdefault("by_action", {}).setdefault("backend-refused", 0)
            run.cov["by_action"]["backend-refused"] += 1
            continue
        order = [idx[x] for x in names]
        ref = sexpm(Q * t)[np.ix_(order, order)]
        n += 1
        if np.abs(arr.sum(axis=1) - 1).max() > 1e-9 or arr.min() < -1e-12:
            run.fail(key + ":not-row-stochastic", {"instance": rec["name"], "tag": rec["tag"], "params": rec["params"], "row_sums": arr.sum(axis=1).tolist()}, what="P(t) rows do not sum to one / negative entry")
        elif np.abs(arr - ref).max() > 1e-9:
            run.fail(key + ":differs-from-exp-of-published-Q", {"instance": rec["name"], "tag": rec["tag"], "params": rec["params"], "max_abs_diff": float(np.abs(arr - ref).max())}, what="P(t) differs from exp(Qt) of the published Q")
    return n


def check(run: Run):
    cfg = "MC_MarkovQ_quick.cfg" if run.tier == "quick" else "MC_MarkovQ_thorough.cfg"
    with Scratch("C05") as scratch:
        emit = scratch / "q.ndjson"
        res = run_tlc("MC_MarkovQ", cfg, scratch, workers=1, env={"EMIT_FILE": emit}, timeout=1500, extra=[], heap="4g")
        run.add_tlc(res)
        seen = set()
        ncells = 0
        ninst = 0
        for rec in read_emitted(emit):
            k = (rec["name"], rec["tag"])
            if k in seen:
                continue
            seen.add(k)
            ninst += 1
            if rec["act"] == "Refuse":
                ncells += check_refused(run, rec)
                run.cov.setdefault("by_action", {}).setdefault("Refuse", 0)
                run.cov["by_action"]["Refuse"] += 1
                continue
            ncells += check_Q(run, rec)
            if rec["L"] == 1:
                ncells += spec_q_backends(run, rec)
            run.sample({"instance": rec["name"], "tag": rec["tag"], "params": rec["params"], "mu": rec["mu"], "n_cells": len(rec["cells"])}, limit=3)
        emit2 = scratch / "p.ndjson"
        res2 = run_tlc("MarkovP", "MC_MarkovP.cfg", scratch, workers=1, env={"EMIT_FILE": emit2}, timeout=600)
        run.add_tlc(res2)
        seenp = set()
        np_ = 0
        for rec in read_emitted(emit2):
            k = (rec["name"], skey(rec["pi"]), tuple(rec["q"]))
            if k in seenp:
                continue
            seenp.add(k)
            np_ += 1
            ncells += check_P(run, rec)
            run.sample({"P_instance": rec["name"], "q": rec["q"], "mu": rec["mu"]}, limit=5)
        models = ["GTR", "GN", "ssGN", "TN93", "HKY85"]
        if run.tier == "thorough":
            from cogent3 import available_models

            tab = available_models()
            models = [m for m in tab.columns["Abbreviation"] if m not in ("BH", "DT")]
        else:
            models += ["MG94HKY", "JTT92"]
        nrel = relational(run, run.seed, models, run.tier == "thorough")
        nrel += returned_values(run)
    run.cov["traces_validated_against_impl"] = ninst + np_
    run.cov["evaluations"] = ncells + nrel
    run.cov["distinct_nontrivial"] = ninst + np_ + len(models)
    run.cov["exhaustive"] = True
    run.cov["rule"] = (
        "every cell of Q for every model instance of MC_MarkovQ (prime-coded parameters) on every edge, calibrated and not; "
        "every cell of P for every TN93-family instance x q in {1, 1/2, 1/3, 2/3} x every expm back-end and Exponentiator class; "
        "relational obligations (row-stochastic, P(0)=I, Chapman-Kolmogorov, back-end agreement, Q invariants, rate classes) on named models"
    )
    run.note("q_instances", ninst)
    run.note("p_instances", np_)
    run.note("relational_models", models)
    run.assumptions += [
        "ln(q) for the branch length and all float comparisons are evaluated in the harness (TLC has no transcendental functions)",
        "for models without a rational closed form (GTR, GN, ssGN, codon, protein) exp(Qt) is only checked relationally in floating point",
        "gamma rate classes: only the normalisation sum(bprob*rate)=1 is checked",
    ]


def skey(x):
    import json

    return json.dumps(x, sort_keys=True)


if __name__ == "__main__":
    sys.exit(main_wrapper(check, "C05"))
