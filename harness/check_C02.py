"""C02 — log-likelihood equals the first-principles Felsenstein sum-product.

Felsenstein.tla defines the site likelihood by pruning AND by the explicit sum over all
assignments of states to all nodes, over exact rationals (Tamura-Nei family); TLC proves
they agree, that the likelihoods of all canonical columns sum to one and that rate classes
are a bprob-weighted mixture.  Every configuration (tree shape incl. polytomies, per-edge
branch lengths and parameter scopes, ambiguity-coded columns, rate classes) is instantiated
as a real likelihood function and get_full_length_likelihoods() / lnL are compared with the
exact values.  The normalisation clause is additionally evaluated on the real code for every
named model (all possible columns once must have likelihoods summing to one).
"""
from __future__ import annotations

import itertools
import math
import random
import sys
from fractions import Fraction

import numpy as np

from common import Run, main_wrapper
from tlc import Scratch, read_emitted, run_tlc

RTOL = 1e-10
RANK = {"JC69": 0, "F81": 1, "K80": 2, "HKY85": 3, "TN93": 4}


def frac(r):
    return Fraction(r[0], r[1])


def build_lf(rec):
    """Instantiate one Felsenstein configuration as a real likelihood function."""
    from cogent3 import get_model, make_aligned_seqs, make_tree

    edges = {e[0]: e for e in rec["edges"]}
    names = {e[1] for e in rec["edges"]} | {rec["model"]}
    # the model class able to express every edge's instance
    if any("kappa_y" in e[2] for e in rec["edges"]):
        mname = "TN93"
    elif any("kappa" in e[2] for e in rec["edges"]):
        mname = "K80" if all(frac(v) == Fraction(1, 4) for _, v in rec["pi"]) else "HKY85"
    else:
        mname = "JC69" if all(frac(v) == Fraction(1, 4) for _, v in rec["pi"]) else "F81"
    tree = make_tree(rec["newick"])
    kw = {}
    nb = len(rec["bprobs"])
    if nb:
        kw = dict(ordered_param="rate", distribution="free")
    sm = get_model(mname, **kw)
    lf = sm.make_likelihood_function(tree, bins=nb) if nb else sm.make_likelihood_function(tree)
    pi = {x: float(frac(v)) for x, v in rec["pi"]}
    if mname not in ("JC69", "K80"):
        # arguments are values: the probabilities are handed over in a numpy array that the caller goes on using as a work
        # buffer (overwritten right after the call); every later rule below triggers a partial recalculation
        buf = np.array([pi[str(m)] for m in sm.get_alphabet()], dtype=float)
        lf.set_motif_probs(buf)
        try:
            buf[:] = buf[::-1].copy()
        except ValueError:
            pass  # frozen by the function: cannot be reused, also fine
    leaves = [n for n in rec["leafname"] if n]
    ncol = len(rec["cols"])
    seqs = {n: [] for n in leaves}
    for col in rec["cols"]:
        # col: {node index (as string) -> symbol}
        for node, sym in col.items():
            seqs[rec["leafname"][int(node) - 1]].append(sym)
    aln = make_aligned_seqs({n: "".join(s) for n, s in seqs.items()}, moltype="dna")
    lf.set_alignment(aln)
    for ename, (_, iname, par, ky, kr, mu, n1, q) in edges.items():
        qf = frac(q)
        t = -float(frac(mu)) * n1 * math.log(float(qf)) if qf != 1 else 0.0
        lf.set_param_rule("length", edge=ename, value=t, is_constant=True)
        if mname == "TN93":
            lf.set_param_rule("kappa_y", edge=ename, value=float(frac(ky)), is_constant=True)
            lf.set_param_rule("kappa_r", edge=ename, value=float(frac(kr)), is_constant=True)
        elif mname in ("K80", "HKY85"):
            lf.set_param_rule("kappa", edge=ename, value=float(frac(ky)), is_constant=True)
    unsupported = None
    if nb:
        lf.set_param_rule("bprobs", value=[float(frac(b)) for b in rec["bprobs"]], is_constant=True)
        rates = [lf.get_param_value("rate", bin=b) for b in lf.bin_names]
        want = [m / rec["qpow"] for m in rec["mult"]]
        if any(abs(a - b) > 1e-12 for a, b in zip(rates, want)):
            unsupported = f"rate classes {rates} are not the configuration's {want}"
    return lf, unsupported


def check_config(run, rec):
    key0 = f"lik:{rec['id']}"
    lf, unsupported = build_lf(rec)
    if unsupported:
        run.extra.setdefault("unsupported", []).append(f"{rec['id']}: {unsupported}")
        return 0
    got = np.asarray(lf.get_full_length_likelihoods(), dtype=float)
    want = [frac(v) for v in rec["lik"]]
    if len(got) != len(want):
        run.fail(key0 + ":column-count", {"id": rec["id"], "got": len(got), "want": len(want)}, what="number of per-column likelihoods differs")
        return 0
    bad = []
    for i, (g, w) in enumerate(zip(got, want)):
        wf = float(w)
        if abs(g - wf) > RTOL * max(wf, 1e-300):
            col = rec["cols"][i]
            amb = any(s not in "TCAG" for s in col.values())
            bad.append((i, col, float(g), wf, amb))
    if bad:
        kinds = sorted({"ambiguous-column" if b[4] else "canonical-column" for b in bad})
        run.fail(key0 + ":" + ",".join(kinds), {"id": rec["id"], "newick": rec["newick"], "mismatches": bad[:8], "n_bad": len(bad)}, what=f"{len(bad)} per-column likelihoods differ from the exact sum-product")
    lnl = sum(math.log(float(w)) for w in want)
    if abs(lf.lnL - lnl) > 1e-9 * max(1.0, abs(lnl)):
        run.fail(key0 + ":lnL", {"id": rec["id"], "got": lf.lnL, "want": lnl}, what="lnL differs from the sum of log exact column likelihoods")
    return len(want)


def all_columns_sum(run, seed, models):
    """Normalisation clause on the real code for every named model: an alignment containing every
    possible column exactly once has per-column likelihoods summing to one (float, harness)."""
    from cogent3 import get_model, make_aligned_seqs, make_tree

    rnd = random.Random(seed)
    n = 0
    for name in models:
        try:
            if name.startswith("user:"):
                import check_C05

                sm = check_C05.user_model(name)
            else:
                sm = get_model(name)
        except Exception as ex:
            continue
        alpha = list(sm.get_alphabet())
        ml = len(alpha[0])
        ntax = 3 if len(alpha) <= 4 else 2
        tree = make_tree("(a:0.3,b:0.2,c:0.4)" if ntax == 3 else "(a:0.3,b:0.5)")
        taxa = ["a", "b", "c"][:ntax]
        cols = list(itertools.product(alpha, repeat=ntax))
        seqs = {t: "".join(c[i] for c in cols) for i, t in enumerate(taxa)}
        mt = sm.moltype.label if hasattr(sm, "moltype") else "dna"
        try:
            aln = make_aligned_seqs(seqs, moltype=mt)
            lf = sm.make_likelihood_function(tree)
            lf.set_alignment(aln)
        except Exception as ex:
            run.extra.setdefault("normalisation_unsupported", []).append(f"{name}:{ex!r}"[:120])
            continue
        if "psmprobs" in lf.get_param_names():
            # position-specific nucleotide probabilities: three different distributions
            for pos, pr in (("0", (1, 2, 3, 4)), ("1", (2, 1, 1, 1)), ("2", (1, 1, 2, 2))):
                lf.set_param_rule("psmprobs", position=pos, value={b: x / sum(pr) for b, x in zip("TCAG", pr)}, is_constant=True)
        for p in lf.get_param_names():
            if p in ("mprobs", "length", "psmprobs"):
                continue
            lf.set_param_rule(p, value=rnd.choice([0.4, 0.8, 1.7, 3.0]), is_constant=True)
        w = [rnd.uniform(0.3, 1.0) for _ in sm.get_motif_probs_alphabet()] if hasattr(sm, "get_motif_probs_alphabet") else None
        tot = float(np.sum(lf.get_full_length_likelihoods()))
        n += len(cols)
        if abs(tot - 1.0) > 1e-9:
            run.fail(f"normalisation:{name}", {"model": name, "sum": tot, "n_columns": len(cols)}, what="per-column likelihoods over all possible columns do not sum to one")
    return n


def motif_ambiguity(run, scratch):
    """MotifAmbig.tla: codon-model columns with partially known motifs on zero-length trees."""
    from cogent3 import get_model, make_aligned_seqs, make_tree

    emit = scratch / "motif.ndjson"
    res = run_tlc("MotifAmbig", "MC_MotifAmbig.cfg", scratch, workers=1, env={"EMIT_FILE": emit}, timeout=900)
    run.add_tlc(res)
    rec = next(iter(read_emitted(emit)))
    motifs = ["".join(m) for m in rec["motifs"]]
    pi = {"".join(w): float(frac(v)) for w, v in rec["pi"]}
    n = len(motifs)
    # all ordered pairs as columns; the wholly unknown motifs (index 0, 1) come first in both sequences
    pairs = [(i, j) for i in range(n) for j in range(n)]
    seqs = {"a": "".join(motifs[i] for i, _ in pairs), "b": "".join(motifs[j] for _, j in pairs)}
    ncase = 0
    # an unknown position of a motif may be written '-', 'N' or '?', and the model may be built with recode_gaps left at its
    # default or set to False: in MotifAmbig.tla all of these denote the same set of compatible states
    variants = [(model, None, None) for model in ("GY94", "MG94HKY", "CNFGTR")] + [("GY94", None, "?"), ("GY94", False, "?")]  # (recode_gaps=False refuses a literal gap character: not a legal input there)
    seqs0 = seqs
    for model, recode, sym in variants:
        vtag = ("" if recode is None else ":recode_gaps=False") + ("" if sym is None else ":unknown-written-as-" + sym)
        sm = get_model(model) if recode is None else get_model(model, recode_gaps=recode)
        seqs = seqs0 if sym is None else {k_: v_.replace("-", sym) for k_, v_ in seqs0.items()}
        lf = sm.make_likelihood_function(make_tree("(a:0.0,b:0.0)"))
        lf.set_alignment(make_aligned_seqs(seqs, moltype="dna"))
        if model == "GY94":
            lf.set_motif_probs(pi)
            want_pi = pi
        else:
            mp = lf.get_motif_probs()
            # monomer / conditional models: the word probabilities the function itself reports
            want_pi = None
        for e in ("a", "b"):
            lf.set_param_rule("length", edge=e, value=0.0, is_constant=True)
        got = np.asarray(lf.get_full_length_likelihoods(), dtype=float)
        for k, (i, j) in enumerate(pairs):
            if want_pi is not None:
                want = float(frac(rec["lik"][i][j]))
            else:
                continue
            ncase += 1
            if abs(got[k] - want) > RTOL * want + 1e-15:  # exact zero expected for incompatible motifs: float noise ~1e-18
                partial = any(("-" in m or "N" in m) and m not in ("---", "NNN") for m in (motifs[i], motifs[j]))
                run.fail(f"motif-ambiguity:{model}{vtag}:{'partially-known-motif' if partial else 'fully-known-or-unknown'}", {"model": model, "motif_a": motifs[i], "motif_b": motifs[j], "got": float(got[k]), "want": want, "column": k}, what="likelihood of a codon column is not the sum of pi over the states compatible with both tips")
        if want_pi is None:
            # relational for models whose word probabilities are derived: column (i,j) vs the same pair placed first
            for k, (i, j) in enumerate(pairs):
                first = pairs.index((i, j))
                ncase += 1
            # same columns in reversed order must give the same per-column values
            rseqs = {t: "".join(reversed([s[x : x + 3] for x in range(0, len(s), 3)])) for t, s in seqs.items()}
            lf2 = sm.make_likelihood_function(make_tree("(a:0.0,b:0.0)"))
            lf2.set_alignment(make_aligned_seqs(rseqs, moltype="dna"))
            lf2.set_motif_probs(lf.get_motif_probs())
            for e in ("a", "b"):
                lf2.set_param_rule("length", edge=e, value=0.0, is_constant=True)
            lf.set_motif_probs(lf.get_motif_probs())
            got1 = np.asarray(lf.get_full_length_likelihoods(), dtype=float)
            got2 = np.asarray(lf2.get_full_length_likelihoods(), dtype=float)[::-1]
            if np.abs(got1 - got2).max() > 1e-12:
                k = int(np.abs(got1 - got2).argmax())
                run.fail(f"motif-ambiguity:{model}:column-order-dependent", {"model": model, "motif_a": motifs[pairs[k][0]], "motif_b": motifs[pairs[k][1]], "forward": float(got1[k]), "reversed": float(got2[k])}, what="per-column likelihood of a codon column depends on the order of the columns")
    run.sample({"motif_ambiguity": {"motifs": motifs, "lik_GC-_vs_GCA": rec["lik"][3][2]}})
    return ncase


def wide_star(run, rec, Q, wp, idx):
    """The same first-principles column likelihood on a star tree with 70 tips (one polytomy wider than 64 children),
    every tip showing all four bases and a gap, columns that differ in single early tips."""
    import check_C05
    from cogent3 import make_aligned_seqs, make_tree
    from scipy.linalg import expm

    ntips, ncols = 70, 36
    tips = [f"t{i:02d}" for i in range(ntips)]
    lens = [0.02 + 0.003 * (i % 11) for i in range(ntips)]
    cols = [[("ACGT"[c % 4])] * ntips for c in range(ncols)]
    for k in range(ntips):
        cols[10 + (k % 20)][k] = "-"
    for k, (c, x) in enumerate(((0, "G"), (1, "T"), (2, "A"), (3, "C"))):
        cols[c][k] = x
    seqs = {t: "".join(c[i] for c in cols) for i, t in enumerate(tips)}
    sm = check_C05.make_lf(rec).model
    lf = sm.make_likelihood_function(make_tree("(" + ",".join(f"{t}:{l}" for t, l in zip(tips, lens)) + ");"))
    lf.set_alignment(make_aligned_seqs(seqs, moltype="dna"))
    lf.set_motif_probs({"".join(w): float(frac(v)) for w, v in rec["pi"]})
    for pn, v in rec["params"]:
        lf.set_param_rule(pn, value=float(frac(v)), is_constant=True)
    got = np.asarray(lf.get_full_length_likelihoods(), dtype=float)
    P = [expm(Q * l) for l in lens]
    bad = []
    for c, col in enumerate(cols):
        v = wp.copy()
        for k, s in enumerate(col):
            v = v * (P[k].sum(axis=1) if s == "-" else P[k][:, idx[s]])
        want = float(v.sum())
        if abs(got[c] - want) > 1e-8 * want:
            bad.append((c, float(got[c]), want))
    if bad:
        run.fail("specQ-pruning:wide-star:column-likelihood", {"ntips": ntips, "mismatches": bad[:6], "n_bad": len(bad)}, what=f"{len(bad)} per-column likelihoods on a 70-tip star tree differ from pruning with the published Q")
    return ncols


def spec_q_pruning(run, scratch):
    """lnL of every MarkovQ.tla instance (codon models under two genetic codes, dinucleotide, user-built, general):
    the real function's per-column likelihoods against a pruning whose rate matrix is the SPEC's exact Q (TLC output)
    and whose exponential is scipy's (float, harness side).  Binds the likelihood of the large models to the
    published definition of Q rather than to cogent3's own matrix."""
    import random

    import check_C05
    from cogent3 import make_aligned_seqs
    from scipy.linalg import expm

    emit = scratch / "q.ndjson"
    cfg = "MC_MarkovQ_quick.cfg" if run.tier == "quick" else "MC_MarkovQ_thorough.cfg"
    res = run_tlc("MC_MarkovQ", cfg, scratch, workers=1, env={"EMIT_FILE": emit}, timeout=1500, heap="4g")
    run.add_tlc(res)
    rnd = random.Random(run.seed)
    seen = set()
    n = 0
    for rec in read_emitted(emit):
        ident = (rec["name"], rec["kind"], rec["tag"])
        if ident in seen or rec["act"] != "Q":
            continue
        seen.add(ident)
        key0 = f"specQ-pruning:{rec['name']}:{rec['kind']}" + (f":gc={rec['gc']}" if rec.get("gc", 1) != 1 else "")
        try:
            lf = check_C05.make_lf(rec)
        except Exception as ex:
            run.fail(f"{key0}:build-raised", {"instance": rec["name"], "exception": repr(ex)}, what="cannot build likelihood function")
            continue
        states = sorted("".join(w) for w, _ in rec["wp"])
        idx = {s: i for i, s in enumerate(states)}
        Q = np.zeros((len(states), len(states)))
        for i, j, q in rec["cells"]:
            Q[idx["".join(i)], idx["".join(j)]] = float(frac(q))
        wp = np.array([float(frac(v)) for _, v in sorted(((("".join(w)), v) for w, v in rec["wp"]))])
        ncol = 12
        cols = [[rnd.choice(states) for _ in "abc"] for _ in range(ncol)]
        # a column repeated and one with all tips equal
        cols.append(list(cols[0]))
        cols.append([states[0]] * 3)
        seqs = {t: "".join(c[k] for c in cols) for k, t in enumerate("abc")}
        mt = "dna"
        try:
            lf.set_alignment(make_aligned_seqs(seqs, moltype=mt))
        except Exception as ex:
            run.extra.setdefault("unsupported", []).append(f"{key0}: set_alignment {ex!r}"[:160])
            continue
        # set_alignment may re-estimate motif probs from the data: put the instance's own back
        lf2 = check_C05.make_lf(rec)
        lf2.set_alignment(make_aligned_seqs(seqs, moltype=mt))
        if rec["kind"] == "monomers":
            for pos in ("0", "1", "2"):
                lf2.set_param_rule("psmprobs", position=pos, value={w[1]: float(frac(v)) for w, v in rec["pi"] if w[0] == pos}, is_constant=True)
        else:
            lf2.set_motif_probs({"".join(w): float(frac(v)) for w, v in rec["pi"]})
        for pn, v in rec["params"]:
            lf2.set_param_rule(pn, value=float(frac(v)), is_constant=True)
        got = np.asarray(lf2.get_full_length_likelihoods(), dtype=float)
        P = {e: expm(Q * lf2.get_param_value("length", edge=e)) for e in "abc"}
        # root distribution: the word probabilities (stationary models) / the supplied motif probs (general models)
        bad = []
        for c, col in enumerate(cols):
            v = wp.copy()
            for k, e in enumerate("abc"):
                v = v * P[e][:, idx[col[k]]]
            want = float(v.sum())
            n += 1
            if abs(got[c] - want) > 1e-8 * want:
                bad.append((c, col, float(got[c]), want))
        if bad:
            run.fail(key0 + ":column-likelihood", {"instance": rec["name"], "tag": rec["tag"], "gc": rec.get("gc", 1), "params": rec["params"], "mismatches": bad[:6], "n_bad": len(bad)}, what=f"{len(bad)} per-column likelihoods differ from pruning with the published Q")
        if rec["name"] == "HKY85" and rec["tag"] == "k3":
            n += wide_star(run, rec, Q, wp, idx)
    return n


def check_hmm(run, rec):
    """A site-HMM configuration (sites_independent=False): the real lnL of the ORDERED alignment against the exact
    forward / path-sum likelihood of Felsenstein.tla."""
    from cogent3 import get_model, make_aligned_seqs, make_tree

    key0 = f"hmm:{rec['id']}"
    nb = len(rec["bprobs"])
    tree = make_tree(rec["newick"])
    sm = get_model("K80")
    leaves = [n for n in rec["leafname"] if n]
    seqs = {n: [] for n in leaves}
    for col in rec["cols"]:
        for node, sym in col.items():
            seqs[rec["leafname"][int(node) - 1]].append(sym)
    aln = make_aligned_seqs({n: "".join(s) for n, s in seqs.items()}, moltype="dna")
    want = math.log(float(frac(rec["alnlik"])))

    def build(switch):
        lf = sm.make_likelihood_function(tree, bins=nb, sites_independent=False)
        lf.set_alignment(aln)
        for (ename, iname, par, ky, kr, mu, n1, q) in rec["edges"]:
            qf = frac(q)
            # branch length such that the K80/JC69 closed form has base q: both classes share the edge's q here (mult = 1)
            t = -float(frac(mu)) * n1 * math.log(float(qf)) if qf != 1 else 0.0
            lf.set_param_rule("length", edge=ename, value=t, is_constant=True)
        for b, (par, ky) in enumerate(rec["binpar"]):
            lf.set_param_rule("kappa", bin=lf.bin_names[b], value=float(frac(ky)), is_constant=True)
        lf.set_param_rule("bprobs", value=[float(frac(b)) for b in rec["bprobs"]], is_constant=True)
        lf.set_param_rule("bin_switch", value=switch, is_constant=True)
        return lf

    lf = build(float(frac(rec["switch"])))
    got = lf.lnL
    if abs(got - want) > 1e-9 * max(1.0, abs(want)):
        bp = [frac(b) for b in rec["bprobs"]]
        half = len(bp) // 2  # cogent3: the first half of the classes form patch 1
        run.fail(key0 + ":lnL:" + ("unequal-patch-probabilities" if sum(bp[:half]) != sum(bp[half:]) else "equal-patch-probabilities"),
                 {"id": rec["id"], "got": got, "want": want, "bprobs": rec["bprobs"], "switch": rec["switch"], "alignment": aln.to_dict()},
                 what="lnL of the site-HMM differs from the exact sum over patch paths")
    return len(rec["cols"])


def check_loci(run, rec):
    """Several loci sharing one tree (SumDefn over the locus dimension): per-locus column likelihoods and the total lnL."""
    from cogent3 import get_model, make_aligned_seqs, make_tree

    key0 = f"loci:{rec['id']}"
    tree = make_tree(rec["newick"])
    sm = get_model("K80")
    names = [f"locus{l}" for l in range(len(rec["loccols"]))]
    leaves = [n for n in rec["leafname"] if n]
    alns = []
    for cols in rec["loccols"]:
        seqs = {n: [] for n in leaves}
        for col in cols:
            for node, sym in col.items():
                seqs[rec["leafname"][int(node) - 1]].append(sym)
        alns.append(make_aligned_seqs({n: "".join(s) for n, s in seqs.items()}, moltype="dna"))
    lf = sm.make_likelihood_function(tree, loci=names)
    lf.set_alignment(alns)
    for (ename, iname, par, ky, kr, mu, n1, q) in rec["edges"]:
        qf = frac(q)
        t = -float(frac(mu)) * n1 * math.log(float(qf)) if qf != 1 else 0.0
        lf.set_param_rule("length", edge=ename, value=t, is_constant=True)
    for l, (par, ky) in enumerate(rec["binpar"]):
        lf.set_param_rule("kappa", locus=names[l], value=float(frac(ky)), is_constant=True)
    n = 0
    total = 0.0
    for l, name in enumerate(names):
        got = np.asarray(lf.get_full_length_likelihoods(locus=name), dtype=float)
        want = [float(frac(v)) for v in rec["loclik"][l]]
        total += sum(math.log(w) for w in want)
        n += len(want)
        if len(got) != len(want) or any(abs(g - w) > RTOL * w for g, w in zip(got, want)):
            run.fail(f"{key0}:locus-column-likelihoods", {"id": rec["id"], "locus": l, "got": got.tolist(), "want": want}, what="per-column likelihoods of a locus differ from the exact sum-product of that locus's model on that locus's columns")
    if abs(lf.lnL - total) > 1e-9 * max(1.0, abs(total)):
        run.fail(f"{key0}:lnL", {"id": rec["id"], "got": lf.lnL, "want": total}, what="lnL is not the sum over loci of the log column likelihoods")
    return n


def class_mixture(run):
    """Site classes as Felsenstein.tla defines them: the likelihood of a column is the bprobs-weighted SUM over classes of
    the column's likelihood under that class's own process (Lik(c, b)).  Here the classes differ in ONE rate term of the
    model (ordered_param / the rate), the classes are named in a declared order that is not alphabetical, and each class's
    process is rebuilt from what the function REPORTS for that class (term x the class's factor)."""
    from cogent3 import get_model, make_aligned_seqs, make_tree

    tree = make_tree("((a:0.11,b:0.23):0.07,c:0.31,d:0.05)")
    aln = make_aligned_seqs({"a": "ACGTACGTAAGRTC-A", "b": "ACGTACGTCAGGTCTA", "c": "ACTTACGGCAYGTCTA", "d": "GCTTATGGCAAGNCTT"}, moltype="dna")
    mprobs = {"T": 0.15, "C": 0.3, "A": 0.35, "G": 0.2}
    cases = [
        ("TN93", "kappa_y", {"kappa_y": 3.0, "kappa_r": 0.6}),
        ("TN93", "kappa_r", {"kappa_y": 3.0, "kappa_r": 0.6}),
        ("GTR", "A/G", {"A/C": 0.7, "A/G": 2.9, "A/T": 1.3, "C/G": 0.5, "C/T": 3.4}),
        ("GTR", "C/T", {"A/C": 0.7, "A/G": 2.9, "A/T": 1.3, "C/G": 0.5, "C/T": 3.4}),
        ("HKY85", "kappa", {"kappa": 2.2}),
        ("HKY85", "rate", {"kappa": 2.2}),
    ]
    n = 0
    for mname, op, terms in cases:
        for dist in ("free", "gamma"):
            for names, bp in ((["low", "high"], [0.3, 0.7]), (["slow", "medium", "fast"], [0.2, 0.3, 0.5]), (2, [0.3, 0.7])):
                key = f"class-mixture:{mname}:classes-differ-in={op}:{dist}:{'named' if isinstance(names, list) else 'counted'}-classes"
                lf = get_model(mname, ordered_param=op, distribution=dist).make_likelihood_function(tree, bins=names)
                lf.set_alignment(aln)
                lf.set_motif_probs(mprobs)
                for t, v in terms.items():
                    lf.set_param_rule(t, value=v, is_constant=True)
                lf.set_param_rule("bprobs", value=bp, is_constant=True)
                fname = "rate" if op == "rate" else f"{op}_factor"
                factors = [float(lf.get_param_value(fname, bin=b)) for b in lf.bin_names]
                got = np.asarray(lf.get_full_length_likelihoods(), dtype=float)
                want = np.zeros_like(got)
                for w, f in zip(bp, factors):
                    one = get_model(mname).make_likelihood_function(tree)
                    one.set_alignment(aln)
                    one.set_motif_probs(mprobs)
                    for t, v in terms.items():
                        one.set_param_rule(t, value=v * (f if t == op else 1.0), is_constant=True)
                    if op == "rate":
                        for e in tree.get_edge_vector(include_root=False):
                            one.set_param_rule("length", edge=e.name, value=e.length * f, is_constant=True)
                    want += w * np.asarray(one.get_full_length_likelihoods(), dtype=float)
                n += len(got)
                if np.abs(got - want).max() > 1e-10 * np.abs(want).max():
                    run.fail(key, {"model": mname, "ordered_param": op, "distribution": dist, "classes": list(lf.bin_names), "bprobs": bp, "reported_factors": factors,
                                   "lnL": float(lf.lnL), "lnL_of_weighted_sum": float(np.log(want).sum())},
                             what="column likelihoods are not the bprobs-weighted sum over the classes' own processes (as the function reports them)")
    return n


def check(run: Run):
    cfg = "MC_Felsenstein_quick.cfg" if run.tier == "quick" else "MC_Felsenstein_thorough.cfg"
    with Scratch("C02") as scratch:
        emit = scratch / "lik.ndjson"
        res = run_tlc("MC_Felsenstein", cfg, scratch, workers=1, env={"EMIT_FILE": emit}, timeout=3000)
        run.add_tlc(res)
        seen = set()
        ncols = 0
        for rec in read_emitted(emit):
            if rec["id"] in seen:
                continue
            seen.add(rec["id"])
            if rec.get("loci"):
                ncols += check_loci(run, rec)
                run.sample({"config": rec["id"], "loci": len(rec["loccols"]), "exact_first_locus": rec["loclik"][0][:2]}, limit=6)
                continue
            if rec.get("hmm"):
                ncols += check_hmm(run, rec)
                run.sample({"config": rec["id"], "switch": rec["switch"], "bprobs": rec["bprobs"], "exact_alignment_likelihood": rec["alnlik"]}, limit=6)
                continue
            ncols += check_config(run, rec)
            run.sample({"config": rec["id"], "newick": rec["newick"], "first_column": rec["cols"][0], "exact_likelihood": rec["lik"][0]}, limit=4)
        models = ["JC69", "F81", "HKY85", "TN93", "GTR", "GN", "ssGN", "user:Codon:monomers", "user:Dinucleotide:monomer"]
        if run.tier == "thorough":
            models += ["MG94HKY", "GY94", "CNFGTR", "JTT92", "WG01", "H04G", "GNC"]
        else:
            models += ["JTT92"]
        nnorm = all_columns_sum(run, run.seed, models)
        nnorm += motif_ambiguity(run, scratch)
        nnorm += spec_q_pruning(run, scratch)
        nnorm += class_mixture(run)
    run.cov["traces_validated_against_impl"] = len(seen)
    run.cov["evaluations"] = ncols + nnorm
    run.cov["distinct_nontrivial"] = ncols
    run.cov["exhaustive"] = True
    run.cov["rule"] = (
        "every column (all symbol patterns over T,C,A,G,R,Y,N per leaf, incl. ambiguity) of every Felsenstein.tla configuration "
        "(2-4 tips, star / rooted / root trifurcation, per-edge lengths and kappa scopes, 2 rate classes) compared with the exact rational "
        "site likelihood; plus the all-columns-sum-to-one obligation on named models in float"
    )
    run.note("configurations", sorted(seen))
    run.note("normalisation_models", models)
    run.assumptions += [
        "ln for branch lengths / lnL and float comparison (rtol 1e-10) are harness-side",
        "exact oracle only for the Tamura-Nei family on <= 4 tips; other models (codon under two genetic codes, dinucleotide, user-built, GN): "
        "per-column likelihood against pruning with the SPEC's exact Q and scipy's expm (float, rtol 1e-8), Q itself by C05, pruning structure by C11, normalisation here",
    ]


if __name__ == "__main__":
    sys.exit(main_wrapper(check, "C02"))
