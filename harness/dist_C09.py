"""C09 tree-to-tree distances: replay TreeDist.tla records on the real functions.

A record names two topologies as cluster families and carries the spec's values of
Robinson-Foulds and the matching distance for their kind (rooted: both roots
bifurcating; unrooted: neither).  Here the two real trees are built from the clusters
(two child orders), the real functions are called both ways round, and the numbers
compared.  No distance is computed on this side.
"""
from __future__ import annotations

import json
import multiprocessing as mp
import os
from collections import defaultdict

METHODS = {
    "rooted": {
        "rf": ["rooted_robinson_foulds", "rrf", "rf"],
        "matching": ["matching_cluster", "mc", "matching", None],
    },
    "unrooted": {
        "rf": ["unrooted_robinson_foulds", "urf", "rf"],
        "matching": ["lin_rajan_moret", "lrm", "matching", None],
    },
}


def newick_of(clusters, tips, reverse=False):
    """Nested newick text of a laminar family (instantiation only)."""
    fam = [frozenset(c) for c in clusters]

    def render(members, inner):
        maximal = [c for c in inner if not any(c < o for o in inner)]
        parts = [(min(c), render(c, [x for x in inner if x < c])) for c in maximal]
        loose = set(members).difference(*maximal) if maximal else set(members)
        parts += [(t, t) for t in loose]
        parts.sort(reverse=reverse)
        return "(" + ",".join(p for _, p in parts) + ")"

    return render(frozenset(tips), fam) + ";"


def _measure(ta, tb, exp, prefix):
    """Call every real distance function on (ta, tb) both ways round and compare with the spec's
    values `exp`; -> (issues, ncalls, unsupported)."""
    kind = exp["kind"]
    issues, ncalls, unsupported = [], 0, 0
    if kind == "mixed":
        return issues, ncalls, 1  # tree_distance documents a ValueError here; no distance is defined
    for measure, names in METHODS[kind].items():
        if measure == "matching" and not exp["defined"]:
            unsupported += 1  # Lin-Rajan-Moret needs equally resolved trees (code raises ValueError)
            continue
        want = exp[measure]
        cls = "zero" if want == 0 else "positive"
        for m in names:
            for x, y, way in ((ta, tb, "ab"), (tb, ta, "ba")):
                ncalls += 1
                try:
                    got = x.tree_distance(y, method=m)
                except Exception as ex:
                    issues.append((f"{prefix}:{kind}:{measure}:raises:{type(ex).__name__}", {"method": m, "order": way, "exception": repr(ex)}))
                    continue
                if got != want or isinstance(got, bool):
                    sym = "" if way == "ab" else ":swapped"
                    issues.append((f"{prefix}:{kind}:{measure}:{cls}-expected{sym}", {"method": m, "order": way, "got": repr(got), "expected": want}))
        if kind == "unrooted" and measure == "matching":
            ncalls += 1
            got = ta.lin_rajan_moret(tb)
            if got != want:
                issues.append((f"{prefix}:unrooted:matching:{cls}-expected", {"method": "TreeNode.lin_rajan_moret", "got": repr(got), "expected": want}))
    return issues, ncalls, unsupported


def _case(rec):
    from cogent3 import make_tree

    F, G = rec["args"]
    exp = rec["obs"]
    tips = rec["tips"]
    issues = []
    ncalls = 0
    unsupported = 0
    for rev in (False, True):
        ta = make_tree(newick_of(F, tips, reverse=rev))
        tb = make_tree(newick_of(G, tips))
        i, n, u = _measure(ta, tb, exp, "TreeDistance")
        issues += i
        ncalls += n
        unsupported += u
    return rec, issues, ncalls, unsupported


def replay(records, run, nproc=None):
    import cogent3  # noqa: F401

    nproc = nproc or min(16, os.cpu_count() or 1)
    stats = defaultdict(int)
    ctxm = mp.get_context("fork")
    with ctxm.Pool(nproc) as pool:
        for rec, issues, ncalls, unsupported in pool.imap_unordered(_case, records, chunksize=64):
            stats["pairs"] += 1
            stats["calls"] += ncalls
            stats["unsupported"] += unsupported
            stats[f"kind_{rec['obs']['kind']}"] += 1
            seen = set()
            for key, detail in issues:
                stats["issues"] += 1
                if key in seen:
                    continue
                seen.add(key)
                run.fail(
                    key,
                    {"tree1": newick_of(rec["args"][0], rec["tips"]), "tree2": newick_of(rec["args"][1], rec["tips"]), "spec": rec["obs"], **detail},
                    what=f"{detail.get('method')} on {newick_of(rec['args'][0], rec['tips'])} vs {newick_of(rec['args'][1], rec['tips'])}",
                )
            if stats["pairs"] % 9973 == 1 and not issues and rec["obs"]["kind"] != "mixed":
                run.sample({"tree1": newick_of(rec["args"][0], rec["tips"]), "tree2": newick_of(rec["args"][1], rec["tips"]), "expected": rec["obs"]})
    return dict(stats)


# ---------------------------------------------------------------- histories (TreeDistHist.tla)
def _canon(F):
    return sorted(sorted(c) for c in F)


def hkey(st):
    return json.dumps([st["live"], _canon(st["A"]), _canon(st["B"]), st["meas"]], separators=(",", ":"))


def _clusters(tree):
    """Topology of a real tree read off its tips (NOT through subsets(), which is under test)."""
    out = []
    for node in tree.traverse(include_self=False):
        tips = sorted(t.name for t in node.tips())
        if len(tips) >= 2:
            out.append(tips)
    return sorted(out)


class HCtx:
    def __init__(self, reverse):
        self.reverse = reverse
        self.ta = self.tb = None
        self.meas = False
        self.live = False

    def state(self):
        if not self.live:
            return {"live": False, "A": [], "B": [], "meas": False}
        return {"live": True, "A": _clusters(self.ta), "B": _clusters(self.tb), "meas": self.meas}


def _happly(ctx, act, args, tips, exp=None, prefix="TreeDistance"):
    """Make the real call(s) for one TreeDistHist label on the objects in ctx."""
    import copy

    from cogent3 import make_tree

    if act == "Start":
        ctx.ta = make_tree(newick_of(args[0], tips, reverse=ctx.reverse))
        ctx.tb = make_tree(newick_of(args[1], tips))
        ctx.live = True
        return [], 0, 0
    if act == "Measure":
        ctx.meas = True
        issues, n, u = [], 0, 0
        if exp is None:  # inside a history: measure exactly as a Measure label does, ignore the values
            try:
                ctx.ta.subsets()
                ctx.ta.compare_by_subsets(ctx.tb)
                ctx.ta.tree_distance(ctx.tb, method="rf")
                ctx.tb.tree_distance(ctx.ta, method="rf")
                ctx.ta.tree_distance(ctx.tb)
            except ValueError:
                pass
            return issues, n, u
        issues, n, u = _measure(ctx.ta, ctx.tb, exp["dist"], prefix)
        got = sorted(sorted(c) for c in ctx.ta.subsets())
        if got != _canon(exp["subsets"]):
            issues.append((f"{prefix}:subsets", {"method": "subsets", "got": got, "expected": _canon(exp["subsets"])}))
        if exp["total"]:
            got = ctx.ta.compare_by_subsets(ctx.tb)
            # 1 - 2 * common / total, from the spec's two counts
            if abs(got * exp["total"] - (exp["total"] - 2 * exp["common"])) > 1e-9:
                issues.append((f"{prefix}:compare_by_subsets", {"method": "compare_by_subsets", "got": got, "common": exp["common"], "total": exp["total"]}))
        return issues, n + 2, u
    if act == "Copy":
        ctx.ta = ctx.ta.copy()
    elif act == "DeepCopy":
        ctx.ta = copy.deepcopy(ctx.ta)
    elif act == "Prune":
        ctx.ta.prune()
    elif act == "Bifurcating":
        ctx.ta = ctx.ta.bifurcating()
    elif act == "Multifurcating3":
        ctx.ta = ctx.ta.multifurcating(3)
    elif act == "CopyRename":
        ctx.ta = ctx.ta.copy()
        ctx.ta.reassign_names({args[0]: args[1], args[1]: args[0]})
    elif act == "RenameInPlace":
        ctx.ta.reassign_names({args[0]: args[1], args[1]: args[0]})
    else:
        raise ValueError(act)
    return [], 0, 0


_H = {}
MEASURE = json.dumps(["Measure", []], separators=(",", ":"))


def _htask(job):
    fkey, lab, path = job
    succ, tips = _H["succ"], _H["tips"]
    act, args = json.loads(lab)
    allowed = succ[fkey][lab]  # [(tkey, obs)]
    outs = []
    hist = ">".join(json.loads(p)[0] for p in path[1:]) or "fresh"
    for reverse in (False, True):
        ctx = HCtx(reverse)
        for pl in path:
            pa, pargs = json.loads(pl)
            _happly(ctx, pa, pargs, tips)
        issues, ncalls, unsupported = [], 0, 0
        try:
            issues, ncalls, unsupported = _happly(ctx, act, args, tips, exp=allowed[0][1] if act == "Measure" else None, prefix=f"TreeDistance:after={hist}")
        except Exception as ex:
            issues.append((f"TreeDistHist:{act}:raises:{type(ex).__name__}", {"exception": repr(ex)}))
        got = hkey(ctx.state())
        to = got if any(t == got for t, _ in allowed) else None
        if to is None and not issues:
            issues.append((f"TreeDistHist:{act}:topology", {"observed_state": ctx.state(), "allowed": [json.loads(t) for t, _ in allowed][:6]}))
        if to is not None and act not in ("Measure", "Start"):
            # measure again on the SAME objects right after the transformation: the spec's values for
            # the state just reached (its Measure transition) must show, whatever was measured before
            exp = succ[to][MEASURE][0][1]
            try:
                i2, n2, u2 = _happly(ctx, "Measure", [], tips, exp=exp, prefix=f"TreeDistance:after={hist}>{act}".replace("fresh>", ""))
                issues += i2
                ncalls += n2
                unsupported += u2
            except Exception as ex:
                issues.append((f"TreeDistHist:{act}:measure-raises:{type(ex).__name__}", {"exception": repr(ex)}))
        outs.append((to, issues, ncalls, unsupported))
    return fkey, lab, outs


def replay_histories(records, tips, run, nproc=None):
    """Breadth-first walk of the TreeDistHist graph on real objects (two child orders)."""
    import cogent3  # noqa: F401

    succ = defaultdict(dict)
    ntrans = 0
    for r in records:
        f, t = hkey(r["from"]), hkey(r["to"])
        args = r["args"] if r["act"] != "Start" else [_canon(a) for a in r["args"]]
        lab = json.dumps([r["act"], args], separators=(",", ":"))
        lst = succ[f].setdefault(lab, [])
        if all(t != x for x, _ in lst):
            lst.append((t, r["obs"]))
            ntrans += 1
    _H["succ"], _H["tips"] = succ, tips
    nproc = nproc or min(16, os.cpu_count() or 1)
    init = hkey({"live": False, "A": [], "B": [], "meas": False})
    paths = {init: []}
    frontier = [init]
    stats = defaultdict(int)
    per_act = defaultdict(int)
    with mp.get_context("fork").Pool(nproc) as pool:
        while frontier:
            jobs = [(f, lab, paths[f]) for f in frontier for lab in succ.get(f, {})]
            nxt = []
            for fkey, lab, outs in pool.imap_unordered(_htask, jobs, chunksize=32):
                stats["transitions"] += 1
                act, args = json.loads(lab)
                per_act[act] += 1
                for to, issues, ncalls, unsupported in outs:
                    stats["cases"] += 1
                    stats["calls"] += ncalls
                    stats["unsupported"] += unsupported
                    seen = set()
                    for key, detail in issues:
                        stats["issues"] += 1
                        if key in seen:
                            continue
                        seen.add(key)
                        run.fail(key, {"history": [json.loads(p) for p in paths[fkey]], "call": [act, args], **detail},
                                 what=f"{act} after {[json.loads(p)[0] for p in paths[fkey]]}")
                to = outs[0][0]
                if to is not None and not outs[0][1] and to not in paths:
                    paths[to] = paths[fkey] + [lab]
                    nxt.append(to)
                if act == "Measure" and len(paths[fkey]) >= 3 and stats["transitions"] % 997 == 0:
                    run.sample({"history": [json.loads(p) for p in paths[fkey]], "call": "Measure (every distance, subsets, compare_by_subsets)"})
            frontier = nxt
    stats["impl_states_reached"] = len(paths)
    stats["spec_states"] = len(set(succ) | {t for d in succ.values() for l in d.values() for t, _ in l})
    stats["spec_transitions"] = ntrans
    stats["per_action"] = dict(per_act)
    return dict(stats)
