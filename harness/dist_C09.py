"""C09 tree-to-tree distances: replay TreeDist.tla records on the real functions.

A record names two topologies as cluster families and carries the spec's values of
Robinson-Foulds and the matching distance for their kind (rooted: both roots
bifurcating; unrooted: neither).  Here the two real trees are built from the clusters
(two child orders), the real functions are called both ways round, and the numbers
compared.  No distance is computed on this side.
"""
from __future__ import annotations

import multiprocessing as mp
import os
from collections import defaultdict

METHODS = {
    "rooted": {
        "rf": ["rooted_robinson_foulds", "rrf", "rf"],
        "matching": ["matching_cluster", "mc", "matching", None],
    },
    "unrooted": {
        "rf": ["unrooted_robinson_foulds", "urf", "rf"],
        "matching": ["lin_rajan_moret", "lrm", "matching", None],
    },
}


def newick_of(clusters, tips, reverse=False):
    """Nested newick text of a laminar family (instantiation only)."""
    fam = [frozenset(c) for c in clusters]

    def render(members, inner):
        maximal = [c for c in inner if not any(c < o for o in inner)]
        parts = [(min(c), render(c, [x for x in inner if x < c])) for c in maximal]
        loose = set(members).difference(*maximal) if maximal else set(members)
        parts += [(t, t) for t in loose]
        parts.sort(reverse=reverse)
        return "(" + ",".join(p for _, p in parts) + ")"

    return render(frozenset(tips), fam) + ";"


def _case(rec):
    from cogent3 import make_tree

    F, G = rec["args"]
    exp = rec["obs"]
    tips = rec["tips"]
    kind = exp["kind"]
    issues = []
    ncalls = 0
    unsupported = 0
    for rev in (False, True):
        ta = make_tree(newick_of(F, tips, reverse=rev))
        tb = make_tree(newick_of(G, tips))
        if kind == "mixed":
            unsupported += 1  # tree_distance documents a ValueError here; no distance is defined
            continue
        for measure, names in METHODS[kind].items():
            if measure == "matching" and not exp["defined"]:
                unsupported += 1  # Lin-Rajan-Moret needs equally resolved trees (code raises ValueError)
                continue
            want = exp[measure]
            cls = "zero" if want == 0 else "positive"
            for m in names:
                for x, y, way in ((ta, tb, "ab"), (tb, ta, "ba")):
                    ncalls += 1
                    try:
                        got = x.tree_distance(y, method=m)
                    except Exception as ex:
                        issues.append((f"TreeDistance:{kind}:{measure}:raises:{type(ex).__name__}", {"method": m, "order": way, "exception": repr(ex)}))
                        continue
                    if got != want or isinstance(got, bool):
                        sym = "" if way == "ab" else ":swapped"
                        issues.append((f"TreeDistance:{kind}:{measure}:{cls}-expected{sym}", {"method": m, "order": way, "got": repr(got), "expected": want}))
            if kind == "unrooted" and measure == "matching":
                ncalls += 1
                got = ta.lin_rajan_moret(tb)
                if got != want:
                    issues.append((f"TreeDistance:unrooted:matching:{cls}-expected", {"method": "TreeNode.lin_rajan_moret", "got": repr(got), "expected": want}))
    return rec, issues, ncalls, unsupported


def replay(records, run, nproc=None):
    import cogent3  # noqa: F401

    nproc = nproc or min(16, os.cpu_count() or 1)
    stats = defaultdict(int)
    ctxm = mp.get_context("fork")
    with ctxm.Pool(nproc) as pool:
        for rec, issues, ncalls, unsupported in pool.imap_unordered(_case, records, chunksize=64):
            stats["pairs"] += 1
            stats["calls"] += ncalls
            stats["unsupported"] += unsupported
            stats[f"kind_{rec['obs']['kind']}"] += 1
            seen = set()
            for key, detail in issues:
                stats["issues"] += 1
                if key in seen:
                    continue
                seen.add(key)
                run.fail(
                    key,
                    {"tree1": newick_of(rec["args"][0], rec["tips"]), "tree2": newick_of(rec["args"][1], rec["tips"]), "spec": rec["obs"], **detail},
                    what=f"{detail.get('method')} on {newick_of(rec['args'][0], rec['tips'])} vs {newick_of(rec['args'][1], rec['tips'])}",
                )
            if stats["pairs"] % 9973 == 1 and not issues and rec["obs"]["kind"] != "mixed":
                run.sample({"tree1": newick_of(rec["args"][0], rec["tips"]), "tree2": newick_of(rec["args"][1], rec["tips"]), "expected": rec["obs"]})
    return dict(stats)
