#!/bin/sh
# eval_many.sh "<seed> <checks>" ...   (sequential; logs in /var/tmp/vlogs/eval-<seed>.log)
cd /verif
for s in "$@"; do
  set -- $s
  timeout 3000 /venv/bin/python harness/eval_seed.py $1 --skip-tests --checks $2 > /var/tmp/vlogs/eval-$1.log 2>&1
done
