"""C17 helpers: drive the real cogent3 annotation databases from AnnotDb.tla labels.

Nothing in here decides what a query should return: the expected records come
from the transitions TLC emitted (linear scan in TLA+).  This module only
  * feeds the emitted arguments to the real API (add_feature; GFF text lines
    through parse.gff; GenBank feature-table text through parse.genbank),
  * projects real result rows onto the spec's record shape, and
  * compares multisets of JSON-able tuples.
"""
from __future__ import annotations

import copy
import json
import os
import pickle
import tempfile
from collections import Counter

ANY = "*"
NOATTR = "-"
CATS = ("seqid", "biotype", "name", "strand", "attr")
TOKENS = ("qxa", "qxb")  # attribute tokens the configurations may use

_passthrough = lambda *a: a[0]  # noqa: E731  (attribute_parser used by cogent3's own gff loader)


class WouldHang(Exception):
    """the call was not made because, on this tree, it has been observed never to return"""


WRITE_HANGS_IN_TRANSACTION = None  # decided once per run by probe_write_hang()


def probe_write_hang(workdir, wait=4.0):
    """Does db.update(other) followed directly by db.write(path) return on the tree under test?

    Observed for real, once, in a daemon thread (sqlite's backup loop cannot be interrupted).
    If it does not return, later write() calls on a connection with an open transaction are
    reported as failures without being made.
    """
    import threading

    global WRITE_HANGS_IN_TRANSACTION
    cls = classes()["basic"]
    db, other = cls(), cls()
    db.add_feature(seqid="s1", biotype="gene", name="n1", spans=[(1, 3)], strand="+")
    other.add_feature(seqid="s2", biotype="gene", name="n2", spans=[(1, 2)], strand="-")
    db.update(other)
    path = os.path.join(workdir, "c17-hangprobe.sqlitedb")
    t = threading.Thread(target=db.write, args=(path,), daemon=True)
    t.start()
    t.join(wait)
    WRITE_HANGS_IN_TRANSACTION = t.is_alive()
    return WRITE_HANGS_IN_TRANSACTION


def classes():
    from cogent3.core.annotation_db import BasicAnnotationDb, GenbankAnnotationDb, GffAnnotationDb

    return {"basic": BasicAnnotationDb, "gff": GffAnnotationDb, "gb": GenbankAnnotationDb}


# --------------------------------------------------------------- text generation
def gff_lines(row):
    """one GFF3 line per coordinate pair of the row (same ID => one feature)"""
    attrs = f"ID={row['name']}"
    if row["attr"] != NOATTR:
        attrs += f";note={row['attr']}"
    return [
        f"{row['seqid']}\tverif\t{row['biotype']}\t{f}\t{l}\t.\t{row['strand']}\t.\t{attrs}\n"
        for f, l in row["coords"]
    ]


def gb_location(row):
    segs = [f"{f}..{l}" for f, l in row["coords"]]
    loc = segs[0] if len(segs) == 1 else "join(" + ",".join(segs) + ")"
    return f"complement({loc})" if row["strand"] == "-" else loc


def gb_feature_lines(row):
    lines = [f"     {row['biotype']:<16}{gb_location(row)}", f'                     /gene="{row["name"]}"']
    if row["attr"] != NOATTR:
        lines.append(f'                     /note="{row["attr"]}"')
    return lines


def gb_file_text(seqid, rows, length=12):
    head = f"LOCUS       {seqid:<18}{length} bp    DNA     linear   BCT 01-JAN-2000\n"
    feats = ["FEATURES             Location/Qualifiers"]
    for row in rows:
        feats.extend(gb_feature_lines(row))
    seq = ("acgt" * length)[:length]
    return head + "\n".join(feats) + f"\nORIGIN\n        1 {seq}\n//\n"


# ------------------------------------------------------------------- real calls
def add(db, kind, act, arg):
    """perform one Add label on a real database"""
    if act == "AddFeature":
        kw = dict(
            seqid=arg["seqid"],
            biotype=arg["biotype"],
            name=arg["name"],
            strand=arg["strand"],
            spans=[tuple(s) for s in arg["spans"]],
        )
        if arg["attr"] != NOATTR:
            kw["attributes"] = f"note={arg['attr']}"
        db.add_feature(**kw)
    elif act == "AddRow":
        if kind == "gff":
            from cogent3.parse.gff import gff_parser, merged_gff_records

            lines = ["##gff-version 3\n"] + gff_lines(arg)
            recs = list(gff_parser(lines, attribute_parser=_passthrough, gff3=True))
            n = getattr(db, "_verif_fake", 0)
            data, n = merged_gff_records(recs, n)
            db._verif_fake = n
            db.add_records(data)
        elif kind == "gb":
            from cogent3.parse.genbank import parse_feature_table

            feats = parse_feature_table(["FEATURES             Location/Qualifiers"] + gb_feature_lines(arg))
            db.add_records(records=feats, seqid=arg["seqid"])
        else:
            raise ValueError(f"AddRow on {kind}")
    else:
        raise ValueError(act)


def build(kind, labels, cls=None):
    db = (cls or classes()[kind])()
    for act, arg in labels:
        add(db, kind, act, arg)
    return db


def query_kwargs(q):
    kw = {}
    for f in ("seqid", "biotype", "name", "strand"):
        if q[f] != ANY:
            kw[f] = q[f]
    if q["attr"] != ANY:
        kw["attributes"] = q["attr"]
    nowin = dict(kw)
    if q["win"] == "both":
        kw.update(start=q["start"], stop=q["stop"], allow_partial=q["partial"])
    elif q["win"] == "start":
        kw.update(start=q["start"])
    elif q["win"] == "stop":
        kw.update(stop=q["stop"])
    return kw, nowin


def _token(attributes):
    if attributes is None:
        return NOATTR
    text = attributes if isinstance(attributes, str) else json.dumps(attributes)
    for t in TOKENS:
        if t in text:
            return t
    return NOATTR


def rec8(row):
    """real record (all columns) -> (seqid, biotype, name, strand, attr, spans, start, stop)"""
    spans = tuple((int(a), int(b)) for a, b in row["spans"])
    return (row["seqid"], row["biotype"], row["name"], row["strand"], _token(row.get("attributes")), spans, int(row["start"]), int(row["stop"]))


def feat5(row):
    spans = tuple((int(a), int(b)) for a, b in row["spans"])
    return (row["seqid"], row["biotype"], row["name"], row["strand"], spans)


def spec8(r):
    return (r["seqid"], r["biotype"], r["name"], r["strand"], r["attr"], tuple((a, b) for a, b in r["spans"]), r["start"], r["stop"])


def spec5(r):
    return (r["seqid"], r["biotype"], r["name"], r["strand"], tuple((a, b) for a, b in r["spans"]))


def project(db):
    """multiset (sorted list) of the records a database holds"""
    return sorted(rec8(r) for r in db.get_records_matching())


def bag_of(view):
    return sorted(spec8(r) for r in view)


def apply_op(db, kind, act, args, workdir, other_kind=None):
    """state-changing / round-trip labels.  Returns (result db, other db or None)."""
    if act == "Subset":
        kw, _ = query_kwargs(args[0])
        return db.subset(**kw), None
    if act in ("Union", "Update"):
        recipe = args[1]
        ok = other_kind or kind
        other = build(ok, [(a, r) for a, r, _ord in recipe])
        if act == "Union":
            return db.union(other), other
        ids = sorted(args[2])
        seqids = None if not ids else (ids[0] if len(ids) == 1 else ids)
        db.update(other, seqids=seqids)
        return db, other
    if act == "Copy":
        return copy.deepcopy(db), None
    if act == "Pickle":
        return pickle.loads(pickle.dumps(db)), None
    if act == "Json":
        from cogent3.util.deserialise import deserialise_object

        return deserialise_object(db.to_json()), None
    if act == "WriteLoad":
        fd, path = tempfile.mkstemp(prefix="c17-", suffix=".sqlitedb", dir=workdir)
        os.close(fd)
        os.unlink(path)
        if WRITE_HANGS_IN_TRANSACTION and db.db.in_transaction:
            raise WouldHang("write() on a connection with an open transaction never returns on this tree (sqlite backup spins on SQLITE_BUSY)")
        db.write(path)
        loaded = type(db)(source=path)
        loaded._verif_path = path  # removed by the caller when the job ends
        return loaded, None
    raise ValueError(act)


def relation(s, e, ws, we):
    """coarse class of (record extent, window) for finding keys only"""
    z = "zero-" if s == e else ""
    if e < ws or s > we:
        return z + "disjoint"
    if e == ws and s < ws:
        return z + "abut-left"
    if s == we and e > we:
        return z + "abut-right"
    if s == e and (s == ws or s == we):
        return z + "on-edge"
    if ws <= s and e <= we:
        return z + "inside"
    if s <= ws and e >= we:
        return z + "covers"
    if s < ws:
        return z + "straddle-left"
    return z + "straddle-right"


def diff_class(expected, got):
    """which way two multisets differ (for finding keys)"""
    ce, cg = Counter(expected), Counter(got)
    missing = list((ce - cg).elements())
    extra = list((cg - ce).elements())
    if not missing and not extra:
        return None, None
    first = (missing or extra)[0]
    if missing and extra and len(missing) == len(extra):
        # same records, some column altered?
        def strip(t, i):
            return t[:i] + t[i + 1 :]

        width = len(first)
        names = ("seqid", "biotype", "name", "strand", "attr", "spans", "start", "stop") if width == 8 else ("seqid", "biotype", "name", "strand", "spans")
        for i, n in enumerate(names):
            if sorted(strip(t, i) for t in missing) == sorted(strip(t, i) for t in extra):
                return f"{n}-altered", first
        return "missing+extra", first
    return ("missing" if missing else "extra") + ("+extra" if missing and extra else ""), first
