"""C06 / SeqFormatsHist.tla -> real cogent3: histories of loads of ONE line based format in ONE process.

The loaders of the line based formats are process-wide objects (cogent3.parse.sequence.PARSERS), so a
history matters: TLC emits every history of MaxOps public calls (load with an option, plain write+load
round trip, plain load of a strictness probe) with the observation the spec predicts for each call.
Every maximal history is replayed in a PRISTINE forked process (the parent imports cogent3 but never
calls a loader) and each call's observation is compared with the spec.

Observation of a load (projection):  "raised" | "verbatim" | "first" | "other"
    verbatim = the records equal the records the same plain load returns in a pristine process (BASELINE,
               the instantiation of the spec's "the records of the file"); for the formats with a writer the
               baseline itself must be the written names / sequences (the oracle of SeqFormats.tla)
    first    = as verbatim but every name cut to its first word (what label_to_name=first_word asks for)
No expected behaviour is computed here: which observation must occur comes from TLC.
"""
from __future__ import annotations

import bz2
import gzip
import multiprocessing as mp
import os
import pathlib
import shutil
import tempfile
import time

# the two alignments of a history; multi-word names where the format can hold them (PHYLIP: <= 9 characters)
FIRST = {True: [("Hum c17", "ACGTTGCA--ACGTAG"), ("Mus c11", "ACGTTGCAGGACGT--")],
         False: [("Hum", "ACGTTGCA--ACGTAG"), ("Mus", "ACGTTGCAGGACGT--")]}
SECOND = {True: [("Pan tro", "ATGGCCAACC-CTCCCAACT"), ("Gor gor g", "ATGGCACACC-AACGCAACT"), ("Pon abe", "ATGGCATATCCCATACAA-T")],
          False: [("Pan", "ATGGCCAACC-CTCCCAACT"), ("Gor", "ATGGCACACC-AACGCAACT"), ("Pon", "ATGGCATATCCCATACAA-T")]}
CMP = {"plain": "", "gz": ".gz", "bz2": ".bz2"}


def first_word(label):
    return label.split()[0]


def _text(fmt, recs):
    """file text for a format without a registered writer (instantiation of 'a well-formed file')"""
    import cogent3
    from cogent3.format.clustal import clustal_from_alignment
    from cogent3.format.nexus import nexus_from_alignment

    if fmt in ("aln", "clustal"):
        return clustal_from_alignment(dict(recs))
    if fmt in ("nex", "nxs", "nexus"):
        return nexus_from_alignment(cogent3.make_aligned_seqs(dict(recs), moltype="dna", array_align=False), "dna") + "\n"
    if fmt == "msf":
        n = len(recs[0][1])
        head = ["!!NA_MULTIPLE_ALIGNMENT 1.0", "", f" model.msf  MSF: {n}  Type: N  January 01, 1776  12:00  Check: 0 ..", ""]
        head += [f" Name: {nm:<16} Len: {n:>5}  Check:     0  Weight:  1.00" for nm, _ in recs]
        head += ["", "//", ""]
        body = [f"{nm:<16} {' '.join(sq[i:i + 10] for i in range(0, n, 10))}" for nm, sq in recs]
        return "\n".join(head + body) + "\n"
    if fmt == "xmfa":
        # (no "=" block terminator: MinimalXmfaParser hands the lines to MinimalFastaParser, which would take it for residues)
        return "".join(f">{i + 1}:1-{len(sq)} + {nm}\n{sq}\n" for i, (nm, sq) in enumerate(recs))
    raise ValueError(fmt)


def _probe_text(fmt):
    # a label without residues followed by a complete record
    if fmt == "gde":
        return "%a\n%b\nACGT\n"
    if fmt == "xmfa":
        return ">1:1-4 + a\n>2:1-4 + b\nACGT\n"
    raise ValueError(fmt)


def _write(fmt, writer, recs, path):
    import cogent3

    if writer:
        cogent3.make_aligned_seqs(dict(recs), moltype="dna").write(path)
        return
    text = _text(fmt, recs)
    p = str(path)
    if p.endswith(".gz"):
        with gzip.open(p, "wt") as fh:
            fh.write(text)
    elif p.endswith(".bz2"):
        with bz2.open(p, "wt") as fh:
            fh.write(text)
    else:
        pathlib.Path(p).write_text(text)


def _project(obj):
    d = obj.to_dict()
    return [(n, str(d[n])) for n in obj.names]


def _load(kind, path, **kw):
    import cogent3

    fn = cogent3.load_aligned_seqs if kind == "aligned" else cogent3.load_unaligned_seqs
    return _project(fn(path, moltype="dna", **kw))


def _call(fn):
    try:
        return fn()
    except Exception as ex:  # noqa: BLE001
        return ex


def _classify(got, base):
    if isinstance(got, Exception):
        return "raised"
    if isinstance(base, Exception):
        return "other"
    if got == base:
        return "verbatim"
    if got == [(first_word(n), s) for n, s in base]:
        return "first"
    return "other"


OPTION_KW = {
    "pkw_label_first": {"parser_kw": {"label_to_name": first_word}},
    "pkw_nonstrict": {"parser_kw": {"strict": False}},
    "pkw_interleaved_false": {"parser_kw": {"interleaved": False}},
    "arg_label_first": {"label_to_name": first_word},
}


def baseline(job):
    """pristine process: what every plain load of the history files returns"""
    fmt, multi, writer, root = job
    d = pathlib.Path(tempfile.mkdtemp(prefix=f"base-{fmt}-", dir=root))
    out = {}
    try:
        p = d / f"first.{fmt}"
        _write(fmt, writer, FIRST[multi], p)
        for kind in ("aligned", "unaligned"):
            out[("first", kind)] = _call(lambda: _load(kind, p))
        for cmp, sfx in CMP.items():
            p2 = d / f"second.{fmt}{sfx}"
            _write(fmt, writer, SECOND[multi], p2)
            for kind in ("aligned", "unaligned"):
                out[("second", cmp, kind)] = _call(lambda: _load(kind, p2))
    finally:
        shutil.rmtree(d, ignore_errors=True)
    return fmt, {k: (repr(v) if isinstance(v, Exception) else v) for k, v in out.items()}, {k: isinstance(v, Exception) for k, v in out.items()}


def run_history(job):
    """pristine process: perform the calls of one history, return the observation of each"""
    fmt, multi, writer, ops, base, root = job
    d = pathlib.Path(tempfile.mkdtemp(prefix=f"hist-{fmt}-", dir=root))
    seen = []
    try:
        for i, (act, args) in enumerate(ops):
            if act == "LoadOpt":
                p = d / f"first{i}.{fmt}"
                _write(fmt, writer, FIRST[multi], p)
                kind = "aligned" if i % 2 == 0 else "unaligned"
                got = _call(lambda: _load(kind, p, **OPTION_KW[args[0]]))
                seen.append((_classify(got, base[("first", kind)]), repr(got)[:300]))
            elif act == "RoundTrip":
                cmp, kind = args
                p = d / f"second{i}.{fmt}{CMP[cmp]}"
                _write(fmt, writer, SECOND[multi], p)
                got = _call(lambda: _load(kind, p))
                seen.append((_classify(got, base[("second", cmp, kind)]), repr(got)[:300]))
            elif act == "ProbeStrict":
                p = d / f"probe{i}.{fmt}"
                p.write_text(_probe_text(fmt))
                got = _call(lambda: _load("unaligned", p))
                seen.append(("raised" if isinstance(got, Exception) else "lenient", repr(got)[:300]))
            else:
                raise ValueError(act)
    finally:
        shutil.rmtree(d, ignore_errors=True)
    return seen


def _pristine_pool(nproc):
    # one task per process: every history starts from the state the parent had at fork time
    ctx = mp.get_context("fork")
    return ctx.Pool(nproc, maxtasksperchild=1)


def check_histories(run, scratch, stats, tlc_emit, nproc):
    from tlc import run_tlc

    tier = run.tier
    recs, res = tlc_emit(run, "SeqFormatsHist", f"MC_SeqFormatsHist_{tier}.cfg", scratch, "hist")
    # binding self-test: the design in which per-call options are merged into the shared parser must be refuted
    leaky = run_tlc("SeqFormatsHist", "MC_SeqFormatsHist_leaky.cfg", scratch, workers=1, must_pass=False)
    if not leaky.violated or ("ConfStaysDefault" not in leaky.out and "PlainLoadIsPure" not in leaky.out):
        raise RuntimeError("self-test failed: TLC did not refute the leaky design of SeqFormatsHist")
    stats["SeqFormatsHist"] = {"tlc_states": res.distinct, "tlc_transitions": res.generated, "tlc_wall_s": round(res.wall, 1),
                               "emitted": len(recs), "leaky_design_refuted": True}
    depth = max(len(r["to"]["hist"]) for r in recs)
    hists = {}
    info = {}
    for r in recs:
        h = r["to"]["hist"]
        if len(h) != depth:
            continue
        f = r["from"]["fmt"]
        info[f] = (bool(r["from"]["multi"]), bool(r["from"]["writer"]))
        ops = tuple((a, tuple(args)) for a, args, _ in h)
        exp = tuple(o for _, _, o in h)
        if hists.setdefault((f, ops), exp) != exp:
            raise RuntimeError("SeqFormatsHist is not single-valued")
    if not hists or depth < 2:
        raise RuntimeError("vacuous: no history of two calls")
    if not any(f == "gde" and ops[0] == ("LoadOpt", ("pkw_label_first",)) and ops[-1][0] == "RoundTrip" for f, ops in hists):
        raise RuntimeError("vacuous: no history 'load with label_to_name ; plain round trip' for gde")
    root = scratch / "hist"
    root.mkdir()
    import cogent3  # noqa: F401  imported, never used to load anything in this process
    import cogent3.format.clustal  # noqa: F401
    import cogent3.format.nexus  # noqa: F401

    t0 = time.time()
    bad = 0
    with _pristine_pool(nproc) as pool:
        base = {}
        for fmt, b, isexc in pool.imap(baseline, [(f, m, w, str(root)) for f, (m, w) in sorted(info.items())], chunksize=1):
            multi, writer = info[fmt]
            base[fmt] = {k: (Exception(v) if isexc[k] else v) for k, v in b.items()}
            for k, v in base[fmt].items():
                want = FIRST[multi] if k[0] == "first" else SECOND[multi]
                if isinstance(v, Exception):
                    bad += 1
                    run.fail(f"history:{fmt}:baseline:raised", {"fmt": fmt, "file": k, "observed": repr(v)}, what="plain load of a well-formed file in a pristine process raised")
                elif writer and v != want:
                    bad += 1
                    run.fail(f"history:{fmt}:baseline:differs", {"fmt": fmt, "file": k, "observed": v, "expected": want}, what="plain write+load in a pristine process does not return the written records")
                elif not writer and sorted(s for _, s in v) != sorted(s for _, s in want):
                    bad += 1
                    run.fail(f"history:{fmt}:baseline:seqs", {"fmt": fmt, "file": k, "observed": v, "expected": want}, what="plain load in a pristine process does not return the sequences of the file")
        keys = sorted(hists)
        jobs = [(f, info[f][0], info[f][1], ops, base[f], str(root)) for f, ops in keys]
        ncalls = 0
        for (f, ops), seen in zip(keys, pool.imap(run_history, jobs, chunksize=1)):
            exp = hists[(f, ops)]
            ncalls += len(ops)
            for i, ((act, args), e, (o, shown)) in enumerate(zip(ops, exp, seen)):
                if o != e:
                    bad += 1
                    before = sorted({a[0] for op, a in ops[:i] if op == "LoadOpt"}) or ["none"]
                    run.fail(f"history:{f}:after={'+'.join(before)}:{act}:{e}->{o}",
                             {"fmt": f, "history": [list(x) for x in ops], "step": i, "expected": list(exp), "observed": [s[0] for s in seen], "result": shown},
                             what=f"call {i + 1} of the history ({act} {list(args)}) in one process")
                    break
    for f, ops in keys:
        if f == "gde" and ops[0] == ("LoadOpt", ("pkw_label_first",)) and ops[-1] == ("RoundTrip", ("gz", "aligned")):
            run.sample({"spec": "SeqFormatsHist", "fmt": f, "history": [list(x) for x in ops], "expected_observations": list(hists[(f, ops)])})
            break
    print(f"[C06] SeqFormatsHist: {len(keys)} histories of {depth} calls on {len(info)} formats, each in a pristine process, "
          f"{ncalls} real calls, {bad} disagreements, {time.time() - t0:.1f}s", flush=True)
    stats["hist_replay"] = {"histories": len(keys), "depth": depth, "formats": sorted(info), "real_calls": ncalls, "disagreements": bad}
    return len(keys), ncalls
