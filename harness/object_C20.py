"""C20, histories on ONE Table object: replay of TableObject.tla on the real code.

Every emitted transition carries the initial table, the history of labels that
led to its pre-state, the label itself and the model's post-state.  The history
is replayed on a fresh real Table (same object throughout), the label is applied
and then every way of reading the object is compared with the model:
header, index_name, to_list(), array, to_dict() (rows and row keys); for the
observation labels also the value they return.
Two variants: 0 = the object is only read where the history says so and after
the last call; 1 = the object is additionally read in full after every call
(reading may populate caches inside the object, so both orders matter).
"""
from __future__ import annotations

import traceback

import replay_C20 as rp
import text_C20 as tx

VARIANTS = (0, 1)
DELIMITED = ("tsv", "csv", "tsv.gz", "csv.gz")


def apply(t, act, args):
    """perform one label on the real object; returns the observation (or outcome)"""
    if act == "SetIndex":
        try:
            t.index_name = args[0]
        except ValueError:
            return "raised"
        return "ok"
    if act == "SetIndexUnknown":
        try:
            t.index_name = args[0]
        except (ValueError, KeyError):
            return "raised"
        return "ok"
    if act == "Derived":
        kind, col = args
        if kind == "filtered":
            d = t.filtered(lambda x: True, columns=col)
        elif kind == "with_new_column":
            d = t.with_new_column("n", lambda x: 0, columns=col)
        else:
            d = t.sorted(columns=col)
        index = d.index_name or ""  # settles (and validates) the index the derived table was given
        return {"derived": kind, "header": list(d.header), "index": index, "rows": rp.norm_rows(rp.rows_of(d))}
    if act == "ClearIndex":
        t.index_name = None
        return "ok"
    if act == "AssignColumn":
        n = t.shape[0]
        t.columns[args[0]] = [7 + i for i in range(n)]
        return "ok"
    if act == "DelColumn":
        del t.columns[args[0]]
        return "ok"
    if act == "Array":
        return {"rows": rp.norm_rows(t.array.tolist())}
    if act == "ToDict":
        return dict_obs(t)
    if act == "SumRows":
        r = t.sum_rows(strict=False)
        return {"sums": [int(x) for x in (r if isinstance(r, list) else [r])]}
    if act == "WriteLoad":
        got, _ = tx.write_and_load(t, args[0], tx._workdir())
        return {"header": list(got.header), "loaded": got, "fmt": args[0],
                "index": (got.index_name or "") if args[0] in ("json", "pickle") else None}
    raise ValueError(act)


def dict_obs(t):
    d = t.to_dict()
    hdr = list(t.header)
    return {"keys": [rp.norm(k) for k in d], "rows": [[rp.norm(d[k][c]) for c in hdr] for k in d]}


def full_read(t):
    return {
        "header": list(t.header),
        "index": t.index_name or "",
        "to_list": rp.norm_rows(rp.rows_of(t)),
        "array": rp.norm_rows(t.array.tolist()),
        "to_dict": dict_obs(t),
        "shape": list(t.shape),
    }


def expected(to):
    rows = rp.spec_rows(to["rows"])
    if to["index"]:
        j = to["header"].index(to["index"])
        keys = [r[j] for r in rows]
    else:
        keys = [rp.norm(i) for i in range(len(rows))]
    return {"header": list(to["header"]), "index": to["index"], "rows": rows, "keys": keys}


def object_case(job):
    rec, variant = job
    try:
        t = rp.make(rec["init"])
        for act, args in rec["hist"]:
            apply(t, act, args)
            if variant == 1:
                full_read(t)
        act, args = rec["act"], rec["args"]
        obs = apply(t, act, args)
        exp = expected(rec["to"])
        diffs = []
        # the value the call itself returned
        if isinstance(obs, str):
            if obs != rec["ret"]:
                diffs.append(f"outcome={obs}")
        elif act == "Array" and obs["rows"] != exp["rows"]:
            diffs.append("returned-rows")
        elif act == "ToDict" and (obs["rows"] != exp["rows"] or obs["keys"] != exp["keys"]):
            diffs.append("returned-rows" if obs["rows"] != exp["rows"] else "returned-keys")
        elif act == "SumRows" and obs["sums"] != list(rec["ret"]):
            diffs.append("returned-sums")
        elif act == "Derived":
            extra = obs["derived"] == "with_new_column"
            if obs["header"] != exp["header"] + (["n"] if extra else []):
                diffs.append("derived-header")
            if obs["index"] != exp["index"]:
                diffs.append("derived-index_name")
            if obs["rows"] != [r + ([rp.norm(0)] if extra else []) for r in exp["rows"]]:
                diffs.append("derived-rows")
        elif act == "WriteLoad":
            got = obs["loaded"]
            if obs["index"] is not None and obs["index"] != exp["index"]:
                diffs.append("loaded-index_name")
            delimited = obs["fmt"] in DELIMITED
            if obs["header"] != exp["header"]:
                diffs.append("loaded-header")
            else:
                grows = rp.rows_of(got)
                ok = len(grows) == len(rec["to"]["rows"]) and all(
                    len(r) == len(e) and all(tx.cell_ok(c, v, delimited, {"", "None"})[0] for v, c in zip(r, e))
                    for r, e in zip(grows, rec["to"]["rows"])
                )
                if not ok:
                    diffs.append("loaded-rows")
            obs = {"header": obs["header"], "rows": repr(rp.rows_of(got))}
        # every way of reading the object afterwards
        real = full_read(t)
        if real["header"] != exp["header"]:
            diffs.append("header")
        if real["index"] != exp["index"]:
            diffs.append("index_name")
        for how in ("to_list", "array"):
            if real[how] != exp["rows"]:
                diffs.append(how)
        if real["to_dict"]["rows"] != exp["rows"]:
            diffs.append("to_dict")
        elif real["to_dict"]["keys"] != exp["keys"]:
            diffs.append("to_dict-keys")
        if real["shape"] != [len(exp["rows"]), len(exp["header"])]:
            diffs.append("shape")
        if not diffs:
            return None
        what = ",".join(diffs)
        detail = {"variant": variant, "expected": exp, "observed": real, "returned": obs}
    except Exception as ex:
        what = f"exception:{type(ex).__name__}"
        detail = {"variant": variant, "exception": repr(ex), "traceback": traceback.format_exc()[-1200:]}
    # structural key: the call, the kinds of calls that preceded it on the object, what differs
    kinds = sorted({a for a, _ in rec["hist"]}) or ["fresh"]
    key = f"Object:{rec['act']}:after={'+'.join(kinds)}:{what}"
    return key, what, detail


def check_object(run, stats, jobs):
    import multiprocessing as mp
    import os
    import time

    from graph import _worker_init as _init_worker

    NPROC = min(16, os.cpu_count() or 1)

    recs, res = jobs.get("object")
    depth = max(len(r["hist"]) + 1 for r in recs)
    acts = {}
    for r in recs:
        acts[r["act"]] = acts.get(r["act"], 0) + 1
    need = {"SetIndex", "SetIndexUnknown", "ClearIndex", "AssignColumn", "DelColumn", "Array", "ToDict", "SumRows", "WriteLoad", "Derived"}
    if need - set(acts) or depth < 3:
        raise RuntimeError(f"vacuous: object histories lack {sorted(need - set(acts))} or depth {depth} < 3")
    # read order 1 (full read after every call) for histories of up to 3 calls, read order 0 for all
    full = 2 if run.tier == "quick" else 3  # quick: read order 1 for histories of up to 2 calls
    work = [(r, v) for r in recs for v in VARIANTS if v == 0 or len(r["hist"]) < full]
    t0 = time.time()
    n = bad = 0
    sampled = False
    with mp.get_context("fork").Pool(NPROC, initializer=_init_worker) as pool:
        for (rec, v), out in zip(work, pool.imap(object_case, work, chunksize=32)):
            n += 1
            if out is None:
                if not sampled and len(rec["hist"]) == depth - 1 and rec["act"] == "WriteLoad" and any(a == "SetIndex" for a, _ in rec["hist"]):
                    sampled = True
                    run.sample({"spec": "TableObject", "init": rec["init"], "hist": rec["hist"], "act": rec["act"], "args": rec["args"], "to": rec["to"]})
                continue
            bad += 1
            key, what, detail = out
            run.fail(key, {"case": rec, **detail}, what=f"{rec['act']} after {len(rec['hist'])} calls: {what}")
    print(f"[C20] TableObject: {n} histories on the real code (x{len(VARIANTS)} read orders, depth {depth}), {bad} disagreements, {time.time() - t0:.1f}s", flush=True)
    stats["object"] = {"tlc_states": res.distinct, "tlc_transitions": res.generated, "tlc_wall_s": round(res.wall, 1),
                       "cases": n, "disagreements": bad, "by_action": acts, "history_depth": depth}
    run.assumptions += [
        "object histories: two fixed tables (3 and 2 rows), calls index_name=c/None, columns[c]=values, del columns[c], array, to_dict, sum_rows(strict=False), write+load_table; the index column itself is never deleted",
    ]
    return n
