"""C07 code -> spec: Calculator.change() call sequences recorded from real likelihood-function
calculators under real optimisers, validated against Recalc.tla by Trace_Recalc.tla.

Logged per calculator: the DAG (argument ranks of every cell, recycled cells) and the initial
parameter values; per call: the change vector and, after the call, _switch, last_values,
last_undo and whether it raised.  Buffers / array identities / spare are NOT logged: the spec
infers them, and Fresh + UndoSound are checked in every state.
"""
from __future__ import annotations

import json
import os
import random
import re

import numpy as np

from tlc import SPECS, run_tlc


class CalcRecorder:
    def __init__(self, max_events=400):
        self.calcs = {}  # id -> record
        self.max_events = max_events
        self.installed = False

    def install(self):
        if self.installed:
            return
        self.installed = True
        from cogent3.recalculation.calculation import Calculator, OptPar

        rec = self
        orig_init = Calculator.__init__
        orig_change = Calculator.change

        def __init__(self, *a, **k):
            orig_init(self, *a, **k)
            try:
                rec.register(self)
            except Exception as ex:  # never disturb the code under test
                rec.calcs.pop(id(self), None)

        def change(self, changes):
            r = rec.calcs.get(id(self))
            raised = True
            try:
                out = orig_change(self, changes)
                raised = False
                return out
            finally:
                if r is not None and not r["dead"]:
                    rec.log(self, r, changes, raised)

        Calculator.__init__ = __init__
        Calculator.change = change

    def register(self, calc):
        npar = len(calc.opt_pars)
        if not calc.with_undo or npar == 0:
            return
        cells = calc._cells
        args = {}
        recycled = []
        for c in cells[npar:]:
            ar = list(getattr(c, "arg_ranks", []) or [])
            if getattr(c, "recycled", False):
                recycled.append(c.rank + 1)
                if ar and ar[0] == c.rank:
                    ar = ar[1:]
            args[c.rank + 1] = [x + 1 for x in ar]
        self.calcs[id(calc)] = {
            "npar": npar,
            "n": len(cells),
            "args": args,
            "recycled": recycled,
            "tok": [dict() for _ in range(npar)],
            "init": None,
            "events": [],
            "dead": False,
            "names": [p.name for p in calc.opt_pars],
        }
        r = self.calcs[id(calc)]
        r["init"] = [self.token(r, i, v) for i, v in enumerate(calc.last_values)]

    @staticmethod
    def token(r, i, v):
        key = float(v).hex()
        t = r["tok"][i]
        if key not in t:
            t[key] = len(t) + 1
        return t[key]

    def log(self, calc, r, changes, raised):
        npar = r["npar"]
        if len(r["events"]) >= self.max_events or any(i >= npar for i, _ in changes):
            r["dead"] = True  # bounded trace / non-optimiser parameter set: outside the modelled interface
            return
        ch = [0] * npar
        for i, v in changes:
            ch[i] = self.token(r, i, v)
        undo = [0] * npar
        for i, v in calc.last_undo:
            undo[i] = self.token(r, i, v)
        r["events"].append(
            {
                "ch": ch,
                "sw": int(calc._switch),
                "lastv": [self.token(r, i, v) for i, v in enumerate(calc.last_values)],
                "undo": undo,
                "raised": bool(raised),
            }
        )


def tla_seq(xs):
    return "<<" + ", ".join(str(x) for x in xs) + ">>"


def validate_one(run, scratch, r, tag):
    """One recorded calculator -> one TLC run of Trace_Recalc."""
    npar, n = r["npar"], r["n"]
    toks = [x for e in r["events"] for k in ("ch", "lastv", "undo") for x in e[k]] + list(r["init"])
    nvals = max([1] + toks)
    modname = f"TRC_{os.getpid()}_{tag}"
    cases = "\n        [] ".join(f"c = {c} -> {tla_seq(r['args'].get(c, []))}" for c in range(npar + 1, n + 1))
    mod = (
        f"---- MODULE {modname} ----\nEXTENDS Trace_Recalc\n"
        f"ArgsDef == [c \\in {npar + 1}..{n} |-> CASE {cases}]\n"
        f"RecycledDef == {{{', '.join(str(x) for x in r['recycled'])}}}\n====\n"
    )
    modpath = SPECS / f"{modname}.tla"
    cfgpath = SPECS / f"{modname}.cfg"
    tf = scratch / f"calc-trace-{tag}.json"
    tf.write_text(json.dumps({"init": r["init"], "events": r["events"]}))
    try:
        modpath.write_text(mod)
        cfgpath.write_text(
            "SPECIFICATION TSpec\nCONSTANTS\n"
            f"  NPar = {npar}\n  N = {n}\n  Args <- ArgsDef\n  Recycled <- RecycledDef\n"
            f"  BadCell = 0\n  BadPar = 1\n  BadVal = 0\n  Vals = {{{', '.join(str(i) for i in range(1, nvals + 1))}}}\n  Default = 1\n"
            "INVARIANT Report\nINVARIANT Fresh\nINVARIANT UndoSound\nINVARIANT NeverMixed\n"
        )
        res = run_tlc(modname, f"{modname}.cfg", scratch, workers=1, env={"TRACE_FILE": tf}, timeout=1200, must_pass=False)
    finally:
        for p in (modpath, cfgpath):
            try:
                p.unlink()
            except FileNotFoundError:
                pass
    run.add_tlc(res)
    if "is violated" in res.out:
        inv = re.search(r"Invariant (\w+) is violated", res.out)
        return "invariant", inv.group(1) if inv else "?", None
    m = re.search(r'<<\s*"TRACE-VERDICT",\s*(\d+),\s*(\d+)\s*>>', res.out)
    if not m:
        raise RuntimeError("Trace_Recalc gave no verdict:\n" + res.out[-2500:])
    bad = int(m.group(2))
    if bad:
        return "rejected", bad, r["events"][bad - 1]
    return "ok", int(m.group(1)), None


PLUGIN = '''
import atexit, json, os, sys
sys.path.insert(0, os.environ["VERIF_HARNESS"])
import trace_C07
_rec = trace_C07.CalcRecorder(max_events=300)
_rec.install()
def _dump():
    out = [dict(npar=r["npar"], n=r["n"], args=r["args"], recycled=r["recycled"], init=r["init"], events=r["events"], names=r["names"])
           for r in _rec.calcs.values() if len(r["events"]) >= 5]
    with open(os.environ["VERIF_TRACE_OUT"], "w") as fh:
        json.dump(out, fh)
atexit.register(_dump)
'''


def record_repo_tests(scratch, files):
    """Run repository tests under the calculator recorder (pytest plugin, no source change)."""
    import subprocess
    import sys

    from tlc import VERIF

    plug = scratch / "verif_c07_plugin.py"
    plug.write_text(PLUGIN)
    out = scratch / "repo-calc-traces.json"
    env = dict(os.environ, VERIF_HARNESS=str(VERIF / "harness"), VERIF_TRACE_OUT=str(out), PYTHONPATH=f"{scratch}:{os.environ.get('PYTHONPATH', '')}")
    subprocess.run([sys.executable, "-m", "pytest", "-q", "-p", "no:cacheprovider", "-p", "verif_c07_plugin", *files],
                   cwd=os.environ.get("VERIF_REPO", "/repo"), env=env, capture_output=True, text=True, timeout=3000)
    if not out.exists():
        return []
    recs = json.loads(out.read_text())
    for r in recs:
        r["args"] = {int(k): v for k, v in r["args"].items()}
    return recs


def record_and_validate(run, scratch, ntraces):
    from cogent3 import get_model, make_aligned_seqs, make_tree

    rec = CalcRecorder()
    rec.install()
    rnd = random.Random(run.seed)
    tree = make_tree("(a:0.1,b:0.2,c:0.3)")
    aln = make_aligned_seqs({"a": "ACGTACGTTGCAACGTAAATGCCATTAGGA", "b": "ACGTACATTGCAACTTGAATGCTATTAGCA", "c": "ACCTACGTTGAAATGTGAATACCATCAGGA"}, moltype="dna")
    settings = [dict(local=True, max_evaluations=60), dict(local=False, max_evaluations=80, global_tolerance=1.0), dict(local=True)]
    runs = 0
    aln2 = make_aligned_seqs({"a": "TTGACCAGTACAGGA", "b": "TTGACTAGTACAGCA", "c": "TAGACCAGTGCAGGA"}, moltype="dna")
    while len([r for r in rec.calcs.values() if r["events"]]) < ntraces and runs < ntraces * 3:
        model = ["F81", "HKY85", "TN93"][runs % 3]
        shape = runs % 5
        if shape == 3:
            # site classes along a site-HMM: the calculator's DAG gains the bin dimension, bprobs, switch and the HMM cell
            lf = get_model(model, ordered_param="rate", distribution="gamma").make_likelihood_function(tree, bins=2, sites_independent=False)
            lf.set_alignment(aln)
        elif shape == 4:
            # two loci sharing the tree (SumDefn over loci)
            lf = get_model(model).make_likelihood_function(tree, loci=["x", "y"])
            lf.set_alignment([aln, aln2])
        else:
            lf = get_model(model).make_likelihood_function(tree)
            lf.set_alignment(aln)
        if model != "F81" and runs % 2:
            lf.set_param_rule("kappa" if model == "HKY85" else "kappa_y", is_independent=True)
        lf.optimise(show_progress=False, limit_action="ignore", **settings[runs % len(settings)])
        runs += 1
    stats = {"calculators": 0, "events": 0, "rejected": 0}
    k = 0
    for r in rec.calcs.values():
        if not r["events"]:
            continue
        k += 1
        if k > ntraces:
            break
        status, info, ev = validate_one(run, scratch, r, k)
        stats["calculators"] += 1
        stats["events"] += len(r["events"])
        run.cov["traces_validated_against_impl"] += 1
        if status == "rejected":
            stats["rejected"] += 1
            nch = sum(1 for x in ev["ch"] if x)
            run.fail(f"calc-trace:rejected:nchanges={nch}:raised={ev['raised']}", {"step": info, "event": ev, "previous": r["events"][max(0, info - 3) : info - 1], "npar": r["npar"], "ncells": r["n"], "recycled": r["recycled"], "names": r["names"]}, what="a real Calculator.change() call is not a step of Recalc.tla (logged _switch / last_values / last_undo differ from the model's)")
        elif status == "invariant":
            stats["rejected"] += 1
            run.fail(f"calc-trace:invariant:{info}", {"npar": r["npar"], "ncells": r["n"], "names": r["names"]}, what=f"{info} violated along a recorded behaviour of a real calculator")
        if k == 1:
            run.sample({"calc_trace": {"npar": r["npar"], "ncells": r["n"], "recycled": r["recycled"], "first_events": r["events"][:3], "n_events": len(r["events"])}})
    if run.tier == "thorough":
        # calculators created by the repository's own likelihood tests (their optimisers, bootstraps, interval searches)
        recs = record_repo_tests(scratch, ["tests/test_evolve/test_likelihood_function.py", "tests/test_evolve/test_parameter_controller.py", "tests/test_recalculation.py"])
        recs.sort(key=lambda r: -len(r["events"]))
        stats["repo_test_calculators"] = 0
        for j, r in enumerate(recs[:25]):
            status, info, ev = validate_one(run, scratch, r, f"repo{j}")
            stats["repo_test_calculators"] += 1
            stats["events"] += len(r["events"])
            run.cov["traces_validated_against_impl"] += 1
            if status != "ok":
                stats["rejected"] += 1
                run.fail(f"calc-trace:repo-tests:{status}", {"step": info, "event": ev, "npar": r["npar"], "ncells": r["n"], "names": r["names"]}, what="a Calculator.change() sequence recorded from the repository's tests is not a behaviour of Recalc.tla")
    run.note("layer1_calculator_traces", stats)
    return stats
