"""C08 helpers: build real IndelMap / FeatureMap objects from the abstract values
of specs/IndelMap.tla and specs/FeatureMap.tla, make the real call for a spec
action, and project real objects to the spec's observations.

No expected behaviour is computed here: everything that is compared comes from
TLC (`Describe(to)`, `ret`, `to`).  Python only converts formats (0/1 list ->
gapped text, entry list <-> span list), drives the API and compares JSON values.
"""
from __future__ import annotations

import numpy

LOST = -1
I32 = numpy.int32


# ------------------------------------------------------------------ formats
def gapped_text(s, rnd=None):
    """0/1 list -> gapped DNA text (residue letters are irrelevant to the map)."""
    letters = "ACGT"
    out = []
    k = 0
    for x in s:
        if x == 0:
            out.append("-")
        else:
            out.append(letters[(k if rnd is None else rnd.randrange(4)) % 4])
            k += 1
    return "".join(out)


MAX_LEN = 4096  # the exhaustive families have lengths < 100; nothing longer is ever materialised


class AbsurdLength(Exception):
    """A real object claims a length far beyond anything the bounded inputs can produce."""


class CaseTimeout(Exception):
    """One replayed case exceeded its wall-clock limit."""


def check_len(n, what="length"):
    n = int(n)
    if n < 0 or n > MAX_LEN:
        raise AbsurdLength(f"{what} {n}")
    return n


def expand_spans(spans):
    """span list -> entry list (parent index per position, LOST for lost spans).

    Refuses (AbsurdLength) to materialise spans whose claimed length is absurd."""
    out = []
    for sp in spans:
        n = check_len(sp.length, "span length")
        check_len(len(out) + n, "map length")
        if sp.lost:
            out.extend([LOST] * n)
        else:
            check_len(abs(int(sp.end) - int(sp.start)), "span extent")
            out.extend(int(i) for i in sp)
    return out


def rle_forward(entries):
    """entry list made of ascending runs -> [Span|LostSpan] (format conversion only)."""
    from cogent3.core.location import LostSpan, Span

    spans = []
    i = 0
    n = len(entries)
    while i < n:
        j = i + 1
        if entries[i] == LOST:
            while j < n and entries[j] == LOST:
                j += 1
            spans.append(LostSpan(j - i))
        else:
            while j < n and entries[j] == entries[j - 1] + 1:
                j += 1
            spans.append(Span(entries[i], entries[j - 1] + 1))
        i = j
    return spans


def pairs(x):
    return [[int(a), int(b)] for a, b in x]


def arr2(x):
    return numpy.array(x, dtype=I32).reshape((-1, 2))


# --------------------------------------------------------------- IndelMap
IM_CTORS = ("parse", "parse_new", "segments", "gapdict", "spans", "json")


def build_indelmap(s, ctor, desc):
    """A real IndelMap for the gapped string s, made by the named public constructor.

    desc = Describe(s) from the spec (supplies the constructor *inputs* for the
    constructors that do not take text).
    """
    from cogent3.core.location import IndelMap, gap_coords_to_map

    if ctor == "parse":
        from cogent3 import make_seq

        return make_seq(gapped_text(s), moltype="dna").parse_out_gaps()[0]
    if ctor == "parse_new":
        from cogent3 import make_seq

        return make_seq(gapped_text(s), moltype="dna", new_type=True).parse_out_gaps()[0]
    if ctor == "segments":
        return IndelMap.from_aligned_segments(locations=[tuple(x) for x in desc["res_align"]], aligned_length=desc["len"])
    if ctor == "gapdict":
        return gap_coords_to_map({int(p): int(l) for p, l in desc["gap_coords"]}, desc["plen"])
    if ctor == "spans":
        return IndelMap.from_spans(spans=rle_forward(desc["entries"]), parent_length=desc["plen"])
    if ctor == "json":
        from cogent3.util.deserialise import deserialise_object

        m = build_indelmap(s, "segments", desc) if 1 in s else build_indelmap(s, "gapdict", desc)
        return deserialise_object(m.to_json())
    raise ValueError(ctor)


def scribble(obj):
    """The caller writes in place into something it kept / was handed back.

    Returns 'written', 'refused' (the object does not allow it) or 'nothing' (immutable / empty)."""
    if isinstance(obj, numpy.ndarray):
        if not obj.size:
            return "nothing"
        try:
            obj[...] = obj + 1
        except ValueError:  # read-only array
            return "refused"
        return "written"
    if isinstance(obj, list):
        if not obj:
            return "nothing"
        for x in obj:
            if isinstance(x, list) and x:
                x[0] += 1
        obj.clear()
        return "written"
    if isinstance(obj, dict):
        if not obj:
            return "nothing"
        obj.clear()
        return "written"
    return "nothing"


def build_indelmap_container(s, ctor, container, desc, keep=None):
    """A real IndelMap for string s: constructor `ctor`, its argument handed over in `container`.

    keep: a list that receives the argument objects the caller still holds afterwards."""
    from cogent3.core.location import IndelMap, gap_coords_to_map

    keep = [] if keep is None else keep

    if ctor == "segments":
        locs = [tuple(x) for x in desc["res_align"]]
        arg = {
            "list": lambda: locs,
            "tuple": lambda: tuple(locs),
            "generator": lambda: (x for x in locs),
            "iter": lambda: iter(locs),
            "array": lambda: numpy.array(locs, dtype=int).reshape((-1, 2)),
            "list_of_lists": lambda: [list(x) for x in locs],
        }[container]()
        keep.append(arg)
        return IndelMap.from_aligned_segments(locations=arg, aligned_length=desc["len"])
    if ctor == "spans":
        spans = rle_forward(desc["entries"])
        spans = spans if container == "list" else tuple(spans)
        keep.append(spans)
        return IndelMap.from_spans(spans=spans, parent_length=desc["plen"])
    if ctor == "gapdict":
        if container == "dict":
            d = {int(p): int(l) for p, l in desc["gap_coords"]}
        else:
            d = {numpy.int64(p): numpy.int64(l) for p, l in desc["gap_coords"]}
        keep.append(d)
        return gap_coords_to_map(d, desc["plen"])
    if ctor == "arrays":
        if container == "gap_lengths":
            pos = numpy.array(desc["gap_pos"], dtype=I32)
            lens = numpy.array([l for _, l in desc["gap_coords"]], dtype=I32)
            keep.extend([pos, lens])
            return IndelMap(gap_pos=pos, gap_lengths=lens, parent_length=desc["plen"])
        dt = numpy.int32 if container == "int32" else numpy.int64
        pos, cum = numpy.array(desc["gap_pos"], dtype=dt), numpy.array(desc["cum"], dtype=dt)
        keep.extend([pos, cum])
        return IndelMap(gap_pos=pos, cum_gap_lengths=cum, parent_length=desc["plen"])
    if ctor == "parse":
        return build_indelmap(s, "parse", desc)
    raise ValueError((ctor, container))


def im_repr(m):
    """The representation the property names: gap_pos, cum_gap_lengths, parent_length, len."""
    return {
        "gap_pos": [int(x) for x in m.gap_pos.tolist()],
        "cum": [int(x) for x in m.cum_gap_lengths.tolist()],
        "plen": check_len(m.parent_length, "parent_length"),
        "len": check_len(len(m), "len"),
    }


RECV_FIELDS = ("gap_pos", "cum", "plen", "len", "gap_coords", "gap_lengths")


def im_receiver(m):
    """Cheap re-projection of a map that calls were made ON (representation and per-gap runs)."""
    obs = {}
    try:
        obs.update(im_repr(m))
    except Exception as ex:
        obs["len"] = f"raised:{type(ex).__name__}"
    obs["gap_coords"] = _try(lambda: pairs(m.get_gap_coordinates()))
    obs["gap_lengths"] = _try(lambda: [int(x) for x in m.get_gap_lengths().tolist()])
    return obs


def receiver_diff(m, exp):
    """Fields of Describe(string) the receiver no longer reports ([] = unchanged)."""
    obs = im_receiver(m)
    return [k for k in RECV_FIELDS if obs.get(k) != exp[k]], obs


def _try(f):
    try:
        return f()
    except Exception as ex:  # an observation that raises is reported as such
        return f"raised:{type(ex).__name__}"


def im_observe(m):
    """Everything Describe(s) predicts, read from the real map through its public API."""
    n = _try(lambda: check_len(len(m), "len"))
    try:
        P = check_len(m.parent_length, "parent_length")
    except AbsurdLength as ex:
        return {"len": n, "plen": f"raised:AbsurdLength({ex})"}
    obs = dict(im_repr(m)) if not isinstance(n, str) else {"len": n}
    obs["gap_coords"] = _try(lambda: pairs(m.get_gap_coordinates()))
    obs["gap_align"] = _try(lambda: pairs(m.get_gap_align_coordinates().tolist()))
    obs["res_align"] = _try(lambda: [[int(s.start), int(s.end)] for s in m.nongap()])
    # empty (p, p) segments denote no residue and are dropped (see assumptions)
    obs["res_seq"] = _try(lambda: [[int(a), int(b)] for a, b in m.get_coordinates() if int(a) != int(b)])
    obs["entries"] = _try(lambda: expand_spans(list(m.spans)))

    def fm():
        f = m.to_feature_map()
        return [expand_spans(list(f.spans)), int(f.parent_length)]

    def inv():
        f = m.to_feature_map().inverse()
        return [expand_spans(list(f.spans)), int(f.parent_length)]

    obs["feature_map"] = _try(fm)
    obs["inverse"] = _try(inv)
    if isinstance(n, int):
        obs["seq_index"] = _try(lambda: [int(m.get_seq_index(i)) for i in range(-n, n + 1)])
    obs["align_index"] = _try(lambda: [int(m.get_align_index(p)) for p in range(-P, P)])
    obs["align_stop"] = _try(lambda: [int(m.get_align_index(p, slice_stop=True)) for p in range(-P, P + 1)])
    obs["num_gaps"] = _try(lambda: int(m.num_gaps))
    obs["gap_lengths"] = _try(lambda: [int(x) for x in m.get_gap_lengths().tolist()])
    return obs


def im_expected(desc):
    """Describe(s) in the shape of im_observe (pure re-labelling of spec values)."""
    e = {k: desc[k] for k in ("len", "gap_pos", "cum", "plen", "gap_coords", "gap_align", "res_align", "res_seq", "entries", "seq_index", "align_index", "align_stop")}
    e["feature_map"] = [desc["entries"], desc["plen"]]
    e["inverse"] = [desc["inverse"], desc["len"]]
    e["num_gaps"] = len(desc["gap_pos"])
    e["gap_lengths"] = [l for _, l in desc["gap_coords"]]
    return e


def diff_fields(obs, exp):
    return sorted(k for k in exp if obs.get(k) != exp[k])


REPR_FIELDS = ("gap_pos", "cum", "plen", "len")


def layout(s):
    """Structural class of a gap layout (used in finding keys only)."""
    if not s:
        return "empty"
    if 0 not in s:
        return "nogap"
    if 1 not in s:
        return "allgap"
    runs = sum(1 for i, x in enumerate(s) if x == 0 and (i == 0 or s[i - 1] == 1))
    return f"lead={int(s[0] == 0)},trail={int(s[-1] == 0)},gaps={'1' if runs == 1 else '2+'}"


def cut_class(s, x):
    """Where alignment index x cuts the string: edge, or the two symbols around it."""
    n = len(s)
    if x <= 0:
        return "edge0"
    if x >= n:
        return "edgeN"
    return f"{s[x - 1]}|{s[x]}"


def im_call(m, act, args, build, style=0):
    """Make the real call for a spec action on the real map m.

    build(s) gives the real map for an operand string (same constructor as m).
    Returns ('map', IndelMap) or ('val', json value).
    """
    if act == "Slice":
        a, b = args
        if style == 1:  # omit the bounds Python lets one omit
            n = len(m)
            sl = slice(None if a == 0 else a, None if b == n else b)
        else:
            sl = slice(a, b)
        return "map", m[sl]
    if act == "Index":
        return "map", m[args[0]]
    if act == "Concat":
        return "map", m + build(args[0])
    if act == "Scale":
        return "map", m * args[0]
    if act == "Reversed":
        return "map", m.nucleic_reversed()
    if act == "Merge":
        other = build(args[0])
        if style == 1:
            return "map", m.merge_maps(other, parent_length=int(m.parent_length))
        return "map", m.merge_maps(other)
    if act == "Minus":
        h, shared = args
        if style == 0:
            return "map", m.minus_gaps(build(h))
        if style == 1:
            return "map", m.minus_gaps(arr2(build.desc(h)["gap_align"]))
        return "map", m.minus_gaps(arr2(shared))
    if act == "Shared":
        h = args[0]
        other = build(h) if style == 0 else arr2(build.desc(h)["gap_align"])
        return "val", pairs(numpy.asarray(m.shared_gaps(other)).reshape((-1, 2)).tolist())
    if act == "Joined":
        return "map", m.joined_segments([tuple(c) for c in args[0]])
    if act == "SeqSegs":
        from cogent3.core.location import FeatureMap, Span

        fm = FeatureMap(spans=[Span(a, b) for a, b in args[0]], parent_length=len(m))
        r = m.make_seq_feature_map(fm)
        if int(r.parent_length) != int(m.parent_length):
            return "val", {"parent_length": int(r.parent_length)}
        return "val", pairs(r.get_coordinates())
    raise ValueError(act)


IM_STYLES = {"Slice": 2, "Merge": 2, "Minus": 3, "Shared": 2}


def im_class(act, args, s):
    """Structural precondition class of an IndelMap transition (finding keys only)."""
    n = len(s)
    if act == "Slice":
        a, b = args
        x = a + n if a < 0 else a
        y = b + n if b < 0 else b
        if x >= y:
            return "empty-interval"
        return f"start={cut_class(s, x)},stop={cut_class(s, y)}"
    if act == "Index":
        i = args[0]
        return "i=-1" if i == -1 else ("i<-1" if i < 0 else "i>=0")
    if act == "Concat":
        h = args[0]
        if not s or not h:
            return "boundary=empty"
        return f"boundary={s[-1]}|{h[0]}"
    if act in ("Merge", "Minus", "Shared"):
        h = args[0]
        return f"self={'gapped' if 0 in s else 'nogap'},other={'gapped' if 0 in h else 'nogap'}"
    if act in ("Joined", "SeqSegs"):
        cs = args[0]
        empty = any(a == b for a, b in cs)
        return f"segments={len(cs)}{',empty-segment' if empty else ''}"
    return layout(s)


# -------------------------------------------------------------- FeatureMap
FM_CTORS = ("spans", "json", "locations")


def real_spans(spans):
    from cogent3.core.location import LostSpan, Span

    return [LostSpan(e) if s == LOST else Span(s, e, reverse=bool(r)) for s, e, r in spans]


def build_featuremap(mdef, ctor):
    """A real FeatureMap for the spec map {spans, plen}; None when ctor does not apply."""
    from cogent3.core.location import FeatureMap

    spans, P = mdef["spans"], mdef["plen"]
    if ctor == "spans":
        return FeatureMap(spans=real_spans(spans), parent_length=P)
    if ctor == "json":
        from cogent3.util.deserialise import deserialise_object

        return deserialise_object(FeatureMap(spans=real_spans(spans), parent_length=P).to_json())
    if ctor == "locations":
        # from_locations takes forward, ordered locations only
        if not spans or any(s == LOST or r for s, e, r in spans):
            return None
        if spans[0][0] > spans[-1][1]:
            return None
        return FeatureMap.from_locations(locations=[(s, e) for s, e, _ in spans], parent_length=P)
    raise ValueError(ctor)


def im_returned(m, what):
    """Something a query of the map hands back to the caller."""
    if what == "gap_pos":
        return m.gap_pos
    if what == "cum_gap_lengths":
        return m.cum_gap_lengths
    return getattr(m, what)()


def build_featuremap_container(mdef, container, keep=None):
    """A real FeatureMap for the spec map, its spans / locations handed over in `container`."""
    from cogent3.core.location import FeatureMap

    keep = [] if keep is None else keep
    spans, P = mdef["spans"], mdef["plen"]
    L = real_spans(spans)
    keep.append(L)
    if container == "list":
        return FeatureMap(spans=L, parent_length=P)
    if container == "tuple":
        return FeatureMap(spans=tuple(L), parent_length=P)
    if container == "generator":
        return FeatureMap(spans=(x for x in L), parent_length=P)
    if container == "iter":
        return FeatureMap(spans=iter(L), parent_length=P)
    if container == "map_spans":  # the generator property of another map, passed straight through
        return FeatureMap(spans=FeatureMap(spans=L, parent_length=P).spans, parent_length=P)
    if container == "from_spans_list":
        return FeatureMap.from_spans(spans=L, parent_length=P)
    if container == "from_spans_map_spans":
        return FeatureMap.from_spans(spans=FeatureMap(spans=L, parent_length=P).spans, parent_length=P)
    locs = [[s, e] for s, e, _ in spans] if container == "locations_list" else [(s, e) for s, e, _ in spans]
    if container == "locations_list":
        keep.append(locs)
        return FeatureMap.from_locations(locations=locs, parent_length=P)
    if container == "locations_tuple":
        return FeatureMap.from_locations(locations=tuple(locs), parent_length=P)
    if container == "locations_array":
        arr = numpy.array(locs, dtype=int).reshape((-1, 2))
        keep.append(arr)
        return FeatureMap.from_locations(locations=arr, parent_length=P)
    raise ValueError(container)


def fm_snapshot(m):
    """What a FeatureMap denotes right now (entries, parent length, length)."""
    try:
        return [expand_spans(list(m.spans)), int(m.parent_length), len(m)]
    except Exception as ex:
        return [f"raised:{type(ex).__name__}"]


def fm_project(r, act):
    """Real result -> the spec's value {kind, ents, plen} plus an in-parent check."""
    if act == "Nongap":  # returns a tuple of spans on the map's own coordinates
        sp = list(r)
        return {"kind": "val", "ents": expand_spans(sp), "plen": None}, _outside(sp, None)
    sp = list(r.spans)
    val = {"kind": "val", "ents": expand_spans(sp), "plen": int(r.parent_length)}
    bad = _outside(sp, int(r.parent_length))
    if len(r) != len(val["ents"]):
        bad = bad or "len-disagrees-with-spans"
    return val, bad


def _outside(spans, plen):
    for sp in spans:
        if sp.lost:
            if sp.length < 0:
                return "negative-lost-span"
            continue
        if sp.start < 0 or sp.end < sp.start or (plen is not None and sp.end > plen):
            return "outside-parent"
    return None


def fm_call(m, act, args):
    from cogent3.core.location import FeatureMap

    if act == "Denote":
        return m
    if act == "Coords":
        return m.get_coordinates()
    if act == "Covered":
        return m.covered()
    if act == "Inverse":
        return m.inverse()
    if act == "Shadow":
        return m.shadow()
    if act == "NucRev":
        return m.nucleic_reversed()
    if act == "Gaps":
        return m.gaps()
    if act == "Nongap":
        return m.nongap()
    if act == "WithoutGaps":
        return m.without_gaps()
    if act == "Zeroed":
        return m.zeroed()
    if act == "Covering":
        return m.get_covering_span()
    if act == "Scale":
        return m * args[0]
    if act == "Add":
        return m + FeatureMap(spans=real_spans(args[0]), parent_length=int(m.parent_length))
    if act == "Compose":
        return m[FeatureMap(spans=real_spans(args[0]), parent_length=len(m))]
    if act == "Slice":
        return m[args[0] : args[1]]
    if act == "Index":
        return m[args[0]]
    raise ValueError(act)


def fm_class(mdef, act, args):
    spans = mdef["spans"]
    ents = []
    for s, e, r in spans:
        if s != LOST:
            ents.extend(range(s, e))
    tags = []
    if not spans:
        tags.append("empty")
    if any(s != LOST and r for s, e, r in spans):
        tags.append("rev")
    if any(s == LOST for s, e, r in spans):
        tags.append("lost")
    if len(ents) != len(set(ents)):
        tags.append("overlap")
    if act in ("Compose", "Add"):
        a = args[0]
        if any(s != LOST and r for s, e, r in a):
            tags.append("arg-rev")
        if any(s == LOST for s, e, r in a):
            tags.append("arg-lost")
    return "+".join(tags) or "plain"
