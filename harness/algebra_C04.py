"""C04, feature algebra and masking on sequence views: drive the real calls for the Algebra record of Annotation.tla.

Which positions a derived feature covers, what its slice reads, whether
get_slice(complete=True) may succeed and which positions a mask replaces all come from
the spec; this module makes the calls and compares plain values.
"""
from __future__ import annotations

import impl_C04 as I


def algebra_checks(rep, ctx, o, state, look, chain, off_class, view_dir, feat_class):
    alg = look.get("algebra") or []
    if not alg:
        return
    alg = alg[0]
    root, compl = ctx["root"], ctx["compl"]
    obs = {f["name"]: f for f in look["obs"]}
    try:
        got = {g.name: g for g in I.query(o, partial=True)}
    except Exception:
        return  # reported by observe()
    view = str(o)

    def detail(extra):
        return lambda: {
            "kind": ctx["kind"], "mode": ctx["mode"], "root": root, "offset": ctx["off"], "features": ctx["feats"], "via": ctx["via"],
            "chain": chain(), "state": state, "view": view, **extra,
        }

    def key(op, f, what):
        parts = [ctx["kind"], "algebra", op, off_class(state), view_dir(state)]
        if f is not None:
            parts.append(feat_class(f))
        parts.append(what)
        return ":".join(parts)

    def derived(op, f, g, make, want_pos, want_read):
        """a feature derived from g: positions, and its slice read on f's strand"""
        rep.stats["algebra"] += 1
        try:
            d = make(g)
            pos = I.positions(d)
        except Exception as ex:
            rep.add(key(op, f, f"raised-{type(ex).__name__}"), detail({"feature": f["name"], "exception": repr(ex)}), f"{op} raised {ex!r}")
            return None
        if pos != want_pos:
            rep.add(key(op, f, "pos"), detail({"feature": f["name"], "observed_pos": pos, "expected_pos": want_pos}), f"{op} of {f['name']} covers {pos}, expected {want_pos}")
            return d
        if want_read is not None and want_pos:
            want = I.render(root, want_read, f["fcomp"], compl)
            try:
                s = I.slice_str(d)
            except Exception as ex:
                rep.add(key(op, f, f"get_slice-raised-{type(ex).__name__}"), detail({"feature": f["name"], "exception": repr(ex), "expected_slice": want}), f"slice of {op} raised {ex!r}")
                return d
            if s != want:
                rep.add(key(op, f, "str"), detail({"feature": f["name"], "observed_slice": s, "expected_slice": want}), f"slice of {op} of {f['name']} is {s!r}, expected {want!r}")
        return d

    for fa in alg["feat"]:
        f = obs[fa["name"]]
        g = got.get(fa["name"])
        if g is None or not f["pos"]:
            continue
        derived("as_one_span", f, g, lambda g: g.as_one_span(), fa["one"], fa["oneread"])
        derived("shadow", f, g, lambda g: g.shadow(), fa["shadow"], fa["shadowread"])
        w = derived("without_lost_spans", f, g, lambda g: g.without_lost_spans(), f["pos"], f["read"])
        if w is not None and not w.map.complete:
            rep.add(key("without_lost_spans", f, "not-complete"), detail({"feature": f["name"]}), "without_lost_spans() still has lost spans")
        rep.stats["algebra"] += 1
        want = I.render(root, f["read"], f["fcomp"], compl)
        try:
            s = str(g.get_slice(complete=True))
            if not fa["complete"]:
                rep.add(key("get_slice-complete", f, "no-exception"), detail({"feature": f["name"], "observed_slice": s}), "get_slice(complete=True) of a partly retained feature did not fail")
            elif s != want:
                rep.add(key("get_slice-complete", f, "str"), detail({"feature": f["name"], "observed_slice": s, "expected_slice": want}), f"get_slice(complete=True) is {s!r}, expected {want!r}")
        except Exception as ex:
            if fa["complete"]:
                rep.add(key("get_slice-complete", f, f"raised-{type(ex).__name__}"), detail({"feature": f["name"], "exception": repr(ex)}), f"get_slice(complete=True) of a completely retained feature raised {ex!r}")
    names = [fa["name"] for fa in alg["feat"]]
    if all(n in got and obs[n]["pos"] for n in names):
        for first, second in (names, names[::-1]):
            rep.stats["algebra"] += 1
            try:
                pos = I.positions(got[first].union([got[second]]))
            except Exception as ex:
                rep.add(key("union", None, f"raised-{type(ex).__name__}"), detail({"exception": repr(ex)}), f"union raised {ex!r}")
                continue
            if pos != alg["union"]:
                rep.add(key("union", None, "pos"), detail({"observed_pos": pos, "expected_pos": alg["union"], "order": [first, second]}), f"{first}.union([{second}]) covers {pos}, expected {alg['union']}")
    for bios, shadow, masked in alg["masks"]:
        rep.stats["algebra"] += 1
        arg = bios[0] if len(bios) == 1 else sorted(bios, reverse=True)
        want = "".join("?" if k in masked else c for k, c in enumerate(view))
        op = f"mask-{'+'.join(sorted(bios))}-{'shadow' if shadow else 'plain'}"
        try:
            s = str(o.with_masked_annotations(arg, mask_char="?", shadow=bool(shadow)))
        except Exception as ex:
            rep.add(key(op, None, f"raised-{type(ex).__name__}"), detail({"exception": repr(ex), "expected_str": want}), f"with_masked_annotations({arg}, shadow={shadow}) raised {ex!r}")
            continue
        if s != want:
            rep.add(key(op, None, "str"), detail({"observed_str": s, "expected_str": want}), f"with_masked_annotations({arg}, shadow={shadow}) is {s!r}, expected {want!r}")
