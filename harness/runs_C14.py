"""C14 growth (a)/(d): successive apply_to runs on one output store - ComposedAppRuns.tla.

Every transition TLC explores (a history of runs, then one more call) is replayed on a real
composed app `c14_load + c14_g1 + c14_g2 + writer` and a real output store opened in append
mode for every run: resuming (only missing inputs are processed, nothing is duplicated),
the log record of each run (written last, names the composed function and exactly the
records this run wrote), refused argument lists (empty input / a store holding only
not-completed records / identifiers that collide after suffix stripping), inputs given as
paths and data-store members mixed in one call, and as_completed over the same lists.
"""
from __future__ import annotations

import re
import shutil
import tempfile
import traceback
from pathlib import Path

import impl_C14
from graph import Adapter

FAIL_PROFILES = (["ok", "raise", "ok"], ["ok", "ok", "none"], ["nc", "ok", "ok"], ["ok", "wrong", "ok"], ["raise", "ok", "ok"])
OK = ["ok", "ok", "ok"]


class Ctx:
    pass


def warm_up(root, in_dir):
    """scitrack's first log_versions() in a process takes seconds (package metadata): do it once
    in the parent so that forked workers inherit the caches"""
    ad = RunsAdapter("dir", 1, root, in_dir)
    ctx = ad.fresh(0)
    try:
        ad.apply(ctx, "ApplyTo", [[1], ["ok"], 0, True])
    finally:
        ad.cleanup(ctx)


class RunsAdapter(Adapter):
    """kind = 'dir' (write_seqs, DataStoreDirectory; RetryFailed = TRUE in the spec)
    or 'sqlite' (write_db, DataStoreSqlite; RetryFailed = FALSE)"""

    def __init__(self, kind, n, root, in_dir):
        self.kind = kind
        self.n = n
        self.root = str(root)
        self.in_dir = Path(in_dir)
        self.writer = "write_seqs" if kind == "dir" else "write_db"

    # ------------------------------------------------------------------ plumbing
    def fresh(self, variant):
        ctx = Ctx()
        impl_C14.set_names()
        ctx.dir = Path(tempfile.mkdtemp(prefix="c14r-", dir=self.root))
        ctx.nrun = 0
        ctx.calls = 0
        ctx.lastrun = {}  # input index -> run that last wrote its record
        ctx.logs = []  # (run, log unique_id) in the order written
        ctx.anomalies = []
        return ctx

    def cleanup(self, ctx):
        shutil.rmtree(ctx.dir, ignore_errors=True)

    def _inputs(self, ctx, S, dup):
        """paths and data-store members mixed; a colliding item has the same name, another suffix"""
        from cogent3.app.data_store import DataStoreDirectory

        ins = DataStoreDirectory(self.in_dir, suffix="fasta")
        by = {m.unique_id: m for m in ins.completed}
        items = []
        for i in S:
            name = f"{impl_C14.name_of(i)}.fasta"
            items.append(by[name] if (i + ctx.calls) % 2 else str(self.in_dir / name))
            if i == dup:
                items.append(str(self.in_dir / "alt" / f"{impl_C14.name_of(i)}.fasta"))
        return items

    def _empty_input(self, ctx):
        """nothing to apply to: an empty list, or a data store holding only not-completed records"""
        from cogent3.app.data_store import DataStoreDirectory

        if ctx.calls % 2:
            return []
        d = ctx.dir / f"only-nc-{ctx.calls}"
        ds = DataStoreDirectory(d, mode="w", suffix="fasta")
        ds.write_not_completed(unique_id="t1.json", data="{}")
        return DataStoreDirectory(d, mode="r", suffix="fasta")

    def _plan(self, ctx, o):
        plan = []
        for i, out in enumerate(o, start=1):
            plan.append(list(FAIL_PROFILES[(i + ctx.calls) % len(FAIL_PROFILES)]) if out == "fail" else list(OK))
        return plan

    # ------------------------------------------------------------------- actions
    def apply(self, ctx, act, args):
        ctx.calls += 1
        try:
            if act == "ApplyTo":
                return self._apply_to(ctx, *args)
            if act == "AsCompleted":
                return self._as_completed(ctx, *args)
            raise ValueError(act)
        except Exception:
            ctx.last_exc = traceback.format_exc()[-1500:]
            raise

    def _apply_to(self, ctx, S, o, dup, lg):
        job = {"n": self.n, "plan": self._plan(ctx, o), "w": 0, "writer": self.writer, "family": "seqs", "step2": "fn" if ctx.calls % 2 else None}
        ods = impl_C14.open_store(self.writer, ctx.dir, "a")
        tap = impl_C14.Tap(ods, self.writer)
        logged = []
        orig_log = ods.write_log

        def write_log(*, unique_id, data):
            out = orig_log(unique_id=unique_id, data=data)
            logged.append((len(tap.events), str(unique_id), data))
            return out

        ods.write_log = write_log
        app = impl_C14.build_app(job, ods, None)
        job.pop("_ctor_args", None)
        inputs = self._inputs(ctx, S, dup) if S else self._empty_input(ctx)
        status = "ok"
        try:
            try:
                ret = app.apply_to(inputs, logger=None if lg else False, cleanup=True)
                if ret is not ods:
                    ctx.anomalies.append("apply_to-does-not-return-store")
            except ValueError as ex:
                status = "ValueError"
                ctx.last_exc = repr(ex)
            except Exception as ex:  # noqa
                status = f"raised:{type(ex).__name__}"
                ctx.last_exc = traceback.format_exc()[-1500:]
        finally:
            impl_C14.close_store(ods)
        if status == "ok":
            ctx.nrun += 1
        seen = set()
        for ev in tap.events:
            i = ev[2]
            if i in seen:
                ctx.anomalies.append("record-written-twice-in-one-run")
            seen.add(i)
            ctx.lastrun[i] = ctx.nrun
        if lg and status == "ok":
            if len(logged) != 1:
                ctx.anomalies.append(f"{len(logged)}-log-records-in-one-run")
            for at, uid, data in logged:
                if at != len(tap.events):
                    ctx.anomalies.append("log-written-before-a-data-record")
                ctx.logs.append((ctx.nrun, uid))
        elif logged:
            ctx.anomalies.append("log-written-by-an-unlogged-or-refused-run")
        # nothing may be left behind beside the store
        stray = [p.name for p in ctx.dir.iterdir() if p.suffix == ".log"]
        if stray:
            ctx.anomalies.append("log-file-left-beside-the-store")
        return {"status": status, "results": []}

    def _as_completed(self, ctx, S, o):
        job = {"n": self.n, "plan": self._plan(ctx, o), "family": "seqs", "step2": None, "inputs": "mixed"}
        app = impl_C14.make_steps(job)
        inputs = self._inputs(ctx, S, 0)
        from cogent3.app.composable import NotCompleted
        from cogent3.app.data_store import get_unique_id

        out = []
        try:
            for r in app.as_completed(inputs, show_progress=False):
                src = impl_C14.index_of_name(get_unique_id(r.source))
                obj = getattr(r, "obj", r)
                out.append({"src": src, "kind": "failed" if isinstance(obj, NotCompleted) else "completed"})
        except Exception as ex:  # noqa
            ctx.last_exc = traceback.format_exc()[-1500:]
            return {"status": f"raised:{type(ex).__name__}", "results": out}
        return {"status": "ok", "results": out}

    # ---------------------------------------------------------------- projection
    def project(self, ctx):
        anomalies = list(ctx.anomalies)
        store = [{"kind": "none", "run": 0} for _ in range(self.n)]
        logs = []
        if (ctx.dir / "out").exists() or (ctx.dir / "out.sqlitedb").exists():
            ro = impl_C14.open_store(self.writer, ctx.dir, "r")
            try:
                written, an = impl_C14.project_store(ro, self.writer, self.n, "disk")
                anomalies += an
                for i, rec in enumerate(written, start=1):
                    if rec["kind"] != "none":
                        kind = "completed" if rec["kind"] == "completed" else "failed"
                        if rec.get("src") not in (i, 0):
                            anomalies.append("record-of-another-input")
                        store[i - 1] = {"kind": kind, "run": ctx.lastrun.get(i, -1)}
                by = {str(m.unique_id): m for m in ro.logs}
                if len(by) != len(ctx.logs):
                    anomalies.append("number-of-log-records-differs-from-logged-runs")
                for run, uid in ctx.logs:
                    m = by.get(f"logs/{uid}") or by.get(uid)
                    if m is None:
                        anomalies.append("log-record-missing")
                        continue
                    logs.append({"run": run, "outputs": self._log_outputs(m.read(), anomalies)})
            finally:
                impl_C14.close_store(ro)
        state = {"store": store, "logs": logs, "nrun": ctx.nrun}
        if anomalies:
            state["anomalies"] = sorted(set(anomalies))
        return state

    def _log_outputs(self, text, anomalies):
        """the records a log names, in order; the log must name the composed function once"""
        if isinstance(text, bytes):
            text = text.decode("utf8")
        # the function's repr is wrapped over several lines
        fun = [l for l in text.splitlines() if "\tcomposable function : " in l]
        if len(fun) != 1 or not all(f"{name}(" in text for name in ("c14_load", "c14_g2", self.writer)):
            anomalies.append("log-does-not-name-the-composed-function-once")
        outs, md5s = [], 0
        for l in text.splitlines():
            m = re.search(r"\toutput : (\S+)", l)
            if m:
                uid = m.group(1)
                i = impl_C14.member_index(self.kind, uid, "not_completed" in uid, "fasta") if self.kind == "dir" else impl_C14.index_of_name(uid)
                outs.append(i)
            elif "\toutput md5sum : " in l:
                md5s += 1
        if md5s != len(outs):
            anomalies.append("log-md5-lines-differ-from-output-lines")
        return outs

    def ret_matches(self, spec_ret, real_ret):
        return spec_ret == real_ret

    def finding_key(self, status, detail):
        act, args = detail["label"]
        f = detail["from"]
        pre = "fresh" if f["nrun"] == 0 else "resumed"
        if status != "mismatch":
            return f"runs:{self.kind}:{act}:{pre}:{status}"
        obs = detail["observed"]
        best = None
        for a in detail["allowed"]:
            d = set()
            if a["ret"] != obs["ret"]:
                d.add(f"ret={obs['ret'].get('status') if isinstance(obs['ret'], dict) else obs['ret']}" + ("" if a["ret"]["results"] == (obs["ret"] or {}).get("results") else "+results"))
            for i, (x, y) in enumerate(zip(a["to"]["store"], obs["state"]["store"])):
                if x != y:
                    was = f["store"][i]["kind"]
                    d.add(f"store[{was}->{x['kind']}]=" + (y["kind"] if x["kind"] != y["kind"] else "run"))
            if a["to"]["logs"] != obs["state"]["logs"]:
                d.add("logs")
            if a["to"]["nrun"] != obs["state"]["nrun"]:
                d.add("nrun")
            for an in obs["state"].get("anomalies", []):
                d.add(an)
            if best is None or len(d) < len(best):
                best = d
        return f"runs:{self.kind}:{act}:{pre}:" + ",".join(sorted(best or {"?"}))
