#!/venv/bin/python
"""Regenerates the generated part of DESIGN.md (between the GENERATED markers): per-property status,
known findings, repaired defects, checker self-test mutants and seeded changes with which checks catch them."""
from __future__ import annotations

import json
import re
from pathlib import Path

VERIF = Path(__file__).resolve().parent.parent
BEGIN = "<!-- GENERATED:BEGIN (harness/design_tables.py) -->"
END = "<!-- GENERATED:END -->"


def findings():
    known, fixed = [], []
    files = [VERIF / "known_findings.txt"] + sorted((VERIF / "known_findings.d").glob("*.txt"))
    for f in files:
        for line in f.read_text().splitlines():
            m = re.match(r"known:\s+property=(\S+)\s+key=(\S+)\s*(.*)", line.strip())
            if m:
                known.append(m.groups())
            m = re.match(r"fixed:\s+property=(\S+)\s+(\S+)\s*(.*)", line.strip())
            if m:
                fixed.append(m.groups())
    return known, fixed


def main():
    man = json.loads((VERIF / "MANIFEST.json").read_text())
    claimed = {c["property_id"]: c for c in man["checks"]}
    props = [json.loads(l) for l in (VERIF / "properties.jsonl").read_text().splitlines()]
    known, fixed = findings()
    out = [BEGIN, "", "### 7.1 Status per property", "", "| id | claimed | quick evidence (states / transitions / real-code cases) | known-finding keys | repaired defects | self-test mutants | seeded changes (detected/confirmed) |", "|---|---|---|---|---|---|---|"]
    seeded = {}
    for d in sorted((VERIF / "seeded").glob("*/meta.json")):
        try:
            m = json.loads(d.read_text())
        except Exception:
            continue
        seeded.setdefault(m.get("property", d.parent.name.split("-")[0]), []).append((d.parent.name, m))
    for p in props:
        pid = p["id"]
        ev = VERIF / "evidence" / f"{pid}.json"
        evs = "-"
        if ev.exists():
            try:
                e = json.loads(ev.read_text())
                c = e["coverage"]
                evs = f"{c.get('states', 0)} / {c.get('transitions', 0)} / {c.get('traces_validated_against_impl', 0)} ({e['tier']})"
            except Exception:
                pass
        nk = sum(1 for k in known if k[0] == pid)
        nf = sum(1 for k in fixed if k[0] == pid)
        nm = len(list((VERIF / "mutants").glob(f"{pid}_*.diff")))
        sd = seeded.get(pid, [])
        conf = [s for s in sd if s[1].get("confirmed")]
        det = [s for s in conf if any(s[1].get("detected_by_checks", {}).values())]
        out.append(f"| {pid} | {'yes' if pid in claimed else 'no'} | {evs} | {nk} | {nf} | {nm} | {len(det)}/{len(conf)} |")
    out += ["", "### 7.2 Repaired defects (`fix:` commits in /repo)", "", "| property | commit | what failed |", "|---|---|---|"]
    for pid, sha, what in fixed:
        out.append(f"| {pid} | `{sha}` | {what} |")
    out += ["", "### 7.3 Known findings (genuine defects recorded, not repaired)", "", "| property | structural key | what fails |", "|---|---|---|"]
    for pid, key, what in known:
        out.append(f"| {pid} | `{key}` | {what[:400]} |")
    out += ["", "### 7.4 Seeded property-breaking changes (written by independent sub-agents from the property text only)", "", "| seed | breaks | needs | confirmed (applies, demo fails with / passes without, repo tests pass) | detected by |", "|---|---|---|---|---|"]
    for pid in sorted(seeded):
        for name, m in seeded[pid]:
            det = ", ".join(f"{c}:{'yes' if v else 'NO'}" for c, v in m.get("detected_by_checks", {}).items()) or "-"
            out.append(f"| {name} | {pid}: {str(m.get('summary', ''))[:160]} | {str(m.get('needs', ''))[:200]} | {'yes' if m.get('confirmed') else 'no'} | {det} |")
    out += ["", END]
    text = (VERIF / "DESIGN.md").read_text()
    block = "\n".join(out)
    if BEGIN in text:
        text = text[: text.index(BEGIN)] + block + text[text.index(END) + len(END) :]
    else:
        text = text.rstrip() + "\n\n## 7. Build status (generated)\n\n" + block + "\n"
    (VERIF / "DESIGN.md").write_text(text)


if __name__ == "__main__":
    main()
