"""C19 test app (no `from __future__ import annotations`: cogent3 apps need real type hints)."""
from pathlib import Path

from cogent3.app import typing as c3t
from cogent3.app.composable import NotCompleted, define_app


@define_app
class c19_tag:
    """records every invocation; returns NotCompleted for the configured inputs"""

    def __init__(self, fail_ids=(), callsfile=""):
        self.fail_ids = tuple(fail_ids)
        self.callsfile = callsfile

    def main(self, aln: c3t.AlignedSeqsType) -> c3t.AlignedSeqsType:
        name = Path(str(aln.info.source)).name.split(".")[0]
        with open(self.callsfile, "a") as fh:
            fh.write(name + "\n")
        if name in self.fail_ids:
            return NotCompleted("FAIL", self, f"input {name} cannot be processed", source=aln)
        return aln


@define_app
class c19_tag_ser:
    """the same app typed for write_db (serialisable output)"""

    def __init__(self, fail_ids=(), callsfile=""):
        self.fail_ids = tuple(fail_ids)
        self.callsfile = callsfile

    def main(self, aln: c3t.AlignedSeqsType) -> c3t.SerialisableType:
        name = Path(str(aln.info.source)).name.split(".")[0]
        with open(self.callsfile, "a") as fh:
            fh.write(name + "\n")
        if name in self.fail_ids:
            return NotCompleted("FAIL", self, f"input {name} cannot be processed", source=aln)
        return aln


# id_from_source functions for the option dimension of the resume clause (module level: apps record their arguments)
APPLY_PREFIX = "batch7-"
WRITER_PREFIX = "w-"


def custom_apply_id(source):
    """a caller supplied id_from_source for apply_to"""
    from cogent3.app.data_store import get_unique_id

    return APPLY_PREFIX + get_unique_id(source)


def custom_writer_id(source):
    """a different id_from_source given to the writer's constructor"""
    from cogent3.app.data_store import get_unique_id

    return WRITER_PREFIX + get_unique_id(source)
