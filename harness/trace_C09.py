"""C09 code -> spec: record real tree transformations on larger random trees and let
TreeOpsTrace.tla judge them.

A seeded driver builds random bi-/multifurcating trees (more tips than the exhaustive model,
branch lengths k/8), applies random compositions of the public transformations, and logs for
each call the receiver before, the result, and the receiver after, as Trees.tla records
(lengths in 1/64 units so that repeated midpoint rooting stays integral).  TLC evaluates the
property on every event (TreeOpsTrace.Fails) and the precondition class; this module only
turns a non-empty verdict into a report.
"""
from __future__ import annotations

import json
import random

import bind_C09 as B
from tlc import read_emitted, run_tlc

UNIT = 64
OPS = ["NewickRT", "NewickNamesRT", "JsonRT", "Copy", "DeepCopy", "Sorted", "RootedAt", "RootedWithTip",
       "Unrooted", "SubTree", "RootAtMidpoint", "Prune", "Bifurcating", "RootedAt", "RootedWithTip", "SubTree"]


class TraceCtx(B.Ctx):
    def __init__(self, names):
        self.variant = "plain"
        self.fwd = {n: n for n in names}
        self.inv = dict(self.fwd)
        self.tree = None
        self.twin = None
        self.unit = None


class NonIntegral(Exception):
    pass


def _units(st):
    """Trees.tla record with lengths in 1/UNIT (bind_C09.struct gives doubled real lengths)."""
    ln = {}
    for k, v in st["ln"].items():
        if v == "None":
            raise NonIntegral(k)
        x = v * UNIT / 2
        if x != int(x):
            raise NonIntegral(k)
        ln[k] = int(x)
    if any(k.startswith("?") or "#dup" in k for k in st["par"]):
        raise NonIntegral("unnamed")
    return {"par": st["par"], "ln": ln}


def random_newick(rnd, ntips):
    items = [f"t{i + 1}" for i in range(ntips)]
    rnd.shuffle(items)
    items = [f"{t}:{rnd.randint(1, 40) / 8}" for t in items]
    k = 0
    names = [f"t{i + 1}" for i in range(ntips)]
    top = rnd.choice([2, 2, 3, 3, 4])
    while len(items) > top:
        size = min(rnd.choice([2, 2, 2, 3, 4]), len(items) - 1)
        picked = [items.pop(rnd.randrange(len(items))) for _ in range(size)]
        k += 1
        names.append(f"i{k}")
        items.append(f"({','.join(picked)})i{k}:{rnd.randint(1, 40) / 8}")
    return f"({','.join(items)});", names


def record(seed, ntraces, tips_range, max_len):
    rnd = random.Random(seed * 7919 + 17)
    events, meta = [], []
    skipped = 0
    for tr in range(ntraces):
        nwk, names = random_newick(rnd, rnd.randint(*tips_range))
        ctx = TraceCtx(names)
        ctx.tree = B.make(ctx, nwk)
        hist = [["Make", [nwk]]]
        for _ in range(rnd.randint(2, max_len)):
            t = ctx.tree
            act = rnd.choice(OPS)
            tips = t.get_tip_names()
            real_name = None
            if act == "RootedAt":
                # (real name, spec name) of the internal nodes that can be named in a call
                inner = []
                for n in t.traverse():
                    if not n.children:
                        continue
                    if n is t:
                        inner.append((n.name, B.ROOT))
                    elif n.name in ctx.inv:
                        inner.append((n.name, n.name))
                    elif n.name is not None:
                        inner.append((n.name, B.NEW))
                if sum(1 for _, sn in inner if sn == B.NEW) > 1:
                    inner = [(rn, sn) for rn, sn in inner if sn != B.NEW]
                real_name, spec_name = rnd.choice(inner)
                args = [spec_name]
            elif act == "RootedWithTip":
                args = [rnd.choice(tips)]
            elif act == "SubTree":
                if len(tips) <= 4:
                    continue
                args = [sorted(rnd.sample(tips, rnd.randint(3, len(tips) - 1))), rnd.random() < 0.5]
            else:
                args = []
            try:
                pre = _units(B.struct(ctx, t))
                res = t.rooted_at(real_name) if act == "RootedAt" else B.call(ctx, act, args)
                post = _units(B.struct(ctx, res))
                recv = _units(B.struct(ctx, t))
            except NonIntegral:
                skipped += 1
                break
            spec_args = list(args)
            events.append({"op": act, "args": spec_args, "pre": pre, "post": post, "recv": recv})
            meta.append({"history": list(hist), "call": [act, args]})
            hist.append([act, args])
            if act not in B.OBSERVE_ONLY:
                ctx.tree = res
    return events, meta, skipped


def validate(run, scratch):
    quick = run.tier == "quick"
    events, meta, skipped = record(run.seed, 40 if quick else 700, (6, 9) if quick else (7, 12), 4 if quick else 5)
    # binding self-test: two corrupted copies of good events must be rejected by the spec
    nreal = len(events)
    selftest = []
    for ev in events:
        if ev["op"] in ("Copy", "DeepCopy", "NewickRT") and not selftest:
            bad = json.loads(json.dumps(ev))
            e0 = sorted(bad["post"]["ln"])[0]
            bad["post"]["ln"][e0] += 1          # one branch length of the result is off by 1/64
            selftest.append((bad, "dist"))
        if ev["op"] == "RootedWithTip" and len(selftest) == 1:
            bad = json.loads(json.dumps(ev))
            e0 = sorted(bad["recv"]["ln"])[0]
            bad["recv"]["ln"][e0] += 1          # the receiver changed
            selftest.append((bad, "receiver-modified"))
    events = events + [b for b, _ in selftest]
    tf = scratch / "trace_events.json"
    tf.write_text(json.dumps(events))
    emit = scratch / "trace_verdicts.ndjson"
    res = run_tlc("TreeOpsTrace", "MC_TreeOps_trace.cfg", scratch, workers=16, env={"TRACE_FILE": tf, "EMIT_FILE": emit}, timeout=900)
    run.add_tlc(res)
    verdicts = {v["i"]: v for v in read_emitted(emit)}
    if len(verdicts) != len(events):
        raise RuntimeError(f"TreeOpsTrace judged {len(verdicts)} of {len(events)} events")
    for j, (_, must) in enumerate(selftest):
        if must not in verdicts[nreal + 1 + j]["fails"]:
            raise RuntimeError(f"TreeOpsTrace accepted a corrupted event (expected {must}): binding self-test failed")
    if len(selftest) < 2 and not quick:
        raise RuntimeError("trace self-test events missing")
    events = events[:nreal]
    rejected = 0
    per_op = {}
    for k, ev in enumerate(events, start=1):
        v = verdicts[k]
        per_op[ev["op"]] = per_op.get(ev["op"], 0) + 1
        fails = sorted(v["fails"])
        if not fails:
            continue
        rejected += 1
        obs_f = [f for f in fails if f != "receiver-modified"]
        for kind in ([",".join(obs_f)] if obs_f else []) + (["receiver-modified"] if "receiver-modified" in fails else []):
            run.fail(
                f"{ev['op']}:{v['cls']}:{kind}",
                {"source": "recorded execution (trace_C09)", **meta[k - 1], "event": ev, "verdict": v},
                what=f"recorded {ev['op']} is not allowed by Trees.tla: {kind}",
            )
    if events:
        run.sample({"recorded": meta[0], "event": {k: events[0][k] for k in ("op", "args")}, "verdict": verdicts[1]})
    st = {"events": len(events), "rejected": rejected, "selftest_corrupted_events_rejected": len(selftest), "chains_cut_nonintegral": skipped, "per_op": per_op,
          "tlc_wall_s": round(res.wall, 1)}
    run.note("trace_validation", st)
    run.cov["traces_validated_against_impl"] += len(events)
    run.cov["evaluations"] += len(events)
    run.cov["distinct_nontrivial"] += len(events)
    if not events:
        raise RuntimeError("trace_C09 recorded nothing (vacuous)")
    return st
